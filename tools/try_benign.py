import glob
#!/usr/bin/env python3
"""
tools/try_benign.py <PID> <dir-with-b1..b3> [--also=C05,C13]

Runs our check on an independently written HARMLESS refactoring (patch.diff + meta.json): scratch worktree of /repo HEAD,
apply, `VERIF_REPO=<worktree> ./check PID --tier quick`; the expected result is exit 0.  An alarm here is either
  * a broken tie (a proof obligation / translation / correspondence that was written against the old shape of the code):
    reported, as the brief demands, as a violation ending in no-failing-input-found, or
  * a false alarm of an oracle (a "failing input" on code where the property holds): a defect of OUR machinery.
Everything is recorded in /verif/benign/<PID>-b<k>/.
"""
import json
import os
import shutil
import subprocess
import sys
import time

V = os.path.dirname(os.path.dirname(os.path.abspath(__file__)))


def sh(cmd, cwd=None, env=None, timeout=1800):
    e = dict(os.environ)
    if env:
        e.update(env)
    p = subprocess.run(cmd, cwd=cwd, env=e, stdout=subprocess.PIPE, stderr=subprocess.STDOUT, text=True, timeout=timeout)
    return p.returncode, "\n".join(l for l in p.stdout.splitlines() if "conda.cli" not in l)


def main():
    pid, src = sys.argv[1], sys.argv[2]
    also = next((a.split("=", 1)[1].split(",") for a in sys.argv if a.startswith("--also=")), [])
    base = "/tmp/trybenign"
    os.makedirs(base, exist_ok=True)
    for k in sorted(os.listdir(src)):
        d = os.path.join(src, k)
        patch = os.path.join(d, "patch.diff")
        if not os.path.isfile(patch):
            continue
        wt = os.path.join(base, "wt-%s-%s" % (pid, k))
        sh(["git", "-C", "/repo", "worktree", "remove", "--force", wt])
        sh(["git", "-C", "/repo", "worktree", "add", "--detach", wt, "HEAD"])
        rec = {"property": pid, "id": "%s-%s" % (pid, k), "at_repo_commit": sh(["git", "-C", "/repo", "rev-parse", "--short", "HEAD"])[1].strip()}
        try:
            rec["their_meta"] = json.load(open(os.path.join(d, "meta.json")))
        except Exception:
            rec["their_meta"] = {}
        try:
            rc, out = sh(["git", "apply", patch], cwd=wt)
            if rc != 0:
                rec["status"] = "patch-does-not-apply"
                print(pid, k, "patch does not apply")
                save(pid, k, d, rec)
                continue
            rec["checks"] = {}
            for p in [pid] + also:
                t0 = time.time()
                rc, out = sh([os.path.join(V, "check"), p, "--tier", "quick"], cwd=V, env={"VERIF_REPO": wt}, timeout=1800)
                lines = [l for l in out.splitlines() if l.startswith("VIOLATION") or l.startswith("  ") or l.startswith("KNOWN")]
                rec["checks"][p] = {"rc": rc, "s": round(time.time() - t0), "output": lines[:6],
                                    "alarm": rc != 0,
                                    "claims_failing_input": rc == 1 and any(l.startswith("VIOLATION") and "no-failing-input-found" not in l for l in lines)}
                print(pid, k, p, "quiet" if rc == 0 else ("FALSE FAILING INPUT" if rec["checks"][p]["claims_failing_input"] else "tie broken"),
                      "|", (lines[1] if len(lines) > 1 else (lines[0] if lines else ""))[:220])
                sh(["git", "checkout", "--"] + sorted(glob.glob(os.path.join(V, "lean/PyroModel/Gen/%s*.lean" % p))), cwd=V)
            rec["status"] = "ran"
            save(pid, k, d, rec)
        finally:
            sh(["git", "-C", "/repo", "worktree", "remove", "--force", wt])


def save(pid, k, d, rec):
    out = os.path.join(V, "benign", "%s-%s" % (pid, k))
    os.makedirs(out, exist_ok=True)
    if os.path.exists(os.path.join(d, "patch.diff")):
        shutil.copy(os.path.join(d, "patch.diff"), os.path.join(out, "patch.diff"))
    json.dump(rec, open(os.path.join(out, "meta.json"), "w"), indent=1)


main()
