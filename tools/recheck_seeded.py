#!/usr/bin/env python3
"""
tools/recheck_seeded.py PID [PID ...]

Re-runs the CURRENT check of each property on every kept seeded defect of that property (one run per distinct patch:
re-trials of the same patch under other tags are folded), from the records in /verif/seeded/<ID>-<tag>m<k>/ themselves
(patch.diff), in a scratch worktree of /repo HEAD (VERIF_REPO).  Writes the result into each record's meta.json under
"final": {at_repo_commit, at_verif_commit, rc, detected, with_failing_input, output, seconds}.
"""
import glob
import hashlib
import json
import os
import subprocess
import sys
import time

V = os.path.dirname(os.path.dirname(os.path.abspath(__file__)))


def sh(cmd, cwd=None, env=None, timeout=2400):
    e = dict(os.environ)
    if env:
        e.update(env)
    p = subprocess.run(cmd, cwd=cwd, env=e, stdout=subprocess.PIPE, stderr=subprocess.STDOUT, text=True, timeout=timeout)
    return p.returncode, "\n".join(l for l in p.stdout.splitlines() if "conda" not in l)


def main():
    repo_commit = sh(["git", "-C", "/repo", "rev-parse", "--short", "HEAD"])[1].strip()
    verif_commit = sh(["git", "-C", V, "rev-parse", "--short", "HEAD"])[1].strip()
    for pid in sys.argv[1:]:
        seen = {}
        for d in sorted(glob.glob(os.path.join(V, "seeded", pid + "-" + os.environ.get("RECHECK_ONLY", "") + "*"))):   # RECHECK_ONLY=r5: only that round
            mp, pp = os.path.join(d, "meta.json"), os.path.join(d, "patch.diff")
            if not (os.path.isfile(mp) and os.path.isfile(pp)):
                continue
            meta = json.load(open(mp))
            if meta.get("status") != "confirmed":
                continue
            h = hashlib.sha1(open(pp, "rb").read()).hexdigest()
            if h in seen:
                meta["final"] = dict(seen[h], same_patch_as=os.path.basename(seen[h]["dir"]))
                json.dump(meta, open(mp, "w"), indent=1)
                continue
            wt = "/tmp/recheck/wt-%s" % os.path.basename(d)
            os.makedirs("/tmp/recheck", exist_ok=True)
            sh(["git", "-C", "/repo", "worktree", "remove", "--force", wt])
            sh(["git", "-C", "/repo", "worktree", "add", "--detach", wt, "HEAD"])
            try:
                rc, out = sh(["git", "apply", pp], cwd=wt)
                if rc != 0:
                    fin = {"dir": d, "at_repo_commit": repo_commit, "applies": False}
                    print(os.path.basename(d), "patch no longer applies to HEAD")
                else:
                    t0 = time.time()
                    try:
                        rc, out = sh([os.path.join(V, "check"), pid, "--tier", "quick"], cwd=V, env={"VERIF_REPO": wt})
                    except subprocess.TimeoutExpired:
                        rc, out = 2, "timeout"
                    lines = [l for l in out.splitlines() if l.startswith("VIOLATION") or l.startswith("  ") or l.startswith("KNOWN")]
                    det = rc == 1 and any(l.startswith("VIOLATION") for l in lines)
                    fin = {"dir": d, "at_repo_commit": repo_commit, "at_verif_commit": verif_commit, "applies": True, "rc": rc,
                           "detected": det, "with_failing_input": det and not any("no-failing-input-found" in l for l in lines),
                           "output": [l for l in lines if not l.startswith("KNOWN")][:4], "seconds": round(time.time() - t0)}
                    print(os.path.basename(d), "DETECTED" if det else "MISSED", "input" if fin["with_failing_input"] else "-",
                          (fin["output"][1] if len(fin["output"]) > 1 else "")[:150], flush=True)
                seen[h] = fin
                meta["final"] = fin
                json.dump(meta, open(mp, "w"), indent=1)
            finally:
                sh(["git", "-C", "/repo", "worktree", "remove", "--force", wt])
        sh(["git", "checkout", "--"] + sorted(glob.glob(os.path.join(V, "lean/PyroModel/Gen/%s*.lean" % pid))), cwd=V)


main()
