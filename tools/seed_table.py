#!/usr/bin/env python3
"""prints the markdown table of independently seeded defects and what the checks did with them (from seeded/*/meta.json);
re-runs of the same patch (after a check was strengthened) are folded into one row showing the final result"""
import json, glob, os, hashlib
V = os.path.dirname(os.path.dirname(os.path.abspath(__file__)))
groups = {}
for f in sorted(glob.glob(os.path.join(V, "seeded", "*", "meta.json"))):
    d = json.load(open(f))
    sid = os.path.basename(os.path.dirname(f))
    pf = os.path.join(os.path.dirname(f), "patch.diff")
    h = hashlib.sha1(open(pf, "rb").read()).hexdigest() if os.path.exists(pf) else sid
    groups.setdefault((d.get("property"), h), []).append((os.path.getmtime(f), sid, d))
rows = []
stats = {"kept": 0, "input": 0, "broken": 0, "missed": 0, "late": 0, "other": 0}
for (pid, h), runs in sorted(groups.items(), key=lambda kv: sorted(kv[1])[0][1]):
    runs.sort()
    first_sid = runs[0][1]
    t, sid, d = runs[-1]
    m = d.get("their_meta", {})
    summ = (m.get("summary") or "").replace("\n", " ").replace("|", "/")
    needs = (m.get("needs") or "").replace("\n", " ").replace("|", "/")
    st = d.get("status")
    confirmed = [r for r in runs if r[2].get("status") == "confirmed"]
    if not confirmed:
        res = "not kept: " + str(st)
        stats["other"] += 1
    else:
        d = confirmed[-1][2]
        stats["kept"] += 1
        earlier_miss = any(not r[2].get("detected") for r in confirmed[:-1])
        # the last word is the re-check of every kept patch with the final checks (tools/recheck_seeded.py)
        fins = [r[2]["final"] for r in confirmed if r[2].get("final")]
        if fins:
            fin = fins[-1]
            if fin.get("applies") is False:
                res = "caught when it was seeded (%s); the patch no longer applies to the current source" % (
                    "failing input" if d.get("with_failing_input") else "broken tie") if d.get("detected") else "missed when seeded; no longer applies"
                stats["input" if d.get("with_failing_input") else ("broken" if d.get("detected") else "missed")] += 1
                rows.append("| %s | %s | %s | %s | %s |" % (first_sid, summ[:160], needs[:140], res, ""))
                continue
            earlier_miss = earlier_miss or (not d.get("detected") and fin.get("detected")) or any(not r[2].get("detected") for r in confirmed)
            d = dict(d, detected=fin.get("detected"), with_failing_input=fin.get("with_failing_input"), check_output=fin.get("output"))
            earlier_miss = earlier_miss and d["detected"]
        if d.get("detected"):
            if d.get("with_failing_input"):
                res = "caught, failing input replayed"; stats["input"] += 1
            else:
                res = "caught (proof obligation / correspondence broken; no-failing-input-found)"; stats["broken"] += 1
            if earlier_miss:
                res += " — first missed, caught after the check was strengthened"; stats["late"] += 1
        else:
            res = "**missed by this property's check**"; stats["missed"] += 1
    out = (d.get("check_output") or [""])
    line = next((l.strip() for l in out if l.startswith("  ")), "")[:130].replace("|", "/")
    rows.append("| %s | %s | %s | %s | %s |" % (first_sid, summ[:160], needs[:140], res, line))
print("Totals: %(kept)d changes kept; %(input)d caught with a replayable failing input, %(broken)d caught through a broken obligation / "
      "correspondence only, %(missed)d missed by their own property's check; %(late)d of the caught ones were first missed and led to a "
      "stronger check; %(other)d not kept (patch/demo/suite not confirmed).\n" % stats)
print("| id | change | needs | final result of `./check` | first line of the report |")
print("|---|---|---|---|---|")
print("\n".join(rows))
