#!/usr/bin/env python3
"""prints the markdown table of independently seeded defects and what the checks did with them (from seeded/*/meta.json)"""
import json, glob, os
V = os.path.dirname(os.path.dirname(os.path.abspath(__file__)))
rows = []
for f in sorted(glob.glob(os.path.join(V, "seeded", "*", "meta.json"))):
    d = json.load(open(f))
    sid = os.path.basename(os.path.dirname(f))
    m = d.get("their_meta", {})
    summ = (m.get("summary") or "").replace("\n", " ").replace("|", "/")
    needs = (m.get("needs") or "").replace("\n", " ").replace("|", "/")
    st = d.get("status")
    if st != "confirmed":
        res = "not kept: " + st
    elif d.get("detected"):
        res = "caught, failing input replayed" if d.get("with_failing_input") else "caught (proof obligation / correspondence broken; no-failing-input-found)"
    else:
        res = "**missed**"
    out = (d.get("check_output") or [""])
    line = next((l.strip() for l in out if l.startswith("  ")), "")[:140].replace("|", "/")
    rows.append("| %s | %s | %s | %s | %s |" % (sid, summ[:170], needs[:150], res, line))
print("| id | change | needs | result of `./check` | first line of the report |")
print("|---|---|---|---|---|")
print("\n".join(rows))
