#!/bin/sh
# run every claimed check once (quick tier) against /repo and report; used to refresh evidence/ before committing
cd "$(dirname "$0")/.." || exit 2
ids=$(/venv/bin/python -c "import json;print(' '.join(c['property_id'] for c in json.load(open('MANIFEST.json'))['checks']))")
for id in $ids; do
  s=$(date +%s)
  out=$(VERIF_SEED=${VERIF_SEED:-0} ./check "$id" --tier "${1:-quick}" 2>&1 | grep -v conda.cli | grep -v '^KNOWN-FINDING' | head -3)
  rc=$?
  e=$(date +%s)
  echo "$id $((e-s))s $(echo "$out" | head -1 | cut -c1-150)"
done
