#!/usr/bin/env python3
"""markdown table of the harmless-refactoring trials (benign/*/meta.json): first result and result with the final checks"""
import glob, json, os
V = os.path.dirname(os.path.dirname(os.path.abspath(__file__)))
rows, tot = [], {"patches": 0, "runs": 0, "quiet_first": 0, "quiet_final": 0, "tie_final": 0, "false_input": 0}
for f in sorted(glob.glob(os.path.join(V, "benign", "*", "meta.json"))):
    m = json.load(open(f))
    bid = os.path.basename(os.path.dirname(f))
    tot["patches"] += 1
    summ = ((m.get("their_meta") or {}).get("summary") or "").replace("\n", " ").replace("|", "/")[:170]
    first, final = m.get("checks") or {}, m.get("final") or {}
    cells = []
    for p in sorted(set(first) | {k for k in final if not k.startswith("_")}):
        a, b = first.get(p), final.get(p)
        tot["runs"] += 1
        fa = "-" if a is None else ("quiet" if a["rc"] == 0 else ("FALSE INPUT" if a.get("claims_failing_input") else "tie"))
        fb = "-" if b is None else ("quiet" if b["rc"] == 0 else ("FALSE INPUT" if b.get("claims_failing_input") else "tie"))
        tot["quiet_first"] += fa == "quiet"
        last = fb if b is not None else fa
        tot["quiet_final"] += last == "quiet"
        tot["tie_final"] += last == "tie"
        tot["false_input"] += "FALSE" in last
        why = ""
        if last == "tie":
            o = (b or a)["output"]
            why = " (" + (o[1] if len(o) > 1 else o[0] if o else "").replace("no longer checks:", "").strip()[:90].replace("|", "/") + ")"
        cells.append("%s: %s → %s%s" % (p, fa, fb, why))
    rows.append("| %s | %s | %s |" % (bid, summ, "; ".join(cells)))
print("Totals: %(patches)d harmless refactorings, %(runs)d check runs on them; quiet at first try %(quiet_first)d, quiet with the final checks "
      "%(quiet_final)d, tie still broken (reported as no-failing-input-found) %(tie_final)d, claimed a failing input on code where the "
      "property holds: %(false_input)d.\n" % tot)
print("| id | refactoring | checks run: first → final |")
print("|---|---|---|")
print("\n".join(rows))
