#!/usr/bin/env python3
"""Regenerates MANIFEST.json from the table below (run after adding a property module)."""
import json, os
V = os.path.dirname(os.path.dirname(os.path.abspath(__file__)))
BASE_NOTE = ("Trusted: Lean 4.33 kernel; axioms limited to propext/Classical.choice/Quot.sound (audited each run, no sorry/"
             "native_decide/bv_decide/own axioms); harness/extract code, Lean driver glue and canonicalisers; the model is "
             "hand-written and tied to /repo by the extracted source facts (re-proved each run) and by the correspondence run "
             "(model driver vs real code on the same generated inputs). ")
CLAIMED = {
 "C06": dict(tech="Lean 4 theorems (encode/decode round trip, exact consumption, size limits, accepted => tiled) over a model of protocol.py; SendingMessage.__init__, ReceivingMessage.validate / __init__ / add_payload and the three size/compression conditions are TRANSLATED from the source on every run (py2ir.py -> PyIR deep embedding) and proved equal to the model for all inputs (sendInit_translated, validate_translated, init_translated, addPayload_translated, C06_source_recvStub, C06_source_roundtrip, C06_gen_conditions); extracted/probed header facts; byte-level correspondence incl. a decoder watchdog",
             text="Proof: for every message, payload, annotation list, compression setting, MAX_MESSAGE_SIZE and trailing stream the model decoder returns exactly what the model encoder was given and consumes exactly its bytes; tie to the code by differential runs of SendingMessage/ReceivingMessage/recv_stub against the model driver on generated and mutated byte strings.",
             note="zlib is a parameter with the round-trip law (validated differentially); connection.recv is 'exactly n bytes or raise' (that contract is C17); the PyIR interpreter + py2ir transcription are the assumed semantics of the Python fragment add_payload is written in (run next to the model by the driver on every decode line)."),
 "C08": dict(tech="Lean 4: invariant by induction over arbitrary item sequences / event interleavings for a model of _handshake, handleRequest and both transports' connection life cycle; extracted accept-lists and guard shapes; history correspondence on the real transports over in-memory sockets",
             text="Proof: for every sequence of items on a connection and every interleaving over any number of connections, a method is executed only after the first reply on that connection was CONNECTOK; the handshake accepts exactly a well-formed CONNECT with a known serializer for a registered object accepted by the validator, every other first item gets CONNECTFAIL (or nothing iff the peer is gone) and the connection is closed, after which nothing pipelined has any effect. Tie: generated histories rendered with the real encoder through the real thread-pool and multiplex servers vs the model driver (replies, executions, closure).",
             note="byte level delegated to C06/C17 (items = outcomes of recv_stub); serializer dump failures are parameters supplied per history; pre-connected socket pairs exempt by the property."),
 "C12": dict(tech="Lean 4: ownership invariant over an explicit heap of response-annotation dict objects (thread-local current dict per worker, oneway threads sharing the spawning request's dict and writing at any later point), by induction over arbitrary event sequences; extracted reset points; history correspondence on both real transports incl. single-worker reuse and gated oneway writes",
             text="Proof: in every history of requests from any clients on any workers, with oneway writes interleaved anywhere, every response annotation sent with a reply, ping or handshake answer was written by the method of that same request (answers no method produced carry none), and every context snapshot a method takes equals its own request's data, also in the oneway thread. Tie: histories on the real multiplex server, thread-pool server and single-worker pool with methods that assign/mutate annotations and return/raise, gated oneway writes; all reply annotations and context snapshots compared with the model and checked directly.",
             note="threading.local isolation assumed; oneway write points on the real code are the release points the harness picks (the model covers all); batch and stream replies are not distinguished from normal replies in this model."),
 "C13": dict(tech="Lean 4: accounting invariant (hook calls, close calls, resource closes, session instances, slot) by induction over item sequences and event interleavings on the server model; SocketConnection.close TRANSLATED from the source on every run (py2ir.py -> PyIR) and proved to close every tracked resource exactly once whatever raises, to never raise and to be idempotent (close_translated, close_twice); extracted cleanup-call order (helper methods followed); history correspondence incl. a cut at every byte offset on both real transports + the real close() vs the interpreter",
             text="Proof: for every way and point a connection can end, when it is closed the disconnect hook ran exactly once iff it had been accepted, the connection was closed once, exactly the resources tracked at that moment were closed, each once, session instances dropped, slot released; before that nothing is cleaned up; other connections' records are untouched (frame). Tie: histories with track/untrack/session calls and every ending, plus one request cut at every byte offset, on the real thread-pool and multiplex servers vs the model (hook count, per-resource close count, pool/selector accounting).",
             note="GC timing of weakly tracked resources and daemon shutdown with open connections are outside the model; byte level delegated to C06/C17."),
 "C15": dict(tech="Lean 4: generic lock-atomicity theorem over a micro-step interleaving semantics (all schedules, any number of threads) instantiated with the name-server operations; premise discharged from the source: a lock skeleton of every public NameServer method is extracted on every run and a decidable check with a soundness theorem (every storage access of every possible execution happens under the lock); tie by sequential correspondence + deterministic-scheduler exploration of the real code (with a sequential epilogue) checked for linearizability",
             text="Proof: every interleaving of any number of concurrent name-server calls equals the sequential execution of the completed calls in lock-release order (Lock.atomic), hence exactly one of n concurrent safe registrations succeeds and concurrent removals of one name report 1,0,0,... and never fail; the premise that every storage access happens under `self.lock` is re-proved from the extracted lock skeletons on every run (allLocked_sound). Tie: sequential histories real vs model; real NameServer with instrumented lock/storage run under all schedules up to a preemption bound, outcomes checked for linearizability.",
             note="GIL-atomicity of single dict operations assumed; real preemption replaced by the model's 'any schedule' and, on the real code, by enumerated/random schedules at storage-access granularity; sqlite back-end concurrency (its own connection per call) is not modelled."),
 "C17": dict(tech="Lean 4 theorems by induction over arbitrary socket-event scripts for a model of receive_data/send_data; both functions are TRANSLATED from the source on every run (py2ir.py -> PyIR deep embedding, exception class hierarchy from the live classes) and proved equal to the model for every size, stream, script and socket mode (recv_translated, send_translated), so the C17 theorems are restated about the source as written; scripted-socket correspondence with error-clause oracles",
             text="Proof: for every request size, stream and script of socket behaviours (no bound) the model returns exactly the next n bytes or fails with the bytes received so far; sends deliver a prefix, all of it on success. Tie: real receive_data/send_data on a scripted socket vs the model driver, event by event.",
             note="The OS is replaced by the script alphabet (deliver k / retryable errno / fatal errno / timeout / eof); the PyIR interpreter + py2ir transcription are the assumed semantics of the Python fragment (run next to the model by the driver on every line and compared with the real functions)."),
}
ALL = ["C%02d" % i for i in range(1, 21)]
import glob
for f in glob.glob(os.path.join(V, "notes", "C*.manifest.json")):
    pid = os.path.basename(f).split(".")[0]
    d = json.load(open(f))
    if pid not in CLAIMED and all(k in d for k in ("tech", "text", "note")):
        CLAIMED[pid] = d
NA_REASON = {}
def main():
    checks = []
    for pid in ALL:
        if pid not in CLAIMED:
            continue
        c = CLAIMED[pid]
        checks.append({
            "property_id": pid,
            "quick_cmd": "./check %s --tier quick" % pid,
            "thorough_cmd": "./check %s --tier thorough" % pid,
            "evidence_file": "/verif/evidence/%s.json" % pid,
            "replay_cmd_template": "./check %s --replay {path}" % pid,
            "engine": "lean4+correspondence",
            "level_claimed": {"category": "proof", "text": c["text"], "design_ref": "DESIGN.md section 5, %s" % pid},
            "level_note": BASE_NOTE + c["note"],
            "technique": c["tech"],
        })
    na = [{"property_id": p, "reason": NA_REASON.get(p, "not yet covered: the Lean model and correspondence for this property are still being built (see DESIGN.md section 5 for the planned model); no other technique is substituted")}
          for p in ALL if p not in CLAIMED]
    m = {
        "version": 1,
        "setup_cmd": "./setup.sh",
        "hooks": {"guard": "IRMEN_PYRO5_VERIF", "enable": "no source hooks: all instrumentation is applied from outside by the harness (fakes, patched module attributes)",
                  "baseline_off_cmd": "cd /repo && /venv/bin/python -m pytest -q -p no:cacheprovider --timeout=900",
                  "source_commits": [], "add_only": True},
        "engines": [{"name": "lean4+correspondence", "path": "lean/ harness/",
                     "serves_properties": sorted(CLAIMED),
                     "kind_free_text": "Lean 4 models + theorems (lake project lean/), extractor and differential correspondence harness (harness/), single entry ./check"}],
        "checks": checks,
        "not_applicable": na,
        "notes": "All checks: ./check <ID> --tier quick|thorough ; exit 0 pass / 1 VIOLATION / 2 harness error. Evidence in evidence/<ID>.json.",
    }
    json.dump(m, open(os.path.join(V, "MANIFEST.json"), "w"), indent=1)
    print("claimed:", sorted(CLAIMED), "n/a:", len(na))
main()
