#!/usr/bin/env python3
"""regenerates the per-property table of DESIGN.md section 8 from the property modules and the evidence files"""
import importlib, json, os, re, sys
V = os.path.dirname(os.path.dirname(os.path.abspath(__file__)))
sys.path.insert(0, os.path.join(V, "harness"))
rows = []
for i in range(1, 21):
    pid = "C%02d" % i
    m = importlib.import_module("props." + pid.lower())
    ev = json.load(open(os.path.join(V, "evidence", pid + ".json")))
    cov = ev.get("coverage", {})
    models = sorted({os.path.basename(f)[:-5] for f in m.AUDIT_FILES if f.startswith("PyroModel/") and "/Gen/" not in f})
    rows.append("| %s | %s | %d | %s | %s / %s | %s |" % (
        pid, ", ".join(models), len(m.THEOREMS), ", ".join(getattr(m, "SUITES", [])),
        cov.get("correspondence_cases", "?"), cov.get("evaluations", "?"), ev.get("wall_s", cov.get("wall_s", "?"))))
table = ("| id | model files (lean/PyroModel) | audited theorems | correspondence suites | quick run: correspondence cases / oracle evaluations | quick wall s |\n"
         "|---|---|---|---|---|---|\n" + "\n".join(rows))
p = os.path.join(V, "DESIGN.md")
s = open(p).read()
a = s.index("| id | model files (lean/PyroModel) | audited theorems |")
b = s.index("\n\n", a)
s = s[:a] + table + s[b:]
# sizes line
import subprocess
def wc(globs):
    n = 0
    for g in globs:
        out = subprocess.run("cat %s 2>/dev/null | wc -l" % g, shell=True, capture_output=True, text=True, cwd=V).stdout.strip()
        n += int(out or 0)
    return n
lean = wc(["lean/PyroModel/*.lean", "lean/PyroProofs/*.lean", "lean/PyroProps/*.lean", "lean/Driver/*.lean"])
py = wc(["harness/*.py", "harness/props/*.py", "tools/*.py"])
s = re.sub(r"Sizes: about [\d ]+ lines of Lean \(models, lemmas, theorems, drivers\), about [\d ]+ lines of Python harness\.",
           "Sizes: about %d lines of Lean (models, lemmas, theorems, drivers; generated fact files not counted), about %d lines of Python harness." % (lean, py), s)
open(p, "w").write(s)
print("table rewritten;", lean, "lines of Lean,", py, "lines of Python")
