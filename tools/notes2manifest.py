#!/usr/bin/env python3
"""extract the tech/text/note manifest strings from notes/Cxx.md into notes/Cxx.manifest.json"""
import json, re, sys, os
V = os.path.dirname(os.path.dirname(os.path.abspath(__file__)))
for pid in sys.argv[1:]:
    s = open(os.path.join(V, "notes", pid + ".md")).read()
    out = {}
    for k in ("tech", "text", "note"):
        m = re.search(r"^\s*[\*\-]?\s*\**`?%s`?\**\s*[:=]\s*\**\s*(.+?)(?=\n\s*[\*\-]?\s*\**`?(?:tech|text|note)`?\**\s*[:=]|\n\n|\n#|\Z)" % k, s, re.M | re.S | re.I)
        if not m:
            print(pid, "missing", k); continue
        v = " ".join(m.group(1).split()).strip("`").strip()
        out[k] = v
    json.dump(out, open(os.path.join(V, "notes", pid + ".manifest.json"), "w"), indent=1)
    print(pid, {k: len(v) for k, v in out.items()})
