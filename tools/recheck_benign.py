#!/usr/bin/env python3
"""
tools/recheck_benign.py PID [PID ...]   - re-runs the CURRENT checks on the harmless refactorings recorded under
/verif/benign/<PID>-<k>/ (the own property's check and every other check that was tried on it before); result in
meta.json under "final": {check id: {rc, output}}.
"""
import glob, json, os, subprocess, sys, time
V = os.path.dirname(os.path.dirname(os.path.abspath(__file__)))


def sh(cmd, cwd=None, env=None, timeout=2400):
    e = dict(os.environ)
    if env:
        e.update(env)
    p = subprocess.run(cmd, cwd=cwd, env=e, stdout=subprocess.PIPE, stderr=subprocess.STDOUT, text=True, timeout=timeout)
    return p.returncode, "\n".join(l for l in p.stdout.splitlines() if "conda" not in l)


for pid in sys.argv[1:]:
    for d in sorted(glob.glob(os.path.join(V, "benign", pid + "-" + os.environ.get("RECHECK_ONLY", "") + "*"))):
        mp, pp = os.path.join(d, "meta.json"), os.path.join(d, "patch.diff")
        if not (os.path.isfile(mp) and os.path.isfile(pp)):
            continue
        meta = json.load(open(mp))
        wt = "/tmp/recheck/bwt-%s" % os.path.basename(d)
        os.makedirs("/tmp/recheck", exist_ok=True)
        sh(["git", "-C", "/repo", "worktree", "remove", "--force", wt])
        sh(["git", "-C", "/repo", "worktree", "add", "--detach", wt, "HEAD"])
        try:
            rc, out = sh(["git", "apply", pp], cwd=wt)
            fin = {}
            if rc != 0:
                fin["_applies"] = False
            else:
                for p in [pid] + [k for k in (meta.get("checks") or {}) if k != pid]:
                    rc, out = sh([os.path.join(V, "check"), p, "--tier", "quick"], cwd=V, env={"VERIF_REPO": wt})
                    lines = [l for l in out.splitlines() if (l.startswith("VIOLATION") or l.startswith("  ")) and not l.startswith("KNOWN")]
                    fin[p] = {"rc": rc, "output": lines[:3],
                              "claims_failing_input": rc == 1 and any(l.startswith("VIOLATION") and "no-failing-input-found" not in l for l in lines)}
                    print(os.path.basename(d), p, "quiet" if rc == 0 else ("FALSE FAILING INPUT" if fin[p]["claims_failing_input"] else "tie broken"),
                          "|", (lines[1] if len(lines) > 1 else "")[:170], flush=True)
                    sh(["git", "checkout", "--"] + sorted(glob.glob(os.path.join(V, "lean/PyroModel/Gen/%s*.lean" % p))), cwd=V)
            meta["final"] = fin
            json.dump(meta, open(mp, "w"), indent=1)
        finally:
            sh(["git", "-C", "/repo", "worktree", "remove", "--force", wt])
