#!/usr/bin/env python3
"""Rewrites sections 9 and 10 of DESIGN.md (seeded defects, harmless refactorings) from the records under seeded/ and benign/."""
import os, subprocess
V = os.path.dirname(os.path.dirname(os.path.abspath(__file__)))
p = os.path.join(V, "DESIGN.md")
s = open(p).read()
head = s[:s.index("## 9. Independently seeded defects")]
seed_tab = subprocess.run(["python3", os.path.join(V, "tools", "seed_table.py")], capture_output=True, text=True).stdout
ben_tab = subprocess.run(["python3", os.path.join(V, "tools", "benign_table.py")], capture_output=True, text=True).stdout

S9 = '''## 9. Independently seeded defects (which checks catch which changes)

Method. For every property *fresh* sub-agents (five rounds; the later ones were told what the earlier ones had
produced and asked for changes different in kind — round 3 explicitly for two cooperating sites, cached / memoised
values that are not invalidated, histories of several operations, boundary values and narrow interleavings) were given
only the property's text and their own scratch git worktree of `/repo` (nothing from `/verif`) and asked for up to
three realistic changes that break the property while the code still imports and the entire test suite (449) still
passes, each with a stand-alone `demo.py`. `tools/try_seed.py` then confirms each one independently of its author —
patch applies to the current HEAD in a new scratch worktree, `demo.py` fails with it and passes without it, the full
suite still passes with it — and runs `./check <ID> --tier quick` against the patched tree (`VERIF_REPO=<worktree>`:
the same effect as `git -C /repo apply`, run, `git checkout`, without disturbing other work on `/repo`; trial runs
write their evidence to a scratch directory, never to `evidence/`; worktrees are removed afterwards). Everything is
kept under `seeded/<ID>-<tag>m<k>/` (`patch.diff`, `demo.py`, `meta.json` with the author's description, what was run
and the check's report). After the last strengthening every kept patch was run once more against the final checks
(`tools/recheck_seeded.py`, result under `"final"` in the record); the table shows that final result, and says so when
a change was missed at first.

Checks strengthened because a seeded change was first missed (rounds 1 and 2):
* C17: unexpected exceptions of the real code are outcomes (the harness used to crash = exit 2); long runs
  of retryable errors; `sendall` "transmitted k bytes, then raised" (`Ev.partialFail` in the Lean alphabet).
  The runner turns a crashing correspondence / oracle into a broken tie instead of exit 2.
* C15: more program sets (prefix removal overlapping a by-name removal, …); an unfiltered listing with
  metadata must be a *value* (aliasing of the live table).
* C13: resources whose `close()` raises, raising disconnect hooks, item streams open at the end with
  linger 0, finalisation of ended connection objects (a second `close()` must close nothing).
* C12: oneway writes *during* a later request, oneway threads held before they start, refused handshakes,
  failing `getpeername()`, methods scribbling on request annotations; client-side clause added (model + theorem + suite).
* C08: extra members in handshake payloads, client side of a refused handshake.
* C06: boundary correlation ids. C04: converter-registry histories; encode-then-decode histories. C16: a falsy pool
  class. C01: datetime round trips in non-UTC zones. C07: the same exception instance raised by successive calls.
* C03, C02, C10, C05, C18 (by their builders): re-used `BatchProxy`, per-proxy retries, raw-wire proxies; class shapes
  that change after the metadata was fetched; raising disconnect hooks; ENOTCONN after reset, stall-without-timeout;
  raising jobs, closed-pool hooks.
* sched.py: yield points right after a lock release and after `Event.set()`.

Round 3 (changes "different in kind") and what it led to:
* C17: error-clause oracles (which error follows a timeout / fatal errno / early close, nothing attempted after a fatal
  error or timeout, `partialData` on early close), a wide fatal-errno table (ENOBUFS, EMFILE, …).
* C15: read-your-own-write programs and a sequential *epilogue* after the threads finished (a stale cache left behind by
  a race is then part of the outcome that some sequential order has to explain).
* C08: histories in which the set of registered objects changes (weak registration collected, unregister, forced
  re-registration) and two handshakes in flight on the thread-pool server (one held inside `Daemon.annotations()`).
* C12: requests without a correlation id (the id the method sees must be new for that request), a daemon whose
  `annotations()` hands out one persistent dict. C13: falsy resources; executions attributed to the connection of their
  *request*; a wedged server is reported after three stuck histories, and the runner has a deadline.
* C06: decoder watchdog (a decode that does not come back is a violation), chunk lengths at the 32-bit boundaries.
* By their builders: C01 (histories of equal-but-differently-written values against a fresh process), C02 (same-named
  classes sharing a cache entry), C03 (send-phase failures, streams re-attached past their linger time), C04 (allowed
  class dicts nested in each other, bulk lists at the 1024 boundary), C05 (short garbage + silent peer, chunk-length
  boundaries, exceptions whose serialisation fails unusually), C07 (delegating `__getattr__`, retries ≥ 1), C09 (several
  daemons per process, creators raising TypeError), C10 (fixed correlation ids, the real multiplex loop under traffic),
  C11 (returned exception objects, per-daemon histories), C16 (failed registrations, builtin-derived registered
  classes), C18 (failing `Thread.start()`), C19 (proxy-state histories), C20 (config written between requests).

Round 4 (changes in code the property depends on only indirectly: collaborators, error paths, data-model subtleties,
resource lifetimes, time-dependent logic, state that survives from one operation / connection / daemon to the next) was
the hardest: of 57 confirmed changes about half were missed at first. What it led to:
* C06: an accepted message starts with a header (tag / version / magic; `accept-bad-header`), the constructor refuses a
  "header" with stray bytes (`accept-long-header`); the sender is now transcribed and proved too (`sendInit_translated`).
* C17: a fake clock — every scripted socket call on a socket with timeout T takes 0.7 T, sleeps advance it — so time budgets
  inside the transfer loops are exercised (a send loop that gives up silently when its deadline has passed).
* C13: the server-side timeout exists only through the timeout the server puts on the accepted socket: with COMMTIMEOUT > 0
  the fake sockets are strict (a silent peer on a socket without timeout blocks for ever = reported); connections ended by
  RST (ECONNRESET, then `getpeername()` ENOTCONN); nothing may escape the transport server's event handling.
* C08: messages whose only fault is the magic number, in every position (first message = garbage whatever it says); the
  daemon's own registered object (`Pyro.Daemon`) is instrumented — none of its methods runs during a handshake before the
  validator accepted.
* C15: `C15_failed_no_effect` (an operation that answers with a naming error leaves the map as it was), checked on both storage
  back-ends with metadata the sqlite back-end refuses half way through the write; one pass of the real `AutoCleaner.run` as a
  further thread under the scheduler (its removals are operations like a client's).
* By their builders: C01 (SERPENT_BYTES_REPR on, streams held without their proxy, same-named classes served earlier), C02
  (weak and class registrations, re-advertising after `resetMetadataCache`, bytes names through marshal / msgpack), C03 (stale
  metadata: methods the object no longer has, oneway or not; blob arguments; `C03_fault_free`), C07 (next call after a forwarded
  SerializeError; streams under housekeeping with a lifetime), C09, C10 (daemon driven through `events()` only; property
  streams; diverged close with a custom handshake), C11 (programs over copied `BatchProxy` objects, `C11_program`; exception
  classes with registered converters), C14 (default-constructed name servers are fresh and independent; two overlapping
  clients), C16 (subclass object registered after a base-class object), C18 (model of one connection's life:
  `C18_conn_closed`, `C18_refusal_bounded`; refusal seen through the real client), C19 (URI objects through every
  serializer keep their state's types), C20 (wire compression with incompressible payloads, iterator-valued members,
  same-named classes behind the gateway), C04, C05.

Round 5 (after the deciding functions had been transcribed, §8; 20 properties, fresh agents told the summaries of all earlier
changes and asked for a different site *and* a different mechanism). Missed or caught only as a broken tie at first, and what
each led to (all re-run against the final checks, see the table):
* C01: item streams consumed across a connection loss and re-attached within the linger time (an item replayed), messages
  that carry annotations (the payload reaches the serializer as a `memoryview`: the same payload must decode alike as bytes,
  bytearray and memoryview), values nested up to 180 containers deep around class-dict values.
* C05: a witness client that is half way through an item stream while another connection ends (linger 0 and > 0, both
  transports; `C05_stream_survives`), methods raising Pyro communication errors with the caller waiting (a complete request
  from a peer that stays connected must be answered or the connection closed).
* C06: chunk ids with bytes >= 0x80 (valid / invalid UTF-8, latin-1) and the oracle clause "whatever is accepted re-encodes
  to exactly the consumed bytes"; sequences of messages back to back under fragmentation (`C06_roundtrip_sequence`).
* C07: every wait on the real code has a watchdog (a reply that never comes is a failing input `no-reply:<class>`, not a
  hanging check); builtin `ConnectionError` subclasses in the exception pool.
* C08: CONNECT payloads of every shape (no `"handshake"` / `"object"` entry, foreign keys only, non-dict members) against
  validators that refuse everybody; `denyConnection`; the whole of `_handshake` transcribed (`C08_hs_refusing_validator`).
* C12: client side - replies that are rejected (wrong sequence number / serializer, stale reply after an interrupted wait)
  must not leave their annotations in the client's context.
* C13: multiplex histories delivered in poll rounds with several ready sockets (an ended connection that is not the last,
  several ended together); `events()` transcribed (`C13_round_once`).
* C17: sockets with timeout 0.0 (non-blocking) as a configuration of the scripted sockets.
* C18: a job ending in a `BaseException` (the dying thread must not be handed the next connection), refused connections
  with a silent peer under COMMTIMEOUT.
* By their builders for the rest (C02 falsy registered objects and part-filled member caches, C03, C04, C09, C10, C11, C14,
  C15 lock released on every path, C16, C19, C20).
Defects that belong to another property than the one their author was given are tried against that property's check too
(records tagged `r5x`): the `single`-instance creation race reachable through a hostile call (written for C05) is caught by
C09's check with a failing input; the over-reading chunk loop of `receive_data` (written for C03) by C17's and C06's.

A check that did not come back on a seeded tree (C07, first trial) counts as missed; the runner's deadline is the last resort.

''' + seed_tab

S10 = '''

---------------------------------------------------------------------------------------------------

## 10. Harmless refactorings (alarms on code where the property holds)

The other direction was measured the same way: fresh sub-agents, given only the property text and a scratch worktree,
wrote behaviour-preserving refactorings of the code each property lives in (two rounds of three per property, and a third round of three for the ten properties whose deciding functions were transcribed in round 5, aimed at exactly those functions: renames,
extracted / inlined helpers, early returns, hoisted constants, loop ↔ comprehension, merged conditions, split functions,
docstrings and type hints; every one keeps the full suite green). `tools/try_benign.py` runs the property's own check
(and the checks of neighbouring properties that read the same code) on each patched tree; the records are under
`benign/<ID>-<k>/`. The expected result is exit 0. Two kinds of alarm are possible:
* a **broken tie** — an extracted fact / translated function / proof script written against the old shape of the code no
  longer checks, and the search finds no failing input. The brief prescribes reporting this (`VIOLATION … no-failing-input-found`),
  but it is an alarm on code where the property holds, so the ties were reworked to depend on behaviour instead of spelling
  wherever possible (`tools/robustify_prompt.txt`): facts are *probed* on the real objects at extraction time and the model
  is proved equal to the probe tables (C02, C03, C04, C09, C11, C14, C16, C18, C19, C20 by their builders; C12's snapshot
  facts, C06's key-length fact), names and constants are resolved through the real module, helper methods are followed
  (C13, C05), equivalent control-flow forms are accepted (C08), lock discipline is checked on a skeleton with a soundness
  theorem (C15), locals and parameters are renamed canonically before a function is transcribed (py2ir). What remains
  shape-dependent by nature are the proof scripts about functions transcribed through the deep embedding (C17Ast / C06Ast /
  C06EncAst / C13Ast break when the AST's *structure* changes) and a few deliberately lexical facts named in the notes. The
  per-property shallow translators of round 5 normalise control-flow forms, names, constants and helpers (§8); the third
  round of refactorings measured them: most yield byte-identical Lean text, the forms that first broke a translator
  (conditional expressions, named booleans, hoisted constants in new positions, a helper in condition position,
  comprehension + assignment loop) were added as normal forms where that is sound and are refused otherwise.
* a **false failing input** — the oracle blames a concrete input on a tree where the property holds. That would be a defect
  of the machinery. None occurred in any trial.
Both rounds were re-run against the final checks (`tools/recheck_benign.py`); the table shows first → final.

''' + ben_tab

open(p, "w").write(head + S9 + S10)
print("DESIGN.md sections 9 and 10 rewritten")
