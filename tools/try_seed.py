import glob
#!/usr/bin/env python3
"""
tools/try_seed.py <PID> <dir-with-m1..m3> [--no-suite]

Confirms an independently written defect (patch.diff + demo.py + meta.json) and runs our check on it:
  1. scratch worktree of /repo HEAD under /tmp/tryseed; the patch must apply;
  2. demo.py must FAIL with the patch and PASS without it (on the current HEAD);
  3. the full repository test suite must still pass with the patch;
  4. `VERIF_REPO=<worktree> ./check PID --tier quick` (the check reads the patched tree: same effect as
     `git -C /repo apply` + run + `git checkout`, without disturbing other work on /repo);
  5. everything is recorded in /verif/seeded/<PID>-m<k>/ ; the generated Lean fact file is restored.
"""
import json
import os
import shutil
import subprocess
import sys
import time

V = os.path.dirname(os.path.dirname(os.path.abspath(__file__)))
PY = "/venv/bin/python"


def sh(cmd, cwd=None, env=None, timeout=1800):
    e = dict(os.environ)
    if env:
        e.update(env)
    p = subprocess.run(cmd, cwd=cwd, env=e, stdout=subprocess.PIPE, stderr=subprocess.STDOUT, text=True, timeout=timeout)
    out = "\n".join(l for l in p.stdout.splitlines() if "conda.cli" not in l)
    return p.returncode, out


TAG = ""


def main():
    pid = sys.argv[1]
    src = sys.argv[2]
    suite = "--no-suite" not in sys.argv
    global TAG
    TAG = next((a.split("=", 1)[1] for a in sys.argv if a.startswith("--tag=")), "")
    base = "/tmp/tryseed"
    os.makedirs(base, exist_ok=True)
    for k in sorted(os.listdir(src)):
        d = os.path.join(src, k)
        if not os.path.isfile(os.path.join(d, "patch.diff")):
            continue
        wt = os.path.join(base, "wt-%s-%s" % (pid, k))
        sh(["git", "-C", "/repo", "worktree", "remove", "--force", wt])
        rc, out = sh(["git", "-C", "/repo", "worktree", "add", "--detach", wt, "HEAD"])
        rec = {"property": pid, "id": "%s-%s" % (pid, k), "at_repo_commit": sh(["git", "-C", "/repo", "rev-parse", "--short", "HEAD"])[1].strip()}
        try:
            meta = json.load(open(os.path.join(d, "meta.json")))
        except Exception:
            meta = {}
        rec["their_meta"] = meta
        try:
            patch = os.path.join(d, "patch.diff")
            rc, out = sh(["git", "apply", "--check", patch], cwd=wt)
            if rc != 0:
                rc, out = sh(["git", "apply", "-3", patch], cwd=wt)
                if rc != 0:
                    rec["status"] = "patch-does-not-apply"
                    rec["detail"] = out[-800:]
                    print(pid, k, "patch does not apply to current HEAD")
                    save(pid, k, d, rec)
                    continue
                sh(["git", "reset", "-q"], cwd=wt)
            else:
                sh(["git", "apply", patch], cwd=wt)
            shutil.copy(os.path.join(d, "demo.py"), os.path.join(wt, "demo.py"))
            env = {"PYTHONPATH": wt}
            rc_with, out_with = sh([PY, "demo.py"], cwd=wt, env=env, timeout=300)
            # without the patch
            sh(["git", "stash", "-q"], cwd=wt)
            rc_without, out_without = sh([PY, "demo.py"], cwd=wt, env=env, timeout=300)
            sh(["git", "stash", "pop", "-q"], cwd=wt)
            rec["demo_with_patch_rc"] = rc_with
            rec["demo_without_patch_rc"] = rc_without
            rec["demo_with_patch_tail"] = out_with[-600:]
            if rc_with == 0 or rc_without != 0:
                rec["status"] = "demo-not-confirmed"
                print(pid, k, "demo not confirmed: with=%d without=%d" % (rc_with, rc_without))
                save(pid, k, d, rec)
                continue
            os.remove(os.path.join(wt, "demo.py"))
            if suite:
                t0 = time.time()
                rc, out = sh([PY, "-m", "pytest", "-q", "-p", "no:cacheprovider", "--timeout=900", "-x"], cwd=wt, env=env, timeout=1500)
                tail = out.strip().splitlines()[-1] if out.strip() else ""
                rec["suite"] = tail
                rec["suite_s"] = round(time.time() - t0)
                if rc != 0 or "449 passed" not in tail:
                    rec["status"] = "suite-fails"
                    print(pid, k, "test suite does not pass with the patch:", tail)
                    save(pid, k, d, rec)
                    continue
            t0 = time.time()
            rc, out = sh([os.path.join(V, "check"), pid, "--tier", "quick"], cwd=V, env={"VERIF_REPO": wt}, timeout=1500)
            rec["check_rc"] = rc
            rec["check_s"] = round(time.time() - t0)
            lines = [l for l in out.splitlines() if l.startswith("VIOLATION") or l.startswith("  ") or l.startswith("KNOWN")]
            rec["check_output"] = lines[:6]
            rec["detected"] = rc == 1 and any(l.startswith("VIOLATION") for l in lines)
            rec["with_failing_input"] = rec["detected"] and not any("no-failing-input-found" in l for l in lines)
            rec["status"] = "confirmed"
            print(pid, k, "DETECTED" if rec["detected"] else "MISSED", "| failing input:" , rec["with_failing_input"], "|", (lines[0] if lines else out[-200:])[:200])
            save(pid, k, d, rec)
        finally:
            sh(["git", "-C", "/repo", "worktree", "remove", "--force", wt])
            # restore the generated fact file (it was regenerated from the patched tree)
            sh(["git", "checkout", "--"] + sorted(glob.glob(os.path.join(V, "lean/PyroModel/Gen/%s*.lean" % pid))), cwd=V)


def save(pid, k, d, rec):
    out = os.path.join(V, "seeded", "%s-%s%s" % (pid, TAG, k))
    os.makedirs(out, exist_ok=True)
    for f in ("patch.diff", "demo.py"):
        if os.path.exists(os.path.join(d, f)):
            shutil.copy(os.path.join(d, f), os.path.join(out, f))
    json.dump(rec, open(os.path.join(out, "meta.json"), "w"), indent=1)


main()
