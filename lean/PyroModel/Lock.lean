/-
  Lock.lean — a generic micro-step interleaving semantics for operations whose bodies run entirely
  while holding ONE lock, and the sequential replay it is compared against.

  Used by C15 (NameServer.lock), C18 (Pool), C09 (create_single_instance_lock): the premise
  "every access of the shared state is inside the `with <lock>:` block" is an obligation on the
  lock shape extracted from the source; the conclusion (PyroProofs/Lock.lean: `atomic`) is that every
  interleaving, of any number of threads and any length, is the sequential execution of the
  completed operations in lock-release order.
-/

namespace Pyro.Lock

/-- An operation: local state `L` (arguments, temporaries), a list of micro-steps each of which may
    read and write the shared state `S`, and the value returned to the caller. -/
structure Op (S L R : Type) where
  init : L
  steps : List (L → S → L × S)
  result : L → R

def runSteps {S L : Type} (steps : List (L → S → L × S)) (l : L) (s : S) : L × S :=
  steps.foldl (fun p f => f p.1 p.2) (l, s)

/-- sequential execution of one operation -/
def Op.run {S L R : Type} (op : Op S L R) (s : S) : S × R :=
  let p := runSteps op.steps op.init s
  (p.2, op.result p.1)

/-- sequential execution of a list of operations: final state and the results in order -/
def seqRun {S L R : Type} : List (Op S L R) → S → S × List R
  | [], s => (s, [])
  | op :: ops, s =>
    let (s1, r) := op.run s
    let (s2, rs) := seqRun ops s1
    (s2, r :: rs)

inductive TState (S L R : Type) where
  | waiting (op : Op S L R)                                        -- about to acquire the lock
  | running (op : Op S L R) (l : L) (rest : List (L → S → L × S))   -- inside `with lock:`
  | done (r : R)                                                   -- returned r

structure Config (S L R : Type) where
  shared : S
  holder : Option Nat
  threads : List (TState S L R)
  log : List (Nat × Op S L R × R)      -- completed operations in lock-release order

def Config.init {S L R : Type} (s0 : S) (ops : List (Op S L R)) : Config S L R :=
  { shared := s0, holder := none, threads := ops.map .waiting, log := [] }

/-- one scheduling decision: thread `tid` performs its next micro-step (or stutters if blocked) -/
def step {S L R : Type} (c : Config S L R) (tid : Nat) : Config S L R :=
  match c.threads[tid]? with
  | some (.waiting op) =>
    match c.holder with
    | none => { c with holder := some tid, threads := c.threads.set tid (.running op op.init op.steps) }
    | some _ => c      -- blocked on the lock
  | some (.running op l (f :: rest)) =>
    let p := f l c.shared
    { c with shared := p.2, threads := c.threads.set tid (.running op p.1 rest) }
  | some (.running op l []) =>
    { c with holder := none, threads := c.threads.set tid (.done (op.result l)),
             log := c.log ++ [(tid, op, op.result l)] }
  | _ => c

def run {S L R : Type} (c : Config S L R) (schedule : List Nat) : Config S L R :=
  schedule.foldl step c

end Pyro.Lock
