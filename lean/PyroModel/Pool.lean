/-
  Pool.lean — model of the worker thread pool of Pyro5/svr_threads.py (Worker: lines 254-279,
  Pool: lines 282-367 of the tree with fixes/C18-pool-count-lock.patch applied).

  State (`St`): the pool's `idle` / `busy` sets (lists without duplicates, `addSet`/`erase`), its
  `closed` flag, and per worker (index = creation order) the job slot `Worker.job`, the flag of the
  `job_available` event and the program counter of `Worker.run`.  The remaining fields are ghost
  bookkeeping used only to state the property (which job was accepted by / refused / started on
  / ended, which jobs the environment has allowed to end).

  The three pool methods are `Lock.Op`s: lists of micro-steps, one per access of the shared state,
  in the statement order of the source.  They are used twice:
    * coarse semantics (`step`, `run`): a method call is `Op.run` of its body — valid when the body
      runs under `Pool.count_lock`, which is the extracted-shape obligation `C18_gen_shape_ok`;
      `Lock.atomic` (PyroProofs/Lock.lean) is the theorem that licenses it;
    * free semantics (`freeStep`, `freeRun`): the same micro-steps interleaved with no lock at all —
      the code before the fix; only the negative theorems (explicit witness schedules) use it.
-/
import PyroModel.Lock

namespace Pyro.Pool

abbrev Wid := Nat
abbrev Jid := Nat

/-- program counter of `Worker.run` (svr_threads.py:267-279) -/
inductive Phase where
  | waiting              -- at `self.job_available.wait()`                       (269)
  | woken                -- wait returned, before `self.job_available.clear()`   (270)
  | cleared              -- before `if self.job is None: break`                  (271)
  | checked              -- before `self.job()`  (reads the slot a second time)  (274)
  | running (j : Jid)    -- inside the job
  | finished             -- job returned (or raised), before `self.job = None`   (277)
  | notifying            -- before `self.pool.notify_done(self)`                 (278)
  | exited               -- left the loop (279): the thread ends
  deriving DecidableEq, Repr, Hashable

structure Worker where
  slot : Option Jid := none      -- Worker.job  (none = Python None)
  ev : Bool := false             -- Worker.job_available is set
  phase : Phase := .waiting
  deriving DecidableEq, Repr, Hashable

structure St where
  idle : List Wid
  busy : List Wid
  closed : Bool
  ws : List Worker
  -- ghost bookkeeping
  nextJob : Nat := 0
  accepted : List (Jid × Wid) := []     -- process() returned normally: job handed to that worker
  refusedFull : List Jid := []           -- process() raised NoFreeWorkersError
  refusedClosed : List Jid := []         -- process() raised PoolError("job queue is closed")
  started : List (Jid × Wid) := []      -- the worker entered the job's body
  ended : List Jid := []                 -- the job's body returned
  fin : List Jid := []                   -- the environment lets the job end (client went away)
  errors : Nat := 0                      -- internal errors (KeyError of set.pop/remove, `None()`): only reachable without the lock
  deriving DecidableEq, Repr, Hashable

/-- Pool.__init__ (287-299): THREADPOOL_SIZE_MIN idle workers, all at the top of their loop -/
def init (mn : Nat) : St :=
  { idle := List.range mn, busy := [], closed := false, ws := List.replicate mn {} }

def updW (ws : List Worker) (w : Wid) (f : Worker → Worker) : List Worker :=
  ws.mapIdx fun i x => if i = w then f x else x

def St.setW (s : St) (w : Wid) (f : Worker → Worker) : St := { s with ws := updW s.ws w f }

/-- `Worker.process(job)` (263-265): `self.job = job; self.job_available.set()` -/
def St.signal (s : St) (w : Wid) (v : Option Jid) : St :=
  s.setW w fun x => { x with slot := v, ev := true }

/-- `for w in <snapshot>: w.process(None)` -/
def St.signalAll (s : St) (l : List Wid) : St :=
  { s with ws := s.ws.mapIdx fun i x => if i ∈ l then { x with slot := none, ev := true } else x }

/-- `a_set.add(w)` on a duplicate-free list -/
def addSet (l : List Wid) (w : Wid) : List Wid := if w ∈ l then l else l ++ [w]

/-- what a pool method hands back: returned normally, or the exception it raised -/
inductive Res where
  | ok
  | noFreeWorkers
  | poolClosed
  | internalError
  deriving DecidableEq, Repr

/-- locals of a running method body -/
structure Local where
  res : Res := .ok
  stop : Bool := false           -- returned / raised already: the remaining micro-steps do nothing
  flag : Bool := false
  worker : Option Wid := none
  job : Jid := 0
  items : List Wid := []
  deriving DecidableEq, Repr

abbrev MStep := Local → St → Local × St

def guard (f : MStep) : MStep := fun l s => if l.stop then (l, s) else f l s

/-- `Pool.process(job)` (341-354).  `pick` resolves which element `set.pop()` returns. -/
def procBody (mx pick : Nat) : List MStep :=
  [ -- the job gets its (ghost) number; `if self.closed: raise PoolError(...)`
    fun l s =>
      let j := s.nextJob
      if s.closed then
        ({ l with job := j, stop := true, res := .poolClosed },
         { s with nextJob := j + 1, refusedClosed := s.refusedClosed ++ [j] })
      else ({ l with job := j }, { s with nextJob := j + 1 }),
    -- `if self.idle:`
    guard fun l s => ({ l with flag := !s.idle.isEmpty }, s),
    -- `worker = self.idle.pop()` | `elif self.num_workers() < THREADPOOL_SIZE: worker = Worker(self); worker.start()`
    -- | `else: raise NoFreeWorkersError(...)`
    guard fun l s =>
      if l.flag then
        match s.idle[pick % s.idle.length]? with
        | some w => ({ l with worker := some w }, { s with idle := s.idle.erase w })
        | none => ({ l with stop := true, res := .internalError }, { s with errors := s.errors + 1 })  -- pop from an empty set
      else if s.busy.length + s.idle.length < mx then
        ({ l with worker := some s.ws.length }, { s with ws := s.ws ++ [{}] })
      else
        ({ l with stop := true, res := .noFreeWorkers }, { s with refusedFull := s.refusedFull ++ [l.job] }),
    -- `self.busy.add(worker)`
    guard fun l s => match l.worker with
      | some w => (l, { s with busy := addSet s.busy w })
      | none => (l, s),
    -- `worker.process(job)`; the call returns normally
    guard fun l s => match l.worker with
      | some w => (l, { (s.signal w (some l.job)) with accepted := s.accepted ++ [(l.job, w)] })
      | none => (l, s) ]

/-- `Pool.notify_done(worker)` (356-367) -/
def notifyBody (mn : Nat) (w : Wid) : List MStep :=
  [ -- `if worker in self.busy:`
    fun l s => ({ l with flag := decide (w ∈ s.busy) }, s),
    -- `self.busy.remove(worker)`
    fun l s =>
      if l.flag then
        if w ∈ s.busy then (l, { s with busy := s.busy.erase w })
        else ({ l with stop := true, res := .internalError }, { s with errors := s.errors + 1 })   -- KeyError
      else (l, s),
    -- `if self.closed: worker.process(None); return`
    guard fun l s => if s.closed then ({ l with stop := true }, s.signal w none) else (l, s),
    -- `if len(self.idle) >= THREADPOOL_SIZE_MIN:`
    guard fun l s => ({ l with flag := decide (s.idle.length ≥ mn) }, s),
    -- `worker.process(None)` | `self.idle.add(worker)`
    guard fun l s => if l.flag then (l, s.signal w none) else (l, { s with idle := addSet s.idle w }) ]

/-- `Pool.close()` (308-332), the part under the lock (the timed joins that follow touch no shared state) -/
def closeBody : List MStep :=
  [ -- `if self.closed: return`
    fun l s => if s.closed then ({ l with stop := true }, s) else (l, s),
    -- `self.closed = True`
    guard fun l s => (l, { s with closed := true }),
    -- `idle, self.idle = self.idle, set()`
    guard fun l s => ({ l with items := s.idle }, { s with idle := [] }),
    -- `busy, self.busy = self.busy, set()`
    guard fun l s => (l, { s with busy := [] }),
    -- `for w in idle: w.process(None)`
    guard fun l s => (l, s.signalAll l.items) ]

/-- `Pool.close()` as it was before the fix (no lock; busy workers signalled too; flag set afterwards) -/
def closeBodyOrig : List MStep :=
  [ fun l s => if s.closed then ({ l with stop := true }, s) else (l, s),       -- `if not self.closed:`
    guard fun l s => (l, s.signalAll s.busy),                                   -- `for w in list(self.busy): w.process(None)`
    guard fun l s => (l, s.signalAll s.idle),                                   -- `for w in list(self.idle): w.process(None)`
    guard fun l s => (l, { s with closed := true }),                            -- `self.closed = True`
    guard fun l s => ({ l with items := s.idle }, { s with idle := [] }),       -- `idle, self.idle = self.idle, set()`
    guard fun l s => (l, { s with busy := [] }) ]                               -- `busy, self.busy = self.busy, set()`

inductive Call where
  | process (pick : Nat)
  | notifyDone (w : Wid)
  | close
  | closeOrig
  deriving DecidableEq, Repr

def body (mn mx : Nat) : Call → List MStep
  | .process pick => procBody mx pick
  | .notifyDone w => notifyBody mn w
  | .close => closeBody
  | .closeOrig => closeBodyOrig

def toOp (mn mx : Nat) (c : Call) : Lock.Op St Local Res :=
  { init := {}, steps := body mn mx c, result := fun l => l.res }

/-- a pool method executed as one atomic action: new state and what the caller sees -/
def call (mn mx : Nat) (c : Call) (s : St) : St × Res := (toOp mn mx c).run s

/-- One statement of `Worker.run` executed by worker `w` (stutters while the worker is blocked in
    `wait()` or inside a job that has not been allowed to end).  The last statement of the loop body,
    `self.pool.notify_done(self)`, is a pool method: atomic in this semantics. -/
def wstep (mn mx : Nat) (s : St) (w : Wid) : St :=
  match s.ws[w]? with
  | none => s
  | some x =>
    match x.phase with
    | .waiting => if x.ev then s.setW w fun x => { x with phase := .woken } else s
    | .woken => s.setW w fun x => { x with ev := false, phase := .cleared }
    | .cleared =>
      match x.slot with
      | none => s.setW w fun x => { x with phase := .exited }
      | some _ => s.setW w fun x => { x with phase := .checked }
    | .checked =>
      match x.slot with
      | none => { (s.setW w fun x => { x with phase := .finished }) with errors := s.errors + 1 }  -- `None()`: TypeError, logged (275)
      | some j => { (s.setW w fun x => { x with phase := .running j }) with started := s.started ++ [(j, w)] }
    | .running j =>
      if j ∈ s.fin then { (s.setW w fun x => { x with phase := .finished }) with ended := s.ended ++ [j] } else s
    | .finished => s.setW w fun x => { x with slot := none, phase := .notifying }
    | .notifying => (call mn mx (.notifyDone w) (s.setW w fun x => { x with phase := .waiting })).1
    | .exited => s

/-- what the environment and the threads can do, one atomic action each -/
inductive Act where
  | submit (pick : Nat)     -- the accept loop calls pool.process(<next job>)
  | finish (j : Jid)        -- job j's connection ends: its body may return
  | wstep (w : Wid)         -- worker w executes its next statement
  | close                   -- somebody calls pool.close()
  deriving DecidableEq, Repr

def step (mn mx : Nat) (s : St) : Act → St
  | .submit pick => (call mn mx (.process pick) s).1
  | .finish j => { s with fin := s.fin ++ [j] }
  | .wstep w => wstep mn mx s w
  | .close => (call mn mx .close s).1

def run (mn mx : Nat) (s : St) (acts : List Act) : St := acts.foldl (step mn mx) s

/-- every worker takes `fuel` rounds of steps, lowest index first (used by the driver: bring the pool to rest) -/
def settle (mn mx : Nat) : Nat → St → St
  | 0, s => s
  | fuel + 1, s => settle mn mx fuel ((List.range s.ws.length).foldl (wstep mn mx) s)

/-- `iter f n x` = `f` applied `n` times -/
def iter {α : Type} (f : α → α) : Nat → α → α
  | 0, x => x
  | n + 1, x => iter f n (f x)

/-! ### the same method bodies with no lock: free interleaving of micro-steps (the code before the fix) -/

/-- like `Lock.step`, but nobody waits for anybody -/
def freeStep (c : Lock.Config St Local Res) (tid : Nat) : Lock.Config St Local Res :=
  match c.threads[tid]? with
  | some (.waiting op) => { c with threads := c.threads.set tid (.running op op.init op.steps) }
  | some (.running op l (f :: rest)) =>
    let p := f l c.shared
    { c with shared := p.2, threads := c.threads.set tid (.running op p.1 rest) }
  | some (.running op l []) =>
    { c with threads := c.threads.set tid (.done (op.result l)), log := c.log ++ [(tid, op, op.result l)] }
  | _ => c

def freeRun (c : Lock.Config St Local Res) (schedule : List Nat) : Lock.Config St Local Res :=
  schedule.foldl freeStep c

end Pyro.Pool
