/-
  Wire.lean — model of the Pyro5 wire protocol codec (Pyro5/protocol.py).

  `encode`     ↔ SendingMessage.__init__      (protocol.py:73-102)
  `parseHeader`↔ ReceivingMessage.__init__    (protocol.py:118-130)
  `addPayload` ↔ ReceivingMessage.add_payload (protocol.py:149-170)
  `recvStub`   ↔ recv_stub                    (protocol.py:182-201)

  zlib is a parameter (`Zlib`): theorems quantify over every compressor satisfying the round-trip law.
  The connection is abstracted as a byte stream: `connection.recv(n)` yields exactly the next `n`
  bytes or raises (that contract is property C17, proved in PyroProps/C17.lean).
-/
import PyroModel.Bytes

namespace Pyro.Wire

open Pyro

/-! ### constants (pinned to the source by PyroModel/Gen/C06.lean obligations in PyroProps/C06.lean) -/
def protocolVersion : Nat := 502
def magicNumber : Nat := 0x4dc5
def headerSize : Nat := 40
def compressThreshold : Nat := 100
def FLAGS_COMPRESSED : Nat := 2
def FLAGS_CORR_ID : Nat := 64
def tagPYRO : Bytes := [0x50, 0x59, 0x52, 0x4f]

structure Zlib where
  compress : Bytes → Bytes
  decompress : Bytes → Option Bytes

def Zlib.Lawful (z : Zlib) : Prop := ∀ p, z.decompress (z.compress p) = some p

structure Cfg where
  compression : Bool
  maxSize : Nat

/-- annotation key = Python str (list of code points), value = bytes -/
abbrev Ann := List Nat × Bytes

structure Msg where
  type : Nat
  serId : Nat
  flags : Nat
  seq : Nat
  payload : Bytes
  anns : List Ann
  corr : Option Bytes        -- `current_context.correlation_id.bytes` (16 bytes) when set
  deriving Repr, DecidableEq

inductive EncErr where
  | tooLarge        -- ProtocolError("message too large")
  | structRange     -- struct.error: header field out of range
  | badKeyLen       -- ProtocolError("annotation identifier must be 4 ascii characters")
  | nonAscii        -- UnicodeEncodeError from k.encode("ascii")
  | badCorr         -- outside the domain: correlation id not 16 bytes (uuid.bytes always is)
  deriving Repr, DecidableEq

def annSize (anns : List Ann) : Nat := (anns.map fun a => 8 + a.2.length).sum

/-- clear bit `b` (a power of two) — `flags &= ~b` on a non-negative int -/
def clearBit (flags b : Nat) : Nat := if flags / b % 2 = 1 then flags - b else flags
/-- set bit `b` — `flags |= b` -/
def setBit (flags b : Nat) : Nat := if flags / b % 2 = 1 then flags else flags + b
def hasBit (flags b : Nat) : Bool := flags / b % 2 = 1

/-- `struct.pack("!4sI", k.encode("ascii"), len(v)) + v` for each annotation, in dict order. -/
def encodeAnns : List Ann → Except EncErr Bytes
  | [] => .ok []
  | (k, v) :: rest =>
    if k.length ≠ 4 then .error .badKeyLen
    else if k.any (· ≥ 128) then .error .nonAscii
    else if v.length ≥ 2 ^ 32 then .error .structRange
    else match encodeAnns rest with
      | .error e => .error e
      | .ok bs => .ok (k.map UInt8.ofNat ++ toBE 4 v.length ++ v ++ bs)

/-- first 6 bytes: `b"PYRO"` + protocol version (what `recv_stub` reads and validates first) -/
def headerPrefix : Bytes := tagPYRO ++ toBE 2 protocolVersion

/-- struct.pack('!4sHBBHHII16sHH', b"PYRO", PROTOCOL_VERSION, msgtype, serializer_id, flags, seq,
                len(payload), annotations_size, corr_id, 0, _magic_number) -/
def packHeader (type serId flags seq dataLen annLen : Nat) (corr : Bytes) : Bytes :=
  headerPrefix ++ (toBE 1 type ++ (toBE 1 serId ++ (toBE 2 flags ++ (toBE 2 seq ++
    (toBE 4 dataLen ++ (toBE 4 annLen ++ (corr ++ (toBE 2 0 ++ toBE 2 magicNumber))))))))

def zeroCorr : Bytes := List.replicate 16 0

/-- `config.COMPRESSION and len(payload) > 100` -/
def isCompressed (cfg : Cfg) (m : Msg) : Bool :=
  cfg.compression && decide (m.payload.length > compressThreshold)

/-- the payload bytes that go on the wire -/
def wirePayload (cfg : Cfg) (z : Zlib) (m : Msg) : Bytes :=
  if isCompressed cfg m then z.compress m.payload else m.payload

/-- the flags field of the header: caller's flags with COMPRESSED cleared, then set iff compressed,
    then CORR_ID or-ed in iff a correlation id is in the context -/
def headerFlags (cfg : Cfg) (m : Msg) : Nat :=
  let flags0 := clearBit m.flags FLAGS_COMPRESSED
  let flags1 := if isCompressed cfg m then setBit flags0 FLAGS_COMPRESSED else flags0
  if m.corr.isSome then setBit flags1 FLAGS_CORR_ID else flags1

/-- SendingMessage(msgtype, flags, seq, serializer_id, payload, annotations).data -/
def encode (cfg : Cfg) (z : Zlib) (m : Msg) : Except EncErr Bytes :=
  let aSize := annSize m.anns
  let payload := wirePayload cfg z m
  if payload.length + aSize > cfg.maxSize then .error .tooLarge
  else
    let corr := m.corr.getD zeroCorr
    if corr.length ≠ 16 then .error .badCorr
    else if m.type ≥ 256 ∨ m.serId ≥ 256 ∨ headerFlags cfg m ≥ 65536 ∨ m.seq ≥ 65536 ∨
        payload.length ≥ 2 ^ 32 ∨ aSize ≥ 2 ^ 32 then .error .structRange
    else match encodeAnns m.anns with
      | .error e => .error e
      | .ok abytes =>
        .ok (packHeader m.type m.serId (headerFlags cfg m) m.seq payload.length aSize corr ++ (abytes ++ payload))

/-! ### decoding -/

inductive DecErr where
  | closed          -- ConnectionClosedError: stream ended inside a recv
  | protocol        -- ProtocolError (bad tag / version / magic / size / length mismatch)
  | badType         -- ProtocolError("invalid msg type ... received")
  | assertion       -- AssertionError: annotation chunks do not tile the annotation area
  | nonAsciiId      -- UnicodeDecodeError: annotation id not ASCII
  | zlib            -- zlib.error
  | fuel            -- model artefact (proved unreachable)
  deriving Repr, DecidableEq

structure Header where
  type : Nat
  serId : Nat
  flags : Nat
  seq : Nat
  dataSize : Nat
  annSize : Nat
  corr : Bytes
  deriving Repr, DecidableEq

structure Decoded where
  type : Nat
  serId : Nat
  flags : Nat
  seq : Nat
  data : Bytes
  anns : List Ann          -- dict in insertion order (later duplicate key overwrites in place)
  corr : Bytes
  deriving Repr, DecidableEq

def slice (bs : Bytes) (i j : Nat) : Bytes := (bs.drop i).take (j - i)

/-- `ReceivingMessage.__init__(header)`: struct.unpack of the 40-byte header, field after field,
    then the tag / version / magic test and the size test. -/
def parseHeader (cfg : Cfg) (h : Bytes) : Except DecErr Header :=
  let tag := h.take 4;                 let h := h.drop 4
  let ver := fromBE (h.take 2);        let h := h.drop 2
  let type := fromBE (h.take 1);       let h := h.drop 1
  let serId := fromBE (h.take 1);      let h := h.drop 1
  let flags := fromBE (h.take 2);      let h := h.drop 2
  let seq := fromBE (h.take 2);        let h := h.drop 2
  let dataSize := fromBE (h.take 4);   let h := h.drop 4
  let annSize := fromBE (h.take 4);    let h := h.drop 4
  let corr := h.take 16;               let h := h.drop 16
  let h := h.drop 2   -- reserved
  let magic := fromBE (h.take 2)
  if tag ≠ tagPYRO ∨ ver ≠ protocolVersion ∨ magic ≠ magicNumber then .error .protocol
  else if dataSize + annSize > cfg.maxSize then .error .protocol
  else .ok { type := type, serId := serId, flags := flags, seq := seq,
             dataSize := dataSize, annSize := annSize, corr := corr }

/-- Python dict assignment `d[k] = v`: overwrite in place or append. -/
def dictSet (d : List Ann) (k : List Nat) (v : Bytes) : List Ann :=
  match d with
  | [] => [(k, v)]
  | (k', v') :: rest => if k' = k then (k, v) :: rest else (k', v') :: dictSet rest k v

/-- The annotation walk of `add_payload` (protocol.py:157-163).  `rest` is `payload[i:]`
    (the *whole* payload: memoryview slices clamp, so a chunk may read into the data area),
    `remaining` is `annotations_size - i`.  The loop runs while `i < annotations_size`; afterwards
    `assert i == annotations_size`. -/
def walkAnns : Nat → Bytes → Nat → List Ann → Except DecErr (List Ann)
  | 0, _, remaining, acc => if remaining = 0 then .ok acc else .error .fuel
  | fuel + 1, rest, remaining, acc =>
    if remaining = 0 then .ok acc
    else
      let idBytes := rest.take 4
      if idBytes.any (· ≥ 128) then .error .nonAsciiId
      else
        let length := fromBE ((rest.drop 4).take 4)
        let value := (rest.drop 8).take length
        let step := 8 + length
        if step > remaining then .error .assertion    -- i ends beyond annotations_size
        else walkAnns fuel (rest.drop step) (remaining - step)
               (dictSet acc (idBytes.map UInt8.toNat) value)

/-- `ReceivingMessage.add_payload(payload)` -/
def addPayload (z : Zlib) (h : Header) (payload : Bytes) : Except DecErr Decoded :=
  if payload.length ≠ h.dataSize + h.annSize then .error .protocol
  else
    match walkAnns h.annSize payload h.annSize [] with
    | .error e => .error e
    | .ok anns =>
      let data := payload.drop h.annSize
      if hasBit h.flags FLAGS_COMPRESSED then
        match z.decompress data with
        | none => .error .zlib
        | some d => .ok { type := h.type, serId := h.serId, flags := clearBit h.flags FLAGS_COMPRESSED,
                          seq := h.seq, data := d, anns := anns, corr := h.corr }
      else .ok { type := h.type, serId := h.serId, flags := h.flags, seq := h.seq,
                 data := data, anns := anns, corr := h.corr }

/-- `connection.recv(n)`: exactly the next `n` bytes or ConnectionClosedError. -/
def recvN (n : Nat) (stream : Bytes) : Option (Bytes × Bytes) :=
  if n ≤ stream.length then some (stream.take n, stream.drop n) else none

/-- Result of `recv_stub`: outcome, bytes requested from the connection so far, unread stream. -/
structure StubResult where
  out : Except DecErr Decoded
  requested : Nat
  rest : Bytes

/-- third stage of `recv_stub`: read `annotations_size + data_size` bytes and parse them -/
def recvStage3 (z : Zlib) (hdr : Header) (s2 : Bytes) : StubResult :=
  match recvN (hdr.annSize + hdr.dataSize) s2 with
  | none => ⟨.error .closed, headerSize + hdr.annSize + hdr.dataSize, []⟩
  | some (body, s3) => ⟨addPayload z hdr body, headerSize + hdr.annSize + hdr.dataSize, s3⟩

/-- second stage: parse the 40 header bytes, filter the message type -/
def recvStage2 (cfg : Cfg) (z : Zlib) (accepted : List Nat) (h40 : Bytes) (s2 : Bytes) : StubResult :=
  match parseHeader cfg h40 with
  | .error e => ⟨.error e, headerSize, s2⟩
  | .ok hdr =>
    if !accepted.isEmpty && !accepted.contains hdr.type then ⟨.error .badType, headerSize, s2⟩
    else recvStage3 z hdr s2

/-- `recv_stub(connection, accepted_msgtypes)`; `accepted = []` models `None` (any type). -/
def recvStub (cfg : Cfg) (z : Zlib) (accepted : List Nat) (stream : Bytes) : StubResult :=
  match recvN 6 stream with
  | none => ⟨.error .closed, 6, []⟩
  | some (h6, s1) =>
    -- ReceivingMessage.validate(header) on 6 bytes
    if h6.take 4 ≠ tagPYRO then ⟨.error .protocol, 6, s1⟩
    else if h6.drop 4 ≠ toBE 2 protocolVersion then ⟨.error .protocol, 6, s1⟩
    else match recvN (headerSize - 6) s1 with
      | none => ⟨.error .closed, headerSize, []⟩
      | some (h34, s2) => recvStage2 cfg z accepted (h6 ++ h34) s2

/-- `recv_stub` over an arbitrary connection: `recv n s` performs `connection.recv(n)` on connection
    state `s` (`none` = the call raised: connection closed / timeout).  Used to compose the codec
    with the socket model of C17 (fragmentation). -/
def recvStubG {σ : Type} (recv : Nat → σ → Option (Bytes × σ)) (unread : σ → Bytes)
    (cfg : Cfg) (z : Zlib) (accepted : List Nat) (s : σ) : Option StubResult :=
  match recv 6 s with
  | none => none
  | some (h6, s1) =>
    if h6.take 4 ≠ tagPYRO then some ⟨.error .protocol, 6, unread s1⟩
    else if h6.drop 4 ≠ toBE 2 protocolVersion then some ⟨.error .protocol, 6, unread s1⟩
    else match recv (headerSize - 6) s1 with
      | none => none
      | some (h34, s2) =>
        match parseHeader cfg (h6 ++ h34) with
        | .error e => some ⟨.error e, headerSize, unread s2⟩
        | .ok hdr =>
          if !accepted.isEmpty && !accepted.contains hdr.type then some ⟨.error .badType, headerSize, unread s2⟩
          else match recv (hdr.annSize + hdr.dataSize) s2 with
            | none => none
            | some (body, s3) =>
              some ⟨addPayload z hdr body, headerSize + hdr.annSize + hdr.dataSize, unread s3⟩

end Pyro.Wire
