/-
  C05 (round 5): the daemon's table of item streams (`Daemon.streaming_responses`) and what the END OF A CONNECTION
  does to it — Pyro5/server.py `Daemon._clientDisconnect` (called by both transports when a connection ends:
  svr_threads.py `ClientConnectionJob.__call__` finally, svr_multiplex.py `events` inactive branch), the linger part of
  `Daemon._housekeeping`, and `DaemonObject.get_next_stream_item`.

  A table is a finite map stream id ↦ entry; `streaming_responses[id] = (client, timestamp, linger_timestamp, stream)`.
  Connections are numbered as in `PyroModel/ServerLoop.lean`; time is a natural number of abstract ticks
  (`time.time()` = `now`, a parameter of each step; 0 = "not lingering", as in the source where `info[2]` is tested
  for truth).  Core Lean only.
-/
namespace Pyro.ServerLoop.Streams

/-- `(client, timestamp, linger_timestamp, stream)`; `owner = none` ⇔ the client slot is `None` (its connection ended,
    the stream lingers); `items` = what the iterator will still yield -/
structure Entry where
  owner : Option Nat
  stamp : Nat
  lingerSince : Nat
  items : List Nat
deriving DecidableEq, Repr

/-- the dict `streaming_responses`: stream id ↦ entry -/
abbrev Table := Nat → Option Entry

/-- dict update at one key (`d[k] = v` for `some v`, `d.pop(k, None)` for `none`) -/
def Table.upd (t : Table) (k : Nat) (v : Option Entry) : Table := fun j => if j = k then v else t j
/-- `d[k] = e` -/
def Table.set (t : Table) (k : Nat) (e : Entry) : Table := t.upd k (some e)
/-- `d.pop(k, None)` -/
def Table.pop (t : Table) (k : Nat) : Table := t.upd k none

/-- `info[0] is conn` for an `info = d.get(k, None)` (false for `None`: the source only asks under `info and …`) -/
def ownerIs (o : Option Entry) (conn : Nat) : Bool := match o with
  | some e => e.owner == some conn
  | none => false
/-- components of an `info` tuple that is known to be there (the transcriber only emits these under `info.isSome`) -/
def ownerOf (o : Option Entry) : Option Nat := o.bind (·.owner)
def stampOf (o : Option Entry) : Nat := (o.map (·.stamp)).getD 0
def lingerOf (o : Option Entry) : Nat := (o.map (·.lingerSince)).getD 0
def itemsOf (o : Option Entry) : List Nat := (o.map (·.items)).getD []

/-- what `_clientDisconnect(conn)` makes of ONE entry (server.py:545-558): an entry of the connection that ended is
    kept with the client slot cleared and the linger clock started (`ITER_STREAM_LINGER > 0`) or removed (`= 0`);
    every other entry is left as it is -/
def release (linger now conn : Nat) (o : Option Entry) : Option Entry := match o with
  | some e =>
    if e.owner == some conn then
      (if linger > 0 then some { owner := none, stamp := e.stamp, lingerSince := now, items := e.items } else none)
    else some e
  | none => none

/-- hand-written model of `Daemon._clientDisconnect`: every entry is `release`d; then the user hook runs (second component) -/
def clientDisconnect (linger now conn : Nat) (t : Table) : Table × Bool :=
  (fun k => release linger now conn (t k), true)

/-- the linger part of `Daemon._housekeeping` (server.py:572-579; `ITER_STREAM_LIFETIME` at its default 0): an entry whose
    linger clock runs (`info[2]` true) for longer than `ITER_STREAM_LINGER` is removed -/
def housekeeping (linger now : Nat) (t : Table) : Table := fun k => match t k with
  | some e => if linger > 0 && e.lingerSince != 0 && now - e.lingerSince > linger then none else some e
  | none => none

/-- `DaemonObject.get_next_stream_item(id)` called over connection `conn` (server.py:180-192): unknown id → error
    ("item stream terminated"); a lingering stream is re-attached to the caller; the next item is handed out, an exhausted
    stream is removed (StopIteration is raised to the caller) -/
def nextItem (conn : Nat) (id : Nat) (t : Table) : Table × Option Nat := match t id with
  | none => (t, none)
  | some e =>
    let e := if e.owner.isNone then { e with owner := some conn, lingerSince := 0 } else e
    match e.items with
    | [] => (t.pop id, none)
    | x :: rest => (t.set id { e with items := rest }, some x)

/-- what can happen to the table while a witness is in the middle of a stream -/
inductive Ev where
  | disconnect (conn now : Nat)          -- some connection ends
  | housekeep (now : Nat)                -- a housekeeping pass
  | next (conn id : Nat)                 -- some connection fetches from a stream
  | opened (conn id now : Nat) (items : List Nat)   -- a call on `conn` returned an iterator: new stream under a fresh id
deriving Repr

def step (linger : Nat) (t : Table) : Ev → Table
  | .disconnect c now => (clientDisconnect linger now c t).1
  | .housekeep now => housekeeping linger now t
  | .next c id => (nextItem c id t).1
  | .opened c id now items => if (t id).isSome then t else t.set id { owner := some c, stamp := now, lingerSince := 0, items }

def run (linger : Nat) (t : Table) (evs : List Ev) : Table := evs.foldl (step linger) t

end Pyro.ServerLoop.Streams
