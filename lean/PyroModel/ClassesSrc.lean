/-
  ClassesSrc.lean — the vocabulary of the SHALLOW transcription of Pyro5/serializers.py
  (`SerializerBase.dict_to_class`, `make_exception`, `recreate_classes`) that harness/props/c04_tr.py writes to
  PyroModel/Gen/C04Src.lean on every run (property C04).

  Each `py…` operation is the assumed meaning of ONE Python construct over the model's value type `Val`
  (trusted base: these definitions, ≈ 200 lines; the translator maps one AST node to one operation and refuses
  everything else).  Where Python's answer depends on something `Val` does not carry (hashability / membership of an
  opaque leaf, an instance as a tag) the operation says `unmodelled` — explicitly, never a default.

  Typing assumptions of the transcription (checked by the translator at the call sites it sees):
    * the parameter `data` of dict_to_class / make_exception is a `dict` (`recreate_classes` tests `type(x) is dict`,
      the wrapper branch tests `isinstance(ex, dict)` before the call), so it is the pair `ks vs`;
    * `exceptiontype` is a module attribute described by its `Kind` (extracted tables of Gen/C04.lean).

  Core Lean only (linked into the driver executable).
-/
import PyroModel.Classes

namespace Pyro.Classes.Src

open Pyro.Classes
open Pyro.Gen.C04 (Kind)

/-- the builtin container types `recreate_classes` dispatches on (`type(x) is T`) -/
inductive TypeTag
  | set | list | tuple | dict
  deriving DecidableEq, Repr

/-- the modules `getattr(<module>, name)` is applied to -/
inductive ModId
  | builtins | errors | sqlite3
  deriving DecidableEq, Repr

def modName : ModId → Str
  | .builtins => nsBuiltins
  | .errors => mErrors
  | .sqlite3 => nsSqlite3

/-- `vars(module)` with the kind of every attribute w.r.t. the base class the source tests with `issubclass`
    (builtins, sqlite3: BaseException; Pyro5.errors: PyroError — the translator checks that the base named in the source
    is that class) -/
def modTable : ModId → List (Str × Kind)
  | .builtins => Pyro.Gen.C04.builtinsKinds
  | .errors => Pyro.Gen.C04.errorsKinds
  | .sqlite3 => Pyro.Gen.C04.sqlite3Kinds

/-! ### monad helpers -/

def mapMV (f : Val → M Val) : List Val → M (List Val)
  | [] => pure []
  | x :: xs => do
    let y ← f x
    let ys ← mapMV f xs
    pure (y :: ys)

/-! ### strings -/

/-- `needle in s` for strings -/
def isInfixB (needle : Str) : Str → Bool
  | [] => needle.isEmpty
  | c :: rest => needle.isPrefixOf (c :: rest) || isInfixB needle rest

/-- first occurrence of the one-character separator -/
def splitAt1 (sep : Char) : Str → Option (Str × Str)
  | [] => none
  | c :: rest =>
    if c = sep then some ([], rest)
    else match splitAt1 sep rest with
      | some (a, b) => some (c :: a, b)
      | none => none

/-- `s.split(sep, maxsplit)` for a one-character separator -/
def splitN (sep : Char) : Nat → Str → List Str
  | 0, s => [s]
  | n + 1, s =>
    match splitAt1 sep s with
    | none => [s]
    | some (a, b) => a :: splitN sep n b

/-! ### operations on the class dict `data` (a dict: keys `ks`, values `vs`) -/

/-- `data.get(k, default)` -/
def dGet (ks : List Key) (vs : List Val) (k : Str) (dflt : Val) : Val :=
  match lookup k ks vs with
  | some v => v
  | none => dflt

/-! ### operations on a value used as the class tag -/

/-- `isinstance(v, bytes)` -/
def pyIsBytes : Val → Bool
  | .bytes _ => true
  | _ => false

/-- `v.decode("utf-8")` -/
def pyDecodeUtf8 : Val → M Val
  | .bytes b => match utf8Decode b with
    | some s => pure (.str s)
    | none => M.fail .value
  | .inst _ _ => M.fail .unmodelled
  | _ => M.fail .typeAttr

mutual
/-- `hash(v)` succeeds (opaque leaves such as frozenset: yes) -/
def hashableB : Val → Bool
  | .list _ => false
  | .set _ => false
  | .dict _ _ => false
  | .tuple xs => hashableListB xs
  | _ => true
def hashableListB : List Val → Bool
  | [] => true
  | x :: xs => hashableB x && hashableListB xs
end

/-- `v in <converter registry>` (a dict whose keys are the registered tags, all `str`): hashes `v` -/
def pyInRegistry (E : Env) : Val → M Bool
  | .str s => pure (decide (s ∈ E.reg))
  | .bytes _ => pure false
  | .atom _ _ => pure false
  | .ext _ _ _ _ => pure false
  | .tuple xs => if hashableListB xs then pure false else M.fail .typeAttr
  | .list _ => M.fail .typeAttr
  | .set _ => M.fail .typeAttr
  | .dict _ _ => M.fail .typeAttr
  | .blob _ _ => M.fail .unmodelled
  | .inst _ _ => M.fail .unmodelled

/-- `converter = registry[v]; converter(v, data)` -/
def pyConvert (tag : Val) (ks : List Key) (vs : List Val) : M Val :=
  match tag with
  | .str cn => do
    emit (.convert cn)
    pure (.inst (.custom cn) [.dict ks vs])
  | _ => M.fail .unmodelled

def strEqB (needle : Str) : Val → Bool
  | .str s => decide (s = needle)
  | _ => false

def keyEqB (needle : Str) : Key → Bool
  | .str s => decide (s = needle)
  | .other _ => false

/-- `"<needle>" in v` -/
def pyStrIn (needle : Str) : Val → M Bool
  | .str s => pure (isInfixB needle s)
  | .tuple xs => pure (xs.any (strEqB needle))
  | .list xs => pure (xs.any (strEqB needle))
  | .set xs => pure (xs.any (strEqB needle))
  | .dict ks _ => pure (ks.any (keyEqB needle))
  | .ext _ _ _ _ => pure false                     -- ExtType(code:int, data:bytes)
  | .atom _ _ => M.fail .typeAttr                  -- argument of type … is not iterable
  | .bytes _ => M.fail .typeAttr                   -- a bytes-like object is required, not 'str'
  | .blob _ _ => M.fail .unmodelled
  | .inst _ _ => M.fail .unmodelled

/-- `"<literal>" + v` -/
def pyAddStr (pre : Str) : Val → M Val
  | .str s => pure (.str (pre ++ s))
  | .inst _ _ => M.fail .unmodelled
  | _ => M.fail .typeAttr                          -- can only concatenate str

/-- `v == "<literal>"` -/
def pyEqStr (v : Val) (s : Str) : Bool := strEqB s v

/-- `v.startswith("<literal>")` -/
def pyStartsWith (v : Val) (pre : Str) : M Bool :=
  match v with
  | .str t => pure (startsWith t pre)
  | .inst _ _ => M.fail .unmodelled
  | _ => M.fail .typeAttr

/-- `v.split(sep, maxsplit)[idx]` -/
def pySplitIdx (v : Val) (sep : Char) (maxsplit idx : Nat) : M Str :=
  match v with
  | .str s => match (splitN sep maxsplit s)[idx]? with
    | some x => pure x
    | none => M.fail .lookup
  | .inst _ _ => M.fail .unmodelled
  | _ => M.fail .typeAttr

/-- `a, b = v.split(sep, maxsplit)` -/
def pySplit2 (v : Val) (sep : Char) (maxsplit : Nat) : M (Str × Str) :=
  match v with
  | .str s => match splitN sep maxsplit s with
    | [a, b] => pure (a, b)
    | _ => M.fail .value
  | .inst _ _ => M.fail .unmodelled
  | _ => M.fail .typeAttr

/-- `v in all_exceptions` (after the registry test `v` is hashable) -/
def pyInAllExc (v : Val) : Bool :=
  match v with
  | .str s => (assoc s Pyro.Gen.C04.allExceptions).isSome
  | _ => false

/-- `all_exceptions[v]` -/
def pyAllExcGet (v : Val) : M Kind :=
  match v with
  | .str s => match assoc s Pyro.Gen.C04.allExceptions with
    | some q => pure (.exc q)
    | none => M.fail .lookup
  | _ => M.fail .unmodelled

/-! ### classes and modules -/

/-- `C.__new__(C)` for one of Pyro's own classes -/
def pyNew (c : PyroCls) : M Val := do
  emit (.construct (.pyro c))
  pure (.inst (.pyro c) [])

/-- `obj.__setstate__(st)` (the object is rebound to its completed state) -/
def pySetstate (E : Env) (obj st : Val) : M Val :=
  match obj with
  | .inst (.pyro .uri) _ => uriSetstate st
  | .inst (.pyro .proxy) _ => proxySetstate E st
  | .inst (.pyro .daemon) _ => daemonSetstate st
  | _ => M.fail .unmodelled

/-- `C()` for one of Pyro's serializer classes -/
def pyCall0 (c : PyroCls) : M Val := do
  emit (.construct (.pyro c))
  pure (.inst (.pyro c) [])

/-- `core._ExceptionWrapper(ex)` -/
def pyNewWrapper (ex : Val) : M Val := do
  emit (.construct (.pyro .wrapper))
  pure (.inst (.pyro .wrapper) [ex])

/-- `getattr(<module>, name)` -/
def pyGetattr (m : ModId) (name : Str) : M Kind := do
  emit (.getattrMod (modName m) name)
  match assoc name (modTable m) with
  | none => M.fail .typeAttr
  | some k => pure k

/-- `issubclass(x, <base of the table>)` -/
def pyIssubclass : Kind → M Bool
  | .other => M.fail .typeAttr
  | .cls => pure false
  | .exc _ => pure true

/-- `import <module>` -/
def pyImport (m : Str) : M Unit := emit (.importMod m)

/-- `log.<level>(…)` -/
def pyLog : M Unit := emit .logWarn

/-- `isinstance(v, dict)` -/
def pyIsDict : Val → Bool
  | .dict _ _ => true
  | _ => false

/-- `"<k>" in v` for a `v` known to be a dict (the translator emits it only under such a guard) -/
def pyHasKeyV (k : Str) : Val → Bool
  | .dict ks vs => hasKey k ks vs
  | _ => false

/-- call of a function that takes a class dict, on a value known to be a dict -/
def pyCallDict (f : List Key → List Val → M Val) : Val → M Val
  | .dict ks vs => f ks vs
  | _ => M.fail .unmodelled

/-! ### make_exception -/

/-- `exceptiontype(*args)` -/
def pyCallStar (E : Env) (k : Kind) (args : Val) : M Val :=
  match k with
  | .exc q => do
    let xs ← lift (iterate args)
    emit (.construct (.exc q))
    checkExt (E.ext.ctorOk (.exc q) xs) .ctor
    pure (.inst (.exc q) [.tuple xs, .dict [] []])
  | _ => M.fail .unmodelled

/-- `for a, v in src.items(): setattr(obj, a, v)` (the object is rebound to its updated state) -/
def pySetattrItems (E : Env) (obj src : Val) : M Val :=
  match obj with
  | .inst c [.tuple xs, .dict ks0 vs0] =>
    match src with
    | .dict aks avs => do
      setattrs E c aks avs
      pure (.inst c [.tuple xs, .dict (ks0 ++ aks) (vs0 ++ avs)])
    | .inst _ _ => M.fail .unmodelled
    | .blob _ _ => M.fail .unmodelled
    | .ext _ _ _ _ => M.fail .unmodelled
    | _ => M.fail .typeAttr
  | _ => M.fail .unmodelled

/-! ### recreate_classes -/

/-- `type(v) is T` -/
def pyTypeIs (v : Val) (t : TypeTag) : Bool :=
  match v, t with
  | .set _, .set => true
  | .list _, .list => true
  | .tuple _, .tuple => true
  | .dict _ _, .dict => true
  | _, _ => false

/-- `{f(x) for x in v}` for a `v` known to be a set -/
def pyMapSet (f : Val → M Val) : Val → M Val
  | .set xs => do let ys ← mapMV f xs; pure (.set ys)
  | _ => M.fail .unmodelled

/-- `[f(x) for x in v]` for a `v` known to be a list -/
def pyMapList (f : Val → M Val) : Val → M Val
  | .list xs => do let ys ← mapMV f xs; pure (.list ys)
  | _ => M.fail .unmodelled

/-- `tuple(f(x) for x in v)` for a `v` known to be a tuple -/
def pyMapTuple (f : Val → M Val) : Val → M Val
  | .tuple xs => do let ys ← mapMV f xs; pure (.tuple ys)
  | _ => M.fail .unmodelled

/-- `{}` -/
def pyEmptyDict : Val := .dict [] []

/-- `for k, x in src.items(): acc[k] = f(x)` for an `src` known to be a dict (keys of a dict are distinct) -/
def pyDictMapInto (acc src : Val) (f : Val → M Val) : M Val :=
  match acc, src with
  | .dict ks0 vs0, .dict ks vs => do
    let ws ← mapMV f vs
    pure (.dict (ks0 ++ ks) (vs0 ++ ws))
  | _, _ => M.fail .unmodelled

end Pyro.Classes.Src
