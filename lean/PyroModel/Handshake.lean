/-
  Handshake.lean (C08) — `Daemon._handshake` (server.py:318-366) statement by statement, with every
  collaborator it calls as a parameter (`World`): what `recv_stub` delivers, the serializer table, what
  `loads` makes of the payload (not a dict / a dict with or without a "handshake" and an "object" entry),
  the daemon's validator, the metadata lookup of the requested object, `dumps`, the daemon's
  `annotations()` hook and `conn.send`.  Every one of them may raise; an exception is a
  ConnectionClosedError (`Err.connClosed`) or any other `Exception` (`Err.other reason`, `reason` = `str(x)`).

  `handshakeM` is the hand-written model.  `lean/PyroModel/Gen/C08Src.lean` holds `handshakeSrc`, the same
  function transcribed from the source text on every run by harness/props/c08_tr.py;
  `PyroProps/C08Src.lean` proves them equal for all worlds and relates both to `Server.handshake`.
-/
import PyroModel.Server

namespace Pyro.Handshake

open Pyro.Server (MSG_CONNECT MSG_CONNECTOK MSG_CONNECTFAIL marshalId)

inductive Err where
  | connClosed                  -- errors.ConnectionClosedError (and subclasses)
  | other (reason : String)     -- any other Exception; `reason` is str(x)
  deriving Repr, DecidableEq

/-- opaque identities (payload bytes, handshake values, object ids, serializers, metadata) -/
abbrev Blob := Nat

/-- what `recv_stub` returned -/
structure RMsg where
  type : Nat
  seq : Nat
  serId : Nat
  hasCorr : Bool          -- msg.flags & FLAGS_CORR_ID
  corrId : Blob
  data : Blob
  deriving Repr, DecidableEq

/-- what `serializer.loads(msg.data)` returned, as far as `_handshake` looks at it -/
inductive PVal where
  | notDict
  | dict (hs : Option Nat) (obj : Option Nat)     -- data.get("handshake"), data.get("object") (none = no such key)
  deriving Repr, DecidableEq

/-- what is handed to `serializer.dumps` -/
inductive DVal where
  | response (handshake : Nat) (md : Nat)       -- {"handshake": <validator's answer>, "meta": <metadata>}
  | reason (s : String)                           -- str(x)
  deriving Repr, DecidableEq

structure OutMsg where
  type : Nat
  flags : Nat
  seq : Nat
  serId : Nat
  data : Blob
  ann : Nat
  deriving Repr, DecidableEq

inductive Corr where
  | unset | ofMsg (b : Blob) | fresh
  deriving Repr, DecidableEq

/-- the fields of `current_context` the function writes -/
structure Ctx where
  annCleared : Bool := false
  corr : Corr := .unset
  deriving Repr, DecidableEq

structure World where
  recv : List Nat → Except Err RMsg          -- protocol.recv_stub(conn, accepted types)
  serializers : Nat → Option Nat             -- serializers.serializers_by_id
  loads : Nat → Blob → Except Err PVal       -- <serializer>.loads(data)
  validate : Nat → Except Err Nat            -- self.validateHandshake(conn, data["handshake"])
  metadata : Nat → Except Err Nat            -- self.objectsById[DAEMON_NAME].get_metadata(data["object"])
  dumps : Nat → DVal → Except Err Blob       -- <serializer>.dumps(value)
  annotations : Except Err Nat               -- self.__annotations()
  send : OutMsg → Except Err Unit            -- conn.send(msg.data)

/-- `serializers.serializers_by_id[k]`: a missing key raises KeyError(k) -/
def World.serializer (w : World) (k : Nat) : Except Err Nat :=
  match w.serializers k with
  | none => .error (.other (toString k))
  | some s => .ok s

def PVal.isDict : PVal → Bool
  | .notDict => false
  | .dict _ _ => true

/-- `data[key]` for the two keys the function reads: a missing key raises KeyError(key), whose text is the quoted key -/
def PVal.item (p : PVal) (key : String) : Except Err Nat :=
  match p with
  | .notDict => .error (.other "not subscriptable")
  | .dict hs obj =>
    match (if key == "handshake" then hs else if key == "object" then obj else none) with
    | some v => .ok v
    | none => .error (.other ("'" ++ key ++ "'"))

/-- truthiness of the `denied_reason` argument (None / "" : no) -/
def truthy : Option String → Bool
  | some s => s != ""
  | none => false

def strOf : Option String → String
  | some s => s
  | none => "None"

structure Result where
  cc : Ctx
  sent : List OutMsg
  ret : Bool
  deriving Repr, DecidableEq

/-- the tail of the function: build the reply, send it, `return msg.type == MSG_CONNECTOK` (server.py:361-366) -/
def finish (w : World) (cc : Ctx) (msgtype seq serId : Nat) (data : Blob) : Except Err Result :=
  match w.annotations with
  | .error e => .error e
  | .ok ann =>
    let m : OutMsg := ⟨msgtype, 0, seq, serId, data, ann⟩
    match w.send m with
    | .error e => .error e
    | .ok _ => .ok ⟨cc, [m], m.type == MSG_CONNECTOK⟩

/-- the two `except` clauses (server.py:350-360), entered with the values `msg_seq` and `serializer_id`
    had when the exception was raised -/
def failWith (w : World) (cc : Ctx) (e : Err) (seq serId : Nat) : Except Err Result :=
  match e with
  | .connClosed => .ok ⟨cc, [], false⟩
  | .other reason =>
    let serId' := if (w.serializers serId).isNone then marshalId else serId
    match w.serializer serId' with
    | .error e => .error e             -- (cannot happen when the marshal serializer exists: `C08_hs_never_raises`)
    | .ok ser =>
      match w.dumps ser (.reason reason) with
      | .error e => .error e
      | .ok data => finish w cc MSG_CONNECTFAIL seq serId' data

/-- `Daemon._handshake(conn, denied_reason)`; `.error` = the exception leaves the function -/
def handshakeM (w : World) (denied : Option String) : Except Err Result :=
  let cc : Ctx := { annCleared := true }
  match w.recv [MSG_CONNECT] with
  | .error e => failWith w cc e 0 marshalId
  | .ok m =>
    if truthy denied then failWith w cc (.other (strOf denied)) m.seq marshalId
    else
      let cc : Ctx := { cc with corr := if m.hasCorr then .ofMsg m.corrId else .fresh }
      match w.serializer m.serId with
      | .error e => failWith w cc e m.seq m.serId
      | .ok ser =>
        match w.loads ser m.data with
        | .error e => failWith w cc e m.seq m.serId
        | .ok .notDict => failWith w cc (.other "handshake data is not a dict") m.seq m.serId
        | .ok (.dict hs obj) =>
          match hs with
          | none => failWith w cc (.other "'handshake'") m.seq m.serId
          | some h =>
            match w.validate h with
            | .error e => failWith w cc e m.seq m.serId
            | .ok r =>
              match obj with
              | none => failWith w cc (.other "'object'") m.seq m.serId
              | some o =>
                match w.metadata o with
                | .error e => failWith w cc e m.seq m.serId
                | .ok md =>
                  match w.dumps ser (.response r md) with
                  | .error e => failWith w cc e m.seq m.serId
                  | .ok data => finish w cc MSG_CONNECTOK m.seq m.serId data

/-! ### the world a first `Item` of `Server.lean` stands for -/

open Pyro.Server in
/-- recv_stub on the next item: a cut stream raises ConnectionClosedError, garbage / a timeout / a message of
    a type that is not accepted raise another CommunicationError -/
def recvOf (it : Item) (accepted : List Nat) : Except Err RMsg :=
  match it with
  | .cut => .error .connClosed
  | .garbage => .error (.other "invalid data or unsupported protocol version")
  | .timeout => .error (.other "receiving: timeout")
  | .msg m =>
    if accepted.contains m.type then .ok ⟨m.type, m.seq, m.serId, false, 0, 0⟩
    else .error (.other "invalid msg type received")

open Pyro.Server in
def payloadOf (it : Item) : Except Err PVal :=
  match it with
  | .msg m =>
    match m.body with
    | .undecodable _ => .error (.other "undecodable")
    | .call _ => .ok .notDict                      -- a call payload is a tuple / list
    | .handshake false _ _ => .ok .notDict
    | .handshake true ok v =>
      .ok (.dict (some (match v with | .accept => 0 | .raises => 1 | .unserialisableReply => 2)) (some (if ok then 0 else 1)))
  | _ => .error (.other "no message")

open Pyro.Server in
/-- the collaborators as `Server.lean`'s history items describe them: serializers 1..4, a validator that
    raises for handshake value 1 and returns something no serializer can dump for 2, one registered object (0) -/
def worldOf (it : Item) : World where
  recv := recvOf it
  serializers := fun id => if knownSerializer id then some id else none
  loads := fun _ _ => payloadOf it
  validate := fun h => if h = 1 then .error (.other "validator says no") else .ok h
  metadata := fun o => if o = 0 then .ok 0 else .error (.other "unknown object")
  dumps := fun _ v => match v with
    | .response 2 _ => .error (.other "cannot serialize")
    | _ => .ok 0
  annotations := .ok 0
  send := fun _ => .ok ()

open Pyro.Server in
/-- projection of a result onto what `Server.handshake` reports: the reply (type, seq, serializer) and the flag -/
def abstract (r : Except Err Result) : Option (Option Reply × Bool) :=
  match r with
  | .error _ => none
  | .ok res =>
    match res.sent with
    | [] => some (none, res.ret)
    | [m] => some (some ⟨m.type, m.seq, m.serId, false, []⟩, res.ret)
    | _ => none

end Pyro.Handshake
