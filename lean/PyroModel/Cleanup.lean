/-
  Cleanup.lean (C13) — one poll round of the multiplex server:
    `eventsModel`  ↔ svr_multiplex.SocketServer_Multiplex.events (svr_multiplex.py:73-93)

  A round hands `events` a LIST of ready sockets.  Each is an `Ev`: the listening socket (with what
  `_handleConnection` returns for it: a new connection or None) or a client connection (with what
  `handleRequest` returns for it: still active or not).  What those collaborators do is part of the
  input the theorems quantify over; the state records, per kind of cleanup call, FOR WHICH connection it
  was made, in order (`hookLog`, `unregLog`, `closeLog`), so that "exactly once for the ended
  connection, never for a live one" is a statement about these logs.

  The second half is the vocabulary (`Stmt` combinators) of the shallow embedding that
  harness/props/c13_tr.py emits for the source text of `events` on every run (Gen/C13Src.lean).
-/
namespace Pyro.Cleanup

/-- what can escape the daemon's disconnect handling (the user hook): an `Exception` subclass or a
    `BaseException` that is not an `Exception` (KeyboardInterrupt, SystemExit) -/
inductive Exc where
  | user | base
  deriving Repr, DecidableEq

/-- one ready socket of a poll round -/
structure Ev where
  isListener : Bool
  id : Nat := 0                    -- the connection (ignored for the listening socket)
  accepted : Option Nat := none    -- listener: `_handleConnection` returns this connection (handshake passed) or None
  active : Bool := true            -- connection: what `handleRequest(s)` returns
  setsShutdown : Bool := false     -- while this socket is handled `shutting_down` becomes true
  deriving Repr, DecidableEq

structure Mux where
  registered : List Nat := []      -- the selector's map
  handled : List Nat := []         -- handleRequest(conn) calls, in order
  hookLog : List Nat := []         -- daemon._clientDisconnect(conn) calls, in order
  unregLog : List Nat := []        -- selector.unregister(conn) calls
  closeLog : List Nat := []        -- conn.close() calls
  housekeepings : Nat := 0
  shuttingDown : Bool := false
  deriving Repr, DecidableEq

inductive Res where
  | ok (m : Mux)                   -- fell off the end
  | ret (m : Mux)                  -- `return`
  | raise (x : Exc) (m : Mux)
  deriving Repr, DecidableEq

/-- what the disconnect handling of connection `c` does after it was entered: returns / raises -/
abbrev HookBehaviour := Nat → Option Exc

/-! ### the hand-written model -/

/-- `_clientDisconnect(c)` inside `try … except Exception` (errors are only logged), `unregister`, `close` -/
def drop (hr : HookBehaviour) (c : Nat) (m : Mux) : Res :=
  let m := { m with hookLog := m.hookLog ++ [c] }
  match hr c with
  | some .base => .raise .base m                       -- not an Exception: propagates out of events()
  | _ => .ok { m with unregLog := m.unregLog ++ [c], registered := m.registered.erase c, closeLog := m.closeLog ++ [c] }

/-- the body of the loop for one ready socket (svr_multiplex.py:76-92) -/
def evBody (hr : HookBehaviour) (e : Ev) (m : Mux) : Res :=
  if m.shuttingDown then .ret m
  else if e.isListener then
    let m := { m with shuttingDown := m.shuttingDown || e.setsShutdown }
    match e.accepted with
    | some c => .ok { m with registered := m.registered ++ [c] }
    | none => .ok m
  else
    let m := { m with handled := m.handled ++ [e.id], shuttingDown := m.shuttingDown || e.setsShutdown }
    if e.active then .ok m else drop hr e.id m

/-- `events(eventsockets)`: the loop, then `_housekeeping()` -/
def eventsModel (hr : HookBehaviour) : Mux → List Ev → Res
  | m, [] => .ok { m with housekeepings := m.housekeepings + 1 }
  | m, e :: es =>
    match evBody hr e m with
    | .ok m' => eventsModel hr m' es
    | r => r

def Res.state : Res → Mux
  | .ok m | .ret m | .raise _ m => m

/-- the connections that ended in this round, in the order in which they were reported -/
def ended (evs : List Ev) : List Nat := (evs.filter (fun e => !e.isListener && !e.active)).map (·.id)
/-- the client connections reported ready in this round -/
def readyConns (evs : List Ev) : List Nat := (evs.filter (fun e => !e.isListener)).map (·.id)

/-! ### vocabulary of the transcription (harness/props/c13_tr.py) -/

abbrev Stmt := Mux → Res

def skip : Stmt := fun m => .ok m
def ret : Stmt := fun m => .ret m
def seq (a b : Stmt) : Stmt := fun m => match a m with
  | .ok m' => b m'
  | r => r
def ifB (c : Mux → Bool) (a b : Stmt) : Stmt := fun m => if c m then a m else b m
/-- `if conn:` on the result of `_handleConnection` (a connection object is truthy, None is not) -/
def ifTruthy (o : Option Nat) (a : Nat → Stmt) (b : Stmt) : Stmt := match o with
  | some c => a c
  | none => b
/-- `v = self._handleConnection(self.sock)` while ready socket `e` is handled -/
def acceptThen (e : Ev) (k : Option Nat → Stmt) : Stmt := fun m =>
  k e.accepted { m with shuttingDown := m.shuttingDown || e.setsShutdown }
/-- `v = self.handleRequest(s)` -/
def handleThen (e : Ev) (k : Bool → Stmt) : Stmt := fun m =>
  k e.active { m with handled := m.handled ++ [e.id], shuttingDown := m.shuttingDown || e.setsShutdown }
/-- `self.daemon._clientDisconnect(c)` -/
def callHook (hr : HookBehaviour) (c : Nat) : Stmt := fun m =>
  let m := { m with hookLog := m.hookLog ++ [c] }
  match hr c with
  | none => .ok m
  | some x => .raise x m
/-- `try: body  except T: handler` — `catchUser` = T catches every Exception subclass, `catchBase` = T catches BaseException -/
def tryExcept (body : Stmt) (catchUser catchBase : Bool) (handler : Stmt) : Stmt := fun m => match body m with
  | .raise x m' => if (match x with | .user => catchUser | .base => catchBase) then handler m' else .raise x m'
  | r => r
def register (c : Nat) : Stmt := fun m => .ok { m with registered := m.registered ++ [c] }
def unregister (c : Nat) : Stmt := fun m => .ok { m with unregLog := m.unregLog ++ [c], registered := m.registered.erase c }
def closeConn (c : Nat) : Stmt := fun m => .ok { m with closeLog := m.closeLog ++ [c] }
def housekeeping : Stmt := fun m => .ok { m with housekeepings := m.housekeepings + 1 }
/-- `for v in eventsockets: body` -/
def forEach : List Ev → (Ev → Stmt) → Stmt
  | [], _ => fun m => .ok m
  | e :: es, body => fun m => match body e m with
    | .ok m' => forEach es body m'
    | r => r

end Pyro.Cleanup
