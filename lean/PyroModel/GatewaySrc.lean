/-
  GatewaySrc.lean — the vocabulary of the transcription of Pyro5/utils/httpgateway.py that
  harness/props/c20_tr.py writes into PyroModel/Gen/C20Src.lean on every run (property C20).

  One definition per Python construct the translator understands, over the value types of
  PyroModel/Gateway.lean (`str` = `Str`, the parameter dict = `Params`, a dict value that is a `str` or
  a `list` = `PVal`, `None | bytes` = `Option Bytes`, `None | str` = `Option Str`).  Nothing here
  mentions the hand-written decision functions of the model (`keyOK`, `patternOK`, `forwardParams`,
  `process`, `app`, `singlyfy`): that the transcription computes the same is proved in
  PyroProps/C20Src.lean.  Core Lean only (linked into drv_c20).
-/
import PyroModel.Gateway

namespace Pyro.Gateway.Src

open Pyro Pyro.Gateway

/-- truth value of a `str` -/
def truthy (s : Str) : Bool := !s.isEmpty

/-- truth value of `None | bytes` -/
def truthyB : Option Bytes → Bool
  | none => false
  | some b => !b.isEmpty

/-- `s.lstrip(chars)` -/
def lstrip (chars : Str) : Str → Str
  | [] => []
  | c :: rest => if chars.contains c then lstrip chars rest else c :: rest

/-- `s.startswith(p)` -/
def startswith (s p : Str) : Bool := p.isPrefixOf s

/-- `s[n:]` for a constant `n ≥ 0` -/
def sliceFrom (s : Str) (n : Nat) : Str := s.drop n

/-- `x in (a, b, ...)` for a tuple of `str` -/
def strIn (x : Str) (l : List Str) : Bool := l.contains x

/-- `x in s` for two `str`: `x` occurs in `s` as a contiguous substring -/
def substr (x : Str) : Str → Bool
  | [] => x.isEmpty
  | c :: rest => x.isPrefixOf (c :: rest) || substr x rest

/-- `d.get(k, dflt)` on the parameter dict -/
def getP (k : Str) (ps : Params) (dflt : PVal) : PVal :=
  match lookupP k ps with
  | some v => v
  | none => dflt

/-- `k in d` on the parameter dict -/
def hasP (k : Str) (ps : Params) : Bool := (lookupP k ps).isSome

/-- `a or b` where `a` is a `str` and `b` a `str | list` -/
def orP (a : Str) (b : PVal) : PVal := if truthy a then .one a else b

/-- the `try:` block of process_pyro_request, which the transcription does not open: the reply and
    action log of `forward` for the object name, member name and parameter dict that reach it -/
def fwd (be : Backend) (req : Req) (obj member : Str) (ps : Params) : Reply × List Action :=
  let r := forward be req obj member ps
  (.http r.1, r.2)

end Pyro.Gateway.Src
