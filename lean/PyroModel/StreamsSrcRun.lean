/-
  StreamsSrcRun.lean — the server's step function assembled from the TRANSCRIBED functions
  (`Pyro.Gen.C10.Src.*`, regenerated from Pyro5/server.py on every run) instead of the hand-written
  `doOpen/doNext/doClose/doDisconnect/doHousekeeping` of Streams.lean.  Used by the driver (every
  correspondence history is also run through it) and by `PyroProps/C10Src.lean` (`stepSrc = step`).
-/
import PyroModel.Streams
import PyroModel.StreamsSrc
import PyroModel.Gen.C10

namespace Pyro.Streams

open Pyro.Gen.C10.Src

/-- the outcome of the transcribed function that the operation calls (`tick` is the harness's clock, no source) -/
def srcOut (cfg : Settings) (st : State) : Op → Src.Out
  | .open conn (.iter items) => streamResponseSrc cfg st.table st.now st.nextId conn true true false items
  | .open conn .plain => streamResponseSrc cfg st.table st.now st.nextId conn false false false []
  | .next id conn => getNextStreamItemSrc st.table id conn
  | .close id => closeStreamSrc st.table id
  | .disconnect conn => clientDisconnectSrc cfg st.table st.now conn
  | .housekeeping => housekeepingSrc cfg false st.table st.now
  | .tick _ => (st.table, .ok .none)

/-- one operation, computed by the transcription: new state and the raw outcome.  A fresh id is used up exactly
    when the function handed it out (`uuid4` freshness: the counter of the model). -/
def stepSrc (cfg : Settings) (st : State) (op : Op) : State × Except Src.Exc Src.Val :=
  let o := srcOut cfg st op
  ({ table := o.1,
     now := (match op with | .tick dt => st.now + dt | _ => st.now),
     nextId := (match op, o.2 with | .open _ _, .ok (.flagId _ _) => st.nextId + 1 | _, _ => st.nextId) }, o.2)

/-- a history through the transcription: final state, replies (`none`: an outcome the model has no reply for) -/
def execSrc (cfg : Settings) : State → List Op → State × List (Op × Option Res)
  | st, [] => (st, [])
  | st, op :: ops =>
    let p := stepSrc cfg st op
    let q := execSrc cfg p.1 ops
    (q.1, (op, Src.toRes p.2) :: q.2)

/-- driver check: does the transcription give, on this history, the replies and the final table of the model? -/
def srcAgrees (cfg : Settings) (st : State) (ops : List Op) : Bool :=
  let a := exec cfg st ops
  let b := execSrc cfg st ops
  decide (a.1 = b.1) && decide (a.2.map (fun e => (e.1, some e.2)) = b.2)

end Pyro.Streams
