/-
  Server.lean — model of the daemon's per-connection protocol logic:
    `handshake`      ↔ Daemon._handshake                         (server.py:318-366)
    `handleRequest`  ↔ Daemon.handleRequest                      (server.py:383-524)
    `connEvent`      ↔ the per-connection life cycle of both transports:
                         svr_threads.ClientConnectionJob.__call__ / handleConnection (34-77)
                         svr_multiplex.SocketServer_Multiplex.events / _handleConnection / handleRequest (73-185)
                       and socketutil.SocketConnection.close       (socketutil.py:437-448)

  What arrives on a connection is an `Item`: the outcome of `recv_stub` on the next bytes of the
  stream (the byte level is C06/C17).  Methods of registered objects are data (`Method`): what they
  do is part of the history the theorems quantify over.
-/

namespace Pyro.Server

def MSG_CONNECT : Nat := 1
def MSG_CONNECTOK : Nat := 2
def MSG_CONNECTFAIL : Nat := 3
def MSG_INVOKE : Nat := 4
def MSG_RESULT : Nat := 5
def MSG_PING : Nat := 6
def marshalId : Nat := 2
def knownSerializer (id : Nat) : Bool := id == 1 || id == 2 || id == 3 || id == 4

/-- exception classes as the except-ladders of handleRequest and the transports distinguish them -/
inductive Exc where
  | generic        -- any other Exception subclass
  | serialize      -- errors.SerializeError (a CommunicationError that IS reported to the client)
  | connClosed     -- errors.ConnectionClosedError
  | commOther      -- TimeoutError / ProtocolError / other CommunicationError
  | security       -- errors.SecurityError
  deriving Repr, DecidableEq

/-- what `serializer.dumps(result)` does: fine, raises SerializeError, raises anything else
    (which one depends on the serializer and the value: a parameter supplied by the history) -/
inductive Dump where
  | ok | serializeErr | otherErr
  deriving Repr, DecidableEq

inductive Outcome where
  | returnsStream           -- the method returns an iterator / generator: registered as an item stream, answered
                            -- with an exception-flagged ITEMSTREAMRESULT reply; the connection stays open
  | returns (d : Dump)
  | raises (e : Exc) (serialisable : Bool)
  deriving Repr, DecidableEq

/-- one invocation of a method of a registered object -/
structure Method where
  token : Nat                 -- identifies this invocation in the execution log
  outcome : Outcome
  isCallback : Bool := false
  setsAnn : List Nat := []    -- response annotation keys the method sets
  tracks : List Nat := []     -- resources it tracks on the connection
  untracks : List Nat := []
  session : Bool := false     -- the target is an instance_mode="session" class: an instance is kept on the connection
  deriving Repr, DecidableEq

inductive Target where
  | unknownObject
  | refused                   -- member not exposed / private: the gate raises AttributeError
  | method (m : Method)
  deriving Repr, DecidableEq

inductive Validator where
  | accept | raises | unserialisableReply
  deriving Repr, DecidableEq

inductive Body where
  | undecodable (reraised : Bool := false)
      -- the payload cannot be turned into a call: the deserialiser raises; `reraised` = it raises a
      -- CommunicationError (SerializeError) or SecurityError, which handleRequest reports AND re-raises
  | handshake (wellFormed : Bool) (objKnown : Bool) (v : Validator)
  | call (t : Target)
  deriving Repr, DecidableEq

structure InMsg where
  type : Nat
  serId : Nat
  seq : Nat
  oneway : Bool := false
  body : Body
  deriving Repr, DecidableEq

/-- what `recv_stub` meets next on the connection -/
inductive Item where
  | msg (m : InMsg)     -- a complete, well-formed message
  | garbage             -- header fails validation / declares too much: ProtocolError without pyroMsg
  | cut                 -- stream ends (eof at or inside a message) or is reset: ConnectionClosedError
  | timeout             -- TimeoutError
  deriving Repr, DecidableEq

structure Reply where
  type : Nat
  seq : Nat
  serId : Nat
  isExc : Bool
  anns : List Nat
  deriving Repr, DecidableEq

inductive Phase where
  | fresh | active | closed
  deriving Repr, DecidableEq

structure Conn where
  phase : Phase := .fresh
  outbox : List Reply := []
  execs : List Nat := []         -- tokens of methods run on behalf of this connection, in order
  hookCalls : Nat := 0           -- daemon.clientDisconnect(conn) invocations
  closeCalls : Nat := 0          -- SocketConnection.close() invocations
  tracked : List Nat := []       -- resources currently tracked (set semantics: no duplicates)
  resClosed : List Nat := []     -- every resource.close() call made by the connection's close()
  sessionInst : Bool := false    -- holds session instances
  slot : Bool := false           -- worker busy with it / registered with the selector
  deriving Repr, DecidableEq

/-- result of `_handshake`: reply sent (if any) and the returned boolean -/
def handshake (it : Item) : Option Reply × Bool :=
  match it with
  | .cut => (none, false)                                        -- ConnectionClosedError: return False
  | .garbage => (some ⟨MSG_CONNECTFAIL, 0, marshalId, false, []⟩, false)
  | .timeout => (some ⟨MSG_CONNECTFAIL, 0, marshalId, false, []⟩, false)
  | .msg m =>
    if m.type ≠ MSG_CONNECT then
      -- recv_stub raises ProtocolError before msg_seq / serializer_id are taken from the message
      (some ⟨MSG_CONNECTFAIL, 0, marshalId, false, []⟩, false)
    else if !knownSerializer m.serId then
      -- unknown serializer id: the failure is reported with the marshal serializer
      (some ⟨MSG_CONNECTFAIL, m.seq, marshalId, false, []⟩, false)
    else match m.body with
      | .handshake true true .accept => (some ⟨MSG_CONNECTOK, m.seq, m.serId, false, []⟩, true)
      | _ => (some ⟨MSG_CONNECTFAIL, m.seq, m.serId, false, []⟩, false)

/-- what `handleRequest` does with one item on an active connection:
    reply sent (if any), tokens executed, resource tracking changes, and whether it raised
    (the transports close the connection on every exception). -/
structure ReqResult where
  reply : Option Reply := none
  execs : List Nat := []
  tracks : List Nat := []
  untracks : List Nat := []
  session : Bool := false
  raised : Bool := false
  deriving Repr, DecidableEq

def errReply (m : InMsg) : Reply := ⟨MSG_RESULT, m.seq, m.serId, true, []⟩

def handleRequest (it : Item) : ReqResult :=
  match it with
  | .cut | .garbage | .timeout => { raised := true }             -- recv_stub raised a CommunicationError
  | .msg m =>
    if m.type = MSG_PING then { reply := some ⟨MSG_PING, m.seq, m.serId, false, []⟩ }
    else if m.type ≠ MSG_INVOKE then { raised := true }          -- ProtocolError from the type filter
    else if !knownSerializer m.serId then
      -- KeyError; the error reply needs the same unknown serializer and fails too, unless oneway
      if m.oneway then {} else { raised := true }
    else match m.body with
      | .undecodable reraised =>
        if m.oneway then { raised := reraised } else { reply := some (errReply m), raised := reraised }
      | .handshake _ _ _ =>
        if m.oneway then {} else { reply := some (errReply m) }
      | .call .unknownObject | .call .refused =>
        if m.oneway then {} else { reply := some (errReply m) }
      | .call (.method md) =>
        if m.oneway then
          -- runs in its own thread; nothing is sent, nothing can propagate
          { execs := [md.token], tracks := md.tracks, untracks := md.untracks, session := md.session }
        else match md.outcome with
          | .returnsStream =>
            { reply := some (errReply m), execs := [md.token], tracks := md.tracks, untracks := md.untracks,
              session := md.session }
          | .returns .ok =>
            { reply := some ⟨MSG_RESULT, m.seq, m.serId, false, md.setsAnn⟩, execs := [md.token],
              tracks := md.tracks, untracks := md.untracks, session := md.session }
          | .returns .otherErr =>   -- serializer.dumps(data) raises some Exception: reported like any error
            { reply := some (errReply m), execs := [md.token], tracks := md.tracks, untracks := md.untracks, session := md.session,
              raised := md.isCallback }     -- `isCallback` was set before the call: any later exception is re-raised
          | .returns .serializeErr =>   -- ... raises SerializeError (a CommunicationError): reported, then re-raised
            { reply := some (errReply m), execs := [md.token], tracks := md.tracks, untracks := md.untracks,
              session := md.session, raised := true }
          | .raises e _ =>
            let reply := match e with
              | .connClosed | .commOther => none
              | _ => some (errReply m)
            let reraise := md.isCallback || (match e with
              | .generic => false
              | _ => true)
            { reply := reply, execs := [md.token], tracks := md.tracks, untracks := md.untracks,
              session := md.session, raised := reraise }

def addTracked (cur add : List Nat) : List Nat := add.foldl (fun c r => if c.contains r then c else c ++ [r]) cur
def delTracked (cur del : List Nat) : List Nat := cur.filter (fun r => !del.contains r)

/-- SocketConnection.close(): release session instances, close every tracked resource, clear -/
def Conn.close (c : Conn) : Conn :=
  { c with closeCalls := c.closeCalls + 1, resClosed := c.resClosed ++ c.tracked, tracked := [],
           sessionInst := false }

/-- one item arriving on a connection, through the transport's life cycle (same for both transports) -/
def connEvent (c : Conn) (it : Item) : Conn :=
  match c.phase with
  | .closed => c                                                  -- nothing is read any more
  | .fresh =>
    let (reply, ok) := handshake it
    let c := { c with outbox := c.outbox ++ reply.toList }
    if ok then { c with phase := .active, slot := true }
    else { c.close with phase := .closed }                        -- closed, no disconnect hook
  | .active =>
    let r := handleRequest it
    let c := { c with outbox := c.outbox ++ r.reply.toList, execs := c.execs ++ r.execs,
                      tracked := delTracked (addTracked c.tracked r.tracks) r.untracks,
                      sessionInst := c.sessionInst || r.session }
    if r.raised then
      -- finally / inactive: disconnect hook, release the slot, close
      { ({ c with hookCalls := c.hookCalls + 1, slot := false }).close with phase := .closed }
    else c

/-- the daemon: connection records by id; an event is (connection id, item) -/
abbrev Daemon := List Conn

def step (d : Daemon) (ev : Nat × Item) : Daemon :=
  match d[ev.1]? with
  | some c => d.set ev.1 (connEvent c ev.2)
  | none => d

def run (d : Daemon) (evs : List (Nat × Item)) : Daemon := evs.foldl step d

end Pyro.Server
