/-
  PyroModel/Expose.lean — executable model of Pyro5's server-side exposure gate (property C02).

  Follows Pyro5/server.py:
    is_private_attribute (42-50), oneway (65-70), expose (76-120),
    Daemon.handleRequest dispatch branches (439-494 + the reply / exception part 498-524),
    _get_attribute (880-893), _get_exposed_members (907-955),
    _get_exposed_property_value / _set_exposed_property_value (973-997).

  A class shape is *built by model versions of the decorators* (`buildFn`, `buildMember`, `exposeClass`),
  so exposure marks arise as in the code.  Every function record carries an effect id; every gate returns
  the list of effect ids of the target code it ran ("effect log").

  Python facts that are modelled (object model, not Pyro code): attribute lookup on an instance
  (data descriptor of the type > instance __dict__ > other attribute of the type, types searched in MRO
  order), evaluation of a property by `getattr(obj, name)`, `getattr(cls, name)` returning the property
  object itself, `_pyroExposed` of a bound method being that of its function and of an instance / a class
  being the class attribute set by `expose(cls)`.

  The three booleans of `Cfg` are *extracted from the current source* (PyroModel/Gen/C02.lean): whether
  `_get_attribute` refuses data descriptors of the type before touching the instance, and whether the two
  property gates test the name with `is_private_attribute`.  The theorems need all three to be true.
-/
import PyroModel.Gen.C02

namespace Pyro.Expose

/-- attribute / member names: Python `str` as a list of code points -/
abbrev Name := List Nat

/-- server.py:42-50 `is_private_attribute`, with the reserved table as a parameter -/
def isPrivateWith (reserved : List Name) (n : Name) : Bool :=
  if reserved.contains n then true                       -- if attr_name in _private_dunder_methods
  else if n.head? != some 95 then false                  -- if not attr_name.startswith('_')
  else if n.length > 4 && n.take 2 == [95, 95] && n.drop (n.length - 2) == [95, 95] then false
  else true

/-- `is_private_attribute` with the table extracted from the source -/
def isPrivate (n : Name) : Bool := isPrivateWith Pyro.Gen.C02.reservedDunders n

/-- exception classes / messages the gates produce (canonical enum of the correspondence run) -/
inductive Err
  | priv        -- AttributeError "attempt to access private attribute"
  | unexposed   -- AttributeError "attempt to access unexposed attribute"
  | unprop      -- AttributeError "attempt to access unexposed or unknown remote attribute"
  | attr        -- any other AttributeError (unknown attribute, int has no startswith, property without getter, ...)
  | type        -- TypeError (unhashable name, attribute name must be string)
  | index       -- IndexError (vargs too short for __getattr__/__setattr__)
  deriving DecidableEq, Repr

/-- a function object: `__name__`, effect id, the two marks -/
structure Fn where
  fname : Name
  fid : Nat
  exposed : Bool      -- _pyroExposed
  oneway : Bool       -- _pyroOneway
  deriving DecidableEq, Repr

/-- a helper class (nested helper object): optional `__call__`, `__init__` always logs -/
structure Helper where
  exposed : Bool      -- @expose on the helper class: sets Helper._pyroExposed
  hasCall : Bool
  callId : Nat
  initId : Nat
  deriving DecidableEq, Repr

/-- plain attribute values -/
inductive Val
  | data                 -- an int
  | inst (h : Helper)    -- an instance of a helper class
  | cls (h : Helper)     -- a helper class itself
  | fn (f : Fn)          -- a plain function object stored as a value (instance attribute `obj.k = f`)
  deriving DecidableEq, Repr

inductive Member
  | func (f : Fn)                        -- plain function in the class dict (instance method)
  | static (f : Fn)                      -- staticmethod(f)
  | clsm (f : Fn)                        -- classmethod(f)
  | prop (g s d : Option Fn)             -- property(fget, fset, fdel)
  | attr (v : Val)                       -- plain class attribute
  deriving DecidableEq, Repr

structure Class where
  members : List (Name × Member)         -- own __dict__
  deriving DecidableEq, Repr

structure Shape where
  mro : List Class                       -- type(obj).__mro__ without `object`, most derived first
  inst : List (Name × Val)               -- obj.__dict__
  deriving DecidableEq, Repr

/-! ### declarations and the decorators -/

structure FnDecl where
  fname : Name
  fid : Nat
  expose : Bool        -- @expose applied to the function itself
  oneway : Bool        -- @oneway applied to the function
  deriving DecidableEq, Repr

inductive MemberDecl
  | func (f : FnDecl)
  | static (f : FnDecl)                  -- staticmethod(expose?(f))  (decorators in the documented order)
  | clsm (f : FnDecl)
  | prop (exposeProp : Bool) (g s d : Option FnDecl)   -- expose?(property(g, s, d))
  | attr (v : Val)
  deriving DecidableEq, Repr

structure ClassDecl where
  exposeClass : Bool                     -- @expose on the class
  members : List (Name × MemberDecl)
  deriving DecidableEq, Repr

/-- server.py:65-70 oneway, 88-98 + 119 expose on a function: refuses a private `__name__` -/
def buildFn (d : FnDecl) : Except Err Fn :=
  if d.expose && isPrivate d.fname then .error .priv
  else .ok { fname := d.fname, fid := d.fid, exposed := d.expose, oneway := d.oneway }

def buildOptFn : Option FnDecl → Except Err (Option Fn)
  | none => .ok none
  | some d => match buildFn d with
    | .ok f => .ok (some f)
    | .error e => .error e

/-- `v.fget or v.fset or v.fdel` -/
def primary (g s d : Option Fn) : Option Fn :=
  match g with
  | some f => some f
  | none => match s with
    | some f => some f
    | none => d

def markFn (f : Fn) : Fn := { f with exposed := true }

/-- server.py:82-87 expose on a data descriptor: marks `fget or fset or fdel` only -/
def exposeProp (g s d : Option Fn) : Except Err Member :=
  match g with
  | some f => if isPrivate f.fname then .error .priv else .ok (.prop (some (markFn f)) s d)
  | none => match s with
    | some f => if isPrivate f.fname then .error .priv else .ok (.prop none (some (markFn f)) d)
    | none => match d with
      | some f => if isPrivate f.fname then .error .priv else .ok (.prop none none (some (markFn f)))
      | none => .error .attr            -- None.__name__

def buildMember : MemberDecl → Except Err Member
  | .func f => match buildFn f with
    | .ok f => .ok (.func f)
    | .error e => .error e
  | .static f => match buildFn f with
    | .ok f => .ok (.static f)
    | .error e => .error e
  | .clsm f => match buildFn f with
    | .ok f => .ok (.clsm f)
    | .error e => .error e
  | .prop ex g s d =>
    match buildOptFn g, buildOptFn s, buildOptFn d with
    | .ok g, .ok s, .ok d => if ex then exposeProp g s d else .ok (.prop g s d)
    | .error e, _, _ => .error e
    | _, .error e, _ => .error e
    | _, _, .error e => .error e
  | .attr v => .ok (.attr v)

def buildMembers : List (Name × MemberDecl) → Except Err (List (Name × Member))
  | [] => .ok []
  | (k, m) :: rest =>
    match buildMember m with
    | .error e => .error e
    | .ok m' => match buildMembers rest with
      | .error e => .error e
      | .ok rest' => .ok ((k, m') :: rest')

/-- server.py:102-116: what `expose(cls)` does to one entry of the class's own dict -/
def markMember : Member → Member
  | .func f => .func (markFn f)
  | .static f => .static (markFn f)
  | .clsm f => .clsm (markFn f)
  | .prop g s d => .prop (g.map markFn) (s.map markFn) (d.map markFn)
  | .attr v => .attr v                 -- neither function nor descriptor: untouched

/-- server.py:99-118 expose on a class: own dict only, private names skipped -/
def exposeClass (ms : List (Name × Member)) : List (Name × Member) :=
  ms.map fun (k, m) => if isPrivate k then (k, m) else (k, markMember m)

def buildClass (d : ClassDecl) : Except Err Class :=
  match buildMembers d.members with
  | .error e => .error e
  | .ok ms => .ok { members := if d.exposeClass then exposeClass ms else ms }

def buildClasses : List ClassDecl → Except Err (List Class)
  | [] => .ok []
  | d :: rest =>
    -- the base classes are created first (Python evaluates the base before the class statement)
    match buildClasses rest with
    | .error e => .error e
    | .ok rest' => match buildClass d with
      | .error e => .error e
      | .ok c => .ok (c :: rest')

def buildShape (ds : List ClassDecl) (inst : List (Name × Val)) : Except Err Shape :=
  match buildClasses ds with
  | .error e => .error e
  | .ok cs => .ok { mro := cs, inst := inst }

/-! ### Python attribute lookup -/

def find? {α : Type} (n : Name) : List (Name × α) → Option α
  | [] => none
  | (k, v) :: rest => if k = n then some v else find? n rest

/-- `getattr(type(obj), n)` without descriptor evaluation: first class of the MRO that has `n` -/
def lookupType (n : Name) : List Class → Option Member
  | [] => none
  | c :: rest => match find? n c.members with
    | some m => some m
    | none => lookupType n rest

/-- what an attribute fetch on the instance yields -/
inductive Obj
  | fn (f : Fn)        -- bound method / function
  | val (v : Val)
  deriving DecidableEq, Repr

/-- instance `__dict__` entry if there is one, else what the type provides (non-data descriptors and
    plain class attributes come after the instance dict) -/
def instOr (sh : Shape) (n : Name) (fromType : Obj) : Except Err Obj × List Nat :=
  match find? n sh.inst with
  | some v => (.ok (.val v), [])
  | none => (.ok fromType, [])

/-- `getattr(obj, n)` on the instance, with the effect of evaluating a property -/
def getattrInst (sh : Shape) (n : Name) : Except Err Obj × List Nat :=
  match lookupType n sh.mro with
  | some (.prop (some f) _ _) => (.ok (.val .data), [f.fid])   -- data descriptor first: the getter RUNS
  | some (.prop none _ _) => (.error .attr, [])                -- property has no getter
  | some (.func f) => instOr sh n (.fn f)
  | some (.static f) => instOr sh n (.fn f)
  | some (.clsm f) => instOr sh n (.fn f)
  | some (.attr v) => instOr sh n (.val v)
  | none =>
    match find? n sh.inst with
    | some v => (.ok (.val v), [])
    | none => (.error .attr, [])

/-- `inspect.isdatadescriptor(getattr(obj.__class__, n, None))` -/
def isDataDesc : Option Member → Bool
  | some (.prop _ _ _) => true
  | _ => false

/-- `getattr(x, "_pyroExposed", False)` -/
def objMarked : Obj → Bool
  | .fn f => f.exposed
  | .val .data => false
  | .val (.inst h) => h.exposed
  | .val (.cls h) => h.exposed
  | .val (.fn f) => f.exposed

/-- `method(*vargs, **kwargs)`; a non-callable makes the default methodcall_error_handler fail with an
    AttributeError (`method.__qualname__`), which is what reaches the client -/
def callObj : Obj → Except Err Unit × List Nat
  | .fn f => (.ok (), [f.fid])
  | .val .data => (.error .attr, [])
  | .val (.inst h) => if h.hasCall then (.ok (), [h.callId]) else (.error .attr, [])
  | .val (.cls h) => (.ok (), [h.initId])
  | .val (.fn f) => (.ok (), [f.fid])

/-! ### requests and gates -/

/-- a name as it arrives in a request -/
inductive ReqName
  | str (n : Name)
  | hashable       -- non-string, hashable, no `startswith` (int, None, float, tuple): AttributeError in is_private_attribute
  | unhashable     -- list, dict, set: TypeError in `in frozenset`
  deriving DecidableEq, Repr

structure Cfg where
  callTypeFirst : Bool   -- _get_attribute refuses data descriptors found on the type before getattr(obj, ..)
  getPriv : Bool         -- _get_exposed_property_value tests is_private_attribute first
  setPriv : Bool         -- _set_exposed_property_value tests is_private_attribute first
  nonStrType : Bool      -- is_private_attribute refuses every non-string with TypeError (isinstance guard) instead of
                         -- failing with AttributeError on `name.startswith` for hashable non-strings
  deriving DecidableEq, Repr

/-- server.py:880-893 `_get_attribute` -/
def getAttribute (cfg : Cfg) (sh : Shape) : ReqName → Except Err Obj × List Nat
  | .hashable => (.error (if cfg.nonStrType then .type else .attr), [])
  | .unhashable => (.error .type, [])
  | .str n =>
    if isPrivate n then (.error .priv, [])
    else if cfg.callTypeFirst && isDataDesc (lookupType n sh.mro) then (.error .unexposed, [])
    else
      match getattrInst sh n with
      | (.error e, eff) => (.error e, eff)
      | (.ok o, eff) => if objMarked o then (.ok o, eff) else (.error .unexposed, eff)

def exposedOpt : Option Fn → Bool
  | some f => f.exposed
  | none => false

/-- what `is_private_attribute` / `getattr(cls, name)` do with a non-string name -/
def nonStrErr (cfg : Cfg) (privChecked : Bool) : ReqName → Err
  | .unhashable => .type
  | .hashable => if privChecked then (if cfg.nonStrType then .type else .attr) else .type
  | .str _ => .attr

/-- server.py:973-983 `_get_exposed_property_value` -/
def getProp (cfg : Cfg) (sh : Shape) : ReqName → Except Err Unit × List Nat
  | .str n =>
    if cfg.getPriv && isPrivate n then (.error .priv, [])
    else
      match lookupType n sh.mro with
      | none => (.error .attr, [])
      | some (.prop g _ _) =>
        match g with
        | some f => if f.exposed then (.ok (), [f.fid]) else (.error .unprop, [])
        | none => (.error .unprop, [])
      | some _ => (.error .unprop, [])
  | rn => (.error (nonStrErr cfg cfg.getPriv rn), [])

/-- server.py:986-997 `_set_exposed_property_value` -/
def setProp (cfg : Cfg) (sh : Shape) : ReqName → Except Err Unit × List Nat
  | .str n =>
    if cfg.setPriv && isPrivate n then (.error .priv, [])
    else
      match lookupType n sh.mro with
      | none => (.error .attr, [])
      | some (.prop g s d) =>
        match s with
        | some f => if exposedOpt (primary g s d) then (.ok (), [f.fid]) else (.error .unprop, [])
        | none => (.error .unprop, [])
      | some _ => (.error .unprop, [])
  | rn => (.error (nonStrErr cfg cfg.setPriv rn), [])

/-- a request as `handleRequest` sees it after `loadsCall` -/
structure Req where
  batch : Bool             -- FLAGS_BATCH
  oneway : Bool            -- FLAGS_ONEWAY
  method : ReqName         -- ignored for a batch
  args : List ReqName      -- vargs; for a batch: the method names of its calls
  deriving DecidableEq, Repr

inductive Reply
  | result
  | error (e : Err)
  | none                   -- oneway: nothing is sent
  deriving DecidableEq, Repr

def nmGetattr : Name := [95, 95, 103, 101, 116, 97, 116, 116, 114, 95, 95]   -- "__getattr__"
def nmSetattr : Name := [95, 95, 115, 101, 116, 97, 116, 116, 114, 95, 95]   -- "__setattr__"

/-- server.py:441-452: the batch loop (the gate is outside the try: a refusal aborts the whole batch) -/
def runBatch (cfg : Cfg) (sh : Shape) : List ReqName → Except Err Unit × List Nat
  | [] => (.ok (), [])
  | m :: rest =>
    match getAttribute cfg sh m with
    | (.error e, eff) => (.error e, eff)
    | (.ok o, eff) =>
      match callObj o with
      | (.error e, eff2) => (.error e, eff ++ eff2)
      | (.ok (), eff2) =>
        match runBatch cfg sh rest with
        | (r, eff3) => (r, eff ++ eff2 ++ eff3)

/-- one normal call: gate, then the call (in a thread when oneway; the effects are the same) -/
def runCall (cfg : Cfg) (sh : Shape) (m : ReqName) : Except Err Unit × List Nat :=
  match getAttribute cfg sh m with
  | (.error e, eff) => (.error e, eff)
  | (.ok o, eff) =>
    match callObj o with
    | (r, eff2) => (r, eff ++ eff2)

/-- server.py:439-494 the dispatch branches -/
def dispatchBody (cfg : Cfg) (sh : Shape) (r : Req) : Except Err Unit × List Nat :=
  if r.batch then runBatch cfg sh r.args
  else if r.method = .str nmGetattr then
    match r.args with
    | n :: _ => getProp cfg sh n
    | [] => (.error .index, [])
  else if r.method = .str nmSetattr then
    match r.args with
    | n :: _ :: _ => setProp cfg sh n
    | _ => (.error .index, [])
  else runCall cfg sh r.method

/-- server.py:498-524: reply, error reply, or nothing for a oneway request -/
def dispatch (cfg : Cfg) (sh : Shape) (r : Req) : Reply × List Nat :=
  match dispatchBody cfg sh r with
  | (res, eff) =>
    (if r.oneway then .none else match res with
      | .ok () => .result
      | .error e => .error e, eff)

/-! ### histories: the object changes between requests (no gate keeps a memory of earlier states) -/

/-- `d[k] = v`: replace the entry if the key exists, else add one -/
def setKey {α : Type} (k : Name) (v : α) : List (Name × α) → List (Name × α)
  | [] => [(k, v)]
  | (k', v') :: rest => if k' = k then (k, v) :: rest else (k', v') :: setKey k v rest

/-- `del d[k]` -/
def delKey {α : Type} (k : Name) : List (Name × α) → List (Name × α)
  | [] => []
  | (k', v') :: rest => if k' = k then delKey k rest else (k', v') :: delKey k rest

def modifyClass (f : Class → Class) : Nat → List Class → List Class
  | _, [] => []
  | 0, c :: rest => f c :: rest
  | i + 1, c :: rest => c :: modifyClass f i rest

/-- what user code can do to a registered object at run time -/
inductive Step
  | setInst (k : Name) (v : Val)                   -- obj.k = v
  | delInst (k : Name)                             -- del obj.k
  | setMember (ci : Nat) (k : Name) (m : Member)   -- setattr(type(obj).__mro__[ci], k, m)   (no class decorator runs again)
  | delMember (ci : Nat) (k : Name)                -- delattr(type(obj).__mro__[ci], k)
  deriving DecidableEq, Repr

def applyStep (sh : Shape) : Step → Shape
  | .setInst k v => { sh with inst := setKey k v sh.inst }
  | .delInst k => { sh with inst := delKey k sh.inst }
  | .setMember ci k m => { sh with mro := modifyClass (fun c => { members := setKey k m c.members }) ci sh.mro }
  | .delMember ci k => { sh with mro := modifyClass (fun c => { members := delKey k c.members }) ci sh.mro }

inductive Event
  | step (s : Step)
  | req (r : Req)
  | resetMeta            -- Daemon.resetMetadataCache(obj): the cached member list of the object's class is dropped
  | getMeta              -- DaemonObject.get_metadata(obj) / the connect handshake: advertise the member list
  deriving DecidableEq, Repr

/-- replies and effect logs of the requests of a history, in order -/
def runHistory (cfg : Cfg) : Shape → List Event → List (Reply × List Nat)
  | _, [] => []
  | sh, .step s :: rest => runHistory cfg (applyStep sh s) rest
  | sh, .req r :: rest => dispatch cfg sh r :: runHistory cfg sh rest
  | sh, .resetMeta :: rest => runHistory cfg sh rest
  | sh, .getMeta :: rest => runHistory cfg sh rest

/-- the state of the object at the time of each request of a history -/
def statesOf : Shape → List Event → List (Shape × Req)
  | _, [] => []
  | sh, .step s :: rest => statesOf (applyStep sh s) rest
  | sh, .req r :: rest => (sh, r) :: statesOf sh rest
  | sh, .resetMeta :: rest => statesOf sh rest
  | sh, .getMeta :: rest => statesOf sh rest

/-! ### advertised metadata (server.py:907-955 `_get_exposed_members`, only_exposed = True) -/

def dedup : List Name → List Name
  | [] => []
  | n :: rest => if rest.contains n then dedup rest else n :: dedup rest

/-- the member names `dir(cls)` lists for the modelled classes -/
def typeNames (mro : List Class) : List Name :=
  dedup (mro.flatMap fun c => c.members.map Prod.fst)

def isMethodMember : Option Member → Bool
  | some (.func f) => f.exposed
  | some (.static f) => f.exposed
  | some (.clsm f) => f.exposed
  | _ => false

def isOnewayMember : Option Member → Bool
  | some (.func f) => f.exposed && f.oneway
  | some (.static f) => f.exposed && f.oneway
  | some (.clsm f) => f.exposed && f.oneway
  | _ => false

def isAttrMember : Option Member → Bool
  | some (.prop g s d) => exposedOpt (primary g s d)
  | _ => false

structure Meta where
  methods : List Name
  oneway : List Name
  attrs : List Name
  deriving Repr

def metadata (sh : Shape) : Meta :=
  let names := (typeNames sh.mro).filter fun n => !isPrivate n
  { methods := names.filter fun n => isMethodMember (lookupType n sh.mro)
    oneway := names.filter fun n => isOnewayMember (lookupType n sh.mro)
    attrs := names.filter fun n => isAttrMember (lookupType n sh.mro) }

/-- server.py:921-923, 749-765: the member lists advertised along a history.  The list is computed on first use and
    cached per class (`cache`); run-time changes do not evict it, `resetMetadataCache` does. -/
def advertised : Option Meta → Shape → List Event → List Meta
  | _, _, [] => []
  | c, sh, .step s :: rest => advertised c (applyStep sh s) rest
  | c, sh, .req _ :: rest => advertised c sh rest
  | _, sh, .resetMeta :: rest => advertised none sh rest
  | some m, sh, .getMeta :: rest => m :: advertised (some m) sh rest
  | none, sh, .getMeta :: rest => metadata sh :: advertised (some (metadata sh)) sh rest

end Pyro.Expose
