/-
  Call.lean — model of ONE Pyro5 proxy talking to ONE daemon over a faulty transport (property C03).

  Follows, statement by statement:
    Pyro5/client.py  Proxy._pyroInvoke (229-286), __pyroCheckSequence (288-292),
                     __pyroCreateConnection / connect_and_handshake (294-380), _pyroRelease (200-206),
                     Proxy.__getattr__/__setattr__ metadata lookup (100-101, 113-114),
                     _RemoteMethod.__call__ retry loop (507-515), _StreamResultIterator.__next__ (532-539),
                     BatchProxy.__call__ / _pyroInvokeBatch (437-441, 617-622)
    Pyro5/protocol.py recv_stub message type filter (182-201)
    Pyro5/server.py  Daemon._handshake reply (365-368), handleRequest reply / oneway (502-514), error reply (621-640)

  Abstraction level: whole messages (the byte codec is C06's subject).  A reply message is
  (CONNECTOK | RESULT, wire sequence number, body); the body names the call it answers (kind, token).
  The transport is a *fault script*: one event per request message that the proxy sends (CONNECT or
  INVOKE).  The `while`/`for` loops of the Python code recurse structurally on the retry budget; the
  script running out is the explicit outcome `scriptEnd`.

  Ghost fields (never printed by the driver, never read by the modelled code): `Msg.born`,
  `World.sends`, `World.reads`.
-/
namespace Pyro.Call

/-- `(self._pyroSeq + 1) & 0xffff` (client.py:246); tied to the source by `C03_gen_seq_mask`. -/
def seqMod : Nat := 65536

/-- What the caller does with the proxy. -/
inductive Kind where
  | normal        -- proxy.meth(tok)            returns a value
  | raises        -- proxy.meth(tok)            the remote method raises
  | stream        -- proxy.meth(tok)            returns an iterator (FLAGS_ITEMSTREAMRESULT reply)
  | oneway        -- proxy.onewaymeth(tok)
  | batch         -- BatchProxy(proxy)()        one request carrying several calls
  | batchOneway   -- BatchProxy(proxy)(oneway=True)
  | getattr       -- proxy.attr
  | setattr       -- proxy.attr = tok
  | fetch         -- next(stream_iterator)      get_next_stream_item on the daemon object
  | missing       -- proxy.meth(tok)            the proxy's metadata is stale: the object no longer has the method;
                  --                            the daemon answers with an error reply before anything runs
  | onewayMissing -- proxy.onewaymeth(tok)      the same for a oneway method: nothing runs, nothing is answered
  deriving DecidableEq, Repr

/-- `flags & FLAGS_ONEWAY` on the request (client.py:244-245, 439-440). -/
def Kind.isOneway : Kind → Bool
  | .oneway | .batchOneway | .onewayMissing => true
  | _ => false

/-- the daemon finds the method and runs it (server.py:439-501); otherwise `_get_attribute` raises first and the
    error path (515-528) reports it — unless the request is oneway -/
def Kind.executes : Kind → Bool
  | .missing | .onewayMissing => false
  | _ => true

/-- the server's execution log after it handled a request of kind `k` carrying `tok` -/
def logAfter (k : Kind) (tok : Nat) (log : List Nat) : List Nat := if k.executes then tok :: log else log

/-- The call goes through `_RemoteMethod.__call__` (client.py:107, 507-515), i.e. is retried.
    Attribute access (103, 116), batches (619) and stream fetches (539) call `_pyroInvoke` directly. -/
def Kind.retried : Kind → Bool
  | .normal | .raises | .stream | .oneway | .missing | .onewayMissing => true
  | _ => false

/-- The call starts with an attribute lookup on the proxy (`__getattr__`/`__setattr__`), which fetches
    the metadata — by connecting, outside any retry loop — while none is known (client.py:100-101). -/
def Kind.needsMeta : Kind → Bool
  | .normal | .raises | .stream | .oneway | .getattr | .setattr | .missing | .onewayMissing => true
  | _ => false

/-- `if self.proxy._pyroConnection is None: raise ConnectionClosedError` (client.py:535-536). -/
def Kind.precheck : Kind → Bool
  | .fetch => true
  | _ => false

/-- Fault assigned to one request message and its reply. -/
inductive Ev where
  | ok                    -- request delivered, reply delivered
  | lost                  -- request processed, reply lost: the read times out
  | late                  -- request processed, the read times out, then the reply arrives on that connection
  | cut                   -- request processed, reply cut at some byte offset, then the connection is reset
  | resetBefore           -- connection reset before the server saw the request (send fails)
  | resetAfter            -- request processed, connection reset before any reply byte
  | stale (a : Nat)       -- the reply the server produced a+1 INVOKE-sends ago is replayed ahead of the real reply
  | staleHs               -- an earlier CONNECTOK is replayed ahead of the real reply
  | seqAlt (d : Nat)      -- the reply's sequence number is altered (by 1 + d % 65535)
  | dup                   -- the reply is delivered twice
  | intr                  -- request processed; KeyboardInterrupt while waiting; then the reply arrives
  deriving DecidableEq, Repr

def Ev.reachesServer : Ev → Bool
  | .resetBefore => false
  | _ => true

/-- A reply message on the wire. -/
structure Msg where
  hs : Bool        -- MSG_CONNECTOK (true) or MSG_RESULT (false)
  seq : Nat        -- header field `seq` (16 bit)
  kind : Kind      -- body: which call produced it …
  tok : Nat        --       … and that call's token
  born : Nat       -- ghost: number of the INVOKE send that produced it
  deriving DecidableEq, Repr

/-- client side of a connection: unread complete messages, and whether the peer has reset it -/
structure Conn where
  queue : List Msg
  dead : Bool
  deriving DecidableEq, Repr

/-- `_pyroConnection` together with "is metadata known" (`_pyroMethods`/`_pyroAttrs` non-empty):
    metadata arrives with every successful handshake and is kept by `_pyroRelease`. -/
inductive PConn where
  | fresh              -- never connected: `_pyroConnection is None`, no metadata
  | idle               -- released: `_pyroConnection is None`, metadata known
  | live (c : Conn)
  deriving DecidableEq, Repr

structure World where
  seq : Nat                   -- proxy._pyroSeq
  pc : PConn
  log : List Nat              -- server: tokens of executed requests, newest first
  hist : List (Option Msg)    -- transport: reply produced for each INVOKE send, newest first
  connects : Nat              -- number of sockets created
  sends : Nat                 -- ghost: seq0 + number of INVOKE sends so far (unbounded)
  reads : Nat                 -- ghost: messages taken off the stream by `_pyroInvoke`'s recv_stub
  deriving DecidableEq, Repr

def init (seq0 : Nat) : World :=
  { seq := seq0 % seqMod, pc := .fresh, log := [], hist := [], connects := 0, sends := seq0, reads := 0 }

inductive Err where
  | connClosed | timeout | protocol | interrupt
  deriving DecidableEq, Repr

/-- `except (errors.ConnectionClosedError, errors.TimeoutError)` (client.py:511) -/
def Err.retryable : Err → Bool
  | .connClosed | .timeout => true
  | _ => false

inductive Outcome where
  | returned (k : Kind) (tok : Nat)   -- the caller got the result / remote exception carried by that body
  | none_                             -- oneway: `return None` before reading (client.py:253-254)
  | failed (e : Err)
  | stuck                             -- transport neither delivered nor failed (excluded by `C03_never_stuck`)
  | scriptEnd                         -- model artefact: the fault script ran out
  deriving DecidableEq, Repr

/-- What a read finds when the unread queue is empty. -/
inductive Pend where
  | block | timeout | closed | intr
  deriving DecidableEq, Repr

def pendOutcome : Pend → Outcome
  | .block => .stuck
  | .timeout => .failed .timeout          -- socket.timeout → TimeoutError
  | .closed => .failed .connClosed        -- reset / EOF → ConnectionClosedError
  | .intr => .failed .interrupt           -- KeyboardInterrupt

structure Delivery where
  now : List Msg       -- appended to the connection's unread queue at once
  pend : Pend          -- what a read finds once the queue is empty
  dead : Bool          -- the connection is reset afterwards
  later : List Msg     -- appended after the read attempt (late arrival)
  deriving Repr

def alterSeq (d : Nat) (m : Msg) : Msg := { m with seq := (m.seq + 1 + d % 65535) % seqMod }

def staleOf (hist : List (Option Msg)) (a : Nat) : List Msg :=
  match hist[a]? with
  | some (some m) => [m]
  | _ => []

/-- The transport applies one fault to the reply (`reply` = [] when the server sends nothing). -/
def deliver (ev : Ev) (hist : List (Option Msg)) (hsm : Msg) (reply : List Msg) : Delivery :=
  match ev with
  | .ok => ⟨reply, .block, false, []⟩
  | .lost => ⟨[], .timeout, false, []⟩
  | .late => ⟨[], .timeout, false, reply⟩
  | .cut => ⟨[], .closed, true, []⟩
  | .resetBefore => ⟨[], .closed, true, []⟩
  | .resetAfter => ⟨[], .closed, true, []⟩
  | .stale a => ⟨staleOf hist a ++ reply, .block, false, []⟩
  | .staleHs => ⟨hsm :: reply, .block, false, []⟩
  | .seqAlt d => ⟨reply.map (alterSeq d), .block, false, []⟩
  | .dup => ⟨reply ++ reply, .block, false, []⟩
  | .intr => ⟨[], .intr, false, reply⟩

/-- the CONNECTOK message: `SendingMessage(msgtype, 0, msg_seq, …)` (server.py:365) -/
def hsMsg (seq : Nat) : Msg := ⟨true, seq, .normal, 0, 0⟩

/-- The two defences of `_pyroInvoke`, as switches, so that their necessity can be stated.
    The code that exists is `real`. -/
structure Cfg where
  release : Bool      -- client.py:278-286  release the connection on CommunicationError / KeyboardInterrupt
  checkSeq : Bool     -- client.py:259      __pyroCheckSequence
  deriving DecidableEq, Repr

def real : Cfg := ⟨true, true⟩

inductive ConnRes where
  | ok (c : Conn)
  | err (o : Outcome)
  deriving Repr

/-- `__pyroCreateConnection` / `connect_and_handshake` (client.py:299-362) when `_pyroConnection is None`.
    The CONNECTOK's sequence number is not checked (client.py:325-357); only its type is
    (`recv_stub(conn, [MSG_CONNECTOK, MSG_CONNECTFAIL])`).  Every error closes the new socket and leaves
    `_pyroConnection` as it was (None). -/
def connect (W : World) (s : List Ev) : ConnRes × World × List Ev :=
  match s with
  | [] => (.err .scriptEnd, W, [])
  | ev :: s' =>
    let W1 := { W with connects := W.connects + 1 }              -- socketutil.create_socket (310)
    if !ev.reachesServer then
      (.err (.failed .connClosed), W1, s')                        -- conn.send raises (324) → conn.close(); re-raised (334)
    else
      let d := deliver ev W.hist (hsMsg W.seq) [hsMsg W.seq]      -- server.py:365-368
      match d.now with
      | m :: rest =>
        if m.hs then                                              -- MSG_CONNECTOK (347-350): metadata processed, connection kept
          let c : Conn := ⟨rest ++ d.later, d.dead⟩
          (.ok c, { W1 with pc := .live c }, s')
        else (.err (.failed .protocol), W1, s')                   -- recv_stub type filter → ProtocolError
      | [] => (.err (pendOutcome d.pend), W1, s')                 -- recv raised

/-- `except (errors.CommunicationError, KeyboardInterrupt): self._pyroRelease(); raise` (client.py:278-286);
    `c` is what the connection would look like if it were kept. -/
def failWith (cfg : Cfg) (W : World) (c : Conn) : World :=
  if cfg.release then { W with pc := .idle } else { W with pc := .live c }

/-- `_pyroInvoke` from line 235 on, with `_pyroConnection = c`. -/
def invokeOn (cfg : Cfg) (k : Kind) (tok : Nat) (W : World) (c : Conn) (s : List Ev) :
    Outcome × World × List Ev :=
  let seq' := (W.seq + 1) % seqMod                                 -- 246
  if c.dead then
    -- send on a reset connection raises ConnectionClosedError; the server sees nothing; no event is consumed
    let W1 := { W with seq := seq', sends := W.sends + 1, hist := none :: W.hist }
    (.failed .connClosed, failWith cfg W1 c, s)
  else match s with
  | [] => (.scriptEnd, W, [])
  | ev :: s' =>
    if !ev.reachesServer then
      let W1 := { W with seq := seq', sends := W.sends + 1, hist := none :: W.hist }
      (.failed .connClosed, failWith cfg W1 ⟨c.queue, true⟩, s')   -- 251 send raises
    else
      -- server.py handleRequest: the method runs (or the lookup fails: error reply, 515-526); the reply carries
      -- request_seq (509, 526); oneway: no reply (502-503, 521)
      let r : Msg := ⟨false, seq', k, tok, W.sends + 1⟩
      let reply : List Msg := if k.isOneway then [] else [r]
      let d := deliver ev W.hist (hsMsg W.seq) reply
      let W1 := { W with seq := seq', sends := W.sends + 1, hist := reply.head? :: W.hist, log := logAfter k tok W.log }
      let q := c.queue ++ d.now
      if k.isOneway then
        (.none_, { W1 with pc := .live ⟨q ++ d.later, d.dead⟩ }, s')          -- 253-254
      else match q with
        | m :: rest =>                                                          -- 256 recv_stub
          let W2 := { W1 with reads := W1.reads + 1 }
          let c' : Conn := ⟨rest ++ d.later, d.dead⟩
          if m.hs then (.failed .protocol, failWith cfg W2 c', s')              -- protocol.py:194 type filter
          else if cfg.checkSeq && m.seq != seq' then
            (.failed .protocol, failWith cfg W2 c', s')                         -- 259 / 288-292
          else (.returned m.kind m.tok, { W2 with pc := .live c' }, s')         -- 268-277
        | [] =>
          match d.pend with
          | .block => (.stuck, { W1 with pc := .live ⟨d.later, d.dead⟩ }, s')
          | p => (pendOutcome p, failWith cfg W1 ⟨d.later, d.dead⟩, s')         -- recv raised → 278-286

/-- `_pyroInvoke` (client.py:229-286): connect first when there is no connection (233-234, outside the `try`). -/
def invoke (cfg : Cfg) (k : Kind) (tok : Nat) (W : World) (s : List Ev) : Outcome × World × List Ev :=
  match W.pc with
  | .live c => invokeOn cfg k tok W c s
  | _ =>
    match connect W s with
    | (.err o, W', s') => (o, W', s')
    | (.ok c, W', s') => invokeOn cfg k tok W' c s'

/-- `_RemoteMethod.__call__` (client.py:507-515): `n` = retries still allowed. -/
def retryLoop (cfg : Cfg) (k : Kind) (tok : Nat) : Nat → World → List Ev → Outcome × World × List Ev
  | 0, W, s => invoke cfg k tok W s
  | n + 1, W, s =>
    match invoke cfg k tok W s with
    | (.failed e, W', s') =>
      if e.retryable then retryLoop cfg k tok n W' s' else (.failed e, W', s')
    | r => r

def body (cfg : Cfg) (retries : Nat) (k : Kind) (tok : Nat) (W : World) (s : List Ev) :
    Outcome × World × List Ev :=
  if k.retried then retryLoop cfg k tok retries W s else invoke cfg k tok W s

/-- One call made by the user of the proxy. -/
def call (cfg : Cfg) (retries : Nat) (k : Kind) (tok : Nat) (W : World) (s : List Ev) :
    Outcome × World × List Ev :=
  match W.pc with
  | .live _ => body cfg retries k tok W s
  | .idle =>
    if k.precheck then (.failed .connClosed, W, s)            -- client.py:535-536
    else body cfg retries k tok W s
  | .fresh =>
    if k.precheck then (.failed .connClosed, W, s)
    else if k.needsMeta then
      -- Proxy.__getattr__ → _pyroGetMetadata → __pyroCreateConnection (client.py:100-101, 390-397): not retried
      match connect W s with
      | (.err o, W', s') => (o, W', s')
      | (.ok _, W', s') => body cfg retries k tok W' s'
    else body cfg retries k tok W s

/-- number of times the server ran the method(s) of the request carrying `tok` -/
def execs (tok : Nat) (W : World) : Nat := W.log.count tok

end Pyro.Call
