/-
  NsOps.lean — the name server operations (Pyro5/nameserver.py:271-432, memory back-end) as
  `Lock.Op`s: each body is its list of storage accesses, all executed while holding
  `NameServer.lock` (that premise is the extracted lock shape, theorem C15_source_every_access_locked).

  State: association list name ↦ (uri, tags), newest last (dict order).  Names, URIs and tags are
  code-point lists / opaque numbers: concurrency does not look inside them.
-/
import PyroModel.Lock

namespace Pyro.NsOps

abbrev Name := List Nat
abbrev Store := List (Name × Nat × List Nat)     -- name ↦ (uri id, sorted tag ids)

def nsName : Name := [80, 121, 114, 111, 46, 78, 97, 109, 101, 83, 101, 114, 118, 101, 114]  -- "Pyro.NameServer"

def Store.has (s : Store) (n : Name) : Bool := s.any (·.1 = n)
def Store.get (s : Store) (n : Name) : Option (Nat × List Nat) := (s.find? (·.1 = n)).map (·.2)
def Store.del (s : Store) (n : Name) : Store := s.filter (·.1 ≠ n)
/-- dict assignment: overwrite in place or append -/
def Store.set : Store → Name → Nat × List Nat → Store
  | [], n, v => [(n, v)]
  | (k, w) :: r, n, v => if k = n then (n, v) :: r else (k, w) :: Store.set r n v

def isPrefix : Name → Name → Bool
  | [], _ => true
  | _ :: _, [] => false
  | a :: p, b :: n => a == b && isPrefix p n

/-- what an operation hands back to its caller -/
inductive Res where
  | none                      -- returned None
  | namingError
  | removed (k : Nat)
  | uri (u : Nat) (tags : List Nat)
  | count (k : Nat)
  | names (l : List (Name × Nat))
  deriving Repr, DecidableEq

inductive Call where
  | register (n : Name) (uri : Nat) (safe : Bool) (tags : List Nat)
  | setMeta (n : Name) (tags : List Nat)
  | remove (n : Name)
  | removePrefix (p : Name)
  | lookup (n : Name)
  | count
  | list (p : Name)            -- [] = everything
  deriving Repr, DecidableEq

/-- local state of a running operation -/
structure Local where
  flag : Bool := false
  items : List Name := []
  res : Res := .none
  deriving Repr

abbrev MStep := Local → Store → Local × Store

/-- `list(prefix)` under the lock: one pass over the dict -/
def listStep (p : Name) : MStep := fun l s =>
  ({ l with res := .names ((s.filter fun e => isPrefix p e.1).map fun e => (e.1, e.2.1)),
            items := (s.filter fun e => isPrefix p e.1).map (·.1) }, s)

/-- the micro-steps of each operation body (every one is an access of `self.storage`) -/
def body : Call → List MStep
  | .register n uri safe tags =>
    [ fun l s => ({ l with flag := safe && s.has n }, s),                       -- `safe and name in self.storage`
      fun l s => if l.flag then ({ l with res := .namingError }, s)
                 else ({ l with res := .none }, s.set n (uri, tags)) ]           -- `self.storage[name] = ...`
  | .setMeta n tags =>
    [ fun l s => match s.get n with                                               -- `uri, old = self.storage[name]`
        | some (u, _) => ({ l with flag := true, res := .uri u [] }, s)
        | none => ({ l with flag := false, res := .namingError }, s),
      fun l s => match l.flag, l.res with
        | true, .uri u _ => ({ l with res := .none }, s.set n (u, tags))          -- `self.storage[name] = uri, ...`
        | _, _ => (l, s) ]
  | .remove n =>
    [ fun l s => ({ l with flag := !n.isEmpty && s.has n && n != nsName }, s),   -- `name and name in self.storage and name != NS`
      fun l s => if l.flag then ({ l with res := .removed 1 }, s.del n)           -- `del self.storage[name]`
                 else ({ l with res := .removed 0 }, s) ]
  | .removePrefix p =>
    if p.isEmpty then [ fun l s => ({ l with res := .removed 0 }, s) ]            -- `if prefix:` is false for ""
    else
    [ listStep p,                                                                 -- `items = list(self.list(prefix=..).keys())`
      fun l s => let items := l.items.filter (· ≠ nsName)
                 ({ l with items := items, res := .removed items.length },
                  items.foldl (fun st it => if st.has it then st.del it else st) s) ]   -- remove_items
  | .lookup n =>
    [ fun l s => match s.get n with
        | some (u, t) => ({ l with res := .uri u t }, s)
        | none => ({ l with res := .namingError }, s) ]
  | .count => [ fun l s => ({ l with res := .count s.length }, s) ]
  | .list p => [ listStep p ]

def toOp (c : Call) : Lock.Op Store Local Res :=
  { init := {}, steps := body c, result := fun l => l.res }

/-- the sequential specification: one call applied to the map -/
def apply (c : Call) (s : Store) : Store × Res := (toOp c).run s

end Pyro.NsOps
