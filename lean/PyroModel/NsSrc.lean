/-
  NsSrc.lean — the vocabulary of the *transcription* of Pyro5/nameserver.py (`NameServer` methods and
  `MemoryStorage`) that harness/props/c14_tr.py regenerates into PyroModel/Gen/C14Src.lean on every run.

  The transcription is a shallow embedding over the model's own types: a method body is a function
  `σ → Res × σ` (σ = the storage state), an exception is the result `.err kind`, statements are chained in
  continuation-passing style.  Each combinator below is the meaning of ONE Python construct; nothing here knows
  what a method is supposed to compute.  Python containers keep their Python behaviour: `d[k] = v` overwrites
  in place or appends (`dictSet`), `l.remove(x)` removes the first occurrence (`List.erase`).
-/
import PyroModel.NameServer

namespace Pyro.NS.Src

variable {σ : Type}

/-- `with self.lock:` — a marker; sequential meaning = the body (exclusion is C15's theorem) -/
@[inline] def withLock (body : σ → Res × σ) : σ → Res × σ := body

/-- `self.storage[name]` as an expression: KeyError when the storage reports "missing" -/
def getItemK (S : Store σ) (n : Str) (k : Entry → σ → Res × σ) : σ → Res × σ :=
  call (S.getItem n) (fun o s => match o with
    | Option.none => (.err .key, s)
    | some e => k e s)

/-- `del self.storage[name]` -/
def delItemK (S : Store σ) (n : Str) (k : σ → Res × σ) : σ → Res × σ :=
  call (S.delItem n) (fun ok s => if ok then k s else (.err .key, s))

/-- `try: body  except <classes>: handler` — `caught` = the error kinds whose class is a subclass of a listed
    class (computed from the live classes by the translator) -/
def tryExcept (caught : List Err) (body handler : σ → Res × σ) (s : σ) : Res × σ :=
  match body s with
  | (.err e, s') => if caught.contains e then handler s' else (.err e, s')
  | r => r

/-- `core.URI(text)`: PyroError when the text is rejected, else the URI (represented by its text) -/
def uriK (env : Env) (u : Str) (k : σ → Res × σ) (s : σ) : Res × σ :=
  if env.uriOk u then k s else (.err .pyro, s)

/-- `re.compile(text)` inside `try … except re.error: raise NamingError` -/
def reCompileK (env : Env) (r : Str) (onError k : σ → Res × σ) (s : σ) : Res × σ :=
  if env.reOk r then k s else onError s

/-- a call of another method of the name server that returns a dict (`self.list(...)`): its exception
    propagates, its dict is handed on -/
def callDict (m : σ → Res × σ) (k : List Entry → σ → Res × σ) (s : σ) : Res × σ :=
  match m s with
  | (.listing l, s') => k l s'
  | r => r

/-- the storage interface takes `[]` for a `None` tag collection (`metadata or frozenset()` in MemoryStorage,
    `if metadata:` in SqlStorage) -/
def optTags : Option Tags → Tags
  | some t => t
  | Option.none => []

/-- `d[key] = value` on a dict kept as the list of its items in insertion order -/
def dictSet (d : List Entry) (e : Entry) : List Entry :=
  if d.any (·.name == e.name) then d.map (fun x => if x.name == e.name then e else x) else d ++ [e]

/-- `a.issubset(b)` for a frozenset `a` given by any list of its members -/
def subsetOf (ts m : Tags) : Bool := ts.all (m.contains ·)

/-- truth value of `a & b` (non-empty intersection) -/
def meets (ts m : Tags) : Bool := ts.any (m.contains ·)

/-- `for x in xs: body` with one loop-carried local (`acc`); the body may raise (`.error`) -/
def forEach {α β : Type} (body : α → β → σ → Except Res β × σ) : List α → β → σ → Except Res β × σ
  | [], acc, s => (.ok acc, s)
  | x :: xs, acc, s =>
    match body x acc s with
    | (.ok acc', s') => forEach body xs acc' s'
    | (.error r, s') => (.error r, s')

/-- continue after a loop: an exception raised in it is the method's result -/
def afterLoop {β : Type} (out : Except Res β × σ) (k : β → σ → Res × σ) : Res × σ :=
  match out with
  | (.ok acc, s) => k acc s
  | (.error r, s) => (r, s)

/-- `self.storage[name]` inside a loop body -/
def getItemL {β : Type} (S : Store σ) (n : Str) (k : Entry → σ → Except Res β × σ) (s : σ) : Except Res β × σ :=
  match S.getItem n s with
  | (Option.none, s1) => (.error (.err .storage), s1)
  | (some Option.none, s1) => (.error (.err .key), s1)
  | (some (some e), s1) => k e s1

end Pyro.NS.Src
