/-
C07 — the primitive operations the shallow transcription of the source (harness/props/c07_tr.py →
PyroModel/Gen/C07Src.lean) is written in.  Each one is what ONE kind of Python expression / statement does on the
model's value types (`Val`, `Dict`, `Exc`); nothing here knows what `make_exception` / `class_to_dict` compute.
Core Lean only.
-/
import PyroModel.Exceptions

namespace Pyro.Exceptions.Src

open Pyro.Exceptions

/-- `d[k]` for a constant text key: KeyError when absent; subscripting something that is not a dict is outside the model -/
def getitem (d : Val) (k : Str) : Except DErr Val :=
  match d with
  | .dict kv =>
    match lookup k kv with
    | some v => .ok v
    | none => .error (.raised (pyErr qKeyError))
  | _ => .error .unmodelled

/-- `k in d` for a constant text key -/
def contains (k : Str) (d : Val) : Except DErr Bool :=
  match d with
  | .dict kv => .ok (lookup k kv).isSome
  | _ => .error .unmodelled

/-- `cls(*a)`: the star needs an iterable — a list or a tuple in the model; the constructor is the model's parameter -/
def construct (K : ClientEnv) (q : Str) (a : Val) : Except DErr Exc :=
  match a with
  | .list xs | .tuple xs =>
    match K.ctor q xs with
    | .error x => .error (.raised x)
    | .ok (q', args') => .ok ⟨q', args', []⟩
  | _ => .error .unmodelled

/-- `v.items()` -/
def items (v : Val) : Except DErr (List (Str × Val)) :=
  match v with
  | .dict kv => .ok kv
  | _ => .error .unmodelled

/-- `setattr(e, k, v)` / `e.k = v` -/
def setattr (e : Exc) (k : Str) (v : Val) : Exc := { e with attrs := setKey k v e.attrs }

/-- `hasattr(e, k)` for a name no exception class defines itself (checked by the translator on the real classes) -/
def hasattr (e : Exc) (k : Str) : Bool := (lookup k e.attrs).isSome

/-- `type(e).__module__ + "." + type(e).__name__` -/
def qualname (e : Exc) : Str := e.cls

/-- `e.args` -/
def argsOf (e : Exc) : Val := .tuple e.args

/-- `vars(e)` -/
def varsOf (e : Exc) : Val := .dict e.attrs

/-- `raise X(...)` of an interpreter / library class: the message is not modelled -/
def raiseClass {α : Type} (q : Str) : Except DErr α := .error (.raised (pyErr q))

end Pyro.Exceptions.Src
