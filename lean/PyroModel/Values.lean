/-
  Values.lean — model of how a Python value travels through the four Pyro5 serializers
  (Pyro5/serializers.py), for property C01.

  A value goes through three phases, each one function here, each applied to the *whole* value before
  the next starts (so the first error of an earlier phase wins, as in the code):

    `enc s hooks`  — `dumps`: the codec library walks the value; for a type it does not know it calls
                     Pyro's hook (`JsonSerializer.default` 385-403, `MsgpackSerializer.default` 430-456,
                     `SerializerBase.class_to_dict` 125-169; serpent's own class serializers).
                     Result: the tree that is on the wire.          (`hooks = false`: the bare library)
    `dec s xh pyro`— the library's `loads`: builds lists/sets/dicts again (dict insertion, hashability,
                     msgpack's strict_map_key) and, for msgpack, calls `object_hook` (458-461) on every
                     map and `ext_hook` (463-473) on every ext value when `xh` is set.
    `recreate s`   — `SerializerBase.recreate_classes` (246-261): serpent / marshal / json, and msgpack
                     when its loads/loadsCall call it (extracted fact).

  `resRT` = `loads(dumps(v))` (273-428), `callRT` = `loadsCall(dumpsCall(obj, method, vargs, kwargs))`.
  The codecs themselves (serpent, marshal, json, msgpack, struct, base64, datetime) are not Pyro code:
  their type mapping is written down here as the assumed law `libMap` (= `enc s false` then
  `dec s false false`) and validated differentially against the bare libraries on every run.

  Floats are opaque tokens (their IEEE-754 bit pattern; no arithmetic is ever done on them), text is a
  list of code points, uuid / decimal values are identified by their `str()` text, dates by their
  proleptic ordinal.  `Err.oom` = "outside the modelled domain" (never a verdict about the code).
-/
import PyroModel.Bytes
import PyroModel.Gen.C01

namespace Pyro.Values

open Pyro

abbrev Str := List Nat

inductive Ser where
  | serpent | marshal | json | msgpack
  deriving DecidableEq, Repr

/-- exception classes, as far as the property distinguishes them -/
inductive Err where
  | type        -- TypeError
  | value       -- ValueError
  | overflow    -- OverflowError (bare msgpack only)
  | serialize   -- Pyro5.errors.SerializeError
  | security    -- Pyro5.errors.SecurityError
  | attribute   -- AttributeError
  | oom         -- outside the modelled domain
  deriving DecidableEq, Repr

mutual
inductive Val where
  | none
  | bool (b : Bool)
  | int (z : Int)
  | float (bits : Nat)
  | str (s : Str)
  | bytes (b : Bytes)
  | bytearray (b : Bytes)
  | list (xs : Vals)
  | tuple (xs : Vals)
  | set (xs : Vals)                 -- elements in iteration order
  | frozenset (xs : Vals)
  | dict (kvs : Pairs)              -- insertion order
  | complex (re im : Nat)
  | uuid (txt : Str)                -- str(u)
  | decimal (txt : Str)             -- str(d)
  | date (ord : Nat)                -- d.toordinal()
  | ext (code : Nat) (data : Bytes) -- msgpack.ExtType
  | inst (cls : Str) (fields : Pairs)  -- instance of a user class: "module.Class", vars(obj)
  deriving DecidableEq, Repr
inductive Vals where
  | nil
  | cons (v : Val) (vs : Vals)
  deriving DecidableEq, Repr
inductive Pairs where
  | nil
  | cons (k v : Val) (rest : Pairs)
  deriving DecidableEq, Repr
end

instance {ε α : Type} [DecidableEq ε] [DecidableEq α] : DecidableEq (Except ε α) := fun a b =>
  match a, b with
  | .ok x, .ok y => if h : x = y then isTrue (by rw [h]) else isFalse (by intro e; cases e; exact h rfl)
  | .error x, .error y => if h : x = y then isTrue (by rw [h]) else isFalse (by intro e; cases e; exact h rfl)
  | .ok _, .error _ => isFalse (by intro e; cases e)
  | .error _, .ok _ => isFalse (by intro e; cases e)

def Vals.ofList : List Val → Vals
  | [] => .nil
  | x :: xs => .cons x (Vals.ofList xs)

def Vals.toList : Vals → List Val
  | .nil => []
  | .cons x xs => x :: xs.toList

def Pairs.ofList : List (Val × Val) → Pairs
  | [] => .nil
  | (k, v) :: r => .cons k v (Pairs.ofList r)

def Pairs.toList : Pairs → List (Val × Val)
  | .nil => []
  | .cons k v r => (k, v) :: r.toList

def Pairs.keys : Pairs → List Val
  | .nil => []
  | .cons k _ r => k :: r.keys

/-- `k in d` -/
def Pairs.hasKey (k : Val) : Pairs → Bool
  | .nil => false
  | .cons k' _ r => if k' = k then true else r.hasKey k

/-- `d.get(k)` -/
def Pairs.lookup (k : Val) : Pairs → Option Val
  | .nil => none
  | .cons k' v r => if k' = k then some v else r.lookup k

def Pairs.erase (k : Val) : Pairs → Pairs
  | .nil => .nil
  | .cons k' v r => if k' = k then r.erase k else .cons k' v (r.erase k)

/-- `d[k] = v`: overwrite in place or append -/
def Pairs.set (d : Pairs) (k v : Val) : Pairs :=
  match d with
  | .nil => .cons k v .nil
  | .cons k' v' r => if k' = k then .cons k v r else .cons k' v' (r.set k v)

/-- The dict a loader builds from the pairs `(k, v) :: rest` when `r` is the dict built from `rest`:
    the key keeps its first position, the last value wins (`d[k] = v` for each pair in order). -/
def Pairs.pushFront (k v : Val) (r : Pairs) : Pairs :=
  match r.lookup k with
  | some v' => .cons k v' (r.erase k)
  | none => .cons k v r

def Vals.any (p : Val → Bool) : Vals → Bool
  | .nil => false
  | .cons x xs => p x || xs.any p

/-! ### constants -/
def sClass : Str := Pyro.Gen.C01.classKey                          -- "__class__" (from the source)
def sException : Str := [95, 95, 101, 120, 99, 101, 112, 116, 105, 111, 110, 95, 95]   -- "__exception__"
def sFloat : Str := [102, 108, 111, 97, 116]   -- "float"
def sComplex : Str := [99, 111, 109, 112, 108, 101, 120]   -- "complex"
def sValue : Str := [118, 97, 108, 117, 101]   -- "value"
def sReal : Str := [114, 101, 97, 108]   -- "real"
def sImag : Str := [105, 109, 97, 103]   -- "imag"
def sNan : Str := [110, 97, 110]   -- "nan"
def sData : Str := [100, 97, 116, 97]   -- "data"
def sEncoding : Str := [101, 110, 99, 111, 100, 105, 110, 103]   -- "encoding"
def sBase64 : Str := [98, 97, 115, 101, 54, 52]   -- "base64"
def sObject : Str := [111, 98, 106, 101, 99, 116]   -- "object"
def sMethod : Str := [109, 101, 116, 104, 111, 100]   -- "method"
def sParams : Str := [112, 97, 114, 97, 109, 115]   -- "params"
def sKwargs : Str := [107, 119, 97, 114, 103, 115]   -- "kwargs"
def sTrue : Str := [116, 114, 117, 101]   -- "true"
def sFalse : Str := [102, 97, 108, 115, 101]   -- "false"
def sNull : Str := [110, 117, 108, 108]   -- "null"
def sNaN : Str := [78, 97, 78]   -- "NaN"
def sInfinity : Str := [73, 110, 102, 105, 110, 105, 116, 121]   -- "Infinity"
def sNegInfinity : Str := [45, 73, 110, 102, 105, 110, 105, 116, 121]   -- "-Infinity"
def sO : Str := [111]   -- "o"
def sM : Str := [109]   -- "m"
def sK : Str := [107]   -- "k"
def sPyro5Dot : Str := [80, 121, 114, 111, 53, 46]   -- "Pyro5."
def sStructError : Str := [115, 116, 114, 117, 99, 116, 46, 101, 114, 114, 111, 114]   -- "struct.error"

def classKey : Val := .str sClass

/-- range of the integers msgpack packs natively: [-2^63, 2^64) -/
def i64Min : Int := -9223372036854775808
def u64Bound : Int := 18446744073709551616

def extComplex : Nat := 0x30
def extLong : Nat := 0x31
def extDatetime : Nat := 0x32
def extDate : Nat := 0x33

/-! ### float tokens (classification of the bit pattern only) -/
def nanBits : Nat := 0x7ff8000000000000
def infBits : Nat := 0x7ff0000000000000
def ninfBits : Nat := 0xfff0000000000000
def negZeroBits : Nat := 0x8000000000000000
def isNan (bits : Nat) : Bool := bits / 2 ^ 52 % 2048 == 2047 && bits % 2 ^ 52 != 0

/-! ### externals written out: little-endian struct fields, decimal text of an int, base64, isoformat -/
/-- `struct.pack("<Q")` / native "d", "l" on the platform of the run (little endian, 8 bytes) -/
def toLE (w n : Nat) : Bytes := (toBE w n).reverse
def fromLE (bs : Bytes) : Nat := fromBE bs.reverse

/-- decimal digits of `n`, most significant first (`fuel` > number of digits) -/
def natDigitsAux : Nat → Nat → List Nat → List Nat
  | 0, _, acc => acc
  | fuel + 1, n, acc => if n < 10 then n :: acc else natDigitsAux fuel (n / 10) (n % 10 :: acc)

def natDigits (n : Nat) : List Nat := natDigitsAux (n + 1) n []

/-- `str(z).encode("ascii")` -/
def intToAscii (z : Int) : Bytes :=
  let ds := (natDigits z.natAbs).map fun d => UInt8.ofNat (48 + d)
  if z < 0 then 45 :: ds else ds

def parseDigits : List UInt8 → Nat → Option Nat
  | [], acc => some acc
  | c :: cs, acc => if 48 ≤ c.toNat ∧ c.toNat ≤ 57 then parseDigits cs (acc * 10 + (c.toNat - 48)) else none

/-- `int(data)` for the canonical decimal texts (`-`? digit+); anything else is outside the model -/
def asciiToInt : Bytes → Option Int
  | [] => none
  | c :: cs =>
    if c = 45 then
      if cs = [] then none
      else match parseDigits cs 0 with
        | some n => some (-(Int.ofNat n))
        | none => none
    else match parseDigits (c :: cs) 0 with
      | some n => some (Int.ofNat n)
      | none => none

/-- `str(z)` as code points -/
def intToStr (z : Int) : Str := (intToAscii z).map UInt8.toNat

def b64char (n : Nat) : Nat :=
  if n < 26 then 65 + n else if n < 52 then 97 + (n - 26) else if n < 62 then 48 + (n - 52)
  else if n = 62 then 43 else 47

/-- `base64.b64encode(data).decode()` -/
def b64 : Bytes → Str
  | [] => []
  | [a] => [b64char (a.toNat / 4), b64char (a.toNat % 4 * 16), 61, 61]
  | [a, b] => [b64char (a.toNat / 4), b64char (a.toNat % 4 * 16 + b.toNat / 16), b64char (b.toNat % 16 * 4), 61]
  | a :: b :: c :: rest =>
    b64char (a.toNat / 4) :: b64char (a.toNat % 4 * 16 + b.toNat / 16) ::
      b64char (b.toNat % 16 * 4 + c.toNat / 64) :: b64char (c.toNat % 64) :: b64 rest

def pad (w : Nat) (ds : List Nat) : List Nat := List.replicate (w - ds.length) 0 ++ ds

def daysBeforeMonth : Nat → Nat
  | 1 => 0 | 2 => 31 | 3 => 59 | 4 => 90 | 5 => 120 | 6 => 151 | 7 => 181 | 8 => 212
  | 9 => 243 | 10 => 273 | 11 => 304 | 12 => 334 | _ => 0
def daysInMonth : Nat → Nat
  | 2 => 28 | 4 => 30 | 6 => 30 | 9 => 30 | 11 => 30 | _ => 31

def maxOrdinal : Nat := 3652059

/-- `datetime.date.fromordinal(n)` as (year, month, day) — CPython's `_ord2ymd` -/
def ord2ymd (ord : Nat) : Nat × Nat × Nat :=
  let n := ord - 1
  let n400 := n / 146097; let n := n % 146097
  let n100 := n / 36524;  let n := n % 36524
  let n4 := n / 1461;     let n := n % 1461
  let n1 := n / 365;      let n := n % 365
  let year := n400 * 400 + 1 + n100 * 100 + n4 * 4 + n1
  if n1 = 4 ∨ n100 = 4 then (year - 1, 12, 31)
  else
    let leap : Bool := n1 = 3 ∧ (n4 ≠ 24 ∨ n100 = 3)
    let month := (n + 50) / 32
    let preceding := daysBeforeMonth month + (if month > 2 ∧ leap then 1 else 0)
    if preceding > n then
      let month := month - 1
      let preceding := preceding - (daysInMonth month + (if month = 2 ∧ leap then 1 else 0))
      (year, month, n - preceding + 1)
    else (year, month, n - preceding + 1)

/-- `date.isoformat()`: "YYYY-MM-DD" -/
def dateIso (ord : Nat) : Str :=
  let (y, m, d) := ord2ymd ord
  let digs (w n : Nat) : List Nat := (pad w (natDigits n)).map (48 + ·)
  digs 4 y ++ [45] ++ digs 2 m ++ [45] ++ digs 2 d

/-- `"__" in classname` -/
def hasDunder : Str → Bool
  | 95 :: 95 :: _ => true
  | _ :: rest => hasDunder rest
  | [] => false

def startsWith : Str → Str → Bool
  | _, [] => true
  | [], _ :: _ => false
  | a :: as, b :: bs => a == b && startsWith as bs

/-! ### configuration = the source facts that differ between the two paths (PyroModel/Gen/C01.lean) -/
structure Cfg where
  callExtHook : Bool     -- MsgpackSerializer.loadsCall passes ext_hook
  resExtHook : Bool      -- MsgpackSerializer.loads passes ext_hook
  callObjHook : Bool     -- ... object_hook
  resObjHook : Bool
  callRecreate : Bool    -- MsgpackSerializer.loadsCall passes vargs and kwargs through recreate_classes
  resRecreate : Bool     -- MsgpackSerializer.loads passes the result through recreate_classes
  kwNoneSafe : Bool      -- MarshalSerializer.dumpsCall accepts kwargs=None
  resListItems : Bool    -- MarshalSerializer.dumps also converts the items of a top-level list
  callListItems : Bool   -- MarshalSerializer.dumpsCall also converts the items of an argument that is a list
  deriving DecidableEq, Repr

def srcCfg : Cfg :=
  { callExtHook := Pyro.Gen.C01.msgpackCallExtHook, resExtHook := Pyro.Gen.C01.msgpackLoadsExtHook,
    callObjHook := Pyro.Gen.C01.msgpackCallObjectHook, resObjHook := Pyro.Gen.C01.msgpackLoadsObjectHook,
    callRecreate := Pyro.Gen.C01.msgpackCallRecreate, resRecreate := Pyro.Gen.C01.msgpackLoadsRecreate,
    kwNoneSafe := Pyro.Gen.C01.marshalKwargsNoneSafe,
    resListItems := Pyro.Gen.C01.marshalDumpsListItems, callListItems := Pyro.Gen.C01.marshalDumpsCallListItems }

/-- The configurations under which the property holds: `ext_hook` on both paths, kwargs=None tolerated,
    class dicts handled on both paths either by msgpack's `object_hook` (inside `unpackb`) or by
    `recreate_classes` afterwards, and marshal's one-level list conversion on both paths or on neither. -/
def Cfg.good (c : Cfg) : Bool :=
  c.callExtHook && c.resExtHook && c.kwNoneSafe && (c.resListItems == c.callListItems) &&
  ((c.callObjHook && c.resObjHook && !c.callRecreate && !c.resRecreate) ||
   (!c.callObjHook && !c.resObjHook && c.callRecreate && c.resRecreate))

/-- object_hook variant (the source with the one-line `ext_hook` repair) -/
def hookCfg : Cfg := ⟨true, true, true, true, false, false, true, false, false⟩
/-- top-down variant (`unpackb(ext_hook=...)` then `recreate_classes`) -/
def topDownCfg : Cfg := ⟨true, true, false, false, true, true, true, true, true⟩

/-! ### phase 1: dumps -/

/-- serpent `_check_hashable_type(type(x))`: bool, bytes, str, tuple, numbers.Number (int, float,
    complex, Decimal) -/
def serpentHashType : Val → Bool
  | .bool _ | .bytes _ | .str _ | .tuple _ | .int _ | .float _ | .complex _ _ | .decimal _ => true
  | _ => false

/-- serpent `ser_builtins_float`: NaN has no literal, it is written as a class dict -/
def serpentFloat (bits : Nat) : Val :=
  if isNan bits then .dict (.cons classKey (.str sFloat) (.cons (.str sValue) (.str sNan) .nil))
  else .float bits

/-- serpent `_translate_byte_type` with bytes_repr=False -/
def serpentBytes (b : Bytes) : Val :=
  .dict (.cons (.str sData) (.str (b64 b)) (.cons (.str sEncoding) (.str sBase64) .nil))

/-- json: a dict key is turned into text (`str`, int, float, bool, None are accepted) -/
def jsonKey : Val → Except Err Val
  | .str s => .ok (.str s)
  | .bool true => .ok (.str sTrue)
  | .bool false => .ok (.str sFalse)
  | .none => .ok (.str sNull)
  | .int z => .ok (.str (intToStr z))
  | .float bits =>
    if isNan bits then .ok (.str sNaN) else if bits = infBits then .ok (.str sInfinity)
    else if bits = ninfBits then .ok (.str sNegInfinity) else .error .oom    -- float.__repr__: not modelled
  | _ => .error .type         -- "keys must be str, int, float, bool or None"

/-- what the library does with a value it has no encoding for: with Pyro's hook installed the hook
    ends in `class_to_dict`, which raises SerializeError for these; the bare library raises itself -/
def unsupported (hooks : Bool) (bare : Err) : Except Err Val :=
  if hooks then .error .serialize else .error bare

mutual
/-- `dumps`, as the tree that is written to the wire.
    serpent: serpent.dumps(module_in_classname=True, bytes_repr=False).
    marshal: marshal.dumps (nested values; the top level first goes through `marshalConv`).
    json:    json.dumps(default=self.default).   msgpack: msgpack.packb(use_bin_type=True, default=self.default). -/
def enc (s : Ser) (hooks : Bool) : Val → Except Err Val
  | .none => .ok .none
  | .bool b => .ok (.bool b)
  | .int z =>
    match s with
    | .msgpack =>
      if i64Min ≤ z ∧ z < u64Bound then .ok (.int z)
      else if hooks then .ok (.ext extLong (intToAscii z))     -- default(): numbers.Number → ExtType(0x31, str(obj))
      else .error .overflow
    | _ => .ok (.int z)
  | .float bits =>
    match s with
    | .serpent => .ok (serpentFloat bits)
    | _ => .ok (.float bits)
  | .str t => .ok (.str t)
  | .bytes b =>
    match s with
    | .serpent => .ok (serpentBytes b)
    | .json => unsupported hooks .type
    | _ => .ok (.bytes b)
  | .bytearray b =>
    match s with
    | .serpent => .ok (serpentBytes b)
    | .json => unsupported hooks .type
    | _ => .ok (.bytes b)                      -- written through the buffer protocol, read back as bytes
  | .list xs => do let ys ← encList s hooks xs; .ok (.list ys)
  | .tuple xs =>
    match s with
    | .serpent | .marshal => do let ys ← encList s hooks xs; .ok (.tuple ys)
    | .json | .msgpack => do let ys ← encList s hooks xs; .ok (.list ys)
  | .set xs =>
    match s with
    | .serpent =>
      match xs with
      | .nil => .ok (.tuple .nil)              -- "empty set literal doesn't exist": written as ()
      | _ => do let ys ← encElts hooks xs; .ok (.set ys)
    | .marshal => do let ys ← encList s hooks xs; .ok (.set ys)
    | .json | .msgpack =>
      if hooks then do let ys ← encList s hooks xs; .ok (.list ys)    -- default(): tuple(obj)
      else .error .type
  | .frozenset xs =>
    match s with
    | .serpent =>
      match xs with
      | .nil => .ok (.tuple .nil)
      | _ => do let ys ← encElts hooks xs; .ok (.set ys)
    | .marshal => do let ys ← encList s hooks xs; .ok (.frozenset ys)
    | .json | .msgpack => unsupported hooks .type      -- isinstance(obj, set) is False for a frozenset
  | .dict kvs => do let ys ← encPairs s hooks kvs; .ok (.dict ys)
  | .complex re im =>
    match s with
    | .serpent =>
      if isNan re || isNan im then
        .ok (.dict (.cons classKey (.str sComplex) (.cons (.str sReal) (serpentFloat re)
              (.cons (.str sImag) (serpentFloat im) .nil))))
      else if re = negZeroBits ∨ im = negZeroBits then .error .oom   -- "(-0.0+1j)" is re-evaluated with float arithmetic
      else .ok (.complex re im)
    | .marshal => .ok (.complex re im)
    | .json => unsupported hooks .type
    | .msgpack =>
      if hooks then .ok (.ext extComplex (toLE 8 re ++ toLE 8 im))  -- ExtType(0x30, struct.pack("dd", re, im))
      else .error .type
  | .uuid t =>
    match s with
    | .serpent => .ok (.str t)
    | .marshal => .error .value                -- "unmarshallable object" (only the top level is converted)
    | .json | .msgpack => if hooks then .ok (.str t) else .error .type
  | .decimal t =>
    match s with
    | .serpent => .ok (.str t)
    | .marshal => .error .value
    | .json | .msgpack => if hooks then .ok (.str t) else .error .type
  | .date ord =>
    match s with
    | .serpent => .ok (.str (dateIso ord))
    | .marshal => .error .value
    | .json => if hooks then .ok (.str (dateIso ord)) else .error .type
    | .msgpack => if hooks then .ok (.ext extDate (toLE 8 ord)) else .error .type  -- struct.pack("l", toordinal())
  | .ext _ _ => .error .oom
  | .inst cls fields =>
    match s with
    | .marshal => .error .value
    | .serpent => do
      let fs ← encPairs s hooks fields        -- ser_default_class: vars(obj) + "__class__"
      .ok (.dict (fs.set classKey (.str cls)))
    | .json | .msgpack =>
      if hooks then do
        let fs ← encPairs s hooks fields      -- class_to_dict: dict(vars(obj)); value["__class__"] = ...
        .ok (.dict (fs.set classKey (.str cls)))
      else .error .type
def encList (s : Ser) (hooks : Bool) : Vals → Except Err Vals
  | .nil => .ok .nil
  | .cons x xs => do
    let y ← enc s hooks x
    let ys ← encList s hooks xs
    .ok (.cons y ys)
/-- elements of a serpent set: type check, then the element -/
def encElts (hooks : Bool) : Vals → Except Err Vals
  | .nil => .ok .nil
  | .cons x xs =>
    if serpentHashType x then do
      let y ← enc .serpent hooks x
      let ys ← encElts hooks xs
      .ok (.cons y ys)
    else .error .type
def encPairs (s : Ser) (hooks : Bool) : Pairs → Except Err Pairs
  | .nil => .ok .nil
  | .cons k v rest =>
    match s with
    | .serpent =>
      if serpentHashType k then do
        let k' ← enc s hooks k
        let v' ← enc s hooks v
        let r ← encPairs s hooks rest
        .ok (.cons k' v' r)
      else .error .type
    | .json => do
      let k' ← jsonKey k
      let v' ← enc s hooks v
      let r ← encPairs s hooks rest
      .ok (.cons k' v' r)
    | _ => do
      let k' ← enc s hooks k
      let v' ← enc s hooks v
      let r ← encPairs s hooks rest
      .ok (.cons k' v' r)
end

/-- `MarshalSerializer.convert_obj_into_marshallable` (335-346) + `class_to_dict` (349-352, 125-169):
    applied to the top-level value only. -/
def marshalConv : Val → Except Err Val
  | .uuid t => .ok (.str t)
  | .decimal _ => .error .serialize
  | .date _ => .error .serialize
  | .inst cls fields => .ok (.dict (fields.set classKey (.str cls)))
  | .ext _ _ => .error .oom
  | v => .ok v

def marshalConvList : Vals → Except Err Vals
  | .nil => .ok .nil
  | .cons x xs => do
    let y ← marshalConv x
    let ys ← marshalConvList xs
    .ok (.cons y ys)

def marshalConvVals : Pairs → Except Err Pairs
  | .nil => .ok .nil
  | .cons k v rest => do
    let v' ← marshalConv v
    let r ← marshalConvVals rest
    .ok (.cons k v' r)

/-- what `dumps` / `dumpsCall` do with one top-level object before `marshal.dumps`: when `items` is set
    (extracted fact) the items of a *list* are converted too (`type(data) is list`, one level), then
    `convert_obj_into_marshallable` on the object itself. -/
def marshalTop (items : Bool) : Val → Except Err Val
  | .list xs => if items then do let ys ← marshalConvList xs; .ok (.list ys) else .ok (.list xs)
  | v => marshalConv v

def marshalTopList (items : Bool) : Vals → Except Err Vals
  | .nil => .ok .nil
  | .cons x xs => do
    let y ← marshalTop items x
    let ys ← marshalTopList items xs
    .ok (.cons y ys)

def marshalTopVals (items : Bool) : Pairs → Except Err Pairs
  | .nil => .ok .nil
  | .cons k v rest => do
    let v' ← marshalTop items v
    let r ← marshalTopVals items rest
    .ok (.cons k v' r)

/-! ### phase 2: the library's loads (+ msgpack's hooks, which run inside it) -/

/-- after serpent's mapping: can the value be put in a set / used as a dict key? -/
def unhashable : Val → Bool
  | .list _ | .dict _ | .set _ | .bytearray _ | .inst _ _ => true
  | .tuple xs => unhashableList xs
  | _ => false
where unhashableList : Vals → Bool
  | .nil => false
  | .cons x xs => unhashable x || unhashableList xs

/-- `SerializerBase.dict_to_class` (172-235) with an empty custom registry, reached for a dict that has
    a "__class__" key.  The fixed classes it can build (Pyro5.*, exceptions) belong to C04 / C07. -/
def dictToClass (s : Ser) (d : Pairs) : Except Err Val :=
  match d.lookup classKey with
  | some (.str name) =>
    if s = .serpent ∧ name = sFloat then
      match d.lookup (.str sValue) with
      | some (.str t) => if t = sNan then .ok (.float nanBits) else .error .oom
      | _ => .error .oom
    else if hasDunder name then .error .security
    else if startsWith name sPyro5Dot ∨ name = sStructError ∨ d.hasKey (.str sException) then .error .oom
    else .error .serialize        -- "unsupported serialized class"
  | _ => .error .oom

/-- `MsgpackSerializer.ext_hook` (463-473) -/
def extHook (code : Nat) (data : Bytes) : Except Err Val :=
  if code = extComplex then
    if data.length = 16 then .ok (.complex (fromLE (data.take 8)) (fromLE (data.drop 8))) else .error .oom
  else if code = extLong then
    match asciiToInt data with
    | some z => .ok (.int z)
    | none => .error .oom
  else if code = extDatetime then .error .oom
  else if code = extDate then
    if data.length = 8 then
      let n := fromLE data
      if 1 ≤ n ∧ n ≤ maxOrdinal then .ok (.date n) else .error .value
    else .error .oom
  else .error .serialize

def isStrOrBytes : Val → Bool
  | .str _ | .bytes _ => true
  | _ => false

mutual
/-- the library's `loads` on a wire tree.  `xh`: msgpack is given `ext_hook`; `oh`: `object_hook`. -/
def dec (s : Ser) (xh oh : Bool) : Val → Except Err Val
  | .list xs => do let ys ← decList s xh oh xs; .ok (.list ys)
  | .tuple xs => do let ys ← decList s xh oh xs; .ok (.tuple ys)
  | .set xs => do
    let ys ← decList s xh oh xs
    if s = .serpent ∧ unhashable.unhashableList ys then .error .type else .ok (.set ys)
  | .frozenset xs => do let ys ← decList s xh oh xs; .ok (.frozenset ys)
  | .dict kvs => do
    let d ← decPairs s xh oh kvs
    if s = .msgpack ∧ oh ∧ d.hasKey classKey then dictToClass .msgpack d else .ok (.dict d)
  | .ext code data => if s = .msgpack ∧ xh then extHook code data else .ok (.ext code data)
  | v => .ok v
def decList (s : Ser) (xh oh : Bool) : Vals → Except Err Vals
  | .nil => .ok .nil
  | .cons x xs => do
    let y ← dec s xh oh x
    let ys ← decList s xh oh xs
    .ok (.cons y ys)
def decPairs (s : Ser) (xh oh : Bool) : Pairs → Except Err Pairs
  | .nil => .ok .nil
  | .cons k v rest => do
    let k' ← dec s xh oh k
    let v' ← dec s xh oh v
    if s = .serpent ∧ unhashable k' then .error .type                 -- TypeError: unhashable type
    else if s = .msgpack ∧ !isStrOrBytes k' then .error .value        -- strict_map_key
    else do
      let r ← decPairs s xh oh rest
      .ok (r.pushFront k' v')
end

/-! ### phase 3: recreate_classes -/
mutual
def recreate (s : Ser) : Val → Except Err Val
  | .set xs => do let ys ← recList s xs; .ok (.set ys)
  | .list xs => do let ys ← recList s xs; .ok (.list ys)
  | .tuple xs => do let ys ← recList s xs; .ok (.tuple ys)
  | .dict kvs =>
    if kvs.hasKey classKey then dictToClass s kvs
    else do let ys ← recVals s kvs; .ok (.dict ys)
  | v => .ok v
def recList (s : Ser) : Vals → Except Err Vals
  | .nil => .ok .nil
  | .cons x xs => do
    let y ← recreate s x
    let ys ← recList s xs
    .ok (.cons y ys)
def recVals (s : Ser) : Pairs → Except Err Pairs
  | .nil => .ok .nil
  | .cons k v rest => do
    let v' ← recreate s v
    let r ← recVals s rest
    .ok (.cons k v' r)
end

/-! ### the two paths -/

/-- `serializer.loads(serializer.dumps(v))` — what the client receives when the method returned `v`
    (serializers.py 280-290, 321-333, 370-383, 421-428) -/
def resRT (c : Cfg) (s : Ser) (v : Val) : Except Err Val :=
  match s with
  | .serpent => do
    let w ← enc .serpent true v
    let d ← dec .serpent false false w
    recreate .serpent d
  | .marshal => do
    let m ← marshalTop c.resListItems v
    let w ← enc .marshal true m
    let d ← dec .marshal false false w
    recreate .marshal d
  | .json => do
    let w ← enc .json true v
    let d ← dec .json false false w
    recreate .json d
  | .msgpack => do
    let w ← enc .msgpack true v
    let d ← dec .msgpack c.resExtHook c.resObjHook w
    if c.resRecreate then recreate .msgpack d else .ok d

def vStr (s : Str) : Val := .str s

/-- `serializer.loadsCall(serializer.dumpsCall(obj, method, vargs, kwargs))` → (vargs, kwargs) as the
    daemon gets them (serializers.py 277-287, 316-329, 365-379, 418-425).  `vargs` is a tuple (plain
    call) or a list (batch), `kwargs` a dict or None (batch, attribute access). -/
def callRT (c : Cfg) (s : Ser) (vargs kwargs : Val) : Except Err (Val × Val) :=
  match s with
  | .serpent => do
    let w ← enc .serpent true (.tuple (.cons (vStr sO) (.cons (vStr sM) (.cons vargs (.cons kwargs .nil)))))
    let d ← dec .serpent false false w
    match d with
    | .tuple (.cons _ (.cons _ (.cons a (.cons k .nil)))) => do
      let a' ← recreate .serpent a
      let k' ← recreate .serpent k
      .ok (a', k')
    | _ => .error .oom
  | .marshal => do
    let vs ← match vargs with
      | .list xs => marshalTopList c.callListItems xs
      | .tuple xs => marshalTopList c.callListItems xs
      | _ => .error .oom
    let kw ← match kwargs with
      | .dict kvs => do let r ← marshalTopVals c.callListItems kvs; .ok (Val.dict r)
      | .none => if c.kwNoneSafe then .ok (Val.dict .nil) else .error .attribute   -- None.items()
      | _ => .error .oom
    let w ← enc .marshal true (.tuple (.cons (vStr sO) (.cons (vStr sM) (.cons (.list vs) (.cons kw .nil)))))
    let d ← dec .marshal false false w
    match d with
    | .tuple (.cons _ (.cons _ (.cons a (.cons k .nil)))) => do
      let a' ← recreate .marshal a
      let k' ← recreate .marshal k
      .ok (a', k')
    | _ => .error .oom
  | .json => do
    let w ← enc .json true (.dict (.cons (vStr sObject) (vStr sO) (.cons (vStr sMethod) (vStr sM)
              (.cons (vStr sParams) vargs (.cons (vStr sKwargs) kwargs .nil)))))
    let d ← dec .json false false w
    match d with
    | .dict kvs =>
      match kvs.lookup (vStr sParams), kvs.lookup (vStr sKwargs) with
      | some a, some k => do
        let a' ← recreate .json a
        let k' ← recreate .json k
        .ok (a', k')
      | _, _ => .error .oom
    | _ => .error .oom
  | .msgpack => do
    let w ← enc .msgpack true (.tuple (.cons (vStr sO) (.cons (vStr sM) (.cons vargs (.cons kwargs .nil)))))
    let d ← dec .msgpack c.callExtHook c.callObjHook w
    match d with
    | .list (.cons _ (.cons _ (.cons a (.cons k .nil)))) =>
      if c.callRecreate then do
        let a' ← recreate .msgpack a
        let k' ← recreate .msgpack k
        .ok (a', k')
      else .ok (a, k)
    | _ => .error .oom

/-- the only element of the vargs container the daemon unpacks with `*vargs` -/
def firstOf : Val → Except Err Val
  | .tuple (.cons x .nil) => .ok x
  | .list (.cons x .nil) => .ok x
  | _ => .error .oom

/-- what the server method receives for `proxy.m(v)` -/
def argPath (c : Cfg) (s : Ser) (v : Val) : Except Err Val := do
  let (a, _) ← callRT c s (.tuple (.cons v .nil)) (.dict .nil)
  firstOf a

/-- what the server method receives for `proxy.m(k=v)` -/
def kwPath (c : Cfg) (s : Ser) (v : Val) : Except Err Val := do
  let (_, k) ← callRT c s (.tuple .nil) (.dict (.cons (vStr sK) v .nil))
  match k with
  | .dict kvs =>
    match kvs.lookup (vStr sK) with
    | some x => .ok x
    | none => .error .oom
  | _ => .error .oom

/-- the bare library's own `loads(dumps(v))` type mapping (no Pyro hook on either side) -/
def libMap (s : Ser) (v : Val) : Except Err Val := do
  let w ← enc s false v
  dec s false false w


/-! ### specification predicates (used by the theorems of PyroProps/C01.lean; executable, so the
    harness can evaluate them on what the real code delivers) -/

/-- can the Python value be an element of a set / a key of a dict at all? -/
def hashable : Val → Bool
  | .none | .bool _ | .int _ | .float _ | .str _ | .bytes _ | .complex _ _ | .uuid _ | .decimal _ | .date _ => true
  | .tuple xs => hashableList xs
  | .frozenset xs => hashableList xs
  | _ => false
where hashableList : Vals → Bool
  | .nil => true
  | .cons x xs => hashable x && hashableList xs

def Vals.all (p : Val → Bool) : Vals → Bool
  | .nil => true
  | .cons x xs => p x && xs.all p

def Pairs.allKeys (p : Val → Bool) : Pairs → Bool
  | .nil => true
  | .cons k _ r => p k && r.allKeys p

/-- no key occurs twice -/
def Pairs.nodupKeys : Pairs → Bool
  | .nil => true
  | .cons k _ r => !r.hasKey k && r.nodupKeys

mutual
/-- representation invariant: the term denotes a Python value (set elements and dict keys are
    hashable objects) -/
def pyval : Val → Bool
  | .list xs | .tuple xs => pyvalList xs
  | .set xs | .frozenset xs => hashable.hashableList xs && pyvalList xs
  | .dict kvs => kvs.allKeys hashable && pyvalPairs kvs
  | .inst _ fields => fields.allKeys hashable && pyvalPairs fields
  | _ => true
def pyvalList : Vals → Bool
  | .nil => true
  | .cons x xs => pyval x && pyvalList xs
def pyvalPairs : Pairs → Bool
  | .nil => true
  | .cons k v r => pyval k && pyval v && pyvalPairs r
end

/-- a float token as Python can observe it: every NaN is the one NaN -/
def floatOk (bits : Nat) : Bool := !isNan bits || bits == nanBits

def isStr : Val → Bool
  | .str _ => true
  | _ => false

mutual
/-- the lossless core of the property statement: None, booleans, integers of any size, floats
    (incl. inf / nan), text, lists and string-keyed dicts (no reserved key), arbitrarily nested -/
def lossless : Val → Bool
  | .none | .bool _ | .int _ | .str _ => true
  | .float b => floatOk b
  | .list xs => losslessList xs
  | .dict kvs => !kvs.hasKey classKey && kvs.nodupKeys && losslessPairs kvs
  | _ => false
def losslessList : Vals → Bool
  | .nil => true
  | .cons x xs => lossless x && losslessList xs
def losslessPairs : Pairs → Bool
  | .nil => true
  | .cons k v r => isStr k && lossless v && losslessPairs r
end

/-- serpent: the value survives being a set element / dict key (after serpent's own mapping) -/
def hashOK : Val → Bool
  | .none | .bool _ | .int _ | .str _ => true
  | .float b => !isNan b
  | .complex re im => !isNan re && !isNan im && re != negZeroBits && im != negZeroBits
  | .tuple xs => hashOKList xs
  | _ => false
where hashOKList : Vals → Bool
  | .nil => true
  | .cons x xs => hashOK x && hashOKList xs

mutual
/-- the values serializer `s` delivers: the image of its type mapping (= its fixed points) -/
def nf (s : Ser) : Val → Bool
  | .none | .bool _ | .int _ | .str _ => true
  | .float b => match s with
    | .serpent => floatOk b
    | _ => true
  | .bytes _ => match s with
    | .marshal | .msgpack => true
    | _ => false
  | .list xs => nfList s xs
  | .tuple xs => match s with
    | .serpent | .marshal => nfList s xs
    | _ => false
  | .set xs => match s with
    | .serpent => (match xs with | .nil => false | _ => true) && xs.all serpentHashType && hashOK.hashOKList xs && nfList s xs
    | .marshal => nfList s xs
    | _ => false
  | .frozenset xs => match s with
    | .marshal => nfList s xs
    | _ => false
  | .dict kvs => !kvs.hasKey classKey && kvs.nodupKeys && nfPairs s kvs
  | .complex re im => match s with
    | .serpent => !isNan re && !isNan im && re != negZeroBits && im != negZeroBits
    | .marshal => true
    | .msgpack => decide (re < 2 ^ 64) && decide (im < 2 ^ 64)
    | .json => false
  | .date ord => match s with
    | .msgpack => decide (1 ≤ ord) && decide (ord ≤ maxOrdinal)
    | _ => false
  | _ => false
def nfList (s : Ser) : Vals → Bool
  | .nil => true
  | .cons x xs => nf s x && nfList s xs
def nfPairs (s : Ser) : Pairs → Bool
  | .nil => true
  | .cons k v r =>
    (match s with
      | .serpent => serpentHashType k && hashOK k && nf s k
      | .marshal => hashable k && nf s k
      | .json => isStr k
      | .msgpack => isStrOrBytes k) && nf s v && nfPairs s r
end

end Pyro.Values
