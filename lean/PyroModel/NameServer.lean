/-
  NameServer.lean — model of Pyro5/nameserver.py: the abstract map (`Spec`), the storage interface
  (`Store`), the `NameServer` operations written against that interface (`nsStep`), and the in-memory
  back-end (`memStore`).  The sqlite back-end is in PyroModel/Sql.lean.

  Text is a list of code points (`Str`).  A metadata set is kept as the list of its distinct members in
  order of first occurrence (`dedup`); the three state representations (spec, dict, sqlite tables) keep it
  in that same order, printing sorts it.  Dict / table order is kept as the code produces it and is not
  observable: every result that comes from a dict is compared up to permutation (`Res.Equiv`).

  Externals are parameters (`Env`): `core.URI(text)` accepts / rejects, `re.compile` succeeds, and
  `re.match(pattern, name)`; the driver instantiates them from tables computed by the harness.
-/

namespace Pyro.NS

abbrev Str := List Nat
abbrev Tags := List Str

structure Entry where
  name : Str
  uri : Str
  tags : Tags
  deriving DecidableEq, Repr

/-- a listing without `return_metadata` carries URIs only -/
def Entry.strip (withMeta : Bool) (e : Entry) : Entry :=
  if withMeta then e else { e with tags := [] }

/-- `core.NAMESERVER_NAME` = "Pyro.NameServer" (pinned by `C14_gen_nsname`) -/
def nsName : Str := [80, 121, 114, 111, 46, 78, 97, 109, 101, 83, 101, 114, 118, 101, 114]

/-- `set(metadata)` as the list of distinct members, first occurrences -/
def dedup : Tags → Tags
  | [] => []
  | a :: l => a :: (dedup l).filter (· != a)

structure Env where
  /-- `core.URI(text)` does not raise -/
  uriOk : Str → Bool
  /-- `re.compile(pattern)` does not raise -/
  reOk : Str → Bool
  /-- `re.compile(pattern).match(name)` is not None -/
  reMatch : Str → Str → Bool

inductive Err where
  | naming     -- NamingError raised by NameServer itself
  | type       -- TypeError
  | value      -- ValueError
  | pyro       -- PyroError from core.URI(...)
  | key        -- KeyError escaping the name server (dict semantics; unreachable sequentially)
  | storage    -- NamingError("sqlite error in ...") : a storage statement failed, transaction rolled back
  deriving DecidableEq, Repr

inductive Res where
  | none
  | num (n : Nat)
  | uri (u : Str)
  | uriMeta (u : Str) (t : Tags)
  | listing (l : List Entry)
  | err (e : Err)
  deriving DecidableEq, Repr

/-- a `metadata` / `meta_all` / `meta_any` argument: None, a str (empty or not), or a collection of str -/
inductive MetaArg where
  | none
  | str (nonempty : Bool)
  | list (l : Tags)
  deriving DecidableEq, Repr

def MetaArg.truthy : MetaArg → Bool
  | .none => false
  | .str b => b
  | .list l => !l.isEmpty

def MetaArg.isStr : MetaArg → Bool
  | .str _ => true
  | _ => false

def MetaArg.tags : MetaArg → Tags
  | .list l => l
  | _ => []

/-- `set(metadata) if metadata else None`, stored as `metadata or frozenset()` -/
def storedTags (md : MetaArg) : Tags := if md.truthy then dedup md.tags else []

/-- Python truthiness of an optional str argument: `None` and `""` are both "not given" -/
def truthy? : Option Str → Option Str
  | some (a :: l) => some (a :: l)
  | _ => Option.none

inductive Op where
  | count
  | lookup (name : Str) (withMeta : Bool)
  | register (name uri : Str) (safe : Bool) (md : MetaArg)
  | setMeta (name : Str) (md : MetaArg)
  | remove (name pfx regex : Option Str)
  | list (pfx regex : Option Str) (withMeta : Bool)
  | yplookup (all any : MetaArg) (withMeta : Bool)
  deriving DecidableEq, Repr

/-! ## The abstract map -/

/-- finite map name ↦ (uri, tag set): a list of entries with pairwise distinct names -/
abbrev Spec := List Entry

def Spec.get (s : Spec) (n : Str) : Option Entry := s.find? (·.name == n)
def Spec.has (s : Spec) (n : Str) : Bool := s.any (·.name == n)
def Spec.put (s : Spec) (e : Entry) : Spec := s.filter (·.name != e.name) ++ [e]
def Spec.drop (s : Spec) (victim : Str → Bool) : Spec := s.filter (fun e => !victim e.name)
def Spec.select (s : Spec) (p : Entry → Bool) (withMeta : Bool) : List Entry :=
  (s.filter p).map (Entry.strip withMeta)

def hasAll (ts : Tags) (e : Entry) : Bool := ts.all (e.tags.contains ·)
def hasAny (ts : Tags) (e : Entry) : Bool := ts.any (e.tags.contains ·)

/-- the `name=` branch of `remove` applies: the name is given, present, and not the name server's own -/
def Spec.nameVictim (s : Spec) (name : Option Str) : Option Str :=
  match truthy? name with
  | some n => if s.has n && n != nsName then some n else Option.none
  | Option.none => Option.none

/-- removal of every entry whose name satisfies `m`, except the name server's own entry -/
def specRemoveWhere (m : Str → Bool) (s : Spec) : Res × Spec :=
  (.num (s.filter (fun e => m e.name && e.name != nsName)).length, s.drop (fun n => m n && n != nsName))

/-- What each operation answers on a plain map: names literal and case sensitive, prefixes literal. -/
def specStep (env : Env) : Op → Spec → Res × Spec
  | .count, s => (.num s.length, s)
  | .lookup n wm, s =>
    match s.get n with
    | Option.none => (.err .naming, s)
    | some e =>
      if env.uriOk e.uri then ((if wm then .uriMeta e.uri e.tags else .uri e.uri), s)
      else (.err .pyro, s)
  | .register n u safe md, s =>
    if !env.uriOk u then (.err .pyro, s)
    else if md.isStr then (.err .type, s)
    else if safe && s.has n then (.err .naming, s)
    else (.none, s.put ⟨n, u, storedTags md⟩)
  | .setMeta n md, s =>
    if md.isStr then (.err .type, s)
    else match s.get n with
      | Option.none => (.err .naming, s)
      | some e => (.none, s.put ⟨n, e.uri, storedTags md⟩)
  | .remove name pfx regex, s =>
    match s.nameVictim name with
    | some n => (.num 1, s.drop (· == n))
    | Option.none =>
      match truthy? pfx with
      | some p => specRemoveWhere (fun n => p.isPrefixOf n) s
      | Option.none =>
        match truthy? regex with
        | some r => if env.reOk r then specRemoveWhere (env.reMatch r) s else (.err .naming, s)
        | Option.none => (.num 0, s)
  | .list pfx regex wm, s =>
    match truthy? pfx, truthy? regex with
    | some _, some _ => (.err .value, s)
    | some p, Option.none => (.listing (s.select (fun e => p.isPrefixOf e.name) wm), s)
    | Option.none, some r =>
      if env.reOk r then (.listing (s.select (fun e => env.reMatch r e.name) wm), s)
      else (.err .naming, s)
    | Option.none, Option.none => (.listing (s.select (fun _ => true) wm), s)
  | .yplookup all any wm, s =>
    if all.truthy && any.truthy then (.err .value, s)
    else if all.truthy then
      (if all.isStr then (.err .type, s) else (.listing (s.select (hasAll all.tags) wm), s))
    else if any.truthy then
      (if any.isStr then (.err .type, s) else (.listing (s.select (hasAny any.tags) wm), s))
    else (.listing [], s)

/-! ## The storage interface (what `NameServer` calls on `self.storage`)

  Every method returns `(none, s')` when a storage statement failed (the back-end raised
  `NamingError("sqlite error …")` after rolling its transaction back), else `(some result, s')`. -/

structure Store (σ : Type) where
  /-- `len(storage)` -/
  len : σ → Option Nat × σ
  /-- `name in storage` -/
  contains : Str → σ → Option Bool × σ
  /-- `storage[name]`; inner `none` = KeyError -/
  getItem : Str → σ → Option (Option Entry) × σ
  /-- `storage[name] = uri, metadata` (tags already de-duplicated; `[]` for None) -/
  setItem : Str → Str → Tags → σ → Option Unit × σ
  /-- `del storage[name]`; `false` = KeyError -/
  delItem : Str → σ → Option Bool × σ
  /-- `iter(storage)` -/
  iter : σ → Option (List Str) × σ
  /-- `optimized_prefix_list(prefix, return_metadata)`; inner `none` = "not optimised, do it yourself" -/
  optPrefix : Str → Bool → σ → Option (Option (List Entry)) × σ
  /-- `optimized_regex_list` -/
  optRegex : Str → Bool → σ → Option (Option (List Entry)) × σ
  /-- `optimized_metadata_search(metadata_all=… | metadata_any=…, return_metadata)`; first arg true = all -/
  optMeta : Bool → Tags → Bool → σ → Option (Option (List Entry)) × σ
  /-- `everything(return_metadata)` -/
  everything : Bool → σ → Option (List Entry) × σ
  /-- `remove_items(items)` -/
  removeItems : List Str → σ → Option Unit × σ

/-- one storage call followed by the rest of the method; a storage failure propagates as an exception -/
@[inline] def call {σ α : Type} (m : σ → Option α × σ) (k : α → σ → Res × σ) (s : σ) : Res × σ :=
  match m s with
  | (Option.none, s') => (.err .storage, s')
  | (some a, s') => k a s'

/-- nameserver.py:370-374 / 385-388: `for name in self.storage: if <pred>(name): result[name] = self.storage[name]…` -/
def collect {σ : Type} (S : Store σ) (pred : Str → Bool) (wm : Bool) : List Str → σ → Res × σ
  | [], s => (.listing [], s)
  | n :: ns, s =>
    if pred n then
      match S.getItem n s with
      | (Option.none, s1) => (.err .storage, s1)
      | (some Option.none, s1) => (.err .key, s1)
      | (some (some e), s1) =>
        match collect S pred wm ns s1 with
        | (.listing l, s2) => (.listing (e.strip wm :: l), s2)
        | r => r
    else collect S pred wm ns s

/-- `NameServer.list` (nameserver.py:358-391) -/
def nsList {σ : Type} (S : Store σ) (env : Env) (pfx regex : Option Str) (wm : Bool) (s : σ) : Res × σ :=
  match truthy? pfx, truthy? regex with
  | some _, some _ => (.err .value, s)
  | some p, Option.none =>
    call (S.optPrefix p wm) (fun o s1 =>
      match o with
      | some l => (.listing l, s1)
      | Option.none => call S.iter (fun names s2 => collect S (fun n => p.isPrefixOf n) wm names s2) s1) s
  | Option.none, some r =>
    call (S.optRegex r wm) (fun o s1 =>
      match o with
      | some l => (.listing l, s1)
      | Option.none =>
        if env.reOk r then call S.iter (fun names s2 => collect S (env.reMatch r) wm names s2) s1
        else (.err .naming, s1)) s
  | Option.none, Option.none => call (S.everything wm) (fun l s1 => (.listing l, s1)) s

/-- the tail of `NameServer.remove` for `prefix=` / `regex=` (nameserver.py:343-354) -/
def nsRemoveListed {σ : Type} (S : Store σ) (env : Env) (pfx regex : Option Str) (s : σ) : Res × σ :=
  match nsList S env pfx regex false s with
  | (.listing l, s1) =>
    let items := (l.map (·.name)).filter (· != nsName)
    call (S.removeItems items) (fun _ s2 => (.num items.length, s2)) s1
  | r => r

/-- `NameServer.yplookup`, one branch (nameserver.py:402-415 / 416-429) -/
def nsYp {σ : Type} (S : Store σ) (all : Bool) (arg : MetaArg) (wm : Bool) (s : σ) : Res × σ :=
  if arg.isStr then (.err .type, s)
  else
    call (S.optMeta all arg.tags wm) (fun o s1 =>
      match o with
      | some l => (.listing l, s1)
      | Option.none =>
        call (S.everything true) (fun l s2 =>
          (.listing ((l.filter (if all then hasAll arg.tags else hasAny arg.tags)).map (Entry.strip wm)), s2)) s1) s

/-- The `NameServer` methods (nameserver.py:284-431; line numbers as of the source with the C14 and C15 fixes), statement by statement over the storage interface. -/
def nsStep {σ : Type} (S : Store σ) (env : Env) : Op → σ → Res × σ
  | .count, s => call S.len (fun n s1 => (.num n, s1)) s
  | .lookup n wm, s =>
    call (S.getItem n) (fun o s1 =>
      match o with
      | Option.none => (.err .naming, s1)
      | some e =>
        if env.uriOk e.uri then ((if wm then .uriMeta e.uri e.tags else .uri e.uri), s1)
        else (.err .pyro, s1)) s
  | .register n u safe md, s =>
    if !env.uriOk u then (.err .pyro, s)
    else if md.isStr then (.err .type, s)
    else if safe then
      call (S.contains n) (fun b s1 =>
        if b then (.err .naming, s1)
        else call (S.setItem n u (storedTags md)) (fun _ s2 => (.none, s2)) s1) s
    else call (S.setItem n u (storedTags md)) (fun _ s2 => (.none, s2)) s
  | .setMeta n md, s =>
    if md.isStr then (.err .type, s)
    else
      call (S.getItem n) (fun o s1 =>
        match o with
        | Option.none => (.err .naming, s1)
        | some e => call (S.setItem n e.uri (storedTags md)) (fun _ s2 => (.none, s2)) s1) s
  | .remove name pfx regex, s =>
    let rest := fun (s : σ) =>
      match truthy? pfx with
      | some p => nsRemoveListed S env (some p) Option.none s
      | Option.none =>
        match truthy? regex with
        | some r => nsRemoveListed S env Option.none (some r) s
        | Option.none => (.num 0, s)
    match truthy? name with
    | some n =>
      call (S.contains n) (fun b s1 =>
        if b && n != nsName then
          call (S.delItem n) (fun ok s2 => if ok then (.num 1, s2) else (.err .key, s2)) s1
        else rest s1) s
    | Option.none => rest s
  | .list pfx regex wm, s => nsList S env pfx regex wm s
  | .yplookup all any wm, s =>
    if all.truthy && any.truthy then (.err .value, s)
    else if all.truthy then nsYp S true all wm s
    else if any.truthy then nsYp S false any wm s
    else (.listing [], s)

/-- a history: operations, results in order -/
def runHist {σ : Type} (step : Op → σ → Res × σ) : List Op → σ → List Res × σ
  | [], s => ([], s)
  | o :: os, s =>
    let (r, s1) := step o s
    let (rs, s2) := runHist step os s1
    (r :: rs, s2)

/-! ## MemoryStorage (nameserver.py:29-62): a dict -/

abbrev MemDb := List Entry

def memSet (n u : Str) (t : Tags) (s : MemDb) : MemDb :=
  if s.any (·.name == n) then s.map (fun e => if e.name == n then ⟨n, u, t⟩ else e)   -- existing key keeps its slot
  else s ++ [⟨n, u, t⟩]

/-- `for item in items: if item in self: del self[item]` -/
def memRemoveItems : List Str → MemDb → MemDb
  | [], s => s
  | n :: ns, s => memRemoveItems ns (if s.any (·.name == n) then s.filter (·.name != n) else s)

def memStore : Store MemDb where
  len s := (some s.length, s)
  contains n s := (some (s.any (·.name == n)), s)
  getItem n s := (some (s.find? (·.name == n)), s)
  setItem n u t s := (some (), memSet n u t s)
  delItem n s := if s.any (·.name == n) then (some true, s.filter (·.name != n)) else (some false, s)
  iter s := (some (s.map (·.name)), s)
  optPrefix _ _ s := (some Option.none, s)
  optRegex _ _ s := (some Option.none, s)
  optMeta _ _ _ s := (some Option.none, s)
  everything wm s := (some (s.map (Entry.strip wm)), s)
  removeItems l s := (some (), memRemoveItems l s)

end Pyro.NS
