/-
  PyIR.lean — a deep embedding of the imperative Python fragment that `Pyro5.socketutil.receive_data`
  and `send_data` are written in, and its interpreter over the scripted socket of SockIO.lean.

  Why: the models in SockIO.lean are written by hand.  `harness/py2ir.py` transcribes the *current*
  source of those two functions, statement by statement, into a term of `Stmt` (lean/PyroModel/Gen/C17Ast.lean,
  regenerated on every run); PyroProps/C17Ast.lean proves, for every size / peer stream / socket script,
  that running that term here gives exactly what the hand-written model gives.  The C17 theorems are then
  theorems about what the source says now, up to this interpreter (≈150 lines, read it as the semantics
  we assume for `while`/`try`/`break`/`return`/`raise`, `len`, `min`, `bytearray.extend`, slices)
  and the transcription (one AST node per Python AST node, no analysis).

  Loops take a fuel argument: `while` may run at most `fuel` iterations (`outOfFuel` otherwise — an explicit
  outcome, never a default); the theorems supply `script.length + 2`, which suffices because every iteration
  of every loop in the two functions performs one socket call.
-/
import PyroModel.SockIO

namespace Pyro.PyIR

open Pyro Pyro.SockIO

/-- the exception classes the two functions mention (resolved by the translator through the real module's
    namespace, so `TimeoutError` below is `Pyro5.errors.TimeoutError`, not the builtin) -/
inductive Cls where
  | socketTimeout      -- socket.timeout
  | osError            -- socket.error (= OSError)
  | pyroTimeout        -- Pyro5.errors.TimeoutError
  | connClosed         -- Pyro5.errors.ConnectionClosedError
  | valueError         -- raised by sock.recv(negative)
  | assertionError     -- a failed `assert`
  | unicodeDecodeError -- bytes.decode("ascii") on a byte >= 128
  | protocolError      -- Pyro5.errors.ProtocolError
  | zlibError          -- zlib.error
  | structError        -- struct.error
  | unicodeEncodeError -- str.encode("ascii") on a code point >= 128
  deriving Repr, DecidableEq

inductive Val where
  | none
  | bool (b : Bool)
  | int (i : Int)
  | bytes (b : Bytes)
  | exc (cls : Cls) (retryable : Bool) (partialData : Option Bytes)
  | errno (retryable : Bool)        -- `getattr(x, "errno", x.args[0])`: all that is ever asked of it is `in ERRNO_RETRIES`
  | opaque                          -- the `__retrydelays()` generator
  | str (codepoints : List Nat)     -- a Python str
  | dict (items : List (List Nat × Bytes))   -- a dict from str to bytes, in insertion order
  | resources (ids : List Nat)      -- a collection of objects that have a close() method, identified by number
  | resource (id : Nat)
  | chunks (l : List Bytes)         -- a list of bytes objects
  | uuid (b : Bytes)                -- a uuid.UUID (always truthy), known by its .bytes
  deriving Repr, DecidableEq

/-- one field of a big-endian `struct` format: `<n>s` (n raw bytes) or an unsigned integer of n bytes (B, H, I) -/
inductive Fld where
  | raw (n : Nat)
  | uint (n : Nat)
  deriving Repr, DecidableEq

def fldSize : Fld → Nat
  | .raw n => n
  | .uint n => n

inductive Expr where
  | lit (v : Val)
  | var (x : String)
  | len (e : Expr)
  | min (a b : Expr)
  | sub (a b : Expr)
  | add (a b : Expr)
  | eq (a b : Expr)
  | ne (a b : Expr)
  | lt (a b : Expr)
  | not (e : Expr)
  | and (a b : Expr)
  | inRetries (e : Expr)            -- `e in ERRNO_RETRIES`
  | errnoOf (e : Expr)              -- `getattr(e, "errno", e.args[0])`
  | mkExc (cls : Cls)               -- `Cls("...")` (message text dropped)
  | useWaitall                      -- module global USE_MSG_WAITALL
  | sockHasattr (a : String)        -- hasattr(sock, a)
  | timeoutIsNone                   -- `sock.gettimeout() is None`
  | sliceFrom (e i : Expr)          -- e[i:]
  | emptyBytes                      -- bytearray()
  | delays                          -- __retrydelays()
  | slice (e lo hi : Expr)          -- e[lo:hi] on bytes, indices >= 0 (Python clamps at the end)
  | fromBytesBig (e : Expr)         -- int.from_bytes(e, "big")
  | bitand (a b : Expr)             -- a & b on non-negative ints
  | emptyDict                       -- {}
  | bytesLit (b : Bytes)            -- b"..." (also a module-level bytes constant)
  | eqB (a b : Expr)                -- a == b on bytes
  | neB (a b : Expr)                -- a != b on bytes
  | or (a b : Expr)
  | le (a b : Expr)                 -- a <= b on ints  (a >= b is written le b a)
  | maxSize                         -- config.MAX_MESSAGE_SIZE
  | isNone (e : Expr)               -- e is None
  | startsWith (e p : Expr)         -- e.startswith(p) on bytes
  | orElse (a b : Expr)             -- `a or b` as a value
  | sumValues (x : String) (d body : Expr)   -- sum([body for x in d.values()])
  | ifExp (c a b : Expr)            -- a if c else b
  | isInst (e : Expr) (bytesIs : Bool)  -- isinstance(e, T) for a value that is a bytes object; bytesIs = isinstance(b"", T), resolved on the real T
  | unsupportedE (what : String)    -- an expression outside the fragment: evaluating it is `stuck`
  | compressionOn                   -- config.COMPRESSION
  | corrId                          -- current_context.correlation_id
  | uuidBytes (e : Expr)            -- e.bytes
  | joinChunks (e : Expr)           -- b"".join(e)
  | emptyList                       -- []
  | concat (a b : Expr)             -- a + b on bytes
  deriving Repr

/-- the arguments of one `struct.pack` call with a big-endian format, each with its field -/
inductive PackArgs where
  | nil
  | cons (f : Fld) (e : Expr) (rest : PackArgs)
  deriving Repr

inductive Stmt where
  | skip
  | seq (a b : Stmt)
  | assign (x : String) (e : Expr)
  | extend (x : String) (e : Expr)                -- x.extend(e)
  | augAdd (x : String) (e : Expr)                -- x += e
  | setPartial (x : String) (e : Expr)            -- x.partialData = e
  | recv (x : String) (n : Expr)                  -- x = sock.recv(n[, MSG_WAITALL])
  | send (x : String) (e : Expr)                  -- x = sock.send(e)
  | sendall (e : Expr)                            -- sock.sendall(e)
  | sleep                                         -- time.sleep(next(delays))
  | ite (c : Expr) (t e : Stmt)
  | while_ (c : Expr) (body : Stmt)
  | try_ (body handlers : Stmt)                   -- handlers: a chain of excMatch ending in reraise
  | excMatch (cls : Cls) (bind : Option String) (body rest : Stmt)
  | reraise
  | ret (e : Expr)
  | raise_ (e : Expr)
  | brk
  | cont
  | decodeAscii (x : String) (e : Expr)           -- x = bytes(e).decode("ascii")
  | dictSetItem (d : String) (k v : Expr)         -- d[k] = v
  | assert_ (e : Expr)                            -- assert e
  | clearBits (x : String) (c : Expr)             -- x &= ~c   (x, c >= 0:  x - (x & c))
  | decompress (x : String) (e : Expr)            -- x = zlib.decompress(e)
  | suppress (body : Stmt)                        -- with contextlib.suppress(Exception): body
  | forEach (x : String) (e : Expr) (body : Stmt) -- for x in e: body   (e a collection of resources, in its iteration order)
  | closeRes (e : Expr)                           -- e.close()   (may raise)
  | clearColl (x : String)                        -- x.clear()
  | sockShutdown                                  -- self.sock.shutdown(socket.SHUT_RDWR)   (may raise)
  | sockClose                                     -- self.sock.close()   (may raise)
  | unpackInto (targets : List String) (fmt : List Fld) (e : Expr)
                                                  -- t1, t2, ... = struct.unpack(fmt, e)   ("_" = discarded)
  | setBits (x : String) (c : Expr)               -- x |= c   (x, c >= 0)
  | compress (x : String) (e : Expr)              -- x = zlib.compress(e, level)
  | packInto (x : String) (args : PackArgs)       -- x = struct.pack(fmt, args...)   (struct.error when a value does not fit)
  | appendTo (x : String) (e : Expr)              -- x.append(e)   (x a list of bytes objects)
  | encodeAscii (x : String) (e : Expr)           -- x = e.encode("ascii")
  | forEachItem (k v : String) (e : Expr) (body : Stmt)   -- for k, v in e.items(): body
  | unsupported (what : String)                   -- a statement outside the fragment: running it is `stuck`
  deriving Repr

/-- what the running program can see of its surroundings -/
structure Cfg where
  useWaitall : Bool                 -- socketutil.USE_MSG_WAITALL
  peercert : Bool                   -- hasattr(sock, "getpeercert")
  blocking : Bool                   -- sock.gettimeout() is None
  isSub : Cls → Cls → Bool          -- issubclass, as extracted from the real classes
  unzip : Bytes → Option Bytes := fun _ => none   -- zlib.decompress (none = zlib.error)
  closeRaises : Nat → Bool := fun _ => false      -- which resources' close() raises (and the two socket marks)
  maxSize : Nat := 0                              -- config.MAX_MESSAGE_SIZE
  compression : Bool := false                     -- config.COMPRESSION
  zip : Bytes → Bytes := fun b => b               -- zlib.compress
  corr : Option Bytes := none                     -- current_context.correlation_id (its .bytes), None when unset

structure World where
  stream : Bytes                    -- what the peer will still send
  sent : Bytes                      -- what the peer has accepted so far
  script : List Ev
  log : List Nat                    -- effects on objects other than the socket's byte streams, in order:
                                    -- resource id r = `r.close()` was called; `sockShutdownMark` / `sockCloseMark` = the socket calls
  deriving Repr, DecidableEq

def sockShutdownMark : Nat := 1000000
def sockCloseMark : Nat := 1000001

abbrev Env := List (String × Val)

inductive Res where
  | normal (env : Env) (w : World)
  | brk (env : Env) (w : World)
  | cont (env : Env) (w : World)
  | ret (v : Val) (w : World)
  | raise (e : Val) (env : Env) (w : World)
  | outOfFuel
  | scriptEnd (w : World)
  | stuck                           -- ill-typed / unbound: the source left the fragment
  deriving Repr

def truthy : Val → Option Bool
  | .none => some false
  | .bool b => some b
  | .int i => some (i != 0)
  | .bytes b => some (!b.isEmpty)
  | .str s => some (!s.isEmpty)
  | .dict d => some (!d.isEmpty)
  | .resources r => some (!r.isEmpty)
  | _ => some true

/-- `sum(f(v) for v in d.values())`: every element's value must be an int (else outside the fragment) -/
def sumOver (f : Bytes → Option Val) : List (List Nat × Bytes) → Option Int
  | [] => some 0
  | (_, v) :: rest =>
    match f v, sumOver f rest with
    | some (.int i), some a => some (i + a)
    | _, _ => none

def eval (cfg : Cfg) (env : Env) : Expr → Option Val
  | .lit v => some v
  | .var x => env.lookup x
  | .len e => match eval cfg env e with
    | some (.bytes b) => some (.int b.length)
    | some (.str s) => some (.int s.length)
    | _ => none
  | .min a b => match eval cfg env a, eval cfg env b with
    | some (.int x), some (.int y) => some (.int (if x ≤ y then x else y))
    | _, _ => none
  | .sub a b => match eval cfg env a, eval cfg env b with
    | some (.int x), some (.int y) => some (.int (x - y))
    | _, _ => none
  | .add a b => match eval cfg env a, eval cfg env b with
    | some (.int x), some (.int y) => some (.int (x + y))
    | _, _ => none
  | .eq a b => match eval cfg env a, eval cfg env b with
    | some (.int x), some (.int y) => some (.bool (x == y))
    | _, _ => none
  | .ne a b => match eval cfg env a, eval cfg env b with
    | some (.int x), some (.int y) => some (.bool (x != y))
    | _, _ => none
  | .lt a b => match eval cfg env a, eval cfg env b with
    | some (.int x), some (.int y) => some (.bool (x < y))
    | _, _ => none
  | .not e => match eval cfg env e with
    | some v => (truthy v).map (fun b => .bool (!b))
    | none => none
  | .and a b => match eval cfg env a, eval cfg env b with
    | some x, some y => match truthy x, truthy y with
      | some p, some q => some (.bool (p && q))
      | _, _ => none
    | _, _ => none
  | .inRetries e => match eval cfg env e with
    | some (.errno r) => some (.bool r)
    | _ => none
  | .errnoOf e => match eval cfg env e with
    | some (.exc _ r _) => some (.errno r)
    | _ => none
  | .mkExc c => some (.exc c false none)
  | .useWaitall => some (.bool cfg.useWaitall)
  | .sockHasattr a => some (.bool (a == "getpeercert" && cfg.peercert))
  | .timeoutIsNone => some (.bool cfg.blocking)
  | .sliceFrom e i => match eval cfg env e, eval cfg env i with
    | some (.bytes b), some (.int k) => if 0 ≤ k then some (.bytes (b.drop k.toNat)) else none
    | _, _ => none
  | .emptyBytes => some (.bytes [])
  | .delays => some .opaque
  | .slice e lo hi => match eval cfg env e, eval cfg env lo, eval cfg env hi with
    | some (.bytes b), some (.int i), some (.int j) =>
      if 0 ≤ i ∧ 0 ≤ j then some (.bytes ((b.drop i.toNat).take (j.toNat - i.toNat))) else none
    | _, _, _ => none
  | .fromBytesBig e => match eval cfg env e with
    | some (.bytes b) => some (.int (fromBE b))
    | _ => none
  | .bitand a b => match eval cfg env a, eval cfg env b with
    | some (.int x), some (.int y) => if 0 ≤ x ∧ 0 ≤ y then some (.int (x.toNat &&& y.toNat : Nat)) else none
    | _, _ => none
  | .emptyDict => some (.dict [])
  | .bytesLit b => some (.bytes b)
  | .eqB a b => match eval cfg env a, eval cfg env b with
    | some (.bytes x), some (.bytes y) => some (.bool (x == y))
    | _, _ => none
  | .neB a b => match eval cfg env a, eval cfg env b with
    | some (.bytes x), some (.bytes y) => some (.bool (x != y))
    | _, _ => none
  | .or a b => match eval cfg env a, eval cfg env b with
    | some x, some y => match truthy x, truthy y with
      | some p, some q => some (.bool (p || q))
      | _, _ => none
    | _, _ => none
  | .le a b => match eval cfg env a, eval cfg env b with
    | some (.int x), some (.int y) => some (.bool (x ≤ y))
    | _, _ => none
  | .maxSize => some (.int cfg.maxSize)
  | .isNone e => match eval cfg env e with
    | some .none => some (.bool true)
    | some _ => some (.bool false)
    | none => none
  | .startsWith e p => match eval cfg env e, eval cfg env p with
    | some (.bytes x), some (.bytes y) => some (.bool (x.take y.length == y))
    | _, _ => none
  | .orElse a b => match eval cfg env a with
    | some x => match truthy x with
      | some true => some x
      | some false => eval cfg env b
      | none => none
    | none => none
  | .sumValues x d body => match eval cfg env d with
    | some (.dict items) =>
      (sumOver (fun v => eval cfg ((x, .bytes v) :: env) body) items).map Val.int
    | _ => none
  | .ifExp c a b => match eval cfg env c with
    | some v => match truthy v with
      | some true => eval cfg env a
      | some false => eval cfg env b
      | none => none
    | none => none
  | .isInst e bytesIs => match eval cfg env e with
    | some (.bytes _) => some (.bool bytesIs)
    | _ => none
  | .unsupportedE _ => none
  | .compressionOn => some (.bool cfg.compression)
  | .corrId => match cfg.corr with
    | some b => some (.uuid b)
    | none => some .none
  | .uuidBytes e => match eval cfg env e with
    | some (.uuid b) => some (.bytes b)
    | _ => none
  | .joinChunks e => match eval cfg env e with
    | some (.chunks l) => some (.bytes l.flatten)
    | _ => none
  | .emptyList => some (.chunks [])
  | .concat a b => match eval cfg env a, eval cfg env b with
    | some (.bytes x), some (.bytes y) => some (.bytes (x ++ y))
    | _, _ => none

/-- does the value fit the field?  `none` = not a value of the field's kind (outside the fragment) -/
def fits : Fld → Val → Option Bool
  | .raw _, .bytes _ => some true
  | .uint n, .int i => some (decide (0 ≤ i ∧ i < 256 ^ n))
  | _, _ => none

/-- struct.pack of one field: `<n>s` pads with zero bytes / truncates; an unsigned integer big-endian -/
def packOne : Fld → Val → Bytes
  | .raw n, .bytes b => b.take n ++ List.replicate (n - b.length) 0
  | .uint n, .int i => toBE n i.toNat
  | _, _ => []

/-- all the arguments of a `struct.pack` call are evaluated first (`none` = outside the fragment) ... -/
def evalArgs (cfg : Cfg) (env : Env) : PackArgs → Option (List (Fld × Val))
  | .nil => some []
  | .cons f e rest =>
    match eval cfg env e, evalArgs cfg env rest with
    | some v, some vs => if (fits f v).isSome then some ((f, v) :: vs) else none
    | _, _ => none

/-- ... then packed in order (`none` = struct.error: some value does not fit its field) -/
def packAll : List (Fld × Val) → Option Bytes
  | [] => some []
  | (f, v) :: r => if fits f v = some true then (packAll r).map (packOne f v ++ ·) else none

/-- `some (some bytes)`; `some none` = struct.error; `none` = outside the fragment -/
def evalPack (cfg : Cfg) (env : Env) (args : PackArgs) : Option (Option Bytes) :=
  (evalArgs cfg env args).map packAll

/-- one socket call that either transfers or raises -/
inductive Sys where
  | got (k : Nat) (rest : List Ev)
  | err (e : Val) (rest : List Ev)
  | sentThenErr (k : Nat) (e : Val) (rest : List Ev)
  | noScript

def sys : List Ev → Sys
  | [] => .noScript
  | .deliver k :: rest => .got k rest
  | .retryable :: rest => .err (.exc .osError true none) rest
  | .fatal :: rest => .err (.exc .osError false none) rest
  | .timeout :: rest => .err (.exc .socketTimeout false none) rest
  | .partialFail k r :: rest => .sentThenErr k (.exc .osError r none) rest

/-- Python `d[k] = v`: overwrite in place or append -/
def dictPut (d : List (List Nat × Bytes)) (k : List Nat) (v : Bytes) : List (List Nat × Bytes) :=
  match d with
  | [] => [(k, v)]
  | (k', v') :: rest => if k' = k then (k, v) :: rest else (k', v') :: dictPut rest k v

/-- struct.unpack for a big-endian format: the fields in order, or none when the length does not match (struct.error) -/
def unpackFields : List Fld → Bytes → Option (List Val)
  | [], [] => some []
  | [], _ :: _ => none
  | f :: fs, b =>
    if b.length < fldSize f then none
    else match unpackFields fs (b.drop (fldSize f)) with
      | none => none
      | some vs => some ((match f with
          | .raw _ => Val.bytes (b.take (fldSize f))
          | .uint _ => Val.int (fromBE (b.take (fldSize f)))) :: vs)

def bindAll : List String → List Val → Env → Env
  | t :: ts, v :: vs, env => bindAll ts vs (if t == "_" then env else (t, v) :: env)
  | _, _, env => env

def truth (cfg : Cfg) (env : Env) (c : Expr) : Option Bool :=
  match eval cfg env c with
  | some v => truthy v
  | none => none

def exec (cfg : Cfg) : Stmt → Nat → Option Val → Env → World → Res
  | .skip, _, _, env, w => .normal env w
  | .seq a b, fuel, cur, env, w =>
    match exec cfg a fuel cur env w with
    | .normal env w => exec cfg b fuel cur env w
    | r => r
  | .assign x e, _, _, env, w =>
    match eval cfg env e with
    | some v => .normal ((x, v) :: env) w
    | none => .stuck
  | .extend x e, _, _, env, w =>
    match env.lookup x, eval cfg env e with
    | some (.bytes a), some (.bytes b) => .normal ((x, .bytes (a ++ b)) :: env) w
    | _, _ => .stuck
  | .augAdd x e, _, _, env, w =>
    match env.lookup x, eval cfg env e with
    | some (.int a), some (.int b) => .normal ((x, .int (a + b)) :: env) w
    | _, _ => .stuck
  | .setPartial x e, _, _, env, w =>
    match env.lookup x, eval cfg env e with
    | some (.exc c r _), some (.bytes b) => .normal ((x, .exc c r (some b)) :: env) w
    | _, _ => .stuck
  | .recv x n, _, _, env, w =>
    match eval cfg env n with
    | some (.int n) =>
      if n < 0 then .raise (.exc .valueError false none) env w
      else match sys w.script with
        | .noScript => .scriptEnd w
        | .got k rest =>
          let m := min k n.toNat
          .normal ((x, .bytes (w.stream.take m)) :: env) { w with stream := w.stream.drop m, script := rest }
        | .err e rest => .raise e env { w with script := rest }
        | .sentThenErr _ e rest => .raise e env { w with script := rest }
    | _ => .stuck
  | .send x e, _, _, env, w =>
    match eval cfg env e with
    | some (.bytes d) =>
      match sys w.script with
      | .noScript => .scriptEnd w
      | .got k rest =>
        let m := min k d.length
        .normal ((x, .int m) :: env) { w with sent := w.sent ++ d.take m, script := rest }
      | .err e rest => .raise e env { w with script := rest }
      | .sentThenErr _ e rest => .raise e env { w with script := rest }
    | _ => .stuck
  | .sendall e, _, _, env, w =>
    match eval cfg env e with
    | some (.bytes d) =>
      match sys w.script with
      | .noScript => .scriptEnd w
      | .got _ rest => .normal env { w with sent := w.sent ++ d, script := rest }
      | .err e rest => .raise e env { w with script := rest }
      | .sentThenErr k e rest => .raise e env { w with sent := w.sent ++ d.take k, script := rest }
    | _ => .stuck
  | .sleep, _, _, env, w => .normal env w
  | .ite c t e, fuel, cur, env, w =>
    match truth cfg env c with
    | some true => exec cfg t fuel cur env w
    | some false => exec cfg e fuel cur env w
    | none => .stuck
  | .while_ _ _, 0, _, _, _ => .outOfFuel
  | .while_ c b, fuel + 1, cur, env, w =>
    match truth cfg env c with
    | some true =>
      match exec cfg b (fuel + 1) cur env w with
      | .normal env w => exec cfg (.while_ c b) fuel cur env w
      | .cont env w => exec cfg (.while_ c b) fuel cur env w
      | .brk env w => .normal env w
      | r => r
    | some false => .normal env w
    | none => .stuck
  | .try_ body h, fuel, cur, env, w =>
    match exec cfg body fuel cur env w with
    | .raise e env w => exec cfg h fuel (some e) env w
    | r => r
  | .excMatch cls bind body rest, fuel, cur, env, w =>
    match cur with
    | some (.exc c r p) =>
      if cfg.isSub c cls then
        match bind with
        | some x => exec cfg body fuel cur ((x, .exc c r p) :: env) w
        | none => exec cfg body fuel cur env w
      else exec cfg rest fuel cur env w
    | _ => .stuck
  | .reraise, _, cur, env, w =>
    match cur with
    | some e => .raise e env w
    | none => .stuck
  | .ret e, _, _, env, w =>
    match eval cfg env e with
    | some v => .ret v w
    | none => .stuck
  | .raise_ e, _, _, env, w =>
    match eval cfg env e with
    | some (.exc c r p) => .raise (.exc c r p) env w
    | _ => .stuck
  | .brk, _, _, env, w => .brk env w
  | .cont, _, _, env, w => .cont env w
  | .decodeAscii x e, _, _, env, w =>
    match eval cfg env e with
    | some (.bytes b) =>
      if b.any (· ≥ 128) then .raise (.exc .unicodeDecodeError false none) env w
      else .normal ((x, .str (b.map UInt8.toNat)) :: env) w
    | _ => .stuck
  | .dictSetItem d k v, _, _, env, w =>
    match env.lookup d, eval cfg env k, eval cfg env v with
    | some (.dict items), some (.str key), some (.bytes val) => .normal ((d, .dict (dictPut items key val)) :: env) w
    | _, _, _ => .stuck
  | .assert_ e, _, _, env, w =>
    match truth cfg env e with
    | some true => .normal env w
    | some false => .raise (.exc .assertionError false none) env w
    | none => .stuck
  | .clearBits x c, _, _, env, w =>
    match env.lookup x, eval cfg env c with
    | some (.int a), some (.int b) =>
      if 0 ≤ a ∧ 0 ≤ b then .normal ((x, .int ((a.toNat - (a.toNat &&& b.toNat) : Nat))) :: env) w else .stuck
    | _, _ => .stuck
  | .decompress x e, _, _, env, w =>
    match eval cfg env e with
    | some (.bytes b) =>
      match cfg.unzip b with
      | some d => .normal ((x, .bytes d) :: env) w
      | none => .raise (.exc .zlibError false none) env w
    | _ => .stuck
  | .suppress body, fuel, cur, env, w =>
    match exec cfg body fuel cur env w with
    | .raise _ env w => .normal env w          -- every class of the fragment derives from Exception
    | r => r
  | .forEach _ _ _, 0, _, _, _ => .outOfFuel
  | .forEach x e body, fuel + 1, cur, env, w =>
    -- one element per unit of fuel: the collection to go is kept in the loop expression itself
    match eval cfg env e with
    | some (.resources []) => .normal env w
    | some (.resources (r :: rest)) =>
      match exec cfg body (fuel + 1) cur ((x, .resource r) :: env) w with
      | .normal env w => exec cfg (.forEach x (.lit (.resources rest)) body) fuel cur env w
      | .cont env w => exec cfg (.forEach x (.lit (.resources rest)) body) fuel cur env w
      | .brk env w => .normal env w
      | r => r
    | _ => .stuck
  | .closeRes e, _, _, env, w =>
    match eval cfg env e with
    | some (.resource r) =>
      let w' := { w with log := w.log ++ [r] }
      if cfg.closeRaises r then .raise (.exc .valueError false none) env w' else .normal env w'
    | _ => .stuck
  | .clearColl x, _, _, env, w =>
    match env.lookup x with
    | some (.resources _) => .normal ((x, .resources []) :: env) w
    | _ => .stuck
  | .sockShutdown, _, _, env, w =>
    let w' := { w with log := w.log ++ [sockShutdownMark] }
    if cfg.closeRaises sockShutdownMark then .raise (.exc .osError false none) env w' else .normal env w'
  | .sockClose, _, _, env, w =>
    let w' := { w with log := w.log ++ [sockCloseMark] }
    if cfg.closeRaises sockCloseMark then .raise (.exc .osError false none) env w' else .normal env w'
  | .unpackInto targets fmt e, _, _, env, w =>
    match eval cfg env e with
    | some (.bytes b) =>
      match unpackFields fmt b with
      | some vs => if vs.length = targets.length then .normal (bindAll targets vs env) w else .stuck
      | none => .raise (.exc .valueError false none) env w       -- struct.error (not a Pyro error)
    | _ => .stuck
  | .setBits x c, _, _, env, w =>
    match env.lookup x, eval cfg env c with
    | some (.int a), some (.int b) =>
      if 0 ≤ a ∧ 0 ≤ b then .normal ((x, .int ((a.toNat ||| b.toNat : Nat))) :: env) w else .stuck
    | _, _ => .stuck
  | .compress x e, _, _, env, w =>
    match eval cfg env e with
    | some (.bytes b) => .normal ((x, .bytes (cfg.zip b)) :: env) w
    | _ => .stuck
  | .packInto x args, _, _, env, w =>
    match evalPack cfg env args with
    | some (some b) => .normal ((x, .bytes b) :: env) w
    | some none => .raise (.exc .structError false none) env w
    | none => .stuck
  | .appendTo x e, _, _, env, w =>
    match env.lookup x, eval cfg env e with
    | some (.chunks l), some (.bytes b) => .normal ((x, .chunks (l ++ [b])) :: env) w
    | _, _ => .stuck
  | .encodeAscii x e, _, _, env, w =>
    match eval cfg env e with
    | some (.str s) =>
      if s.any (· ≥ 128) then .raise (.exc .unicodeEncodeError false none) env w
      else .normal ((x, .bytes (s.map UInt8.ofNat)) :: env) w
    | _ => .stuck
  | .forEachItem _ _ _ _, 0, _, _, _ => .outOfFuel
  | .forEachItem k v e body, fuel + 1, cur, env, w =>
    match eval cfg env e with
    | some (.dict []) => .normal env w
    | some (.dict ((key, val) :: rest)) =>
      match exec cfg body (fuel + 1) cur ((v, .bytes val) :: (k, .str key) :: env) w with
      | .normal env w => exec cfg (.forEachItem k v (.lit (.dict rest)) body) fuel cur env w
      | .cont env w => exec cfg (.forEachItem k v (.lit (.dict rest)) body) fuel cur env w
      | .brk env w => .normal env w
      | r => r
    | _ => .stuck
  | .unsupported _, _, _, _, _ => .stuck
termination_by s fuel => (fuel, sizeOf s)

/-- outcome of `receive_data` as the hand model reports it -/
def toRecv : Res → Option (RecvResult × Bytes × List Ev)
  | .ret (.bytes b) w => some (.ok b, w.stream, w.script)
  | .raise (.exc .connClosed _ p) _ w => some (.closed p, w.stream, w.script)
  | .raise (.exc .pyroTimeout _ _) _ w => some (.timeout, w.stream, w.script)
  | .scriptEnd w => some (.scriptEnd, w.stream, w.script)
  | _ => none

/-- outcome of `send_data` (a function that falls off its end returns None) -/
def toSend : Res → Option (SendResult × Bytes × List Ev)
  | .ret .none w => some (.ok, w.sent, w.script)
  | .normal _ w => some (.ok, w.sent, w.script)
  | .raise (.exc .connClosed _ _) _ w => some (.closed, w.sent, w.script)
  | .raise (.exc .pyroTimeout _ _) _ w => some (.timeout, w.sent, w.script)
  | .scriptEnd w => some (.scriptEnd, w.sent, w.script)
  | _ => none

def runRecv (cfg : Cfg) (body : Stmt) (size : Nat) (stream : Bytes) (script : List Ev) : Res :=
  exec cfg body (script.length + 2) none [("p1", .int size)] ⟨stream, [], script, []⟩

def runSend (cfg : Cfg) (body : Stmt) (data : Bytes) (script : List Ev) : Res :=
  exec cfg body (script.length + 2) none [("p1", .bytes data)] ⟨[], [], script, []⟩

end Pyro.PyIR
