/-
  LockRelease.lean — the dual of LockSkeleton.lean: not "every storage access happens while the lock is held" but
  "every acquire of the lock is released again on EVERY path out of the method" (normal end, `return`, exception).

  The *release skeleton* `Rk` of a method is extracted by harness/props/c15_rel.py (`release_skeletons`) from every public
  method of `Pyro5.nameserver.NameServer`: everything except the lock operations and the control flow (sequence, branches,
  loops, try/except/finally, return, raise, "an exception may leave here") is abstracted away.
  `with self.lock: B` is `seq acquire (tryFinally B release)`; `with self.helper(): B` for a `@contextmanager` generator
  `helper` is the generator's body with `B` substituted for its `yield` (an exception of `B` is raised AT the yield, so
  whether the lock is released is decided by the generator's own try/finally — or the lack of one).

  `Exec sk d o d'`: started at lock depth `d` (re-entrant lock: a counter), `sk` can end with outcome `o` at depth `d'`.
  `releasedOnAllPaths sk`: the decidable check.  `released_sound`: the check implies that EVERY execution, whatever its
  outcome, ends at the depth it started at: the method never leaves the lock held (and never releases a lock it does not own).
-/
namespace Pyro.LockRelease

inductive Rk where
  | nop
  | acquire                          -- `self.lock.acquire()` (blocking, re-entrant: depth + 1)
  | release                          -- `self.lock.release()` (depth - 1; RuntimeError when not held)
  | mayRaise                         -- a point where an exception MAY leave (any call, subscript, operator, ...)
  | raise                            -- a `raise` statement: always leaves with an exception
  | ret                              -- a `return` statement: abrupt exit, not caught by `except`, but `finally` still runs
  | seq (a b : Rk)
  | alt (a b : Rk)                   -- if / else
  | star (body : Rk)                 -- for / while: any number of rounds
  | tryFinally (body fin : Rk)       -- `fin` runs after every outcome of `body`; its own abrupt outcome overrides
  | tryExcept (body handler : Rk)    -- the handler MAY catch an exception of `body` (or it propagates)
  | call (body : Rk)                 -- an inlined method of the same class: its `return` does not leave the caller
  deriving Repr, DecidableEq

inductive Outcome where
  | normal | raised | returned
  deriving Repr, DecidableEq

/-- what the caller of an inlined method sees -/
def Outcome.unret : Outcome → Outcome
  | .returned => .normal
  | o => o

inductive Exec : Rk → Nat → Outcome → Nat → Prop where
  | nop (d) : Exec .nop d .normal d
  | acquire (d) : Exec .acquire d .normal (d + 1)
  | releaseOk (d) : Exec .release (d + 1) .normal d
  | releaseErr : Exec .release 0 .raised 0
  | mayRaiseN (d) : Exec .mayRaise d .normal d
  | mayRaiseR (d) : Exec .mayRaise d .raised d
  | raise (d) : Exec .raise d .raised d
  | ret (d) : Exec .ret d .returned d
  | seqN {a b d d1 o d2} : Exec a d .normal d1 → Exec b d1 o d2 → Exec (.seq a b) d o d2
  | seqA {a b d o d1} : Exec a d o d1 → o ≠ .normal → Exec (.seq a b) d o d1
  | altL {a b d o d1} : Exec a d o d1 → Exec (.alt a b) d o d1
  | altR {a b d o d1} : Exec b d o d1 → Exec (.alt a b) d o d1
  | starNil {b} (d) : Exec (.star b) d .normal d
  | starCons {b d d1 o d2} : Exec b d .normal d1 → Exec (.star b) d1 o d2 → Exec (.star b) d o d2
  | starAbort {b d o d1} : Exec b d o d1 → o ≠ .normal → Exec (.star b) d o d1
  | finN {b f d o d1 d2} : Exec b d o d1 → Exec f d1 .normal d2 → Exec (.tryFinally b f) d o d2
  | finA {b f d o d1 o' d2} : Exec b d o d1 → Exec f d1 o' d2 → o' ≠ .normal → Exec (.tryFinally b f) d o' d2
  | exPass {b h d o d1} : Exec b d o d1 → Exec (.tryExcept b h) d o d1            -- nothing raised, or not caught
  | exCatch {b h d d1 o d2} : Exec b d .raised d1 → Exec h d1 o d2 → Exec (.tryExcept b h) d o d2
  | call {b d o d1} : Exec b d o d1 → Exec (.call b) d o.unret d1

/-- a finite set of (outcome, depth relative to the depth at which the method started) -/
abbrev Res := List (Outcome × Nat)

def ins (x : Outcome × Nat) (L : Res) : Res := if x ∈ L then L else x :: L

def union : Res → Res → Res
  | [], B => B
  | x :: A, B => ins x (union A B)

/-- apply `f` to every element, union of the results; `none` (not understood) is contagious -/
def bindO (f : Outcome → Nat → Option Res) : Res → Option Res
  | [] => some []
  | x :: rest =>
    match bindO f rest, f x.1 x.2 with
    | some R, some S => some (union S R)
    | _, _ => none

/-- after a `finally` block ended with `(o', k')` what the whole statement ends with when the body ended with `o` -/
def override (o : Outcome) : Res → Res
  | [] => []
  | x :: rest => ins (if x.1 = .normal then o else x.1, x.2) (override o rest)

def unrets : Res → Res
  | [] => []
  | x :: rest => ins (x.1.unret, x.2) (unrets rest)

/-- the possible (outcome, relative depth) pairs of `sk` started at relative depth `k` (the lock is held at least `k`
    times); `none`: refused (a release that is not known to be matched by an acquire of this method; a loop body whose
    rounds do not end at the depth they started at) -/
def outs : Rk → Nat → Option Res
  | .nop, k => some [(.normal, k)]
  | .acquire, k => some [(.normal, k + 1)]
  | .release, k => match k with
    | 0 => none
    | k + 1 => some [(.normal, k)]
  | .mayRaise, k => some [(.normal, k), (.raised, k)]
  | .raise, k => some [(.raised, k)]
  | .ret, k => some [(.returned, k)]
  | .seq a b, k =>
    match outs a k with
    | some A => bindO (fun o k1 => if o = .normal then outs b k1 else some [(o, k1)]) A
    | none => none
  | .alt a b, k =>
    match outs a k, outs b k with
    | some A, some B => some (union A B)
    | _, _ => none
  | .star b, k =>
    match outs b k with
    | some L => if L.all (fun x => decide (x.1 ≠ .normal) || decide (x.2 = k)) then some (ins (.normal, k) L) else none
    | none => none
  | .tryFinally b f, k =>
    match outs b k with
    | some B => bindO (fun o k1 => match outs f k1 with
                                   | some F => some (override o F)
                                   | none => none) B
    | none => none
  | .tryExcept b h, k =>
    match outs b k with
    | some B =>
      match bindO (fun o k1 => if o = .raised then outs h k1 else some []) B with
      | some H => some (union B H)
      | none => none
    | none => none
  | .call b, k =>
    match outs b k with
    | some B => some (unrets B)
    | none => none

/-- THE CHECK: every path out of the skeleton, whatever its outcome, is back at the depth it started at -/
def releasedOnAllPaths (sk : Rk) : Bool :=
  match outs sk 0 with
  | some L => L.all (fun x => decide (x.2 = 0))
  | none => false

theorem mem_ins {y x : Outcome × Nat} {L : Res} : y ∈ ins x L ↔ y = x ∨ y ∈ L := by
  unfold ins
  split
  · constructor
    · intro h; exact Or.inr h
    · intro h; rcases h with h | h
      · subst h; assumption
      · exact h
  · simp

theorem mem_union {y : Outcome × Nat} {A B : Res} : y ∈ union A B ↔ y ∈ A ∨ y ∈ B := by
  induction A with
  | nil => simp [union]
  | cons x A ih => simp [union, mem_ins, ih, or_assoc]

theorem mem_override {o o' : Outcome} {k : Nat} {F : Res} (h : (o', k) ∈ F) :
    ((if o' = .normal then o else o'), k) ∈ override o F := by
  induction F with
  | nil => cases h
  | cons x F ih =>
    simp only [override, mem_ins]
    rcases List.mem_cons.mp h with h | h
    · subst h; exact Or.inl rfl
    · exact Or.inr (ih h)

theorem mem_unrets {o : Outcome} {k : Nat} {B : Res} (h : (o, k) ∈ B) : (o.unret, k) ∈ unrets B := by
  induction B with
  | nil => cases h
  | cons x B ih =>
    simp only [unrets, mem_ins]
    rcases List.mem_cons.mp h with h | h
    · subst h; exact Or.inl rfl
    · exact Or.inr (ih h)

theorem bindO_mem {f : Outcome → Nat → Option Res} {L R : Res} {o : Outcome} {k : Nat}
    (hb : bindO f L = some R) (hm : (o, k) ∈ L) : ∃ S, f o k = some S ∧ ∀ x ∈ S, x ∈ R := by
  induction L generalizing R with
  | nil => cases hm
  | cons x rest ih =>
    simp only [bindO] at hb
    split at hb
    · rename_i R' S' hR hS
      cases hb
      rcases List.mem_cons.mp hm with h | h
      · subst h
        exact ⟨S', hS, fun x hx => mem_union.mpr (Or.inl hx)⟩
      · obtain ⟨S, hS1, hS2⟩ := ih hR h
        exact ⟨S, hS1, fun x hx => mem_union.mpr (Or.inr (hS2 x hx))⟩
    · cases hb

/-- the computed set covers every execution -/
theorem outs_sound {sk : Rk} {d : Nat} {o : Outcome} {d' : Nat} (h : Exec sk d o d') :
    ∀ (d0 k : Nat) (L : Res), d = d0 + k → outs sk k = some L → ∃ k', (o, k') ∈ L ∧ d' = d0 + k' := by
  induction h with
  | nop d => intro d0 k L hd hc; simp only [outs] at hc; cases hc; exact ⟨k, by simp, hd⟩
  | acquire d => intro d0 k L hd hc; simp only [outs] at hc; cases hc; exact ⟨k + 1, by simp, by omega⟩
  | releaseOk d =>
    intro d0 k L hd hc
    cases k with
    | zero => simp [outs] at hc
    | succ k => simp only [outs] at hc; cases hc; exact ⟨k, by simp, by omega⟩
  | releaseErr =>
    intro d0 k L hd hc
    cases k with
    | zero => simp [outs] at hc
    | succ k => omega
  | mayRaiseN d => intro d0 k L hd hc; simp only [outs] at hc; cases hc; exact ⟨k, by simp, hd⟩
  | mayRaiseR d => intro d0 k L hd hc; simp only [outs] at hc; cases hc; exact ⟨k, by simp, hd⟩
  | raise d => intro d0 k L hd hc; simp only [outs] at hc; cases hc; exact ⟨k, by simp, hd⟩
  | ret d => intro d0 k L hd hc; simp only [outs] at hc; cases hc; exact ⟨k, by simp, hd⟩
  | seqN _ _ ih1 ih2 =>
    intro d0 k L hd hc
    simp only [outs] at hc
    split at hc
    · rename_i A hA
      obtain ⟨k1, hm1, hd1⟩ := ih1 d0 k A hd hA
      obtain ⟨S, hS, hsub⟩ := bindO_mem hc hm1
      simp only [if_true] at hS
      obtain ⟨k2, hm2, hd2⟩ := ih2 d0 k1 S hd1 hS
      exact ⟨k2, hsub _ hm2, hd2⟩
    · cases hc
  | seqA _ hne ih =>
    intro d0 k L hd hc
    simp only [outs] at hc
    split at hc
    · rename_i A hA
      obtain ⟨k1, hm1, hd1⟩ := ih d0 k A hd hA
      obtain ⟨S, hS, hsub⟩ := bindO_mem hc hm1
      simp only [if_neg hne] at hS
      cases hS
      exact ⟨k1, hsub _ (by simp), hd1⟩
    · cases hc
  | altL _ ih =>
    intro d0 k L hd hc
    simp only [outs] at hc
    split at hc
    · rename_i A B hA hB
      cases hc
      obtain ⟨k1, hm1, hd1⟩ := ih d0 k A hd hA
      exact ⟨k1, mem_union.mpr (Or.inl hm1), hd1⟩
    · cases hc
  | altR _ ih =>
    intro d0 k L hd hc
    simp only [outs] at hc
    split at hc
    · rename_i A B hA hB
      cases hc
      obtain ⟨k1, hm1, hd1⟩ := ih d0 k B hd hB
      exact ⟨k1, mem_union.mpr (Or.inr hm1), hd1⟩
    · cases hc
  | starNil d =>
    intro d0 k L hd hc
    simp only [outs] at hc
    split at hc
    · split at hc
      · cases hc; exact ⟨k, mem_ins.mpr (Or.inl rfl), hd⟩
      · cases hc
    · cases hc
  | starCons _ _ ih1 ih2 =>
    intro d0 k L hd hc
    have hc' := hc
    simp only [outs] at hc
    split at hc
    · rename_i B hB
      split at hc
      · rename_i hall
        obtain ⟨k1, hm1, hd1⟩ := ih1 d0 k B hd hB
        have := List.all_eq_true.mp hall _ hm1
        simp at this
        subst this
        exact ih2 d0 k1 L hd1 hc'
      · cases hc
    · cases hc
  | starAbort _ hne ih =>
    intro d0 k L hd hc
    simp only [outs] at hc
    split at hc
    · rename_i B hB
      split at hc
      · cases hc
        obtain ⟨k1, hm1, hd1⟩ := ih d0 k B hd hB
        exact ⟨k1, mem_ins.mpr (Or.inr hm1), hd1⟩
      · cases hc
    · cases hc
  | @finN b f d ob d1 d2 _ _ ih1 ih2 =>
    intro d0 k L hd hc
    simp only [outs] at hc
    split at hc
    · rename_i B hB
      obtain ⟨k1, hm1, hd1⟩ := ih1 d0 k B hd hB
      obtain ⟨S, hS, hsub⟩ := bindO_mem hc hm1
      split at hS
      · rename_i F hF
        cases hS
        obtain ⟨k2, hm2, hd2⟩ := ih2 d0 k1 F hd1 hF
        have := mem_override (o := ob) hm2
        simp only [if_true] at this
        exact ⟨k2, hsub _ this, hd2⟩
      · cases hS
    · cases hc
  | @finA b f d ob d1 o' d2 _ _ hne ih1 ih2 =>
    intro d0 k L hd hc
    simp only [outs] at hc
    split at hc
    · rename_i B hB
      obtain ⟨k1, hm1, hd1⟩ := ih1 d0 k B hd hB
      obtain ⟨S, hS, hsub⟩ := bindO_mem hc hm1
      split at hS
      · rename_i F hF
        cases hS
        obtain ⟨k2, hm2, hd2⟩ := ih2 d0 k1 F hd1 hF
        have := mem_override (o := ob) hm2
        simp only [if_neg hne] at this
        exact ⟨k2, hsub _ this, hd2⟩
      · cases hS
    · cases hc
  | exPass _ ih =>
    intro d0 k L hd hc
    simp only [outs] at hc
    split at hc
    · rename_i B hB
      split at hc
      · cases hc
        obtain ⟨k1, hm1, hd1⟩ := ih d0 k B hd hB
        exact ⟨k1, mem_union.mpr (Or.inl hm1), hd1⟩
      · cases hc
    · cases hc
  | exCatch _ _ ih1 ih2 =>
    intro d0 k L hd hc
    simp only [outs] at hc
    split at hc
    · rename_i B hB
      split at hc
      · rename_i H hH
        cases hc
        obtain ⟨k1, hm1, hd1⟩ := ih1 d0 k B hd hB
        obtain ⟨S, hS, hsub⟩ := bindO_mem hH hm1
        simp only [if_true] at hS
        obtain ⟨k2, hm2, hd2⟩ := ih2 d0 k1 S hd1 hS
        exact ⟨k2, mem_union.mpr (Or.inr (hsub _ hm2)), hd2⟩
      · cases hc
    · cases hc
  | call _ ih =>
    intro d0 k L hd hc
    simp only [outs] at hc
    split at hc
    · rename_i B hB
      cases hc
      obtain ⟨k1, hm1, hd1⟩ := ih d0 k B hd hB
      exact ⟨k1, mem_unrets hm1, hd1⟩
    · cases hc

/-- SOUNDNESS of the check, for all skeletons and all executions: whatever way the method ends (normally, by `return`,
    by an exception), the lock is exactly as deep as it was at the start: nothing stays held -/
theorem released_sound {sk : Rk} {d : Nat} {o : Outcome} {d' : Nat} (h : Exec sk d o d')
    (hc : releasedOnAllPaths sk = true) : d' = d := by
  unfold releasedOnAllPaths at hc
  split at hc
  · rename_i L hL
    obtain ⟨k', hm, hd⟩ := outs_sound h d 0 L rfl hL
    have := List.all_eq_true.mp hc _ hm
    simp at this
    omega
  · cases hc

/-! non-vacuity -/

/-- `with self.lock:` around a body that may raise, return early, or raise for sure: passes -/
example : releasedOnAllPaths
    (.seq .acquire (.tryFinally (.seq .mayRaise (.alt (.seq .mayRaise .ret) .raise)) .release)) = true := by decide

/-- acquire / try / finally release, with a loop, a caught exception and an inlined helper that takes the (re-entrant)
    lock itself: passes -/
example : releasedOnAllPaths
    (.seq .acquire (.tryFinally
      (.seq (.star (.seq .mayRaise (.tryExcept .mayRaise .raise)))
            (.call (.seq .acquire (.tryFinally (.seq .mayRaise .ret) .release))))
      .release)) = true := by decide

/-- the leaky shape (a `@contextmanager` generator without try/finally around its `yield`): refused -/
example : releasedOnAllPaths (.seq .acquire (.seq (.seq .mayRaise (.alt .nop .raise)) .release)) = false := by decide

/-- ... and the leak is real: an execution that ends with an exception and the lock one deeper than at the start -/
example (d : Nat) : Exec (.seq .acquire (.seq (.seq .mayRaise (.alt .nop .raise)) .release)) d .raised (d + 1) :=
  .seqN (.acquire d) (.seqA (.seqN (.mayRaiseN _) (.altR (.raise _))) (by decide))

/-- an early `return` between acquire and release leaks as well -/
example : releasedOnAllPaths (.seq .acquire (.seq (.alt .nop .ret) .release)) = false := by decide
example (d : Nat) : Exec (.seq .acquire (.seq (.alt .nop .ret) .release)) d .returned (d + 1) :=
  .seqN (.acquire d) (.seqA (.altR (.ret _)) (by decide))

/-- a release that is not matched by an acquire of the method itself, and a loop that acquires once per round: refused -/
example : releasedOnAllPaths (.seq .release .acquire) = false := by decide
example : releasedOnAllPaths (.seq (.star .acquire) (.star .release)) = false := by decide

end Pyro.LockRelease
