/-
  SockIO.lean — model of `Pyro5.socketutil.receive_data` and `send_data`
  (Pyro5/socketutil.py:118-201) over a *scripted* socket.

  The operating system is a script: one event per `sock.recv` / `sock.send` / `sock.sendall`
  call.  Loops of the Python code recurse structurally on that script, so termination is by
  construction; "the script ran out" is an explicit outcome (`scriptEnd`), never a default.
-/
import PyroModel.Bytes

namespace Pyro.SockIO

open Pyro

/-- What one socket system call does. -/
inductive Ev where
  | deliver (k : Nat)     -- recv: hand over at most k bytes (0 = end of stream); send: accept at most k bytes
  | retryable             -- raise OSError with an errno in ERRNO_RETRIES
  | fatal                 -- raise OSError with any other errno
  | timeout               -- raise socket.timeout
  | partialFail (k : Nat) (retry : Bool)
      -- `sendall` transmitted k bytes and then raised an OSError (retryable errno iff `retry`);
      -- for `recv` / `send` (which either transfer or raise) it is the plain error of that kind
  deriving Repr, DecidableEq

inductive RecvResult where
  | ok (data : Bytes)
  | closed (partialData : Option Bytes)   -- ConnectionClosedError; `some p` when .partialData was set
  | timeout                               -- TimeoutError
  | scriptEnd                             -- model artefact: environment script exhausted
  deriving Repr, DecidableEq

/-- the cap in `sock.recv(min(60000, size - msglen))` -/
def recvCap : Nat := 60000

/-- The "old fashioned" accumulate loop (socketutil.py:147-167).
    `data` = bytes gathered so far (msglen = data.length), `stream` = what the peer will still send. -/
def recvFinish (size : Nat) (data stream : Bytes) (script : List Ev) : RecvResult × Bytes × List Ev :=
  -- inner `while msglen < size` is over: `if len(data) != size: raise ... else return data`
  if data.length = size then (.ok data, stream, script)
  else (.closed (some data), stream, script)

def recvLoop (size : Nat) (data : Bytes) (stream : Bytes) : List Ev → RecvResult × Bytes × List Ev
  | [] => if data.length < size then (.scriptEnd, stream, []) else recvFinish size data stream []
  | ev :: rest =>
    if data.length < size then
      match ev with
      | .deliver k =>
        let n := min k (min recvCap (size - data.length))
        let chunk := stream.take n
        if chunk.isEmpty then
          -- `if not chunk: break`  →  len(data) != size  →  ConnectionClosedError with partialData
          (.closed (some data), stream, rest)
        else
          recvLoop size (data ++ chunk) (stream.drop n) rest
      | .retryable => recvLoop size data stream rest   -- sleep, `while True` again
      | .fatal => (.closed none, stream, rest)
      | .timeout => (.timeout, stream, rest)
      | .partialFail _ true => recvLoop size data stream rest
      | .partialFail _ false => (.closed none, stream, rest)
    else recvFinish size data stream (ev :: rest)

/-- The MSG_WAITALL fast path (socketutil.py:129-145) followed by the fall-through. -/
def recvWaitall (size : Nat) (stream : Bytes) : List Ev → RecvResult × Bytes × List Ev
  | [] => (.scriptEnd, stream, [])
  | .deliver k :: rest =>
    let n := min k size
    let chunk := stream.take n
    if chunk.length = size then (.ok chunk, stream.drop n, rest)
    else recvLoop size chunk (stream.drop n) rest
  | .retryable :: rest => recvWaitall size stream rest
  | .fatal :: rest => (.closed none, stream, rest)
  | .timeout :: rest => (.timeout, stream, rest)
  | .partialFail _ true :: rest => recvWaitall size stream rest
  | .partialFail _ false :: rest => (.closed none, stream, rest)

/-- `receive_data(sock, size)`: `waitall` = `USE_MSG_WAITALL and not hasattr(sock, "getpeercert")`. -/
def receive (waitall : Bool) (size : Nat) (stream : Bytes) (script : List Ev) :
    RecvResult × Bytes × List Ev :=
  if waitall then recvWaitall size stream script else recvLoop size [] stream script

inductive SendResult where
  | ok            -- returned None
  | closed        -- ConnectionClosedError
  | timeout       -- TimeoutError
  | scriptEnd
  deriving Repr, DecidableEq

/-- Non-blocking branch of `send_data` (socketutil.py:188-201): `acc` = bytes the peer accepted so far. -/
def sendLoop (data : Bytes) (acc : Bytes) : List Ev → SendResult × Bytes × List Ev
  | [] => if data.isEmpty then (.ok, acc, []) else (.scriptEnd, acc, [])
  | ev :: rest =>
    if data.isEmpty then (.ok, acc, ev :: rest)
    else match ev with
      | .deliver k =>
        let n := min k data.length
        sendLoop (data.drop n) (acc ++ data.take n) rest
      | .retryable => sendLoop data acc rest
      | .fatal => (.closed, acc, rest)
      | .timeout => (.timeout, acc, rest)
      | .partialFail _ true => sendLoop data acc rest
      | .partialFail _ false => (.closed, acc, rest)

/-- `send_data(sock, data)`.  Blocking mode uses one `sendall` call: the event says whether the
    kernel took everything (`deliver k` with `k ≥ len` — `sendall` never returns short) or raised
    after accepting a prefix. -/
def send (blocking : Bool) (data : Bytes) (script : List Ev) : SendResult × Bytes × List Ev :=
  if blocking then
    match script with
    | [] => (.scriptEnd, [], [])
    | .deliver _ :: rest => (.ok, data, rest)           -- sendall returned: all bytes transmitted
    | .retryable :: rest => (.closed, [], rest)         -- any socket.error ends the call in blocking mode
    | .fatal :: rest => (.closed, [], rest)
    | .timeout :: rest => (.timeout, [], rest)
    | .partialFail k _ :: rest => (.closed, data.take k, rest)   -- whatever the errno: ConnectionClosedError
  else sendLoop data [] script

end Pyro.SockIO
