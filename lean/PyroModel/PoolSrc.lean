/-
  PoolSrc.lean — the vocabulary into which harness/props/c18_tr.py transcribes `Pool.process`,
  `Pool.notify_done` and `Pool.close` of Pyro5/svr_threads.py on every run (generated text:
  PyroModel/Gen/C18Src.lean), as a SHALLOW embedding over the pool model's own state `Pool.St`.

  A method body becomes a decision tree in continuation-passing style: every statement is one of the
  combinators below applied to "the rest of the method" (`k`); an `if` duplicates the rest into both
  branches (so `if c: A; return` / `else` forms, early returns of inlined helpers and elif chains have
  one normal form); a value produced by the source (`self.idle.pop()`, `Worker(self)`, the old sets in
  `close`) is a Lean binder.  What the combinators mean — i.e. what ONE python operation on a set / flag /
  worker does to `St` — is hand-written here and is the same reading the micro-steps of Pool.lean use
  (`set.pop()` = element chosen by `pick`, KeyError of `remove` / `pop` = `internalError`, `Worker.process`
  = `St.signal`: store the slot then set the event, obligation `C18_gen_source`).  The ghost logs
  (`accepted`, `refusedFull`, `refusedClosed`, `nextJob`, `errors`) are history variables: they are
  written by the combinator of the event they record and read by nobody.

  `with self.count_lock:` is the marker pair `acquire` / `release` (identity on `St`: a sequential call);
  the lock DISCIPLINE of the same source is a separate generated term of `LockSkeleton.Sk`.
-/
import PyroModel.Pool

namespace Pyro.PoolSrc

open Pyro.Pool

/-- (the rest of) a pool method: from the state it starts in to the state it returns / raises in -/
abbrev Prog := St → St × Res

/-- `return` / falling off the end of the method -/
def ret : Prog := fun s => (s, .ok)

/-- `raise PoolError(...)` in `process(job)` -/
def raiseClosed (j : Jid) : Prog := fun s => ({ s with refusedClosed := s.refusedClosed ++ [j] }, .poolClosed)

/-- `raise NoFreeWorkersError(...)` in `process(job)` -/
def raiseNoFree (j : Jid) : Prog := fun s => ({ s with refusedFull := s.refusedFull ++ [j] }, .noFreeWorkers)

/-- KeyError out of `set.pop()` / `set.remove()` -/
def raiseInternal : Prog := fun s => ({ s with errors := s.errors + 1 }, .internalError)

def ifc (c : St → Bool) (a b : Prog) : Prog := fun s => if c s then a s else b s

/-- `with self.count_lock:` entered / left (also on `return` and `raise` inside the block) -/
def acquire (k : Prog) : Prog := k
def release (k : Prog) : Prog := k

/-- `process(job)` is entered: the job gets its ghost number -/
def enterProcess (body : Jid → Prog) : Prog := fun s => body s.nextJob { s with nextJob := s.nextJob + 1 }

/-- `v = self.idle.pop()` -/
def popIdle (pick : Nat) (k : Wid → Prog) : Prog := fun s =>
  match s.idle[pick % s.idle.length]? with
  | some w => k w { s with idle := s.idle.erase w }
  | none => raiseInternal s

/-- `v = Worker(self)` : a new worker record (empty slot, event clear, at the top of its loop) -/
def newWorker (k : Wid → Prog) : Prog := fun s => k s.ws.length { s with ws := s.ws ++ [{}] }

/-- `v.start()` : the thread begins at `wait()`, which is where `newWorker` put it -/
def startW (_w : Wid) (k : Prog) : Prog := k

def busyAdd (w : Wid) (k : Prog) : Prog := fun s => k { s with busy := addSet s.busy w }
def idleAdd (w : Wid) (k : Prog) : Prog := fun s => k { s with idle := addSet s.idle w }

/-- `self.busy.discard(w)`, and its spelling `if w in self.busy: self.busy.remove(w)` -/
def busyDiscard (w : Wid) (k : Prog) : Prog := fun s => k { s with busy := s.busy.erase w }
def idleDiscard (w : Wid) (k : Prog) : Prog := fun s => k { s with idle := s.idle.erase w }

/-- `self.busy.remove(w)` : KeyError if absent -/
def busyRemove (w : Wid) (k : Prog) : Prog := fun s =>
  if w ∈ s.busy then k { s with busy := s.busy.erase w } else raiseInternal s
def idleRemove (w : Wid) (k : Prog) : Prog := fun s =>
  if w ∈ s.idle then k { s with idle := s.idle.erase w } else raiseInternal s

/-- `w.process(job)` in `Pool.process` : the job is handed to that worker -/
def handJob (w : Wid) (j : Jid) (k : Prog) : Prog := fun s =>
  k { (s.signal w (some j)) with accepted := s.accepted ++ [(j, w)] }

/-- `w.process(None)` : the worker is told to exit -/
def tellExit (w : Wid) (k : Prog) : Prog := fun s => k (s.signal w none)

/-- `for w in <local set>: w.process(None)` -/
def tellExitAll (l : List Wid) (k : Prog) : Prog := fun s => k (s.signalAll l)

/-- `self.closed = True` -/
def setClosed (k : Prog) : Prog := fun s => k { s with closed := true }

/-- `v, self.idle = self.idle, set()` -/
def swapIdle (k : List Wid → Prog) : Prog := fun s => k s.idle { s with idle := [] }
def swapBusy (k : List Wid → Prog) : Prog := fun s => k s.busy { s with busy := [] }

/-- `time.sleep(c)` : touches nothing of the pool -/
def sleepStep (k : Prog) : Prog := k

/-- `while l: p = l.pop(); [if p is not current_thread:] p.join(timeout=c)` on a LOCAL set: every join is
    timed, so the loop ends after |l| rounds whatever the workers do, and touches nothing of the pool -/
def joinAllTimed (_l : List Wid) (k : Prog) : Prog := k

/-! ### the coarse semantics of Pool.lean with the pool methods supplied from outside -/

structure Impl where
  process : Nat → Nat → Nat → Prog        -- min max pick
  notify : Nat → Nat → Wid → Prog         -- min max worker
  close : Nat → Nat → Prog

/-- `Pool.wstep` with the loop's last statement `self.pool.notify_done(self)` executed by `I.notify` -/
def wstepSrc (I : Impl) (mn mx : Nat) (s : St) (w : Wid) : St :=
  match s.ws[w]? with
  | none => s
  | some x =>
    if x.phase = .notifying then (I.notify mn mx w (s.setW w fun x => { x with phase := .waiting })).1
    else wstep mn mx s w

def stepSrc (I : Impl) (mn mx : Nat) (s : St) : Act → St
  | .submit pick => (I.process mn mx pick s).1
  | .finish j => { s with fin := s.fin ++ [j] }
  | .wstep w => wstepSrc I mn mx s w
  | .close => (I.close mn mx s).1

def runSrc (I : Impl) (mn mx : Nat) (s : St) (acts : List Act) : St := acts.foldl (stepSrc I mn mx) s

def settleSrc (I : Impl) (mn mx : Nat) : Nat → St → St
  | 0, s => s
  | fuel + 1, s => settleSrc I mn mx fuel ((List.range s.ws.length).foldl (wstepSrc I mn mx) s)

end Pyro.PoolSrc
