/-
  Instances.lean — executable model of how the daemon finds or creates the instance of a registered
  class that serves a call (C09).

  Source followed:
    Pyro5/server.py:123-138   `behavior`            → `behaviorCheck`
    Pyro5/server.py:657-660   `register` default    → `registerSpec`
    Pyro5/server.py:579-589   `createInstance`      → `createInstance`
    Pyro5/server.py:590-615   `_getInstance`        → `getInstance` (+ `singleBody`, the micro-step form of 593-599)
    Pyro5/socketutil.py:415-420, 437-444  `SocketConnection.__init__/close` → `Event.openConn`, `Event.close`

  Representation.  An instance is a record: its creation index (= its identity), its truth value
  (`bool(instance)`: `__bool__` / `__len__`) and the equivalence class of its `__eq__`/`__hash__`
  (carried along, never consulted — the code never compares instances).  The two tables
  `daemon._pyroInstances[cls]` and `conn.pyroInstances[cls]` are ONE function from *slots*
  (`Slot.single cls`, `Slot.sess conn cls`) to `Option Instance` (a missing key and `.get` returning
  `None` are the same thing).  Classes and connections are numbers.  What a constructor / creator
  does when it is run is not the daemon's code: it is the `Outcome` carried by each call event
  (used only if a creation is attempted), so the theorems quantify over all behaviours of user code.
  The operator with which the source decides "no instance yet" is a parameter (`Test`), read from
  the source by the extractor (`Pyro.Gen.C09.singleTest/sessionTest`).
-/
import PyroModel.Lock

namespace Pyro.Inst

inductive Mode where
  | single | session | percall
  | invalid                       -- any other string put into `_pyroInstancing` by hand
  deriving Repr, DecidableEq

/-- how the source decides that the table holds no usable instance -/
inductive Test where
  | falsy      -- `if not instance:`
  | isNone     -- `if instance is None:`
  deriving Repr, DecidableEq

def Test.ofString : String → Option Test
  | "not" => some .falsy
  | "is None" => some .isNone
  | _ => none

/-- the tests of the `single` branch (server.py:595) and of the `session` branch (server.py:605) -/
structure Tests where
  single : Test
  session : Test
  deriving Repr, DecidableEq

/-- the `instance_creator` as `createInstance` sees it (`if creator:`) -/
inductive Creator where
  | none            -- None
  | callable        -- a truthy callable: it is used
  | falsy           -- an object whose truth value is False: `if creator:` skips it, `clazz()` is used
  deriving Repr, DecidableEq

structure ClassSpec where
  mode : Mode
  creator : Creator
  deriving Repr, DecidableEq

structure Instance where
  idx : Nat        -- creation index: the identity of the object
  truthy : Bool    -- bool(instance)
  eqc : Nat        -- equivalence class under its own __eq__/__hash__
  deriving Repr, DecidableEq

/-- what user code (constructor or creator) does if it is run for this call -/
inductive Outcome where
  | ok (truthy : Bool) (eqc : Nat)          -- returns an instance of the class
  | wrongType (truthy : Bool) (eqc : Nat)   -- returns an object that is not an instance of the class
  | raises                                  -- raises an exception
  deriving Repr, DecidableEq

inductive Created where
  | inst (i : Instance) (creatorCalled : Bool)
  | typeError                     -- "instance creator returned object of different type" (creator was called)
  | raised (creatorCalled : Bool)
  deriving Repr, DecidableEq

/-- server.py:579-589.  `next` is the index the new object gets. -/
def createInstance (cr : Creator) (o : Outcome) (next : Nat) : Created :=
  match cr with
  | .callable =>                                   -- `if creator:` holds: `obj = creator(clazz)`
    match o with
    | .ok t e => .inst ⟨next, t, e⟩ true            -- `isinstance(obj, clazz)` → return obj
    | .wrongType _ _ => .typeError                 -- raise TypeError
    | .raises => .raised true
  | _ =>                                           -- `return clazz()`
    match o with
    | .ok t e => .inst ⟨next, t, e⟩ false
    | .wrongType t e => .inst ⟨next, t, e⟩ false    -- no isinstance check on this path (`__new__` may return anything)
    | .raises => .raised false

inductive Slot where
  | single (cls : Nat)            -- daemon._pyroInstances[cls]
  | sess (conn cls : Nat)         -- conn.pyroInstances[cls]
  deriving Repr, DecidableEq

abbrev Table := Slot → Option Instance

structure State where
  next : Nat                 -- number of instances created so far
  tab : Table
  keep : Nat → Bool          -- conn.keep_open

def State.init : State := ⟨0, fun _ => none, fun _ => false⟩

def setSlot (tab : Table) (sl : Slot) (v : Option Instance) : Table :=
  fun x => if x = sl then v else tab x

/-- `conn.pyroInstances = {}` -/
def clearConn (tab : Table) (c : Nat) : Table :=
  fun x => match x with
    | .sess c' _ => if c' = c then none else tab x
    | .single _ => tab x

/-- is the instance found in the table used as it is? -/
def reuse : Test → Instance → Bool
  | .falsy, i => i.truthy         -- `not instance` is False
  | .isNone, _ => true            -- `instance is None` is False

def testOf (ts : Tests) : Slot → Test
  | .single _ => ts.single
  | .sess _ _ => ts.session

/-- what a call observes -/
inductive Res where
  | served (i : Instance) (created : Bool) (creatorCalled : Bool)
  | typeError
  | raised (creatorCalled : Bool)
  | daemonError                   -- "invalid instancemode in registered class"
  | done                          -- connection opened / closed
  deriving Repr, DecidableEq

/-- `table[clazz] = instance` when the mode has a table (598, 608); nothing for `percall` -/
def storeIn (tab : Table) (slot : Option Slot) (i : Instance) : Table :=
  match slot with
  | some sl => setSlot tab sl (some i)
  | none => tab

/-- create, and store in `sl` if there is one (597-598, 607-608, 613) -/
def createIn (cr : Creator) (sl : Option Slot) (o : Outcome) (s : State) : State × Res :=
  match createInstance cr o s.next with
  | .inst i called => ({ s with next := s.next + 1, tab := storeIn s.tab sl i }, .served i true called)
  | .typeError => (s, .typeError)        -- the exception leaves `_getInstance`: nothing is stored
  | .raised c => (s, .raised c)

/-- `instance = table.get(clazz); if <test>: create, store; return instance` (594-599, 604-609) -/
def findOrCreate (t : Test) (cr : Creator) (sl : Slot) (o : Outcome) (s : State) : State × Res :=
  match s.tab sl with
  | some i => if reuse t i then (s, .served i false false) else createIn cr (some sl) o s
  | none => createIn cr (some sl) o s

def slotOf (m : Mode) (conn cls : Nat) : Option Slot :=
  match m with
  | .single => some (.single cls)
  | .session => some (.sess conn cls)
  | _ => none

/-- server.py:590-615 -/
def getInstance (ts : Tests) (spec : ClassSpec) (conn cls : Nat) (o : Outcome) (s : State) : State × Res :=
  match spec.mode with
  | .single => findOrCreate ts.single spec.creator (.single cls) o s
  | .session => findOrCreate ts.session spec.creator (.sess conn cls) o s
  | .percall => createIn spec.creator none o s
  | .invalid => (s, .daemonError)

inductive Event where
  | openConn (c : Nat) (keepOpen : Bool)     -- SocketConnection.__init__: a new connection object under label c
  | call (c cls : Nat) (o : Outcome)         -- a request on connection c for the object registered as class cls
  | close (c : Nat)                          -- SocketConnection.close
  deriving Repr, DecidableEq

def stepEv (ts : Tests) (spec : Nat → ClassSpec) (s : State) : Event → State × Res
  | .openConn c k =>
    ({ s with tab := clearConn s.tab c, keep := fun x => if x = c then k else s.keep x }, .done)
  | .call c cls o => getInstance ts (spec cls) c cls o s
  | .close c =>
    if s.keep c then (s, .done)                        -- `if self.keep_open: return`
    else ({ s with tab := clearConn s.tab c }, .done)  -- `self.pyroInstances = {}`

/-- a whole history: final state and what each event observed -/
def runHist (ts : Tests) (spec : Nat → ClassSpec) : State → List Event → State × List Res
  | s, [] => (s, [])
  | s, e :: es =>
    ((runHist ts spec (stepEv ts spec s e).1 es).1,
     (stepEv ts spec s e).2 :: (runHist ts spec (stepEv ts spec s e).1 es).2)

/-! ### the `single` branch as micro-steps under `create_single_instance_lock` -/

structure Local where
  cur : Option Instance := none
  made : Option Instance := none
  res : Res := .done

abbrev MStep := Local → State → Local × State

def makeStep (cr : Creator) (o : Outcome) : MStep := fun l s =>
  match createInstance cr o s.next with
  | .inst i called => ({ l with made := some i, res := .served i true called }, { s with next := s.next + 1 })
  | .typeError => ({ l with res := .typeError }, s)
  | .raised c => ({ l with res := .raised c }, s)

/-- server.py:594 / 595-597 / 598; an exception in 597 leaves the `with` block: the last step does nothing -/
def singleBody (t : Test) (cr : Creator) (cls : Nat) (o : Outcome) : List MStep :=
  [ fun l s => ({ l with cur := s.tab (.single cls) }, s),
    fun l s => match l.cur with
      | some i => if reuse t i then ({ l with res := .served i false false }, s) else makeStep cr o l s
      | none => makeStep cr o l s,
    fun l s => match l.made with
      | some i => (l, { s with tab := setSlot s.tab (.single cls) (some i) })
      | none => (l, s) ]

/-- a call on a class of mode `single` -/
structure SCall where
  conn : Nat
  cls : Nat
  o : Outcome
  deriving Repr, DecidableEq

def toOp (ts : Tests) (spec : Nat → ClassSpec) (c : SCall) : Lock.Op State Local Res :=
  { init := {}, steps := singleBody ts.single (spec c.cls).creator c.cls c.o, result := fun l => l.res }

def SCall.toEvent (c : SCall) : Event := .call c.conn c.cls c.o

/-! ### the `behavior` decorator and the default of `register` -/

inductive ModeArg where
  | str (m : Mode)      -- a string; `Mode.invalid` = any string outside the three names
  | notStr
  deriving Repr, DecidableEq

inductive CreatorArg where
  | none                -- None
  | callable            -- truthy and callable
  | falsyCallable       -- callable whose truth value is False
  | notCallable         -- truthy, not callable
  | falsyNotCallable    -- e.g. 0, "", []
  deriving Repr, DecidableEq

inductive BehaviorRes where
  | stored (spec : ClassSpec)
  | typeError | valueError | syntaxError
  deriving Repr, DecidableEq

def CreatorArg.seen : CreatorArg → Creator
  | .none => .none
  | .callable => .callable
  | .notCallable => .callable      -- unreachable through `behavior` (rejected); truthy → would be called
  | .falsyCallable => .falsy
  | .falsyNotCallable => .falsy

/-- server.py:123-138: the order of the checks is the source's -/
def behaviorCheck (isClass : Bool) (m : ModeArg) (cr : CreatorArg) : BehaviorRes :=
  match m with
  | .notStr => .syntaxError                                   -- 136-137, at `behavior(...)` time
  | .str mode =>
    if !isClass then .typeError                               -- 128-129
    else if mode == .invalid then .valueError                 -- 130-131
    else if cr == .notCallable then .typeError                -- 132-133 `instance_creator and not callable(..)`
    else .stored ⟨mode, cr.seen⟩                               -- 134

/-- server.py:659-660: a class without `_pyroInstancing` gets ("session", None) -/
def registerSpec : Option ClassSpec → ClassSpec
  | some s => s
  | none => ⟨.session, .none⟩

end Pyro.Inst
