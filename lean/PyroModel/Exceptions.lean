/-
  Exceptions.lean — executable model of how an exception raised by a remote method reaches the caller (property C07).

  Follows (tree with fixes/C07-batch-unserialisable-exception.patch applied; the unpatched shape is kept behind the
  extracted fact `Gen.C07.batchFallback`):
    Pyro5/serializers.py  SerializerBase.class_to_dict, exception branch (137-144)        → `excToDict`
                          SerializerBase.dict_to_class (171-235)                          → `dictToClass`
                          SerializerBase.make_exception (237-244)                         → `makeException`, `setAttrs`
                          SerializerBase.recreate_classes (246-261), top level and one list → `recreate`
    Pyro5/core.py         _ExceptionWrapper.__serialized_dict__ / raiseIt (149-162)       → `wrapperToDict`, `batchResults`
    Pyro5/server.py       Daemon.handleRequest: batch loop (441-456), single call / attribute access (457-497),
                          reply (501-511), error handler (512-525)                        → `batchLoop`, `serverCall`, `errorPath`
                          Daemon._serializeException / _sendExceptionResponse (622-650)   → `serializeException`
                          DaemonObject.get_next_stream_item (177-189)                     → `CallKind.streamItem`
    Pyro5/client.py       Proxy._pyroInvoke (253-286)                                     → `clientInvoke`
                          BatchProxy.__resultsgenerator (610-615)                         → `batchResults`
                          _StreamResultIterator.__next__ (532-544)                        → `clientCall` (stream item)

  Parameters (not Pyro code; every theorem quantifies over them, the driver instantiates them):
    `Codec W`   the serializer library behind `dumps` / `loads` of one of the four serializers (serpent, marshal, json,
                msgpack): `dumps` of a literal tree (`none` = it raises; `unserErr` is what it raises), `loads`.
    `Render`    CPython's `str(exception)` and `repr(type)` (used only inside the fallback message).
    `ServerEnv.info` / `ClientEnv.*`  class relations and name tables (instantiated from `Gen.C07`) and the CPython
                constructors of exception classes (`ctor`).

  Values inside `args` / attributes are never inspected by this code: `Val` is the tree the codec sees.
  Dictionaries are association lists in insertion order with distinct keys (the harness sorts before comparing,
  Python dict equality ignores order).

  Core Lean only (linked into the driver executable).
-/
import PyroModel.Gen.C07

namespace Pyro.Exceptions

open Pyro.Gen.C07 (Kind Flags)

abbrev Str := List Char

def cs (s : String) : Str := s.toList

/-- Python data as a serializer library sees it.
    `atom` : any other leaf a codec handles natively (float, bytes, …): opaque, only its truth value matters here.
    `obj`  : an object that is not data and that no to-dict conversion exists for (`class_to_dict` / the library raise). -/
inductive Val where
  | none
  | bool (b : Bool)
  | int (i : Int)
  | str (s : Str)
  | atom (truthy : Bool) (tag : Str)
  | obj (cls : Str)
  | list (xs : List Val)
  | tuple (xs : List Val)
  | dict (kv : List (Str × Val))
  deriving Repr, Inhabited

abbrev Dict := List (Str × Val)

/-- an exception instance: `type(e).__module__ + "." + type(e).__name__`, `e.args`, `vars(e)` -/
structure Exc where
  cls : Str
  args : List Val
  attrs : Dict
  deriving Repr, Inhabited

/-! ### dictionaries, truth values, strings -/

/-- `d.get(k)` -/
def lookup (k : Str) : Dict → Option Val
  | [] => none
  | (n, v) :: rest => if n = k then some v else lookup k rest

/-- `d[k] = v` / `setattr(obj, k, v)`: overwrite in place or append -/
def setKey (k : Str) (v : Val) : Dict → Dict
  | [] => [(k, v)]
  | (n, w) :: rest => if n = k then (n, v) :: rest else (n, w) :: setKey k v rest

def keys (d : Dict) : List Str := d.map Prod.fst

/-- `bool(v)` -/
def truthy : Val → Bool
  | .none => false
  | .bool b => b
  | .int i => i != 0
  | .str s => !s.isEmpty
  | .atom t _ => t
  | .obj _ => true
  | .list xs => !xs.isEmpty
  | .tuple xs => !xs.isEmpty
  | .dict kv => !kv.isEmpty

/-- `"__" in s` -/
def hasDunder : Str → Bool
  | '_' :: '_' :: _ => true
  | _ :: rest => hasDunder rest
  | [] => false

/-- `a, b = s.split('.', 1)`; `none` when there is no dot (ValueError: not enough values to unpack) -/
def splitDot : Str → Option (Str × Str)
  | [] => none
  | c :: rest =>
    if c = '.' then some ([], rest)
    else match splitDot rest with
      | some (a, b) => some (c :: a, b)
      | none => none

def assoc {β : Type} (k : Str) : List (Str × β) → Option β
  | [] => none
  | (n, v) :: rest => if n = k then some v else assoc k rest

/-! ### constants of the code -/

def kClass : Str := ['_','_','c','l','a','s','s','_','_']
def kException : Str := ['_','_','e','x','c','e','p','t','i','o','n','_','_']
def kArgs : Str := ['a','r','g','s']
def kAttributes : Str := ['a','t','t','r','i','b','u','t','e','s']
def kTraceback : Str := ['_','p','y','r','o','T','r','a','c','e','b','a','c','k']
def kWrapped : Str := ['e','x','c','e','p','t','i','o','n']
def wrapperTag : Str := cs "Pyro5.core._ExceptionWrapper"
def errorsPrefix : Str := cs "Pyro5.errors."
def utilPrefix : Str := cs "Pyro5.util."
def qPyroError : Str := cs "Pyro5.errors.PyroError"
def qSecurityError : Str := cs "Pyro5.errors.SecurityError"
def qSerializeError : Str := cs "Pyro5.errors.SerializeError"
def qAttributeError : Str := cs "builtins.AttributeError"
def qTypeError : Str := cs "builtins.TypeError"
def qValueError : Str := cs "builtins.ValueError"
def qKeyError : Str := cs "builtins.KeyError"
def qRuntimeError : Str := cs "builtins.RuntimeError"
def qStructError : Str := cs "struct.error"
def fixedPyroClasses : List Str :=
  [cs "Pyro5.core.URI", cs "Pyro5.client.Proxy", cs "Pyro5.server.Daemon"]
def utilClasses : List Str :=
  [cs "Pyro5.util.SerpentSerializer", cs "Pyro5.util.MarshalSerializer", cs "Pyro5.util.JsonSerializer",
   cs "Pyro5.util.MsgpackSerializer"]

/-- an error raised by the interpreter (message text not modelled) -/
def pyErr (q : Str) : Exc := ⟨q, [.atom true (cs "?")], []⟩
/-- an error raised by Pyro's own code with message `m` -/
def pyroErr (q : Str) (m : Str) : Exc := ⟨q, [.str m], []⟩

def msgDunder : Str := cs "refused to deserialize types with double underscores in their name: "
def msgUnsupported : Str := cs "unsupported serialized class: "
def msgGenerator : Str := cs "generator raised StopIteration"

/-! ### parameters -/

/-- the serializer library of one of the four serializers, as used through `dumps` / `loads` -/
structure Codec (W : Type) where
  /-- library `dumps` of a tree; `none` = it raises (object it cannot handle and the to-dict hook refuses) -/
  dumps : Val → Option W
  loads : W → Option Val
  /-- what `dumps` raises then (serpent: TypeError, marshal: ValueError, json/msgpack: SerializeError) -/
  unserErr : Exc

/-- CPython's renderings that end up in the fallback message -/
structure Render where
  /-- `str(e)` -/
  strOf : Exc → Str
  /-- `str(type(e))`, e.g. `<class 'ValueError'>` -/
  typeRepr : Str → Str

structure ServerEnv where
  /-- relations of the class of a raised exception, as the isinstance tests of the server see them -/
  info : Str → Flags

/-- the name tables the class-name dispatch of `dict_to_class` consults -/
structure Names where
  /-- class names for which the application registered a converter (`register_dict_to_class`) -/
  registry : List Str
  allExceptions : List (Str × Str)
  builtinsVars : List (Str × Kind)
  errorsVars : List (Str × Kind)
  sqliteErrorVars : List (Str × Kind)

structure ClientEnv where
  names : Names
  /-- `exceptiontype(*args)`: class and `.args` of the new instance (OSError's constructor picks a subclass from
      the errno), or what the constructor raised -/
  ctor : Str → List Val → Except Exc (Str × List Val)
  /-- relations of a class as the isinstance tests of the client see them -/
  info : Str → Flags

/-! ### sender side: exception → dict (serializers.py 137-144, core.py 155-162) -/

/-- `class_to_dict`, exception branch (serpent's own `ser_exception_class` builds the same dict) -/
def excToDict (e : Exc) : Val :=
  .dict [(kClass, .str e.cls), (kException, .bool true), (kArgs, .tuple e.args), (kAttributes, .dict e.attrs)]

/-- `_ExceptionWrapper.__serialized_dict__` -/
def wrapperToDict (e : Exc) : Val :=
  .dict [(kClass, .str wrapperTag), (kWrapped, excToDict e)]

/-- `exc_value._pyroTraceback = tbinfo` -/
def withTraceback (tb : Val) (e : Exc) : Exc := { e with attrs := setKey kTraceback tb e.attrs }

/-- "Error serializing exception: %s. Original exception: %s: %s" % (str(xv), type(exc_value), str(exc_value)) -/
def fallbackMsg (R : Render) (dumpErr : Exc) (e : Exc) : Str :=
  cs "Error serializing exception: " ++ R.strOf dumpErr ++ cs ". Original exception: " ++ R.typeRepr e.cls
    ++ cs ": " ++ R.strOf e

/-- the generic error sent instead of an exception that cannot be serialised -/
def fallbackExc (R : Render) (dumpErr : Exc) (tb : Val) (e : Exc) : Exc :=
  withTraceback tb ⟨qPyroError, [.str (fallbackMsg R dumpErr e)], []⟩

/-- `Daemon._serializeException` (server.py 622-636): the exception that is sent and its serialised form;
    `.error x` = the second `dumps` raised `x` as well (it propagates). -/
def serializeException {W : Type} (c : Codec W) (R : Render) (e : Exc) (tb : Val) : Except Exc (Exc × W) :=
  let e1 := withTraceback tb e
  match c.dumps (excToDict e1) with
  | some w => .ok (e1, w)
  | none =>
    let fb := fallbackExc R c.unserErr tb e1
    match c.dumps (excToDict fb) with
    | some w => .ok (fb, w)
    | none => .error c.unserErr

/-! ### server: Daemon.handleRequest -/

/-- what one invocation of the user's method / property accessor / `next(stream)` does -/
inductive Step where
  | ret (v : Val)
  | raise (e : Exc)
  deriving Repr

/-- the four call kinds of the property (three code paths in handleRequest; a stream item is a plain call of
    `DaemonObject.get_next_stream_item`, which re-raises whatever `next()` raised) -/
inductive CallKind where
  | plain (isCallback : Bool)   -- 476-497
  | getattr                     -- 459-471
  | setattr                     -- 472-474
  | streamItem                  -- 177-189, then 476-497
  deriving DecidableEq, Repr

def CallKind.isCallback : CallKind → Bool
  | .plain b => b
  | _ => false

inductive ConnFate where
  | active     -- handleRequest returned: the connection loop goes on
  | dropped    -- an exception left handleRequest: the transport server closes the connection
  deriving DecidableEq, Repr

structure Reply (W : Type) where
  exception : Bool      -- FLAGS_EXCEPTION
  batch : Bool          -- FLAGS_BATCH
  body : W

structure ServerOut (W : Type) where
  reply : Option (Reply W)
  conn : ConnFate

/-- the handler reports the exception back: not a ConnectionClosedError, and a SerializeError or no
    CommunicationError at all (the call is not oneway) -/
def repliesTo (f : Flags) : Bool := !f.isConnClosed && (f.isSerialize || !f.isComm)

/-- … and then re-raises it (the transport drops the connection): callbacks, CommunicationErrors, SecurityErrors -/
def reraisesAfter (f : Flags) (isCallback : Bool) : Bool := isCallback || f.isComm || f.isSecurity

/-- the handler of handleRequest's main try statement (512-525), for an exception `xv` that is an `Exception`
    and a call that is not oneway:  reply unless it is a ConnectionClosedError or another CommunicationError that is
    not a SerializeError; then re-raise for callbacks, CommunicationErrors and SecurityErrors. -/
def errorPath {W : Type} (S : ServerEnv) (c : Codec W) (R : Render) (xv : Exc) (tb : Val) (isCallback : Bool) :
    ServerOut W :=
  let f := S.info xv.cls
  let reraise := reraisesAfter f isCallback
  if repliesTo f then
    match serializeException c R xv tb with
    | .ok (_, w) => ⟨some ⟨true, false, w⟩, if reraise then .dropped else .active⟩
    | .error _ => ⟨none, .dropped⟩      -- the fallback could not be serialised either: the error leaves the handler
  else ⟨none, if reraise then .dropped else .active⟩

/-- a single (non-batch, non-oneway) request: plain call, attribute get / set, stream item -/
def serverCall {W : Type} (S : ServerEnv) (c : Codec W) (R : Render) (kind : CallKind) (step : Step) (tb : Val) :
    ServerOut W :=
  match step with
  | .ret v =>
    match c.dumps v with                             -- 504: data = serializer.dumps(data)
    | some w => ⟨some ⟨false, false, w⟩, .active⟩
    | none => errorPath S c R c.unserErr tb kind.isCallback
  | .raise e =>
    if (S.info e.cls).isException then errorPath S c R e tb kind.isCallback
    else ⟨none, .dropped⟩                            -- `except Exception` does not catch it: the worker thread ends

inductive BatchItem where
  | ok (v : Val)
  | err (e : Exc)
  deriving Repr

inductive BatchRun where
  | done (items : List BatchItem)
  | escaped (e : Exc)        -- an exception left the loop (a BaseException that is no Exception; a failing fallback)

/-- the batch loop (441-456): results in order; the first `Exception` is wrapped (with its traceback; replaced by the
    generic error when `batchFallback` and it cannot be serialised) and ends the loop -/
def batchLoop {W : Type} (S : ServerEnv) (c : Codec W) (R : Render) (batchFallback : Bool) (tb : Val) :
    List Step → BatchRun
  | [] => .done []
  | .ret v :: rest =>
    match batchLoop S c R batchFallback tb rest with
    | .done items => .done (.ok v :: items)
    | .escaped e => .escaped e
  | .raise e :: _ =>
    if (S.info e.cls).isException then
      if batchFallback then
        match serializeException c R e tb with
        | .ok (e', _) => .done [.err e']
        | .error x => .escaped x
      else .done [.err (withTraceback tb e)]
    else .escaped e

def itemLit : BatchItem → Val
  | .ok v => v
  | .err e => wrapperToDict e

/-- a batch request -/
def serverBatch {W : Type} (S : ServerEnv) (c : Codec W) (R : Render) (batchFallback : Bool) (steps : List Step)
    (tb : Val) : ServerOut W :=
  match batchLoop S c R batchFallback tb steps with
  | .done items =>
    match c.dumps (.list (items.map itemLit)) with
    | some w => ⟨some ⟨false, true, w⟩, .active⟩
    | none => errorPath S c R c.unserErr tb false
  | .escaped e =>
    if (S.info e.cls).isException then errorPath S c R e tb false else ⟨none, .dropped⟩

/-! ### receiver side: dict → exception (serializers.py 171-261) -/

/-- a Python object after class re-creation, as far as this property looks -/
inductive PyObj where
  | data (v : Val)
  | exc (e : Exc)
  | wrapper (e : Exc)          -- core._ExceptionWrapper holding an exception
  | foreign (cls : Str)        -- URI / Proxy / Daemon / serializer instance (state not modelled)
  deriving Repr

inductive DErr where
  | raised (e : Exc)
  | unmodelled                 -- outside the modelled domain (explicit; never a verdict about the code)
  | fuel

/-- `for attr, value in data["attributes"].items(): setattr(ex, attr, value)` -/
def setAttrs (acc : Dict) : Dict → Dict
  | [] => acc
  | (k, v) :: rest => setAttrs (setKey k v acc) rest

/-- `make_exception` (237-244) -/
def makeException (K : ClientEnv) (qual : Str) (data : Dict) : Except DErr PyObj :=
  match lookup kArgs data with
  | none => .error (.raised (pyErr qKeyError))
  | some a =>
    let splat : Option (List Val) := match a with
      | .list xs => some xs
      | .tuple xs => some xs
      | _ => none
    match splat with
    | none => .error .unmodelled         -- *args of a str / dict / non-iterable
    | some xs =>
      match K.ctor qual xs with
      | .error x => .error (.raised x)
      | .ok (qual', args') =>
        match lookup kAttributes data with
        | none => .ok (.exc ⟨qual', args', []⟩)
        | some (.dict kv) => .ok (.exc ⟨qual', args', setAttrs [] kv⟩)
        | some _ => .error .unmodelled   -- .items() of a non-dict

/-- a name looked up in a module and tested with issubclass -/
def viaModule (K : ClientEnv) (table : List (Str × Kind)) (name : Str) (data : Dict) (unsupported : Except DErr PyObj) :
    Except DErr PyObj :=
  match assoc name table with
  | none => .error (.raised (pyErr qAttributeError))          -- getattr(module, name)
  | some .other => .error (.raised (pyErr qTypeError))        -- issubclass(non-class, …)
  | some .cls => unsupported
  | some (.exc q) => makeException K q data

/-- `dict_to_class` (171-235), for a dict that has a `__class__` key -/
def dictToClass (K : ClientEnv) : Nat → Dict → Except DErr PyObj
  | 0, _ => .error .fuel
  | fuel + 1, data =>
    match lookup kClass data with
    | some (.str classname) =>
      let unsupported : Except DErr PyObj := .error (.raised (pyroErr qSerializeError (msgUnsupported ++ classname)))
      if classname ∈ K.names.registry then .error .unmodelled       -- the application's converter decides
      else if hasDunder classname then .error (.raised (pyroErr qSecurityError (msgDunder ++ classname)))
      else if classname ∈ fixedPyroClasses then .error .unmodelled   -- URI / Proxy / Daemon: state not modelled
      else if utilPrefix.isPrefixOf classname then
        if classname ∈ utilClasses then .ok (.foreign classname) else unsupported
      else if errorsPrefix.isPrefixOf classname then
        viaModule K K.names.errorsVars (classname.drop errorsPrefix.length) data unsupported
      else if classname = qStructError then makeException K qStructError data
      else if classname = wrapperTag then
        match lookup kWrapped data with
        | none => .error (.raised (pyErr qKeyError))
        | some (.dict inner) =>
          if (lookup kClass inner).isSome then
            match dictToClass K fuel inner with
            | .ok (.exc e) => .ok (.wrapper e)
            | .ok _ => .error .unmodelled
            | .error x => .error x
          else .error .unmodelled
        | some _ => .error .unmodelled
      else if (match lookup kException data with | some v => truthy v | none => false) then
        match assoc classname K.names.allExceptions with
        | some q => makeException K q data
        | none =>
          match splitDot classname with
          | none => .error (.raised (pyErr qValueError))
          | some (ns, short) =>
            if ns = cs "builtins" ∨ ns = cs "exceptions" then viaModule K K.names.builtinsVars short data unsupported
            else if ns = cs "sqlite3" ∧ (cs "Error").isSuffixOf short then
              viaModule K K.names.sqliteErrorVars short data unsupported
            else unsupported
      else unsupported
    | _ => .error .unmodelled            -- `__class__` missing / bytes / not a str

def dictFuel : Nat := 8

mutual
/-- some dict below `v` carries a `__class__` key -/
def hasClassDict : Val → Bool
  | .list xs => hasClassDictL xs
  | .tuple xs => hasClassDictL xs
  | .dict kv => (lookup kClass kv).isSome || hasClassDictD kv
  | _ => false
def hasClassDictL : List Val → Bool
  | [] => false
  | x :: xs => hasClassDict x || hasClassDictL xs
def hasClassDictD : List (Str × Val) → Bool
  | [] => false
  | (_, v) :: r => hasClassDict v || hasClassDictD r
end

/-- `recreate_classes` on one element: a class dict is converted, plain data stays; data with class dicts deeper
    inside is outside the modelled domain -/
def recreateItem (K : ClientEnv) (v : Val) : Except DErr PyObj :=
  match v with
  | .dict kv =>
    if (lookup kClass kv).isSome then dictToClass K dictFuel kv
    else if hasClassDictD kv then .error .unmodelled else .ok (.data v)
  | _ => if hasClassDict v then .error .unmodelled else .ok (.data v)

def recreateItems (K : ClientEnv) : List Val → Except DErr (List PyObj)
  | [] => .ok []
  | v :: rest =>
    match recreateItem K v with
    | .error x => .error x
    | .ok o =>
      match recreateItems K rest with
      | .error x => .error x
      | .ok os => .ok (o :: os)

inductive Loaded where
  | one (o : PyObj)
  | many (os : List PyObj)     -- a list (the result list of a batch)

/-- `serializer.loads(msg.data)` after the library: `recreate_classes` of the top-level value -/
def recreate (K : ClientEnv) (v : Val) : Except DErr Loaded :=
  match v with
  | .list xs => (recreateItems K xs).map .many
  | _ => (recreateItem K v).map .one

/-! ### client: Proxy._pyroInvoke, BatchProxy, _StreamResultIterator -/

inductive Outcome where
  | value (v : Val)
  | raised (e : Exc)
  | connLost            -- no reply: ConnectionClosedError("receiving: …") raised by the transport
  | codecFailed         -- the library's loads raised (outside the codec law)
  | unmodelled
  deriving Repr

structure ClientOut where
  /-- values the caller obtained before the outcome (batch: results of the calls before the failing one) -/
  yielded : List Val
  outcome : Outcome
  /-- the proxy released its connection (it reconnects on the next call) -/
  released : Bool
  deriving Repr

/-- `except (errors.CommunicationError, KeyboardInterrupt): self._pyroRelease(); raise` (278-286) -/
def releases (K : ClientEnv) (e : Exc) : Bool :=
  (K.info e.cls).isComm || (K.info e.cls).isKbdInt

def raisedBy (K : ClientEnv) (e : Exc) : ClientOut := ⟨[], .raised e, releases K e⟩

/-- `raise data` -/
def raiseData (K : ClientEnv) : PyObj → ClientOut
  | .exc e => raisedBy K e
  | _ => raisedBy K (pyErr qTypeError)      -- exceptions must derive from BaseException

def pyObjVal : PyObj → Option Val
  | .data v => some v
  | _ => none

/-- `BatchProxy.__resultsgenerator` (610-615), consumed to its end: a generator; a StopIteration raised inside it
    surfaces as RuntimeError (PEP 479) -/
def batchResults (K : ClientEnv) : List PyObj → ClientOut
  | [] => ⟨[], .value .none, false⟩              -- the generator is exhausted
  | .wrapper e :: _ =>
    if (K.info e.cls).isStopIter then ⟨[], .raised (pyroErr qRuntimeError msgGenerator), false⟩
    else ⟨[], .raised e, false⟩                  -- raiseIt(): outside _pyroInvoke, nothing is released
  | .data v :: rest => let r := batchResults K rest; { r with yielded := v :: r.yielded }
  | _ :: _ => ⟨[], .unmodelled, false⟩

/-- `_pyroInvoke` from the point where the reply (or nothing) arrives (261-286) -/
def clientInvoke {W : Type} (K : ClientEnv) (c : Codec W) (batch : Bool) (r : Option (Reply W)) : ClientOut :=
  match r with
  | none => ⟨[], .connLost, true⟩                -- ConnectionClosedError is a CommunicationError: released
  | some rep =>
    match c.loads rep.body with
    | none => ⟨[], .codecFailed, false⟩
    | some lit =>
      match recreate K lit with
      | .error (.raised e) => raisedBy K e       -- raised inside serializer.loads, inside the try statement
      | .error _ => ⟨[], .unmodelled, false⟩
      | .ok (.one o) =>
        if rep.exception then raiseData K o
        else match pyObjVal o with
          | some v => ⟨[], .value v, false⟩
          | none => ⟨[], .unmodelled, false⟩
      | .ok (.many os) =>
        if rep.exception then raisedBy K (pyErr qTypeError)
        else if batch then batchResults K os
        else ⟨[], .unmodelled, false⟩

/-- what the caller of a single remote call (plain / attribute / stream item) observes, and the connection's fate -/
def clientCall {W : Type} (S : ServerEnv) (K : ClientEnv) (c : Codec W) (R : Render) (kind : CallKind) (step : Step)
    (tb : Val) : ClientOut × ConnFate :=
  let so := serverCall S c R kind step tb
  (clientInvoke K c false so.reply, so.conn)

/-- what the caller of a batch observes when it consumes the result generator -/
def clientBatch {W : Type} (S : ServerEnv) (K : ClientEnv) (c : Codec W) (R : Render) (batchFallback : Bool)
    (steps : List Step) (tb : Val) : ClientOut × ConnFate :=
  let so := serverBatch S c R batchFallback steps tb
  (clientInvoke K c true so.reply, so.conn)

/-! ### client: `_RemoteMethod.__call__` (client.py 507-515), the retry loop around a *method* call
    (attribute reads / writes, batches and stream items call `_pyroInvoke` directly) -/

/-- `except (errors.ConnectionClosedError, errors.TimeoutError)` -/
def retryable (K : ClientEnv) : Outcome → Bool
  | .connLost => true
  | .raised e => (K.info e.cls).isConnClosed || (K.info e.cls).isPyroTimeout
  | _ => false

/-- `for attempt in range(bound): try: return send() except (…): if attempt >= max_retries: raise`.
    `run attempt` = what `self.__send(…)` does at that attempt; `remaining` = iterations left.
    Result: what the call does (`none` = the loop ran out: **the call returns None**) and how many times it sent. -/
def retryLoop (K : ClientEnv) (maxRetries : Nat) (run : Nat → ClientOut × ConnFate) :
    (remaining attempt : Nat) → Option (ClientOut × ConnFate) × Nat
  | 0, attempt => (none, attempt)
  | n + 1, attempt =>
    let r := run attempt
    if retryable K r.1.outcome then
      if attempt ≥ maxRetries then (some r, attempt + 1) else retryLoop K maxRetries run n (attempt + 1)
    else (some r, attempt + 1)

/-- the loop bound of the code: `range(self.__max_retries + 1)` -/
def retryBound (maxRetries : Nat) : Nat := maxRetries + 1

/-- a method call through a proxy with `_pyroMaxRetries = maxRetries`; `bound` = length of the range -/
def remoteMethod (K : ClientEnv) (bound maxRetries : Nat) (run : Nat → ClientOut × ConnFate) :
    Option (ClientOut × ConnFate) × Nat :=
  retryLoop K maxRetries run bound 0

/-! ### streams and housekeeping (server.py Daemon._housekeeping 548-572, DaemonObject.get_next_stream_item 177-189) -/

/-- what housekeeping looks at in one entry of `streaming_responses`: time since the stream was created, and — when the
    client of the stream went away — time since then (`none`: the client is connected, the linger timestamp is 0); ms -/
structure StreamAge where
  age : Nat
  lingering : Option Nat

/-- one housekeeping run keeps the stream: not past `ITER_STREAM_LIFETIME` (0 = no limit), and not lingering longer than
    `ITER_STREAM_LINGER` (0 = test not made) -/
def streamSurvives (lifetime linger : Nat) (s : StreamAge) : Bool :=
  !(0 < lifetime && lifetime < s.age)
    && !(0 < linger && (match s.lingering with | some t => linger < t | none => false))

def msgTerminated : Str := cs "item stream terminated"

/-- a stream item fetched after a housekeeping run: the item's own outcome if the stream survived, otherwise
    `get_next_stream_item` raises PyroError("item stream terminated") (which travels like any raised exception) -/
def streamItemCall {W : Type} (S : ServerEnv) (K : ClientEnv) (c : Codec W) (R : Render) (lifetime linger : Nat)
    (s : StreamAge) (step : Step) (tb : Val) : ClientOut × ConnFate :=
  if streamSurvives lifetime linger s then clientCall S K c R .streamItem step tb
  else clientCall S K c R .streamItem (.raise (pyroErr qPyroError msgTerminated)) tb

/-- the next call on the same proxy goes through: the server kept the connection, or the proxy dropped its own end
    and reconnects -/
def usableAfter (o : ClientOut × ConnFate) : Bool := o.2 == .active || o.1.released

/-! ### instantiation from the extracted tables -/

def defaultFlags : Flags := ⟨true, false, false, false, false, false, false, false⟩

/-- relations of a class: from the extracted table; an application class (not in the table) is taken to derive
    from `Exception` only -/
def genInfo (q : Str) : Flags := (assoc q Pyro.Gen.C07.classFlags).getD defaultFlags

def genServerEnv : ServerEnv := ⟨genInfo⟩

def genNames : Names :=
  { registry := [], allExceptions := Pyro.Gen.C07.allExceptions, builtinsVars := Pyro.Gen.C07.builtinsVars,
    errorsVars := Pyro.Gen.C07.errorsVars, sqliteErrorVars := Pyro.Gen.C07.sqliteErrorVars }

def genClientEnv (ctor : Str → List Val → Except Exc (Str × List Val)) : ClientEnv :=
  { names := genNames, ctor := ctor, info := genInfo }

/-- the class a serialised class name resolves to on the receiving side (the class-name dispatch of `dictToClass`
    alone): `some q` = `make_exception` is called with class `q` -/
def resolves (N : Names) (classname : Str) : Option Str :=
  let viaTable (t : List (Str × Kind)) (n : Str) : Option Str :=
    match assoc n t with
    | some (.exc q) => some q
    | _ => none
  if classname ∈ N.registry then none
  else if hasDunder classname then none
  else if classname ∈ fixedPyroClasses then none
  else if utilPrefix.isPrefixOf classname then none
  else if errorsPrefix.isPrefixOf classname then viaTable N.errorsVars (classname.drop errorsPrefix.length)
  else if classname = qStructError then some qStructError
  else if classname = wrapperTag then none
  else match assoc classname N.allExceptions with
    | some q => some q
    | none =>
      match splitDot classname with
      | none => none
      | some (ns, short) =>
        if ns = cs "builtins" ∨ ns = cs "exceptions" then viaTable N.builtinsVars short
        else if ns = cs "sqlite3" ∧ (cs "Error").isSuffixOf short then viaTable N.sqliteErrorVars short
        else none

/-! ### a concrete codec (used by the driver and by the non-vacuity examples) -/

mutual
def hasObj : Val → Bool
  | .obj _ => true
  | .list xs => hasObjL xs
  | .tuple xs => hasObjL xs
  | .dict kv => hasObjD kv
  | _ => false
def hasObjL : List Val → Bool
  | [] => false
  | x :: xs => hasObj x || hasObjL xs
def hasObjD : List (Str × Val) → Bool
  | [] => false
  | (_, v) :: r => hasObj v || hasObjD r
end

mutual
/-- the type mapping of a codec: json and msgpack return tuples as lists (`seqOut`), serpent and marshal keep them -/
def relist (seqOut : Bool) : Val → Val
  | .list xs => .list (relistL seqOut xs)
  | .tuple xs => if seqOut then .list (relistL seqOut xs) else .tuple (relistL seqOut xs)
  | .dict kv => .dict (relistD seqOut kv)
  | v => v
def relistL (seqOut : Bool) : List Val → List Val
  | [] => []
  | x :: xs => relist seqOut x :: relistL seqOut xs
def relistD (seqOut : Bool) : List (Str × Val) → List (Str × Val)
  | [] => []
  | (k, v) :: r => (k, relist seqOut v) :: relistD seqOut r
end

/-- the wire carries the tree itself; objects are refused; tuples come back as lists when `seqOut` -/
def treeCodec (seqOut : Bool) (unserErr : Exc) : Codec Val :=
  { dumps := fun v => if hasObj v then none else some v
    loads := fun w => some (relist seqOut w)
    unserErr := unserErr }

end Pyro.Exceptions
