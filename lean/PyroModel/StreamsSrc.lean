/-
  StreamsSrc.lean — the vocabulary of the *transcribed* stream functions (C10).

  `harness/props/c10_tr.py` turns the bodies of `DaemonObject.get_next_stream_item`, `DaemonObject.close_stream`,
  `Daemon._streamResponse`, `Daemon._clientDisconnect` and `Daemon._housekeeping` (Pyro5/server.py) into Lean
  definitions over the model's own `Table` on every run (`PyroModel/Gen/C10.lean`, namespace `Pyro.Gen.C10.Src`).
  The definitions below are the only things the generated text refers to besides `Streams.lean`:
  the dict operations the source uses, the exception / return-value alphabet, and nothing else.
-/
import PyroModel.Streams

namespace Pyro.Streams.Src

/-- how a transcribed function can end abnormally -/
inductive Exc where
  | cls (name : String)   -- `raise C(...)` in the function itself; C resolved through the real module
  | keyError              -- `d[k]`, `del d[k]`, `d.pop(k)` on an absent key
  | stop                  -- StopIteration out of `next(stream)`
  | user (e : Nat)        -- the iterator's own exception out of `next(stream)`
  | hook                  -- the user hook `clientDisconnect(conn)` raised
  deriving DecidableEq, Repr

/-- what a transcribed function returns -/
inductive Val where
  | none                          -- `return` / falling off the end
  | item (v : Nat)                -- the value `next(stream)` produced
  | flagId (b : Bool) (id : Nat)  -- `(b, stream_id)`
  | flagNone (b : Bool)           -- `(b, None)`
  | flagData (b : Bool)           -- `(b, data)`
  deriving DecidableEq, Repr

/-- final stream table and result -/
abbrev Out := Table × Except Exc Val

/-- `k in d` -/
def contains (t : Table) (id : Nat) : Bool := (t.get id).isSome

/-- `list(d)` / `list(d.keys())` -/
def keys (t : Table) : List Nat := t.map (·.1)

/-- `next(stream)` advanced the iterator object that the entry under `id` (if it is still there) refers to -/
def setRest (t : Table) (id : Nat) (tl : List Item) : Table :=
  match t.get id with
  | some e => t.set id { e with rest := tl }
  | none => t

/-- the model's reply for an outcome of a transcribed function (`none`: the model has no such reply) -/
def toRes : Except Exc Val → Option Res
  | .ok .none => some .ok
  | .ok (.item v) => some (.item v)
  | .ok (.flagId true id) => some (.stream id)
  | .ok (.flagNone true) => some .noStream
  | .ok (.flagData false) => some .notIter
  | .error .stop => some .stop
  | .error (.user x) => some (.raised x)
  | .error .hook => some .hookError
  | .error (.cls name) => if name = "Pyro5.errors.PyroError" then some .terminated else none
  | _ => none

end Pyro.Streams.Src
