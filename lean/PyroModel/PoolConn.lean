/-
  PoolConn.lean — the life of one client connection in the thread-pool server
  (Pyro5/svr_threads.py: ClientConnectionJob.__call__ / handleConnection / denyConnection, and the
  accept step SocketServer_Threadpool.events), as the sequence of effects on the connection's socket.
  The daemon (`_handshake`, `handleRequest`, `_clientDisconnect`) is the environment: a script says how
  each call ends.  No totalising default: a script that runs out while the connection is still being
  served is the explicit result `still = true`.
-/
namespace Pyro.PoolConn

/-- how `daemon._handshake(conn)` ends -/
inductive Hs where
  | ok          -- returned True
  | refused     -- returned False
  | raises      -- raised
  deriving DecidableEq, Repr

/-- how one `daemon.handleRequest(conn)` ends -/
inductive Req where
  | served          -- returned: the loop goes on
  | connClosed      -- ConnectionClosedError
  | sockError       -- socket.error / OSError
  | security        -- SecurityError
  | timeout         -- TimeoutError (COMMTIMEOUT expired)
  | otherError      -- any other Exception
  deriving DecidableEq, Repr

inductive Eff where
  | settimeout        -- csock.settimeout(COMMTIMEOUT)
  | handshake         -- daemon._handshake(conn): reads the client's CONNECT message, answers
  | handshakeDenied   -- daemon._handshake(conn, denied_reason=…): reads the CONNECT message, answers CONNECTFAIL
  | request           -- daemon.handleRequest(conn)
  | hook              -- daemon._clientDisconnect(conn)
  | close             -- conn.close()
  | accept            -- sock.accept()
  | handOver          -- pool.process(job) returned: a worker will call the job
  deriving DecidableEq, Repr

def Eff.code : Eff → Nat
  | .settimeout => 1 | .handshake => 2 | .handshakeDenied => 3 | .request => 4
  | .hook => 5 | .close => 6 | .accept => 7 | .handOver => 8

/-- the request loop of `__call__` (lines 37-58) and its `finally` (59-65): every request that ends in any
    exception leaves the loop; then the disconnect hook runs (an exception of the hook is caught and logged,
    so `hookRaises` changes nothing) and the socket is closed -/
def serve (hookRaises : Bool) : List Req → List Eff × Bool
  | [] => ([], true)
  | r :: rest =>
    if r = .served then
      let p := serve hookRaises rest
      (.request :: p.1, p.2)
    else ([.request, .hook, .close], false)

/-- `ClientConnectionJob.__call__` (run by a worker): handshake first (`handleConnection`, 67-78: a refused
    or failing handshake closes the socket), then the request loop -/
def jobCall (hs : Hs) (reqs : List Req) (hookRaises : Bool) : List Eff × Bool :=
  match hs with
  | .ok => let p := serve hookRaises reqs; (.handshake :: p.1, p.2)
  | .refused => ([.handshake, .close], false)
  | .raises => ([.handshake, .close], false)

/-- `denyConnection(reason)` (80-89, run by the ACCEPT LOOP): the refusing handshake, then close — also when
    the handshake raises (`finally`) -/
def deny (_hsRaises : Bool) : List Eff := [.handshakeDenied, .close]

/-- one accept step (`events`, 193-214): accept, set the socket's timeout if COMMTIMEOUT is configured, create
    the job, `pool.process(job)`; NoFreeWorkersError → `denyConnection` in this very thread -/
def acceptStep (commtimeout : Bool) (poolFull : Bool) (hsRaises : Bool) : List Eff :=
  [.accept] ++ (if commtimeout then [.settimeout] else []) ++ (if poolFull then deny hsRaises else [.handOver])

end Pyro.PoolConn
