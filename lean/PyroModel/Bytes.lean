/-
  Bytes.lean — byte strings and the big-endian fixed-width integer codec used by
  `struct.pack("!H")`, `struct.pack("!I")`, `int.to_bytes(n, "big")`, `int.from_bytes(.., "big")`.

  Core Lean only (no Mathlib): this file is also linked into the driver executables.
-/

namespace Pyro

abbrev Bytes := List UInt8

/-- `toBE w n`: the `w`-byte big-endian representation of `n % 256^w`
    (callers check the range first, as `struct.pack` does). -/
def toBE : Nat → Nat → Bytes
  | 0,     _ => []
  | w + 1, n => UInt8.ofNat (n / 256 ^ w % 256) :: toBE w n

/-- `int.from_bytes(bs, "big")`. -/
def fromBEAux (acc : Nat) : Bytes → Nat
  | []      => acc
  | b :: bs => fromBEAux (acc * 256 + b.toNat) bs

def fromBE (bs : Bytes) : Nat := fromBEAux 0 bs

@[simp] theorem toBE_length (w n : Nat) : (toBE w n).length = w := by
  induction w with
  | zero => rfl
  | succ w ih => simp [toBE, ih]

theorem fromBEAux_append (acc : Nat) (xs ys : Bytes) :
    fromBEAux acc (xs ++ ys) = fromBEAux (fromBEAux acc xs) ys := by
  induction xs generalizing acc with
  | nil => rfl
  | cons x xs ih => simp [fromBEAux, ih]

theorem divhelper (c p r : Nat) (hp : 0 < p) (hr : r < p) : (c * p + r) / p = c := by
  rw [Nat.add_comm, Nat.add_mul_div_right _ _ hp, Nat.div_eq_of_lt hr, Nat.zero_add]

theorem modhelper (c p r : Nat) (hr : r < p) : (c * p + r) % p = r := by
  rw [Nat.add_comm, Nat.add_mul_mod_self_right, Nat.mod_eq_of_lt hr]

theorem pow256_pos (w : Nat) : 0 < 256 ^ w := Nat.pow_pos (by decide)

/-- `toBE w` only looks at `n % 256^w`. -/
theorem toBE_mod (w n : Nat) : toBE w n = toBE w (n % 256 ^ w) := by
  induction w generalizing n with
  | zero => rfl
  | succ v ihv =>
    simp only [toBE]
    have e1 : n % 256 ^ (v + 1) / 256 ^ v % 256 = n / 256 ^ v % 256 := by
      rw [Nat.pow_succ, Nat.mod_mul_right_div_self]
      exact Nat.mod_mod _ _
    rw [e1]
    congr 1
    rw [ihv n, ihv (n % 256 ^ (v + 1))]
    congr 1
    rw [Nat.pow_succ]
    exact (Nat.mod_mul_right_mod n (256 ^ v) 256).symm

theorem fromBEAux_eq (zs : Bytes) (c : Nat) :
    fromBEAux c zs = c * 256 ^ zs.length + fromBE zs := by
  induction zs generalizing c with
  | nil => simp [fromBEAux, fromBE]
  | cons z zs ihz =>
    simp only [fromBEAux, fromBE, List.length_cons]
    rw [ihz (c * 256 + z.toNat), ihz (0 * 256 + z.toNat)]
    rw [Nat.pow_succ, Nat.add_mul, Nat.add_mul]
    simp only [Nat.zero_mul, Nat.zero_add]
    rw [Nat.mul_assoc, Nat.mul_comm 256 (256 ^ zs.length)]
    omega

theorem fromBE_cons (b : UInt8) (bs : Bytes) :
    fromBE (b :: bs) = b.toNat * 256 ^ bs.length + fromBE bs := by
  simp only [fromBE, fromBEAux]
  rw [fromBEAux_eq]; simp [fromBE]

theorem fromBE_lt (bs : Bytes) : fromBE bs < 256 ^ bs.length := by
  induction bs with
  | nil => simp [fromBE, fromBEAux]
  | cons b bs ih =>
    rw [fromBE_cons, List.length_cons, Nat.pow_succ]
    have hb : b.toNat < 256 := b.toNat_lt
    have : (b.toNat + 1) * 256 ^ bs.length ≤ 256 * 256 ^ bs.length := Nat.mul_le_mul_right _ hb
    rw [Nat.add_mul, Nat.one_mul] at this
    rw [Nat.mul_comm (256 ^ bs.length) 256]
    omega

/-- Round trip of the fixed-width codec: every value that fits is recovered. -/
theorem fromBE_toBE (w n : Nat) (h : n < 256 ^ w) : fromBE (toBE w n) = n := by
  induction w generalizing n with
  | zero => simp [toBE, fromBE, fromBEAux] at *; omega
  | succ w ih =>
    simp only [toBE]
    rw [fromBE_cons, toBE_length]
    have hdiv : n / 256 ^ w < 256 := by
      rw [Nat.div_lt_iff_lt_mul (pow256_pos w)]
      rw [Nat.pow_succ] at h; rw [Nat.mul_comm]; exact h
    have hb : (UInt8.ofNat (n / 256 ^ w % 256)).toNat = n / 256 ^ w := by
      simp [UInt8.toNat_ofNat', Nat.mod_eq_of_lt hdiv]
    rw [hb, toBE_mod, ih _ (Nat.mod_lt _ (pow256_pos w))]
    have := Nat.div_add_mod n (256 ^ w)
    rw [Nat.mul_comm] at this
    exact this

/-- The decoder side: every `w`-byte string is the encoding of the number it decodes to. -/
theorem toBE_fromBE (bs : Bytes) : toBE bs.length (fromBE bs) = bs := by
  induction bs with
  | nil => rfl
  | cons b bs ih =>
    simp only [List.length_cons, toBE]
    rw [fromBE_cons]
    have hlt := fromBE_lt bs
    rw [divhelper _ _ _ (pow256_pos _) hlt]
    have hb : b.toNat < 256 := b.toNat_lt
    rw [toBE_mod, modhelper _ _ _ hlt, ih]
    congr 1
    rw [Nat.mod_eq_of_lt hb]
    exact UInt8.ofNat_toNat

end Pyro
