/-
  PyroModel/UriPy.lean — the (hand-written, fixed) target vocabulary of the per-property translator
  harness/props/c19_tr.py, which turns methods of `Pyro5.core.URI` into shallow Lean definitions
  (`Pyro.Gen.C19.parseLocationSrc`, `locationSrc`, …) on every run.

  Nothing here says what the SOURCE does; these are the meanings of the Python primitives the translator
  is allowed to emit (it refuses everything else):  truthiness, `str.startswith` (= `Uri.startsWith`),
  `s[n:]`, `c in s`, `s.partition(c)`, `re.match(<bracket pattern>, s)` (= `Uri.ipv6Match`, the model's matcher),
  `.groups()`, `int(x)`, `"%d" % x`, `"%s" % x`, `except (A, B)`.
  Core Lean only.
-/
import PyroModel.Uri

namespace Pyro.UriPy

open Pyro.Uri

/-- a value held by `self.port` / passed as `defaultPort`: `None`, a `str`, an `int` -/
inductive PortVal where
  | none
  | str (t : Text)
  | int (i : Int)
  deriving DecidableEq, Repr

/-- classes of the exceptions the transcribed code can raise (resolved through the real modules) -/
inductive ExcClass where
  | pyroError | valueError | typeError
  deriving DecidableEq, Repr

/-- an exception: `errors.PyroError(<message of kind e>)`, `ValueError`, `TypeError` -/
inductive Exc where
  | pyro (e : Err)
  | valueError
  | typeError
  deriving DecidableEq, Repr

def Exc.cls : Exc → ExcClass
  | .pyro _ => .pyroError
  | .valueError => .valueError
  | .typeError => .typeError

/-- `except (C1, C2, …)`: `l` = the classes among the three above that are subclasses of some `Ci` -/
def catches (l : List ExcClass) (e : Exc) : Bool := l.contains e.cls

/-- the attributes of a `URI` instance -/
structure Self where
  protocol : Text
  object : ObjVal
  sockname : Option Text
  host : Option Text
  port : PortVal
  deriving DecidableEq, Repr

/-- `bool(s)` for a str -/
def truthyT (t : Text) : Bool := !t.isEmpty
/-- `bool(x)` for `None | str` -/
def truthyOT : Option Text → Bool
  | none => false
  | some t => truthyT t
/-- `bool(x)` for `None | str | int` -/
def truthyPV : PortVal → Bool
  | .none => false
  | .str t => truthyT t
  | .int i => i != 0

/-- `if x:` on a `None | str` value: `some t` (the same value, now known to be a str) when truthy -/
def nonEmpty? : Option Text → Option Text
  | none => none
  | some t => if t.isEmpty then none else some t

def PortVal.ofOpt : Option Text → PortVal
  | Option.none => PortVal.none
  | Option.some t => PortVal.str t

def PortVal.ofNat? : Option Nat → PortVal
  | Option.none => PortVal.none
  | Option.some n => PortVal.int (Int.ofNat n)

/-- `int(x)`: `int(None)` is a TypeError, `int(str)` is `Uri.pyInt` or ValueError, `int(int)` the value -/
def pyIntPV : PortVal → Except Exc Int
  | .none => .error .typeError
  | .str t => match pyInt t with
    | some i => .ok i
    | none => .error .valueError
  | .int i => .ok i

/-- `"%d" % x`: TypeError unless `x` is a number -/
def fmtD : PortVal → Except Exc Text
  | .int i => .ok (renderInt i)
  | _ => .error .typeError

/-- `"%s" % x` for `None | str` (`str(None)` = "None") -/
def fmtS : Option Text → Text
  | none => [78, 111, 110, 101]
  | some t => t

/-- `c in s` for a one-character `c` -/
def containsChar (c : Nat) (t : Text) : Bool := decide (c ∈ t)

/-- `s.partition(c)` for a one-character `c` -/
def partition1 (c : Nat) (t : Text) : Text × Text × Text :=
  (t.takeWhile (· != c), if containsChar c t then [c] else [], (t.dropWhile (· != c)).drop 1)

/-- `m.groups()` of a match of the bracketed-location pattern `\[(…)](:(\d+))?` -/
def v6Groups (m : Text × Option Text) : Text × Option Text × Option Text :=
  (m.1, m.2.map (58 :: ·), m.2)

/-- the three location attributes after `_parseLocation` returned normally with model location `l` -/
def Self.withLoc (s : Self) : Loc → Self
  | .none => s
  | .sock n => { s with sockname := some n }
  | .tcp h p => { s with host := some h, port := .int p }

/-- the instance that `URI.__init__` leaves for the model state `u` -/
def selfOf (u : Uri) : Self :=
  let st := getstate u
  { protocol := st.protocol, object := st.object, sockname := st.sockname, host := st.host,
    port := match st.port with | some p => .int p | none => .none }

end Pyro.UriPy
