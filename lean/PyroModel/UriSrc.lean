/-
  PyroModel/UriSrc.lean — `URI.__init__` (str path) and `URI.__str__` assembled around the TRANSCRIBED
  `_parseLocation` / `location` (Pyro.Gen.C19.parseLocationSrc / locationSrc, regenerated from the source on every
  run).  The glue (regex split, protocol dispatch, tag set and its guard, head of the text form) is hand-written, the
  same lines as `Uri.parse` / `Uri.render`; everything the code does with the location comes from the source.
  Core Lean only (linked into the driver, which evaluates it next to the model on every correspondence line).
-/
import PyroModel.Uri
import PyroModel.UriPy
import PyroModel.Gen.C19

namespace Pyro.UriSrc

open Pyro.Uri Pyro.UriPy

/-- the instance after core.py:55-60: `sockname = host = port = None`, protocol and object set -/
def blank (proto : Text) (obj : ObjVal) : Self :=
  { protocol := proto, object := obj, sockname := none, host := none, port := .none }

/-- `URI.__init__` on a str (core.py:53-71) calling the transcribed `_parseLocation` -/
def parseSrc (nsPort : Nat) (s : Text) : Except Exc Self :=
  match matchProtocol s with
  | none => .error (.pyro .invalid)
  | some (ptxt, rest) =>
    match splitObj rest with
    | none => .error (.pyro .invalid)
    | some (o, location) =>
      let proto := ptxt.map upper
      if proto = sPYRONAME then
        Pyro.Gen.C19.parseLocationSrc (blank sPYRONAME (.str o)) location (PortVal.ofNat? (some nsPort))
      else if proto = sPYRO then
        if falsy location then .error (.pyro .invalid)
        else Pyro.Gen.C19.parseLocationSrc (blank sPYRO (.str o)) location (PortVal.ofNat? none)
      else if proto = sPYROMETA then
        let tags := mkSet ((splitOn 44 o).map (strip isSpace))
        if tags.all (·.isEmpty) ∨ tags.any (·.contains 64) then .error (.pyro .metadata)
        else Pyro.Gen.C19.parseLocationSrc (blank sPYROMETA (.set tags)) location (PortVal.ofNat? (some nsPort))
      else .error (.pyro .protocol)

/-- the part of `__str__` in front of the location (core.py:117-120), for instances the parser builds -/
def headText (σ : Self) (order : List Text) : Text :=
  match σ.object with
  | .set _ => sPYROMETA ++ 58 :: joinWith 44 order
  | .str o => σ.protocol ++ 58 :: o

/-- `URI.__str__` with the transcribed `location` property (`if self.location: return result + "@" + self.location`) -/
def strSrc (σ : Self) (order : List Text) : Except Exc Text :=
  match Pyro.Gen.C19.locationSrc σ with
  | .error e => .error e
  | .ok none => .ok (headText σ order)
  | .ok (some l) => if l = [] then .ok (headText σ order) else .ok (headText σ order ++ 64 :: l)

end Pyro.UriSrc
