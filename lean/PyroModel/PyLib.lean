/-
  PyLib.lean — the few Python string primitives the translator (harness/py2lean.py) emits, over code-point lists.
-/
namespace Pyro.PyLib

/-- `s.startswith(p)` -/
def startsWith (s p : List Nat) : Bool := p.isPrefixOf s
/-- `s.endswith(p)` -/
def endsWith (s p : List Nat) : Bool := p.isSuffixOf s

end Pyro.PyLib
