/-
  NsOpsEmb.lean — the embedding of C15's small operation model (PyroModel/NsOps.lean: names, numbered uris, numbered
  tags) into the vocabulary of the transcription of Pyro5/nameserver.py (PyroModel/NameServer.lean types, the
  transcription itself is regenerated into PyroModel/Gen/C15Src.lean on every run).  Used by the proofs
  (PyroProps/C15Src.lean) and by the driver, which evaluates the transcription next to the model on every line.
-/
import PyroModel.NsOps
import PyroModel.NameServer
import PyroModel.Gen.C15Src

namespace Pyro.C15

open Pyro Pyro.NsOps

/-- tag / uri number `t` as a text: the one-code-point string -/
def single (t : Nat) : NS.Str := [t]

def embE (e : Name × Nat × List Nat) : NS.Entry := ⟨e.1, [e.2.1], e.2.2.map single⟩
def embS (s : Store) : NS.MemDb := s.map embE
def embMeta (tags : List Nat) : NS.MetaArg := .list (tags.map single)

def embC : Call → NS.Op
  | .register n u safe tags => .register n [u] safe (embMeta tags)
  | .setMeta n tags => .setMeta n (embMeta tags)
  | .remove n => .remove (some n) none none
  | .removePrefix p => .remove none (some p) none
  | .lookup n => .lookup n true
  | .count => .count
  | .list p => .list (some p) none false

def embR : Res → NS.Res
  | .none => .none
  | .namingError => .err .naming
  | .removed k => .num k
  | .uri u t => .uriMeta [u] (t.map single)
  | .count k => .num k
  | .names l => .listing (l.map fun e => ⟨e.1, [e.2], []⟩)

/-- the environment of the driver's runs: every stored uri parses (the harness registers well-formed uris only) -/
def envAll : NS.Env := ⟨fun _ => true, fun _ => true, fun _ _ => false⟩

/-- the transcribed methods run on the transcribed in-memory storage agree with the model's sequential run -/
def srcAgrees (calls : List Call) (s0 : Store) : Bool :=
  let m := Lock.seqRun (calls.map toOp) s0
  let r := NS.runHist (Pyro.Gen.C15Src.nsStepSrc NS.memStore envAll) (calls.map embC) (embS s0)
  decide (r.1 = m.2.map embR ∧ r.2 = embS m.1)

end Pyro.C15
