/-
  PyroModel/Uri.lean — executable model of `Pyro5.core.URI` (Pyro5/core.py:29-142):
  the regular expression, `__init__`, `_parseLocation`, `location`, `__str__`, `__getstate__`.

  Text is a list of code points (`Nat`), exactly what a Python `str` is.  The model is claimed
  faithful on the *model domain*: every code point is ASCII, or is neither Unicode white space
  (`str.isspace`) nor a Unicode decimal digit (`str.isdecimal`); lone surrogates are inside the domain.
  (Outside it `\S`, `\d` and `int()` consult Unicode tables that are not modelled; those strings go to
  the Python-only oracle stream of harness/props/c19.py.)

  `Guards` says which of the two parse-time checks proposed in fixes/C19-*.patch are present in the
  source; the extractor sets them (PyroModel/Gen/C19.lean) so that the correspondence run follows the
  code that exists.  The property theorems are about `Guards.on`.
-/
namespace Pyro.Uri

abbrev Text := List Nat

/-! ### character classes (ASCII part of the Unicode classes Python consults) -/

/-- regex `\s` on a `str` pattern / `str.isspace`: TAB LF VT FF CR, FS GS RS US, SPACE -/
def isSpace (c : Nat) : Bool := (9 ≤ c && c ≤ 13) || (28 ≤ c && c ≤ 32)
/-- `Py_ISSPACE`, what `int()` skips around an ASCII literal: TAB LF VT FF CR SPACE (not FS..US) -/
def isIntSpace (c : Nat) : Bool := (9 ≤ c && c ≤ 13) || c == 32
/-- `\d` / a digit `int()` accepts -/
def isDigit (c : Nat) : Bool := 48 ≤ c && c ≤ 57
/-- `[a-zA-Z]` -/
def isAlpha (c : Nat) : Bool := (65 ≤ c && c ≤ 90) || (97 ≤ c && c ≤ 122)
/-- `str.upper` on `[a-zA-Z]` -/
def upper (c : Nat) : Nat := if 97 ≤ c && c ≤ 122 then c - 32 else c
/-- `[0-9a-fA-F:%]` (core.py:84) -/
def isV6Char (c : Nat) : Bool :=
  isDigit c || (65 ≤ c && c ≤ 70) || (97 ≤ c && c ≤ 102) || c == 58 || c == 37

/-! ### string constants -/
/-- "PYRO" -/      def sPYRO : Text := [80, 89, 82, 79]
/-- "PYRONAME" -/  def sPYRONAME : Text := [80, 89, 82, 79, 78, 65, 77, 69]
/-- "PYROMETA" -/  def sPYROMETA : Text := [80, 89, 82, 79, 77, 69, 84, 65]
/-- "./u:" -/      def sSockPrefix : Text := [46, 47, 117, 58]
/-- "./u" -/       def sDotSlashU : Text := [46, 47, 117]

/-! ### `"%d" % port` and `int(port)` -/

/-- decimal digits of `n`, most significant first, pushed in front of `acc`; `fuel > n` always suffices
    (`natDigits_spec` in PyroProofs/UriLemmas.lean), the fuel only makes the recursion structural -/
def digitsAux : Nat → Nat → Text → Text
  | 0, _, acc => acc
  | f + 1, n, acc => if n < 10 then (48 + n) :: acc else digitsAux f (n / 10) ((48 + n % 10) :: acc)

def natDigits (n : Nat) : Text := digitsAux (n + 1) n []

/-- `"%d" % p` -/
def renderInt : Int → Text
  | .ofNat n => natDigits n
  | .negSucc n => 45 :: natDigits (n + 1)

/-- `s.strip()` for the given white-space class -/
def strip (sp : Nat → Bool) (s : Text) : Text :=
  ((s.dropWhile sp).reverse.dropWhile sp).reverse

/-- CPython `PyLong_FromString`, base 10, after sign: `digit (["_"] digit)*`; `pu` = previous char was `_` -/
def digLoop : Nat → Bool → Text → Option Nat
  | acc, pu, [] => if pu then none else some acc
  | acc, pu, c :: r =>
    if isDigit c then digLoop (acc * 10 + (c - 48)) false r
    else if c = 95 ∧ pu = false then digLoop acc true r
    else none

def digitsU (ds : Text) : Option Nat :=
  match ds with
  | [] => none
  | c :: _ => if isDigit c then digLoop 0 false ds else none

/-- `int(s)` for a `str` of the model domain; `none` = ValueError -/
def pyInt (s : Text) : Option Int :=
  match strip isIntSpace s with
  | [] => none
  | c :: r =>
    if c = 45 then (digitsU r).map (fun n => -(n : Int))
    else if c = 43 then (digitsU r).map (fun n => (n : Int))
    else (digitsU (c :: r)).map (fun n => (n : Int))

/-! ### `str.split(",")`, `",".join`, `set(...)` -/

/-- `s.split(sep)` with a one-character separator; `cur` = the piece being collected -/
def splitAux (sep : Nat) : Text → Text → List Text
  | cur, [] => [cur]
  | cur, c :: r => if c = sep then cur :: splitAux sep [] r else splitAux sep (cur ++ [c]) r

def splitOn (sep : Nat) (s : Text) : List Text := splitAux sep [] s

/-- `sep.join(l)` -/
def joinWith (sep : Nat) : List Text → Text
  | [] => []
  | t :: ts => t ++ (ts.map (sep :: ·)).flatten

/-- code-point order of Python `str` (only used to pick the canonical representative of a set) -/
def ltT : Text → Text → Bool
  | [], [] => false
  | [], _ :: _ => true
  | _ :: _, [] => false
  | a :: as, b :: bs => a < b || (a == b && ltT as bs)

def insertTag (x : Text) : List Text → List Text
  | [] => [x]
  | y :: ys => if ltT x y then x :: y :: ys else if x = y then y :: ys else y :: insertTag x ys

/-- a Python `set` of strings, represented by its strictly ascending list -/
def mkSet (l : List Text) : List Text := l.foldr insertTag []

/-! ### the regular expression (core.py:45)
    `(?P<protocol>[Pp][Yy][Rr][Oo][a-zA-Z]*):(?P<object>\S+?)(@(?P<location>.+))?$` with `re.match`, no flags -/

/-- `[Pp][Yy][Rr][Oo][a-zA-Z]*:` — the letter run is maximal because `:` is not a letter.
    Returns the protocol as written and what follows the colon. -/
def matchProtocol (s : Text) : Option (Text × Text) :=
  match s with
  | p :: y :: r :: o :: rest =>
    if (p = 80 ∨ p = 112) ∧ (y = 89 ∨ y = 121) ∧ (r = 82 ∨ r = 114) ∧ (o = 79 ∨ o = 111) then
      match rest.dropWhile isAlpha with
      | 58 :: after => some (p :: y :: r :: o :: rest.takeWhile isAlpha, after)
      | _ => none
    else none
  | _ => none

/-- `$` after a greedy `.+`: strip one final LF -/
def stripNL (l : Text) : Text := if l.getLast? = some 10 then l.dropLast else l

/-- `.+$` on the whole remainder `l`: a non-empty LF-free run, optionally followed by one final LF.
    (Backtracking `.+` cannot help: `$` never matches in front of a non-LF character.) -/
def locBody (l : Text) : Option Text :=
  if stripNL l ≠ [] ∧ 10 ∉ stripNL l then some (stripNL l) else none

/-- `(@(?P<location>.+))?$` against the whole remainder `r`; `some none` = matched without location.
    If the group fails at an `@`, skipping the group fails too (`$` does not match in front of `@`). -/
def tailMatch (r : Text) : Option (Option Text) :=
  match r with
  | [] => some none
  | c :: l =>
    if c = 64 then (locBody l).map some
    else if c = 10 ∧ l = [] then some none
    else none

/-- `(?P<object>\S+?)` followed by the tail: the shortest non-empty white-space-free prefix after
    which the tail matches. -/
def splitObj : Text → Option (Text × Option Text)
  | [] => none
  | c :: r =>
    if isSpace c then none
    else match tailMatch r with
      | some loc => some ([c], loc)
      | none => (splitObj r).map (fun x => (c :: x.1, x.2))

/-! ### state -/

inductive Loc where
  | none                              -- sockname = host = port = None
  | sock (name : Text)                -- sockname
  | tcp (host : Text) (port : Int)    -- host, port
  deriving DecidableEq, Repr

inductive Kind where
  | pyro (obj : Text)
  | pyroname (obj : Text)
  | pyrometa (tags : List Text)       -- the set `self.object`, ascending
  deriving DecidableEq, Repr

structure Uri where
  kind : Kind
  loc : Loc
  deriving DecidableEq, Repr

inductive Err where
  | invalid      -- "invalid uri"
  | protocol     -- "invalid uri (protocol)"
  | location     -- "invalid uri (location)"
  | brackets     -- "invalid ipv6 address: enclosed in too many brackets"
  | ipv6         -- "invalid ipv6 address: the part between brackets must be ..."
  | port         -- "invalid port in uri, port=..."
  | metadata     -- "invalid uri (metadata)"   (fixes/C19-*.patch)
  deriving DecidableEq, Repr

/-- which proposed parse-time checks the source contains (extracted; see Gen/C19.lean) -/
structure Guards where
  /-- `if not self.host or self.host == "./u": raise` after `location.partition(":")` -/
  host : Bool
  /-- `if not any(self.object) or any("@" in m for m in self.object): raise` for PYROMETA -/
  tags : Bool
  deriving DecidableEq, Repr

def Guards.on : Guards := ⟨true, true⟩
def Guards.off : Guards := ⟨false, false⟩

/-! ### `_parseLocation` (core.py:73-95) -/

def startsWith (p s : Text) : Bool := p.isPrefixOf s

/-- `re.match(r"\[([0-9a-fA-F:%]+)](:(\d+))?", location)` for a location starting with `[`
    (unanchored at the end: anything may follow).  Returns groups 1 and 3. -/
def ipv6Match (l : Text) : Option (Text × Option Text) :=
  match l with
  | 91 :: r =>
    let h := r.takeWhile isV6Char
    if h = [] then none
    else match r.dropWhile isV6Char with
      | 93 :: r2 =>
        match r2 with
        | 58 :: r3 =>
          let d := r3.takeWhile isDigit
          if d = [] then some (h, none) else some (h, some d)
        | _ => some (h, none)
      | _ => none
  | _ => none

/-- `location.partition(":")` → (host, port) -/
def partitionColon (l : Text) : Text × Text :=
  (l.takeWhile (· != 58), (l.dropWhile (· != 58)).drop 1)

/-- lines 90-95: `if not self.port: self.port = defaultPort` ; `int(self.port)` (`int(None)` → TypeError) -/
def portValue (portStr : Option Text) (defaultPort : Option Nat) : Option Int :=
  match portStr with
  | some s => if s = [] then defaultPort.map Int.ofNat else pyInt s
  | none => defaultPort.map Int.ofNat

def parseLocation (g : Guards) (location : Option Text) (defaultPort : Option Nat) : Except Err Loc :=
  match location with
  | none => .ok .none                                            -- `if not location: return`
  | some l =>
    if l = [] then .ok .none
    else if startsWith sSockPrefix l then                        -- line 76
      let name := l.drop 4
      if name = [] ∨ 58 ∈ name then .error .location else .ok (.sock name)
    else if l.head? = some 91 then                               -- line 81
      if startsWith [91, 91] l then .error .brackets
      else match ipv6Match l with
        | none => .error .ipv6
        | some (h, p) =>
          match portValue p defaultPort with
          | none => .error .port
          | some n => .ok (.tcp h n)
    else                                                         -- line 89
      let hp := partitionColon l
      if g.host = true ∧ (hp.1 = [] ∨ hp.1 = sDotSlashU) then .error .location
      else match portValue (some hp.2) defaultPort with
        | none => .error .port
        | some n => .ok (.tcp hp.1 n)

/-! ### `URI.__init__` (core.py:47-71) -/

def falsy (location : Option Text) : Bool :=
  match location with
  | none => true
  | some l => l.isEmpty

def parse (g : Guards) (nsPort : Nat) (s : Text) : Except Err Uri :=
  match matchProtocol s with
  | none => .error .invalid
  | some (ptxt, rest) =>
    match splitObj rest with
    | none => .error .invalid
    | some (o, location) =>
      let proto := ptxt.map upper
      if proto = sPYRONAME then
        (parseLocation g location (some nsPort)).map (fun l => ⟨.pyroname o, l⟩)
      else if proto = sPYRO then
        if falsy location then .error .invalid
        else (parseLocation g location none).map (fun l => ⟨.pyro o, l⟩)
      else if proto = sPYROMETA then
        let tags := mkSet ((splitOn 44 o).map (strip isSpace))
        if g.tags = true ∧ (tags.all (·.isEmpty) ∨ tags.any (·.contains 64)) then .error .metadata
        else (parseLocation g location (some nsPort)).map (fun l => ⟨.pyrometa tags, l⟩)
      else .error .protocol

/-! ### `location` and `__str__` (core.py:102-122) -/

/-- the `location` property; `none` = Python `None` -/
def renderLoc : Loc → Option Text
  | .none => none
  | .sock n => if n = [] then none else some (sSockPrefix ++ n)
  | .tcp h p =>
    if h = [] then none                                           -- `if self.host:` is false, sockname is None
    else if 58 ∈ h then some (91 :: h ++ 93 :: 58 :: renderInt p)
    else some (h ++ 58 :: renderInt p)

def Kind.protoText : Kind → Text
  | .pyro _ => sPYRO
  | .pyroname _ => sPYRONAME
  | .pyrometa _ => sPYROMETA

/-- `__str__`; `order` is the order in which the tag set is iterated by `",".join(self.object)`
    (any permutation of the tags; ignored for PYRO / PYRONAME) -/
def render (u : Uri) (order : List Text) : Text :=
  let head := match u.kind with
    | .pyro o => sPYRO ++ 58 :: o
    | .pyroname o => sPYRONAME ++ 58 :: o
    | .pyrometa _ => sPYROMETA ++ 58 :: joinWith 44 order
  match renderLoc u.loc with
  | some l => if l = [] then head else head ++ 64 :: l
  | none => head

/-- the iteration orders `render` may be given -/
def OrderOK (u : Uri) (order : List Text) : Prop :=
  match u.kind with
  | .pyrometa tags => order.Perm tags
  | _ => True

/-- the canonical order (ascending) -/
def Uri.tagOrder (u : Uri) : List Text :=
  match u.kind with
  | .pyrometa tags => tags
  | _ => []

/-! ### `__getstate__`, `__eq__`, `__hash__` (core.py:127-142) -/

/-- the object slot of the state tuple -/
inductive ObjVal where
  | str (t : Text)
  | set (tags : List Text)
  deriving DecidableEq, Repr

structure State where
  protocol : Text
  object : ObjVal
  sockname : Option Text
  host : Option Text
  port : Option Int
  deriving DecidableEq, Repr

def getstate (u : Uri) : State :=
  { protocol := u.kind.protoText,
    object := (match u.kind with
      | .pyro o => .str o
      | .pyroname o => .str o
      | .pyrometa ts => .set ts),
    sockname := (match u.loc with | .sock n => some n | _ => none),
    host := (match u.loc with | .tcp h _ => some h | _ => none),
    port := (match u.loc with | .tcp _ p => some p | _ => none) }

/-- `__eq__` between two URIs: equality of the state tuples -/
def eqUri (u v : Uri) : Bool := decide (getstate u = getstate v)

/-- `__hash__` = `hash(state tuple)` for an arbitrary tuple hash `h`; a tuple that holds a `set`
    is unhashable (`none` = TypeError) -/
def hashUri (h : State → Nat) (u : Uri) : Option Nat :=
  match u.kind with
  | .pyrometa _ => none
  | _ => some (h (getstate u))

/-! ### the proxy state path (client.py:128-150, 353)
    A proxy's only uri-related state is `_pyroUri`; `__getstate__()[0]` is `str(self._pyroUri)` computed at
    the time of the call, `__setstate__` does `core.URI(state[0])`; serializers and `copy.copy` both go
    through this pair; binding assigns the resolved uri to `_pyroUri`. -/

inductive ProxyOp where
  | send                 -- through a serializer: `__getstate__` at the sender, `__setstate__` at the receiver
  | copy                 -- `copy.copy(proxy)`: the same state path, the copy is what is delivered
  | setUri (u : Uri)     -- `self._pyroUri = uri` (what `_pyroBind` does with the resolved uri)

/-- `Proxy.__getstate__()[0]` -/
def proxyStateText (u : Uri) (order : List Text) : Text := render u order

/-- `Proxy.__setstate__`: `self._pyroUri = core.URI(state[0])` -/
def proxyFromState (g : Guards) (nsPort : Nat) (t : Text) : Except Err Uri := parse g nsPort t

/-- run a history on a proxy whose uri is `u`; one entry per send/copy: the uri of the delivered proxy.
    `orderOf` = the order in which the tag set of a uri is iterated when it is printed. -/
def proxyRun (g : Guards) (nsPort : Nat) (orderOf : Uri → List Text) : Uri → List ProxyOp → List (Except Err Uri)
  | _, [] => []
  | u, .send :: r => proxyFromState g nsPort (proxyStateText u (orderOf u)) :: proxyRun g nsPort orderOf u r
  | u, .copy :: r => proxyFromState g nsPort (proxyStateText u (orderOf u)) :: proxyRun g nsPort orderOf u r
  | _, .setUri v :: r => proxyRun g nsPort orderOf v r

/-- what must be delivered: the uri that is current at each send/copy -/
def proxyExpect : Uri → List ProxyOp → List Uri
  | _, [] => []
  | u, .send :: r => u :: proxyExpect u r
  | u, .copy :: r => u :: proxyExpect u r
  | _, .setUri v :: r => proxyExpect v r

end Pyro.Uri
