/-
  Registry.lean — the daemon's object registry (Pyro5/server.py): `Daemon.register` (638-681),
  `Daemon.unregister` (683-705), the weak-registration finalizer (680), `Daemon.uriFor` (707-725),
  `Daemon.proxyFor` (737-752), the dispatch lookup of `Daemon.handleRequest` (435-438, 495-497),
  `DaemonObject.registered` (148-150) and the type-replacement hook `_pyro_obj_to_auto_proxy`
  (871-877) as reached from the serializers (serializers.py 292-303, 385-388, 430-433) including the
  `_pyroDaemon = None` side effect of `SerializerBase.class_to_dict` (135-136).

  State, as in the code: the dict `objectsById` (insertion ordered: association list, overwrite in
  place / append), the *own* `_pyroId` / `_pyroDaemon` attributes of every pool object and class
  (an instance without own attribute sees its class's: `getattr`), which objects have been garbage
  collected, and the pending `weakref.finalize` callbacks.  One daemon.

  The five places where the repaired source differs from the original are switches of `Cfg`; the
  extractor (harness/props/c16.py) derives them from the current source, so the model that is compared
  with the implementation is always the one of the tree at hand, and the theorems (PyroProps/C16.lean)
  say which switch each clause of the property needs.
-/
namespace Pyro.Registry

/-- object ids: `core.DAEMON_NAME`, explicit strings (numbered), ids made by `"obj_" + uuid4().hex`
    (numbered in order of creation; a fresh uuid never equals an explicit string). -/
inductive Id where
  | daemon
  | name (n : Nat)
  | gen (n : Nat)
  deriving DecidableEq, Repr

/-- what the user registers: pool object `k` (an instance of class `classOf k`) or pool class `c` -/
inductive Ent where
  | obj (k : Nat)
  | cls (c : Nat)
  deriving DecidableEq, Repr

/-- the pool of the harness: objects 0-5 are instances of the three ordinary pool classes 0-2; objects 6-7 are
    instances of class 3, which has `__slots__` without room for `_pyroId`/`_pyroDaemon`; objects 8.. are instances
    of classes 4.. that derive from `set`, `uuid.UUID`, `decimal.Decimal`, `datetime.datetime`, `array.array`
    (one class each); object 13 is an instance of the ordinary class 9 and objects 14.. are instances of class 10,
    a subclass of class 9.  Only classes 0-2 are ever registered as classes (so no instance ever inherits a pyro
    attribute through a base class). -/
def classOf (k : Nat) : Nat :=
  if k < 6 then k % 3 else if k < 8 then 3 else if k < 13 then k - 4 else if k = 13 then 9 else 10

/-- `e._pyroId = …` / `e._pyroDaemon = …` (669-670) work: not for instances of a class whose `__slots__` lack
    these names (AttributeError) -/
def canSet : Ent → Bool
  | .obj k => !(decide (6 ≤ k) && decide (k < 8))
  | .cls _ => true

/-- sent by value, json and msgpack hand the object to `SerializerBase.class_to_dict`; instances of subclasses of
    set / UUID / Decimal / datetime / array are converted by `default()` before that (serializers.py 397-409, 449-470),
    and slotted instances never have a `_pyroDaemon` to clear -/
def viaClassToDict (k : Nat) : Bool := decide (k < 6) || decide (13 ≤ k)

/-- what an entry of `objectsById` refers to: the daemon's own `DaemonObject` or a pool entity -/
inductive Ref where
  | daemonObj
  | ent (e : Ent)
  deriving DecidableEq, Repr

/-- value stored in `objectsById`: the object/class itself, or `weakref.ref(obj)` -/
structure Entry where
  ref : Ref
  weak : Bool
  deriving DecidableEq, Repr

abbrev Objs := List (Id × Entry)

/-- `objectsById.get(i)` -/
def lookup (i : Id) : Objs → Option Entry
  | [] => none
  | (j, en) :: r => if j = i then some en else lookup i r

/-- `objectsById[i] = en` (dict assignment: overwrite in place or append) -/
def setEntry (i : Id) (en : Entry) : Objs → Objs
  | [] => [(i, en)]
  | (j, e) :: r => if j = i then (i, en) :: r else (j, e) :: setEntry i en r

/-- `del objectsById[i]` -/
def erase (i : Id) (l : Objs) : Objs := l.filter (fun p => p.1 ≠ i)

/-- `list(objectsById.keys())` -/
def keys (l : Objs) : List Id := l.map (·.1)

/-- the `_pyroDaemon` attribute: not there / `None` (left by `class_to_dict`) / this daemon -/
inductive DAttr where
  | absent | none | this
  deriving DecidableEq, Repr

/-- the differences between the original and the repaired source (see `Cfg.original`, `Cfg.fixed`) -/
structure Cfg where
  /-- `_pyro_obj_to_auto_proxy` proxies only when the id on the object is registered to that very object (or its class) -/
  autoProxyChecksEntry : Bool
  /-- `register`'s "already has a Pyro id" test dereferences a weak registration -/
  identityUnpacksWeak : Bool
  /-- `register` refuses `core.DAEMON_NAME` even with `force` -/
  refuseDaemonName : Bool
  /-- `unregister(obj)` removes the entry only when it (still) is that object -/
  unregChecksOwner : Bool
  /-- the finalizer of a weak registration removes the entry only when it (still) is that weak reference -/
  finalizerChecksOwner : Bool
  deriving DecidableEq, Repr

def Cfg.original : Cfg := ⟨false, false, false, false, false⟩
def Cfg.fixed : Cfg := ⟨true, true, true, true, true⟩

structure State where
  objs : Objs
  /-- own `_pyroId` attribute (instance `__dict__` / class `__dict__`) -/
  pid : Ent → Option Id
  /-- own `_pyroDaemon` attribute -/
  pdm : Ent → DAttr
  /-- pool object `k` has been garbage collected -/
  dead : Nat → Bool
  /-- pending `weakref.finalize(obj k, …, id)` callbacks, most recent first (the order CPython runs them in) -/
  fins : List (Nat × Id)
  /-- number of ids generated so far -/
  next : Nat

/-- `Daemon.__init__` (248-252): only the DaemonObject, registered directly in the dict -/
def init : State :=
  { objs := [(.daemon, ⟨.daemonObj, false⟩)], pid := fun _ => none, pdm := fun _ => .absent,
    dead := fun _ => false, fins := [], next := 0 }

def upd {α β : Type} [DecidableEq α] (f : α → β) (a : α) (b : β) : α → β :=
  fun x => if x = a then b else f x

def isDead (s : State) : Ent → Bool
  | .obj k => s.dead k
  | .cls _ => false

def isClass : Ent → Bool
  | .cls _ => true
  | .obj _ => false

/-- `getattr(e, "_pyroId", None)`: own attribute, else (for an instance) the class's -/
def getId (s : State) : Ent → Option Id
  | .obj k => match s.pid (.obj k) with
    | some i => some i
    | none => s.pid (.cls (classOf k))
  | .cls c => s.pid (.cls c)

/-- `getattr(e, "_pyroDaemon", <absent>)` -/
def getDm (s : State) : Ent → DAttr
  | .obj k => match s.pdm (.obj k) with
    | .absent => s.pdm (.cls (classOf k))
    | d => d
  | .cls c => s.pdm (.cls c)

/-- `_unpack_weakref` (958-971) / `Daemon._registered`: the referent, `none` for a dead weak reference -/
def deref (s : State) (en : Entry) : Option Ref :=
  match en.weak, en.ref with
  | true, .ent (.obj k) => if s.dead k then none else some en.ref
  | _, r => some r

/-- `self.objectsById.get(i) is e` — a `weakref.ref` object is never identical to its referent;
    with `unpack` the weak reference is dereferenced first (`self._registered(i) is e`) -/
def entryIs (s : State) (unpack : Bool) (i : Id) (e : Ent) : Bool :=
  match lookup i s.objs with
  | none => false
  | some en => if en.weak then unpack && deref s en == some (.ent e) else en.ref == .ent e

/-- the `objectId` argument of `register` -/
inductive IdArg where
  | none                -- None
  | empty               -- "" (falsy: an id is generated)
  | nonStr              -- a truthy non-string
  | str (i : Id)
  deriving DecidableEq, Repr

/-- the `objectOrId` argument of `unregister` / `uriFor` / `proxyFor` -/
inductive Target where
  | byObj (e : Ent)
  | byId (i : Id)
  | noneArg             -- None
  | plain               -- an object without any pyro attribute, e.g. `[1,2,3]`
  | daemonObj           -- the daemon's own DaemonObject instance (its `_pyroId` is `core.DAEMON_NAME`, set in `__init__`)
  deriving DecidableEq, Repr

inductive Ser where
  | serpent | json | msgpack
  deriving DecidableEq, Repr

inductive Err where
  | typeError | valueError | daemonError | attributeError
  deriving DecidableEq, Repr

inductive Res where
  | uri (i : Id)
  | ok
  | err (e : Err)
  | proxy (i : Id)
  | byValue
  | reached (r : Ref)       -- the call ran on this registered object
  | inst (c : Nat)          -- the call ran on an instance the daemon made of registered class `c`
  | unknownObject           -- DaemonError("unknown object")
  | deadWeak                -- DaemonError("Weakly registered deleted meanwhile …")
  | ids (l : List Id)
  | collected
  | kept
  | dead                    -- the step names a pool object that no longer exists (harness level)
  deriving DecidableEq, Repr

inductive Op where
  | register (e : Ent) (id : IdArg) (force weak : Bool)
  | unregister (t : Target)
  | gc (k : Nat)
  | uriFor (t : Target)
  | proxyFor (t : Target)
  | call (i : Id)
  | returnObj (k : Nat) (ser : Ser)
  | registered
  deriving DecidableEq, Repr

/-- the id `register` will use: the explicit string, or a newly generated one (652-656) -/
def resolveId (s : State) : IdArg → Id
  | .str i => i
  | _ => .gen s.next

def generates : IdArg → Bool
  | .str _ => false
  | _ => true

/-- 662-665: `hasattr(e, "_pyroId") and e._pyroId != ""` and the entry under that id is `e` itself -/
def alreadyHasId (cfg : Cfg) (s : State) (e : Ent) : Bool :=
  match getId s e with
  | some p => entryIs s cfg.identityUnpacksWeak p e
  | none => false

/-- `Daemon.register` (638-667): the checks, in source order; `some r` = the call ends with `r` and has
    changed nothing, `none` = all checks passed -/
def regCheck (cfg : Cfg) (s : State) (e : Ent) (ia : IdArg) (force weak : Bool) : Option Res :=
  if isDead s e then some .dead else
  -- 652-656
  if ia = .nonStr then some (.err .typeError) else
  if cfg.refuseDaemonName && resolveId s ia = .daemon then some (.err .daemonError) else
  -- 657-660
  if isClass e && weak then some (.err .typeError) else
  -- 661-667
  if !force && alreadyHasId cfg s e then some (.err .daemonError) else
  if !force && (lookup (resolveId s ia) s.objs).isSome then some (.err .daemonError) else
  -- 669: the first attribute assignment raises before anything has been changed
  if !canSet e then some (.err .attributeError) else
  none

/-- `Daemon.register` (669-680): set the attributes, store the entry, arm the finalizer -/
def regCommit (s : State) (e : Ent) (ia : IdArg) (weak : Bool) : State :=
  { s with
    pid := upd s.pid e (some (resolveId s ia)), pdm := upd s.pdm e .this,
    objs := setEntry (resolveId s ia) ⟨.ent e, weak⟩ s.objs,
    fins := match weak, e with
      | true, .obj k => (k, resolveId s ia) :: s.fins
      | _, _ => s.fins,
    next := if generates ia then s.next + 1 else s.next }

/-- `Daemon.register` (638-681) -/
def register (cfg : Cfg) (s : State) (e : Ent) (ia : IdArg) (force weak : Bool) : State × Res :=
  match regCheck cfg s e ia force weak with
  | some r => (s, r)
  | none => (regCommit s e ia weak, .uri (resolveId s ia))

/-- `del objectOrId._pyroId ; del objectOrId._pyroDaemon` (702-703): each raises AttributeError when the
    object has no own attribute of that name -/
def delAttrs (s : State) (e : Ent) : State × Res :=
  match s.pid e with
  | none => (s, .err .attributeError)
  | some _ =>
    let s1 := { s with pid := upd s.pid e none }
    if s.pdm e = .absent then (s1, .err .attributeError)
    else ({ s1 with pdm := upd s.pdm e .absent }, .ok)

/-- `Daemon.unregister` (683-705) -/
def unregister (cfg : Cfg) (s : State) : Target → State × Res
  | .daemonObj => (s, .ok)          -- 691-698: objectId = "Pyro.Daemon" → early return
  | .noneArg => (s, .err .valueError)
  | .plain => (s, .err .daemonError)
  | .byId i =>
    if i = .daemon then (s, .ok) else ({ s with objs := erase i s.objs }, .ok)
  | .byObj e =>
    if isDead s e then (s, .dead) else
    match getId s e with
    | none => (s, .err .daemonError)
    | some i =>
      if i = .daemon then (s, .ok) else
      match lookup i s.objs with
      | none => (s, .ok)
      | some en =>
        if cfg.unregChecksOwner && !(deref s en == some (.ent e)) then (s, .ok)
        else delAttrs { s with objs := erase i s.objs } e

/-- the entry is `weakref.ref(obj k)` -/
def weakOf (k : Nat) (en : Entry) : Bool := en.weak && en.ref = .ent (.obj k)

/-- one finalizer of a weak registration of object `k` under id `i`, run when `k` is collected:
    original `self.unregister(i)`; repaired `Daemon._unregisterWeak(i, ref)` -/
def runFin (cfg : Cfg) (k : Nat) (objs : Objs) (i : Id) : Objs :=
  if cfg.finalizerChecksOwner then
    match lookup i objs with
    | some en => if weakOf k en then erase i objs else objs
    | none => objs
  else if i = .daemon then objs else erase i objs

/-- a strong entry keeps the object alive -/
def stronglyHeld (k : Nat) (objs : Objs) : Bool :=
  objs.any (fun p => !p.2.weak && p.2.ref = .ent (.obj k))

/-- the harness drops its reference to pool object `k`; if the registry holds no strong reference the
    object is collected and its finalizers run -/
def gc (cfg : Cfg) (s : State) (k : Nat) : State × Res :=
  if s.dead k then (s, .dead) else
  if stronglyHeld k s.objs then (s, .kept) else
  ({ s with
     dead := upd s.dead k true,
     objs := ((s.fins.filter (fun p => p.1 = k)).map (·.2)).foldl (runFin cfg k) s.objs,
     fins := s.fins.filter (fun p => p.1 ≠ k) }, .collected)

/-- `Daemon.uriFor` (707-725): the id inside the returned URI -/
def uriFor (s : State) : Target → Res
  | .byId i => .uri i
  | .byObj e =>
    if isDead s e then .dead else
    match getId s e with
    | none => .err .daemonError
    | some i => if (lookup i s.objs).isSome then .uri i else .err .daemonError
  | .daemonObj => if (lookup .daemon s.objs).isSome then .uri .daemon else .err .daemonError
  | _ => .err .daemonError

/-- `Daemon.proxyFor` (737-752): the id the returned proxy is bound to -/
def proxyFor (s : State) (t : Target) : Res :=
  match uriFor s t with
  | .uri i =>
    match lookup i s.objs with
    | none => .err .daemonError
    | some en => match deref s en with
      | none => .err .daemonError
      | some _ => .proxy i
  | r => r

/-- dispatch lookup of `handleRequest` (435-438, 495-497): who runs a call addressed to `i` -/
def call (s : State) (i : Id) : Res :=
  match lookup i s.objs with
  | none => .unknownObject
  | some en =>
    match deref s en with
    | none => .deadWeak
    | some (.ent (.cls c)) => .inst c
    | some r => .reached r

/-- by-value branch: json and msgpack go through `SerializerBase.class_to_dict`, which sets
    `obj._pyroDaemon = None` when `hasattr(obj, "_pyroDaemon")`; serpent's `ser_default_class` does not -/
def byValue (s : State) (k : Nat) (ser : Ser) : State × Res :=
  if ser ≠ .serpent && viaClassToDict k && getDm s (.obj k) ≠ .absent then
    ({ s with pdm := upd s.pdm (.obj k) .none }, .byValue)
  else (s, .byValue)

/-- `daemon._registered(getattr(obj, "_pyroId", None))`: what is registered under the id the object carries -/
def registeredRef (s : State) (e : Ent) : Option Ref :=
  (getId s e).bind (fun i => (lookup i s.objs).bind (deref s))

/-- `registered is obj or (inspect.isclass(registered) and isinstance(obj, registered))` -/
def ownsEntry (s : State) (k : Nat) : Bool :=
  registeredRef s (.obj k) = some (.ent (.obj k)) || registeredRef s (.obj k) = some (.ent (.cls (classOf k)))

/-- pool object `k` is returned from a remote method and serialised with `ser`: the registered type
    replacement `_pyro_obj_to_auto_proxy` (871-877) runs first: `if daemon:` (and, repaired, the object
    owns the entry) `return daemon.proxyFor(obj)`, else the object itself is serialised -/
def returnObj (cfg : Cfg) (s : State) (k : Nat) (ser : Ser) : State × Res :=
  if s.dead k then (s, .dead) else
  if getDm s (.obj k) = .this && (!cfg.autoProxyChecksEntry || ownsEntry s k) then
    (s, proxyFor s (.byObj (.obj k)))
  else byValue s k ser

def step (cfg : Cfg) (s : State) : Op → State × Res
  | .register e ia f w => register cfg s e ia f w
  | .unregister t => unregister cfg s t
  | .gc k => gc cfg s k
  | .uriFor t => (s, uriFor s t)
  | .proxyFor t => (s, proxyFor s t)
  | .call i => (s, call s i)
  | .returnObj k ser => returnObj cfg s k ser
  | .registered => (s, .ids (keys s.objs))

/-- a history: the state after it -/
def run (cfg : Cfg) (s : State) : List Op → State
  | [] => s
  | op :: h => run cfg (step cfg s op).1 h

/-- a history: the results of its steps -/
def results (cfg : Cfg) (s : State) : List Op → List Res
  | [] => []
  | op :: h => (step cfg s op).2 :: results cfg (step cfg s op).1 h

end Pyro.Registry
