-- GENERATED placeholder (rewritten by harness/props/c19.py extract())
namespace Pyro.Gen.C19
def guardHost : Bool := false
def guardTags : Bool := false
end Pyro.Gen.C19
