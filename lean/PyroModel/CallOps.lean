/-
  CallOps.lean — the operations that the TRANSCRIPTION of `Proxy._pyroInvoke` and `_RemoteMethod.__call__`
  (lean/PyroModel/Gen/C03Src.lean, generated from the source on every run by harness/props/c03_tr.py) is written against.

  The transcription is a shallow embedding: one combinator per Python statement, in a state-and-exception monad `M`
  over the model's own `World` + fault script.  Collaborators of the two functions (connection object, recv_stub,
  __pyroCreateConnection, _pyroRelease) are the operations below; they are the hand-written model of Call.lean cut at the
  points where the source calls them.  `PyroProps/C03Src.lean` proves that running the transcription gives what
  `Call.invoke real` / `Call.retryLoop real` give, for all inputs.

  Core Lean only (linked into drv_c03).
-/
import PyroModel.Call

namespace Pyro.CallOps
open Pyro.Call

/-- state threaded through the transcription: the model's world and script, plus what the transport holds for the read
    that follows a send (`pend`, `later`) and the ghost `seq0` (proxy seq at entry, the seq a replayed CONNECTOK carries). -/
structure PSt where
  W : World
  s : List Ev
  pend : Pend
  later : List Msg
  seq0 : Nat

inductive Res (α : Type) where
  | ok (a : α)            -- statement completed
  | raise (e : Err)       -- Python exception (class resolved through the real module)
  | ret (o : Outcome)     -- Python `return`
  | abort (o : Outcome)   -- model artefact: script ran out / transport stuck (not catchable)

abbrev M (α : Type) := PSt → Res α × PSt

def pure' {α : Type} (a : α) : M α := fun st => (.ok a, st)
def bind {α β : Type} (m : M α) (f : α → M β) : M β := fun st =>
  match m st with
  | (.ok a, st') => f a st'
  | (.raise e, st') => (.raise e, st')
  | (.ret o, st') => (.ret o, st')
  | (.abort o, st') => (.abort o, st')
def raise {α : Type} (e : Err) : M α := fun st => (.raise e, st)
def ret {α : Type} (o : Outcome) : M α := fun st => (.ret o, st)
/-- `try: body  except <classes>: handler` — the generated handler tests the class and re-raises otherwise -/
def tryExcept {α : Type} (body : M α) (handler : Err → M α) : M α := fun st =>
  match body st with
  | (.raise e, st') => handler e st'
  | r => r
/-- `for i in range(n): body i` (structural recursion on the iterations left) -/
def forLoop (body : Nat → M Unit) : Nat → Nat → M Unit
  | 0, _ => pure' ()
  | r + 1, i => bind (body i) fun _ => forLoop body r (i + 1)
def forRange (n : Nat) (body : Nat → M Unit) : M Unit := forLoop body n 0

/-! ### what the caller passes / what the proxy knows about the method -/

/-- the `flags` argument of `_pyroInvoke`: `_pyroInvokeBatch` passes FLAGS_BATCH (| FLAGS_ONEWAY) (client.py:437-441) -/
def flagsParam : Kind → Nat
  | .batch => 8
  | .batchOneway => 12
  | _ => 0
/-- `methodname in self._pyroOneway` -/
def inOnewaySet : Kind → Bool
  | .oneway | .onewayMissing => true
  | _ => false

/-- `protocol.SendingMessage(msgtype, flags, seq, …)` as far as the whole-message model sees it -/
structure Req where
  mtype : Nat
  flags : Nat
  seq : Nat
def mkRequest (mtype flags seq : Nat) : Req := ⟨mtype, flags, seq⟩

/-- wire type of a reply: MSG_CONNECTOK = 2, MSG_RESULT = 5 (tied to protocol.py by `C03_gen_src_consts`) -/
def msgType (m : Msg) : Nat := if m.hs then 2 else 5

/-! ### operations on the proxy -/

/-- `self.__check_owner()` — thread ownership is outside this model (one thread) -/
def checkOwner : M Unit := pure' ()
/-- `self._pyroConnection is None` -/
def readConnIsNone : M Bool := fun st => (.ok (match st.W.pc with | .live _ => false | _ => true), st)
def readSeq : M Nat := fun st => (.ok st.W.seq, st)
def writeSeq (n : Nat) : M Unit := fun st => (.ok (), { st with W := { st.W with seq := n } })
/-- `self.__pyroCreateConnection()` = `Call.connect` -/
def createConnection : M Unit := fun st =>
  match connect st.W st.s with
  | (.err (.failed e), W', s') => (.raise e, { st with W := W', s := s' })
  | (.err o, W', s') => (.abort o, { st with W := W', s := s' })
  | (.ok _, W', s') => (.ok (), { st with W := W', s := s' })
/-- `self._pyroRelease()` -/
def release : M Unit := fun st => (.ok (), { st with W := { st.W with pc := .idle } })

/-- `self._pyroConnection.send(msg.data)`: the transport takes the next fault event; unless the connection is reset the daemon
    handles the request (server.py handleRequest: runs the method, answers with the REQUEST's seq, nothing if the request
    carries FLAGS_ONEWAY) and the fault is applied to the reply. -/
def connSend (k : Kind) (tok : Nat) (rq : Req) : M Unit := fun st =>
  match st.W.pc with
  | .live c =>
    if c.dead then
      (.raise .connClosed, { st with W := { st.W with sends := st.W.sends + 1, hist := none :: st.W.hist } })
    else match st.s with
    | [] => (.abort .scriptEnd, st)
    | ev :: s' =>
      if !ev.reachesServer then
        (.raise .connClosed, { st with s := s', W := { st.W with sends := st.W.sends + 1, hist := none :: st.W.hist,
                                                                   pc := .live ⟨c.queue, true⟩ } })
      else if rq.mtype != 4 then (.abort .stuck, st)        -- not an INVOKE: the daemon would not treat it as a call
      else
        let ow := (rq.flags &&& 4) != 0
        let r : Msg := ⟨false, rq.seq, k, tok, st.W.sends + 1⟩
        let reply : List Msg := if ow then [] else [r]
        let d := deliver ev st.W.hist (hsMsg st.seq0) reply
        let q := c.queue ++ d.now
        let W1 := { st.W with sends := st.W.sends + 1, hist := reply.head? :: st.W.hist, log := logAfter k tok st.W.log }
        if ow then
          (.ok (), { st with s := s', W := { W1 with pc := .live ⟨q ++ d.later, d.dead⟩ }, pend := .block, later := [] })
        else
          (.ok (), { st with s := s', W := { W1 with pc := .live ⟨q, d.dead⟩ }, pend := d.pend, later := d.later })
  | _ => (.abort .stuck, st)

/-- `protocol.recv_stub(self._pyroConnection, types)`: head of the unread queue, else what the transport has pending;
    the message-type filter raises ProtocolError (protocol.py recv_stub). -/
def recvStub (types : List Nat) : M Msg := fun st =>
  match st.W.pc with
  | .live c =>
    match c.queue with
    | m :: rest =>
      let st' := { st with W := { st.W with reads := st.W.reads + 1, pc := .live ⟨rest ++ st.later, c.dead⟩ }, later := [] }
      if types.contains (msgType m) then (.ok m, st') else (.raise .protocol, st')
    | [] =>
      let st' := { st with W := { st.W with pc := .live ⟨st.later, c.dead⟩ }, later := [] }
      match st.pend with
      | .block => (.abort .stuck, st')
      | .timeout => (.raise .timeout, st')
      | .closed => (.raise .connClosed, st')
      | .intr => (.raise .interrupt, st')
  | _ => (.abort .stuck, st)

/-! ### payload-level conditions: outside the fault model (payload intact, streaming enabled); see notes/C03.md -/
/-- `msg.serializer_id != serializer.serializer_id` -/
def serializerMismatch (_ : Msg) : Bool := false
/-- `not streamId` (the daemon refused to create an item stream) -/
def streamRefused (_ : Msg) : Bool := false
/-- `msg.flags & FLAGS_ITEMSTREAMRESULT` -/
def isStreamReply (m : Msg) : Bool := m.kind == .stream
/-- `len(vargs) > 1 or kwargs` inside `__serializeBlobArgs` -/
def blobBadArgs : Bool := false
/-- the caller gets this reply's content: result, remote exception, stream iterator or the raw message -/
def delivered (m : Msg) : Outcome := .returned m.kind m.tok

/-! ### running a transcription -/
def start (W : World) (s : List Ev) : PSt := ⟨W, s, .block, [], W.seq⟩

def run (m : M Unit) (st : PSt) : Outcome × World × List Ev :=
  match m st with
  | (.ok _, st') => (.none_, st'.W, st'.s)          -- fell off the end: `return None`
  | (.raise e, st') => (.failed e, st'.W, st'.s)
  | (.ret o, st') => (o, st'.W, st'.s)
  | (.abort o, st') => (o, st'.W, st'.s)

/-- a transcribed function used as a collaborator of another one: its `return` value is the call's value -/
def asCall (m : M Unit) : M Outcome := fun st =>
  match m { st with pend := .block, later := [], seq0 := st.W.seq } with
  | (.ok _, st') => (.ok .none_, st')
  | (.ret o, st') => (.ok o, st')
  | (.raise e, st') => (.raise e, st')
  | (.abort o, st') => (.abort o, st')

/-! ### a user-level call over an arbitrary single-attempt function (`Call.call` with `invoke` as a parameter) -/

abbrev Inv := Kind → Nat → World → List Ev → Outcome × World × List Ev

def retryLoopG (inv : Inv) (k : Kind) (tok : Nat) : Nat → World → List Ev → Outcome × World × List Ev
  | 0, W, s => inv k tok W s
  | n + 1, W, s =>
    match inv k tok W s with
    | (.failed e, W', s') => if e.retryable then retryLoopG inv k tok n W' s' else (.failed e, W', s')
    | r => r

def bodyG (inv : Inv) (retries : Nat) (k : Kind) (tok : Nat) (W : World) (s : List Ev) : Outcome × World × List Ev :=
  if k.retried then retryLoopG inv k tok retries W s else inv k tok W s

def callG (inv : Inv) (retries : Nat) (k : Kind) (tok : Nat) (W : World) (s : List Ev) : Outcome × World × List Ev :=
  match W.pc with
  | .live _ => bodyG inv retries k tok W s
  | .idle => if k.precheck then (.failed .connClosed, W, s) else bodyG inv retries k tok W s
  | .fresh =>
    if k.precheck then (.failed .connClosed, W, s)
    else if k.needsMeta then
      match connect W s with
      | (.err o, W', s') => (o, W', s')
      | (.ok _, W', s') => bodyG inv retries k tok W' s'
    else bodyG inv retries k tok W s


end Pyro.CallOps
