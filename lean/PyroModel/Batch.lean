/-
  Batch.lean — model of Pyro5's batched calls (property C11).

  Follows
    Pyro5/server.py:439-453   batch branch of Daemon.handleRequest (loop, gate, try/except, wrapper, break)
    Pyro5/server.py:476-487   normal single method call (gate, call, exception response)
    Pyro5/server.py:493-494   oneway: no response is sent
    Pyro5/core.py:145-162     _ExceptionWrapper (raiseIt = raise the wrapped exception)
    Pyro5/client.py:437-441   Proxy._pyroInvokeBatch (one request, kwargs=None, FLAGS_BATCH [| FLAGS_ONEWAY])
    Pyro5/client.py:243       serializer.dumpsCall(...) runs before anything is sent
    Pyro5/client.py:571-628   _BatchedRemoteMethod / BatchProxy (collect, submit once, results generator)

  The remote object is a PARAMETER: an arbitrary deterministic state machine (`Obj`).  Nothing below
  looks inside it, so every theorem about these functions holds for every object.
  Core Lean only (linked into the driver executable).
-/

namespace Pyro.Batch

/-- What `method(*vargs, **kwargs)` does: it returns a value or raises. -/
inductive Out (Val Exc : Type) where
  | ok (v : Val)
  | exc (e : Exc)
  deriving Repr, DecidableEq

/-- The remote object: any deterministic state machine.
    `gate s n`  = `_get_attribute(obj, n)` in state `s` (server.py:880-893): `some e` = it raises
                  AttributeError `e` (private name, missing attribute, unexposed member), `none` = it
                  returns the bound method.  It may depend on the state (instance attributes).
    `apply s n a` = the call of method `n` with arguments `a` in state `s`: new state and outcome.
                  A raising method may have changed the state before it raised.
                  `exc e` stands for the exception AS SENT: what `Daemon._serializeException` makes of the raised
                  exception (itself, or the describing PyroError if this instance cannot be serialised).  The batch
                  loop (server.py:453-455) and the exception response of a plain call (server.py:638-641) apply that
                  same function of (serializer, exception) — probed on every run, `C11_gen_server_probes` / `C11_gen_single_probes` —
                  so it is part of this arbitrary `apply`.  A value that happens to be an exception OBJECT returned
                  by a method is an `ok v` like any other value. -/
structure Obj (St Name Arg Val Exc : Type) where
  gate : St → Name → Option Exc
  apply : St → Name → Arg → St × Out Val Exc

/-- One element of the server's `data` list of a batch (server.py:441,450,453). -/
inductive Item (Val Exc : Type) where
  | val (v : Val)            -- data.append(result)
  | wrapped (e : Exc)        -- data.append(core._ExceptionWrapper(xv))
  deriving Repr, DecidableEq

/-- Result of the server loop: the `data` list, or the exception that left the loop un-caught. -/
inductive LoopResult (Val Exc : Type) where
  | data (items : List (Item Val Exc))
  | escaped (e : Exc)
  deriving Repr, DecidableEq

/-- What the server sends back for one request. -/
inductive Reply (Val Exc : Type) where
  | results (items : List (Item Val Exc))   -- MSG_RESULT, FLAGS_BATCH, payload = data
  | error (e : Exc)                         -- _sendExceptionResponse (FLAGS_EXCEPTION)
  deriving Repr, DecidableEq

variable {St Name Arg Val Exc : Type}

/-- server.py:442-453  `for method, vargs, kwargs in vargs:`
      `method = _get_attribute(obj, method)`   — OUTSIDE the try: an AttributeError leaves the loop and
                                                  the whole request (the collected `data` is dropped)
      `try: result = method(*vargs, **kwargs)`
      `except Exception as xv: … data.append(_ExceptionWrapper(xv)); break`
      `else: data.append(result)`
    `data` is the list collected so far.  Structural recursion on the list of calls. -/
def batchLoop (o : Obj St Name Arg Val Exc) :
    St → List (Name × Arg) → List (Item Val Exc) → St × LoopResult Val Exc
  | s, [], data => (s, .data data)
  | s, (n, a) :: rest, data =>
    match o.gate s n with
    | some e => (s, .escaped e)
    | none =>
      match o.apply s n a with
      | (s', .exc e) => (s', .data (data ++ [.wrapped e]))
      | (s', .ok v) => batchLoop o s' rest (data ++ [.val v])

/-- server.py:439-441,454,493-503 and the `except Exception` at 504-516:
    a batch request.  `oneway` = FLAGS_ONEWAY was set: the loop runs in-line all the same (the
    `_OnewayCallThread` is only used by the single-call branch) and no reply of either kind is sent. -/
def serverBatch (o : Obj St Name Arg Val Exc) (oneway : Bool) (s : St) (cs : List (Name × Arg)) :
    St × Option (Reply Val Exc) :=
  match batchLoop o s cs [] with
  | (s', .escaped e) => (s', if oneway then none else some (.error e))
  | (s', .data items) => (s', if oneway then none else some (.results items))

/-- How a single (non-batch, non-oneway) method call ends on the server. -/
inductive CallOut (Val Exc : Type) where
  | ok (v : Val)          -- MSG_RESULT with the value
  | gateErr (e : Exc)     -- `_get_attribute` raised: exception response
  | raised (e : Exc)      -- the method raised: exception response (server.py:483-485 re-raise, 504-514)
  deriving Repr, DecidableEq

/-- server.py:476-487  normal single method call. -/
def serverCall (o : Obj St Name Arg Val Exc) (s : St) (c : Name × Arg) : St × CallOut Val Exc :=
  match o.gate s c.1 with
  | some e => (s, .gateErr e)
  | none =>
    match o.apply s c.1 c.2 with
    | (s', .exc e) => (s', .raised e)
    | (s', .ok v) => (s', .ok v)

/-- What the caller of one remote call sees (client.py:274-277): the value, or `raise data`. -/
def CallOut.seen : CallOut Val Exc → Except Exc Val
  | .ok v => .ok v
  | .gateErr e => .error e
  | .raised e => .error e

/-- Why a sequential run stopped. -/
inductive Fail (Exc : Type) where
  | gate (e : Exc)
  | raised (e : Exc)
  deriving Repr, DecidableEq

def Fail.exc : Fail Exc → Exc
  | .gate e => e
  | .raised e => e

/-- The reference: a client making the calls one by one, each as its own request, and stopping at the
    first one that raises (an uncaught exception ends a straight-line client).  Returns the final state
    of the object, the values returned so far, and the failure if there was one. -/
def sequential (o : Obj St Name Arg Val Exc) : St → List (Name × Arg) → St × List Val × Option (Fail Exc)
  | s, [] => (s, [], none)
  | s, c :: rest =>
    match serverCall o s c with
    | (s', .gateErr e) => (s', [], some (.gate e))
    | (s', .raised e) => (s', [], some (.raised e))
    | (s', .ok v) =>
      match sequential o s' rest with
      | (s'', vs, f) => (s'', v :: vs, f)

/-- client.py:607-612  `__resultsgenerator`, consumed to its end:
    the values yielded, and the exception raised by `result.raiseIt()` (core.py:153-154) if a wrapper is met
    (nothing behind a wrapper is ever looked at). -/
def resultsGen : List (Item Val Exc) → List Val × Option Exc
  | [] => ([], none)
  | .val v :: rest =>
    match resultsGen rest with
    | (vs, r) => (v :: vs, r)
  | .wrapped e :: _ => ([], some e)

/-- What the caller of `batch()` / `batch(oneway=True)` observes. -/
inductive Seen (Val Exc : Type) where
  | submitRaised (e : Exc)                            -- the call `batch()` itself raised `e`
  | stream (yielded : List Val) (raised : Option Exc)  -- a generator: these values in order, then the end or `raise e`
  | nothing                                            -- `None` (oneway)
  deriving Repr, DecidableEq

/-- client.py:617-622 `BatchProxy.__call__` → 437-441 `_pyroInvokeBatch` → 229-277 `_pyroInvoke`.
    `pre` = the client-side serialisation step `serializer.dumpsCall(objectId, "<batch>", calls, None)`:
    `some e` = it raises `e` and nothing is sent (the state of the remote object is untouched),
    `none` = it succeeds.  `cs` = the calls collected by `_BatchedRemoteMethod.__call__` in call order. -/
def clientBatch (pre : Option Exc) (o : Obj St Name Arg Val Exc) (oneway : Bool) (s : St)
    (cs : List (Name × Arg)) : St × Seen Val Exc :=
  match pre with
  | some e => (s, .submitRaised e)
  | none =>
    match serverBatch o oneway s cs with
    | (s', none) => (s', .nothing)                         -- client.py:253-254 returns None, 621: nothing returned
    | (s', some (.error e)) => (s', .submitRaised e)       -- client.py:274-275 `raise data`
    | (s', some (.results items)) =>
      match resultsGen items with
      | (vs, r) => (s', .stream vs r)

/-- What the statement of C11 promises the batch caller, given the outcome of the sequential run:
    same values in the same order; a method's exception at its position in the result sequence;
    a gate failure when the batch is submitted. -/
def expected : List Val × Option (Fail Exc) → Seen Val Exc
  | (vs, none) => .stream vs none
  | (vs, some (.raised e)) => .stream vs (some e)
  | (_, some (.gate e)) => .submitRaised e

/-! ### Round 5: the batch request as it arrives on the wire, and the pieces the transcription of the source
    (`PyroModel/Gen/C11.lean`, written by harness/props/c11_tr.py from the AST of the checked tree) is stated over -/

/-- What `Daemon.handleRequest` asks of a deserialised value `x : W` (server.py:443-447): nothing else is looked at.
    `unpack x k` = the tuple assignment `a1, …, ak = x`: `none` = it raises. -/
structure WireOps (W : Type) where
  isSeq : W → Bool            -- isinstance(x, (list, tuple))
  isDict : W → Bool           -- isinstance(x, dict)
  len : W → Nat               -- len(x)
  item : W → Nat → W          -- x[i]
  unpack : W → Nat → Option (List W)
  /-- unpacking a list/tuple of the right length gives its items in order -/
  unpack_seq : ∀ x k, isSeq x = true → len x = k → unpack x k = some ((List.range k).map (item x))

/-- The exceptions raised by the transcribed code itself (not by the remote object). -/
structure SrcErrs (Exc : Type) where
  typeError : Exc        -- `raise TypeError(...)` of the batch-item check (server.py:446)
  unpackError : Exc      -- a tuple assignment that does not fit
  notIterable : Exc      -- iterating a reply that is `None`
  notABatch : Exc        -- `pyroInvokeW` asked for a request without FLAGS_BATCH (not this model's subject)

/-- server.py:444-445 a batch item is acceptable: a list/tuple of length 3 whose 2nd member is a list/tuple and whose 3rd is a dict. -/
def wellFormed {W : Type} (w : WireOps W) (c : W) : Bool :=
  w.isSeq c && w.len c == 3 && w.isSeq (w.item c 1) && w.isDict (w.item c 2)

/-- `method, vargs, kwargs = call` for a well-formed item. -/
def decodeCall {W : Type} (w : WireOps W) (c : W) : W × (W × W) := (w.item c 0, (w.item c 1, w.item c 2))

/-- The same object with every raised exception replaced by what `Daemon._serializeException(serializer, xv, tb)` hands
    back first (`sent`: the exception itself, or the describing PyroError) — server.py:453-454. -/
def sentObj (sent : Exc → Exc) (o : Obj St Name Arg Val Exc) : Obj St Name Arg Val Exc where
  gate := o.gate
  apply := fun s n a =>
    match o.apply s n a with
    | (s', .exc e) => (s', .exc (sent e))
    | (s', .ok v) => (s', .ok v)

/-- server.py:442-459 the loop over the items AS RECEIVED: the item check first (its TypeError leaves the loop and the
    request exactly like a refused name: collected results dropped), then as `batchLoop`. -/
def batchLoopW {W : Type} (w : WireOps W) (tyErr : Exc) (o : Obj St W (W × W) Val Exc) :
    St → List W → List (Item Val Exc) → St × LoopResult Val Exc
  | s, [], data => (s, .data data)
  | s, c :: rest, data =>
    if wellFormed w c then
      match o.gate s (w.item c 0) with
      | some e => (s, .escaped e)
      | none =>
        match o.apply s (w.item c 0) (w.item c 1, w.item c 2) with
        | (s', .exc e) => (s', .data (data ++ [.wrapped e]))
        | (s', .ok v) => batchLoopW w tyErr o s' rest (data ++ [.val v])
    else (s, .escaped tyErr)

/-- The reply to a batch request, given the loop's outcome (server.py:499-516 / 517-530; the same tail as `serverBatch`). -/
def replyOf (oneway : Bool) : St × LoopResult Val Exc → St × Option (Reply Val Exc)
  | (s', .escaped e) => (s', if oneway then none else some (.error e))
  | (s', .data items) => (s', if oneway then none else some (.results items))

/-- What `Proxy._pyroInvoke(...)` hands back to its caller: it raises, or returns `None` (oneway) / the reply's data. -/
abbrev Invoked (Val Exc : Type) := Except Exc (Option (List (Item Val Exc)))

/-- client.py:229-277 `_pyroInvoke` as far as a batch sees it: `pre` (dumpsCall) may raise before anything is sent; an
    exception reply is raised; a oneway request returns `None`; otherwise the deserialised result list. -/
def invokedOf (pre : Option Exc) (s : St) (run : St → St × Option (Reply Val Exc)) : St × Invoked Val Exc :=
  match pre with
  | some e => (s, .error e)
  | none =>
    match run s with
    | (s', none) => (s', .ok none)
    | (s', some (.error e)) => (s', .error e)
    | (s', some (.results items)) => (s', .ok (some items))

/-- `for x in reply:` — `None` is not iterable. -/
def iterReply (errs : SrcErrs Exc) : Option (List (Item Val Exc)) → Except Exc (List (Item Val Exc))
  | none => .error errs.notIterable
  | some items => .ok items

/-- `WireOps` whose `unpack` is defined from the other four operations (only lists/tuples can be unpacked). -/
def WireOps.ofSeq {W : Type} (isSeq isDict : W → Bool) (len : W → Nat) (item : W → Nat → W) : WireOps W where
  isSeq := isSeq
  isDict := isDict
  len := len
  item := item
  unpack := fun x k => if isSeq x = true ∧ len x = k then some ((List.range k).map (item x)) else none
  unpack_seq := by intro x k h1 h2; simp [h1, h2]

/-- A concrete, small universe of received values (driver, non-vacuity examples): a 3-sequence (name `n`, 2nd member a
    sequence iff `okArgs`, 3rd a dict iff `okKw`), a 2-sequence, and the members. -/
inductive PV where
  | triple (okArgs okKw : Bool) (n a : Nat)
  | short (n : Nat)
  | name (n : Nat)
  | args (a : Nat)
  | kwargs (a : Nat)
  | junk (n : Nat)
  deriving Repr, DecidableEq

def pvOps : WireOps PV := WireOps.ofSeq
  (fun x => match x with | .triple .. => true | .short _ => true | .args _ => true | _ => false)
  (fun x => match x with | .kwargs _ => true | _ => false)
  (fun x => match x with | .triple .. => 3 | .short _ => 2 | _ => 0)
  (fun x i => match x, i with
    | .triple _ _ n _, 0 => .name n
    | .triple ok _ _ a, 1 => if ok then .args a else .junk a
    | .triple _ ok _ a, 2 => if ok then .kwargs a else .junk a
    | _, _ => .junk 0)

/-- an object over names/arguments `Nat` seen through `PV` values (anything that is not a name is a missing attribute) -/
def pvObj (o : Obj St Nat Nat Val Exc) (missing : Exc) : Obj St PV (PV × PV) Val Exc where
  gate := fun s n => match n with | .name n => o.gate s n | _ => some missing
  apply := fun s n a => match n, a with | .name n, (.args a, _) => o.apply s n a | _, _ => (s, .exc missing)

/-- One step of a client PROGRAM over several BatchProxy objects that share one Proxy (client.py:571-628):
    `record i c`  = `bp_i.<name>(args)`          (_BatchedRemoteMethod.__call__ appends to bp_i's own list)
    `copy i`      = `copy.copy(bp_i)`            (BatchProxy.__copy__: a NEW BatchProxy on the same Proxy whose list
                                                  is a copy — `list(self.__calls)` — of bp_i's list at that moment)
    `submit i ow` = `bp_i()` / `bp_i(oneway=True)` (BatchProxy.__call__: submits bp_i's list, then starts over with `[]`)
    Proxies are numbered in order of creation; number 0 exists at the start. -/
inductive BOp (Name Arg : Type) where
  | record (i : Nat) (c : Name × Arg)
  | copy (i : Nat)
  | submit (i : Nat) (oneway : Bool)
  deriving Repr, DecidableEq

/-- `lists[i]` = the calls recorded on BatchProxy `i` and not yet submitted.  Lists are VALUES: recording on one
    BatchProxy never shows in another one, a copy starts with the same calls and is independent from then on.
    Returns the final state of the remote object and what the caller saw at every `submit`, in program order.
    (client.py:619-620: the list is cleared after `_pyroInvokeBatch` returned; when the submission itself raises, the
    assignment is skipped and the BatchProxy keeps its calls — programs that use a BatchProxy again after such a
    failure are outside this function's domain, the harness never generates them.) -/
def runProg (pre : Option Exc) (o : Obj St Name Arg Val Exc) :
    St → List (List (Name × Arg)) → List (BOp Name Arg) → St × List (Seen Val Exc)
  | s, _, [] => (s, [])
  | s, lists, .record i c :: ops => runProg pre o s (lists.modify i (· ++ [c])) ops
  | s, lists, .copy i :: ops => runProg pre o s (lists ++ [lists.getD i []]) ops
  | s, lists, .submit i ow :: ops =>
    match clientBatch pre o ow s (lists.getD i []) with
    | (s', seen) =>
      match runProg pre o s' (lists.set i []) ops with
      | (s'', rest) => (s'', seen :: rest)

/-- The reference for programs: every `submit` is replaced by the one-by-one run of exactly the calls recorded on
    that BatchProxy (with what C11 promises the caller), everything else as in `runProg`. -/
def specProg (o : Obj St Name Arg Val Exc) :
    St → List (List (Name × Arg)) → List (BOp Name Arg) → St × List (Seen Val Exc)
  | s, _, [] => (s, [])
  | s, lists, .record i c :: ops => specProg o s (lists.modify i (· ++ [c])) ops
  | s, lists, .copy i :: ops => specProg o s (lists ++ [lists.getD i []]) ops
  | s, lists, .submit i ow :: ops =>
    match sequential o s (lists.getD i []) with
    | (s', r) =>
      match specProg o s' (lists.set i []) ops with
      | (s'', rest) => (s'', (if ow then Seen.nothing else expected r) :: rest)

/-- Instrumentation used by the trace theorem and by the driver: the same object, additionally
    recording every call that reached the method (i.e. every executed call) in order. -/
def withLog (o : Obj St Name Arg Val Exc) : Obj (St × List (Name × Arg)) Name Arg Val Exc where
  gate := fun s n => o.gate s.1 n
  apply := fun s n a =>
    match o.apply s.1 n a with
    | (s', r) => ((s', s.2 ++ [(n, a)]), r)

end Pyro.Batch
