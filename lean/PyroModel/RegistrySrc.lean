/-
  RegistrySrc.lean — the vocabulary the source transcription of the registry functions is written in
  (generated file PyroModel/Gen/C16Src.lean, translator harness/props/c16_tr.py).

  The translator turns the python `ast` of `Daemon.register`, `Daemon.unregister`, `Daemon._registered`,
  `Daemon._unregisterWeak`, `Daemon.uriFor`, `DaemonObject.registered` and `_pyro_obj_to_auto_proxy` into Lean
  definitions over the model's own `State` (PyroModel/Registry.lean).  Python values that occur in these
  functions are `Val`; an expression is a Lean term of type `Val` or `Bool`; a statement list is a term of
  type `Out` (final state and how the function ended), built in continuation form: an effect is
  `Eff.bind (<primitive> s …) s (fun s' => …)`, a leaf is `(s, .ret v)` / `(s, .raised e)`.
  `R.stuck` = the run left what the model's state can represent (a `KeyError`, an attribute set to something
  that is not an id, …); the `_translated` theorems (PyroProps/C16Src.lean) show it never happens.

  Every primitive says which python construct it stands for.  Core Lean only (linked into drv_c16).
-/
import PyroModel.Registry

namespace Pyro.Registry.Src

open Pyro.Registry

/-- python values met by the registry functions -/
inductive Val where
  | none                      -- None
  | emptyStr                  -- ""
  | other                     -- a truthy object that is not a str and carries no pyro attribute (42, [1,2,3])
  | str (i : Id)              -- a non-empty string, as an object id
  | ent (e : Ent)             -- pool object / pool class
  | dobj                      -- the daemon's own DaemonObject
  | wref (r : Ref)            -- weakref.ref(<r>)
  | this                      -- the daemon (`self`; the value of a live `_pyroDaemon`)
  | uri (i : Id)              -- core.URI("PYRO:<i>@<location>")
  | proxy (i : Id)            -- client.Proxy bound to <i>
  | ids (l : List Id)         -- a list of object ids
  deriving DecidableEq, Repr

/-- how a function ended -/
inductive R where
  | ret (v : Val)
  | raised (e : Err)
  | stuck
  deriving DecidableEq, Repr

abbrev Out := State × R

/-- result of one effectful statement -/
inductive Eff where
  | ok (s : State)
  | raised (e : Err)
  | stuck

/-- statement sequencing: an exception (or leaving the model) ends the function in the state reached so far -/
def Eff.bind (r : Eff) (s : State) (k : State → Out) : Out :=
  match r with
  | .ok s' => k s'
  | .raised e => (s, .raised e)
  | .stuck => (s, .stuck)

def refVal : Ref → Val
  | .daemonObj => .dobj
  | .ent e => .ent e

/-- the value stored in the table -/
def entryVal (en : Entry) : Val := if en.weak then .wref en.ref else refVal en.ref

/-- `if v:` for ids / `_pyroDaemon` values (the translator refuses truth tests of anything else) -/
def truthy : Val → Bool
  | .none => false
  | .emptyStr => false
  | _ => true

/-- `isinstance(v, str)` -/
def isStr : Val → Bool
  | .str _ => true
  | .emptyStr => true
  | _ => false

/-- `isinstance(v, weakref.ref)` -/
def isWref : Val → Bool
  | .wref _ => true
  | _ => false

/-- `inspect.isclass(v)` -/
def isClassV : Val → Bool
  | .ent (.cls _) => true
  | _ => false

/-- `isinstance(v, c)` for a class `c` (only classes 0-2 are ever registered; no pool class that is registered has
    a registered base class) -/
def instOf : Val → Val → Bool
  | .ent (.obj k), .ent (.cls c) => classOf k == c
  | _, _ => false

/-- `r()` for a weak reference `r` -/
def wrefCall (s : State) : Val → Val
  | .wref (.ent (.obj k)) => if s.dead k then .none else .ent (.obj k)
  | .wref r => refVal r
  | _ => .none

/-- `weakref.ref(v)` -/
def mkWref : Val → Val
  | .ent e => .wref (.ent e)
  | .dobj => .wref .daemonObj
  | v => v

/-- `getattr(v, "_pyroId", None)`; also `v._pyroId` where the attribute is known to exist -/
def idAttr (s : State) : Val → Val
  | .ent e => match getId s e with
    | some i => .str i
    | none => .none
  | .dobj => .str .daemon
  | _ => .none

/-- `hasattr(v, "_pyroId")` -/
def hasIdAttr (s : State) : Val → Bool
  | .ent e => (getId s e).isSome
  | .dobj => true
  | _ => false

/-- `getattr(v, "_pyroDaemon", None)` (`None` also when `class_to_dict` left `None` there) -/
def dmAttr (s : State) : Val → Val
  | .ent e => match getDm s e with
    | .this => .this
    | _ => .none
  | _ => .none

/-- `self.objectsById.get(k)` -/
def tblGet (s : State) : Val → Val
  | .str i => match lookup i s.objs with
    | some en => entryVal en
    | none => .none
  | _ => .none

/-- `k in self.objectsById` -/
def tblHas (s : State) : Val → Bool
  | .str i => (lookup i s.objs).isSome
  | _ => false

/-- `list(self.objectsById.keys())` / `list(self.objectsById)` -/
def tblKeys (s : State) : Val := .ids (keys s.objs)

/-- `"obj_" + uuid.uuid4().hex`: an id nobody has used (generated ids are numbered in the order in which they
    become visible in the table, see `tblSet`) -/
def freshId (s : State) : Val := .str (.gen s.next)

/-- `self.objectsById[k] = v` -/
def tblSet (s : State) : Val → Val → Eff
  | .str i, v =>
    let put (en : Entry) : Eff :=
      .ok { s with objs := setEntry i en s.objs, next := if i = .gen s.next then s.next + 1 else s.next }
    match v with
    | .ent e => put ⟨.ent e, false⟩
    | .dobj => put ⟨.daemonObj, false⟩
    | .wref r => put ⟨r, true⟩
    | _ => .stuck
  | _, _ => .stuck

/-- `del self.objectsById[k]` (KeyError is not a result of the model: stuck) -/
def tblDel (s : State) : Val → Eff
  | .str i => if (lookup i s.objs).isSome then .ok { s with objs := erase i s.objs } else .stuck
  | _ => .stuck

/-- `x._pyroId = v` -/
def setIdAttr (s : State) : Val → Val → Eff
  | .ent e, .str i => if canSet e then .ok { s with pid := upd s.pid e (some i) } else .raised .attributeError
  | _, _ => .stuck

/-- `x._pyroDaemon = self` -/
def setDmAttr (s : State) : Val → Val → Eff
  | .ent e, .this => if canSet e then .ok { s with pdm := upd s.pdm e .this } else .raised .attributeError
  | _, _ => .stuck

/-- `del x._pyroId`: AttributeError unless it is the object's own attribute -/
def delIdAttr (s : State) : Val → Eff
  | .ent e => match s.pid e with
    | some _ => .ok { s with pid := upd s.pid e none }
    | none => .raised .attributeError
  | _ => .stuck

/-- `del x._pyroDaemon` -/
def delDmAttr (s : State) : Val → Eff
  | .ent e => if s.pdm e = .absent then .raised .attributeError else .ok { s with pdm := upd s.pdm e .absent }
  | _ => .stuck

/-- `for ser in serializers.serializers.values(): ser.register_type_replacement(<x or type(x)>, _pyro_obj_to_auto_proxy)`:
    the model has no hook table (a hook that returns its argument serialises like no hook) -/
def installHooks (s : State) (_x : Val) : Eff := .ok s

/-- `weakref.finalize(x, self._unregisterWeak, i, r)`: remembered as (object, id); `r` must be the weak reference to `x`
    (that is what the model's finalizer `runFin` compares with) -/
def addFin (s : State) : Val → Val → Val → Eff
  | .ent (.obj k), .str i, .wref (.ent (.obj k')) =>
    if k = k' then .ok { s with fins := (k, i) :: s.fins } else .stuck
  | _, _, _ => .stuck

/-- `return core.URI("PYRO:%s@%s" % (v, <location>))` -/
def retUri (s : State) : Val → Out
  | .str i => (s, .ret (.uri i))
  | _ => (s, .stuck)

/-- a result of the model as the end of a python function -/
def resR : Res → R
  | .ok => .ret .none
  | .err e => .raised e
  | .uri i => .ret (.uri i)
  | .proxy i => .ret (.proxy i)
  | .ids l => .ret (.ids l)
  | _ => .stuck

/-- `return daemon.proxyFor(v)` — collaborator kept abstract: the model's `proxyFor` -/
def retProxyFor (s : State) : Val → Out
  | .ent e => (s, resR (proxyFor s (.byObj e)))
  | _ => (s, .stuck)

/-! ### reading the model's arguments and results as python values -/

def IdArg.val : IdArg → Val
  | .none => .none
  | .empty => .emptyStr
  | .nonStr => .other
  | .str i => .str i

def Target.val : Target → Val
  | .byObj e => .ent e
  | .byId i => .str i
  | .noneArg => .none
  | .plain => .other
  | .daemonObj => .dobj

end Pyro.Registry.Src
