/-
  Sql.lean — model of `SqlStorage` (Pyro5/nameserver.py:65-267).

  The database is the two tables of `_create_schema` as row lists.  Every `execute(...)` of the source is a
  `Statement`: a tag (whose SQL text is `Stmt.text`, pinned to the text extracted from the source by
  `C14_gen_sql`) and its relational meaning on the tables, written out (`run`; `none` = the engine raises
  an IntegrityError: UNIQUE(name), FOREIGN KEY(object) with `PRAGMA foreign_keys=ON`).  A storage method is
  a `Prog`: statements in the order the method executes them, later ones depending on earlier results.
  `run` executes a program under a failure counter (`fuel = some k`: the k-th next statement raises);
  `transaction` is `with sqlite3.connect(dbfile) as db:` — an exception rolls everything back.
  Explicit `db.commit()` calls are statements too (tag `commit`), so they are failure points as well.
-/
import PyroModel.NameServer

namespace Pyro.NS.Sql

open Pyro.NS

structure NameRow where
  id : Nat
  name : Str
  uri : Str
  deriving DecidableEq, Repr

structure MetaRow where
  object : Nat
  tag : Str
  deriving DecidableEq, Repr

structure Db where
  names : List NameRow      -- pyro_names(id integer PRIMARY KEY, name NOT NULL UNIQUE, uri NOT NULL)
  metas : List MetaRow      -- pyro_metadata(object NOT NULL REFERENCES pyro_names(id), metadata NOT NULL)
  deriving DecidableEq, Repr

def Db.empty : Db := ⟨[], []⟩

/-- tags of one object: `SELECT metadata FROM pyro_metadata WHERE object=?` -/
def Db.tagsOf (db : Db) (i : Nat) : Tags := (db.metas.filter (·.object == i)).map (·.tag)

def Db.entryOf (db : Db) (r : NameRow) : Entry := ⟨r.name, r.uri, db.tagsOf r.id⟩

/-- the map a database stands for: pyro_names joined with pyro_metadata -/
def Db.abs (db : Db) : List Entry := db.names.map db.entryOf

/-- rowid given to a new row of an `integer PRIMARY KEY` table: largest existing + 1 -/
def Db.newId (db : Db) : Nat := (db.names.map (·.id)).foldr max 0 + 1

/-! ### the statements -/

inductive Stmt where
  | pragmaFk | selIdUriByName | selMetaByObj | selIdByName | delMetaByObj | delNameById | insName | insMeta
  | countNames | existsName | selNames | selPrefixFull | selPrefix | selMetaAny | selMetaAll
  | selAllFull | selAll | commit
  deriving DecidableEq, Repr

/-- SQL text (as in the source after the C14 fixes; whitespace as in the source) -/
def Stmt.text : Stmt → String
  | .pragmaFk => "PRAGMA foreign_keys=ON"
  | .selIdUriByName => "SELECT id, uri FROM pyro_names WHERE name=?"
  | .selMetaByObj => "SELECT metadata FROM pyro_metadata WHERE object=?"
  | .selIdByName => "SELECT id FROM pyro_names WHERE name=?"
  | .delMetaByObj => "DELETE FROM pyro_metadata WHERE object=?"
  | .delNameById => "DELETE FROM pyro_names WHERE id=?"
  | .insName => "INSERT INTO pyro_names(name, uri) VALUES(?,?)"
  | .insMeta => "INSERT INTO pyro_metadata(object, metadata) VALUES (?,?)"
  | .countNames => "SELECT count(*) FROM pyro_names"
  | .existsName => "SELECT EXISTS(SELECT 1 FROM pyro_names WHERE name=? LIMIT 1)"
  | .selNames => "SELECT name FROM pyro_names"
  | .selPrefixFull => "SELECT id, name, uri FROM pyro_names WHERE substr(name,1,?)=?"
  | .selPrefix => "SELECT name, uri FROM pyro_names WHERE substr(name,1,?)=?"
  | .selMetaAny => "SELECT id, name, uri FROM pyro_names WHERE id IN (SELECT object FROM pyro_metadata WHERE metadata IN ({seq}))"
  | .selMetaAll => "SELECT id, name, uri FROM pyro_names WHERE id IN (SELECT object FROM pyro_metadata WHERE metadata IN ({seq}) GROUP BY object HAVING COUNT(metadata)=?)"
  | .selAllFull => "SELECT id, name, uri FROM pyro_names"
  | .selAll => "SELECT name, uri FROM pyro_names"
  | .commit => "COMMIT"

/-- a bound parameter value -/
inductive Arg where
  | int (n : Nat)
  | str (s : Str)
  deriving DecidableEq, Repr

structure Statement (β : Type) where
  tag : Stmt
  /-- the parameter tuple passed with the statement -/
  args : List Arg
  /-- relational meaning; `none` = the engine raises (constraint violation) -/
  run : Db → Option (β × Db)

def query {β : Type} (tag : Stmt) (args : List Arg) (f : Db → β) : Statement β := ⟨tag, args, fun db => some (f db, db)⟩

def pragmaFk : Statement Unit := query .pragmaFk [] fun _ => ()
def commit : Statement Unit := query .commit [] fun _ => ()
def selIdUriByName (n : Str) : Statement (Option (Nat × Str)) :=
  query .selIdUriByName [.str n] fun db => (db.names.find? (·.name == n)).map fun r => (r.id, r.uri)
def selMetaByObj (i : Nat) : Statement Tags := query .selMetaByObj [.int i] fun db => db.tagsOf i
def selIdByName (n : Str) : Statement (Option Nat) :=
  query .selIdByName [.str n] fun db => (db.names.find? (·.name == n)).map (·.id)
def countNames : Statement Nat := query .countNames [] fun db => db.names.length
def existsName (n : Str) : Statement Bool := query .existsName [.str n] fun db => db.names.any (·.name == n)
def selNames : Statement (List Str) := query .selNames [] fun db => db.names.map (·.name)
def selAll (tag : Stmt) : Statement (List NameRow) := query tag [] fun db => db.names

/-- `… WHERE substr(name,1,?)=?` with parameters `(len(prefix), prefix)`: the first len(prefix) characters
    of the name are exactly the prefix (binary collation: literal, case sensitive) -/
def selPrefix (tag : Stmt) (p : Str) : Statement (List NameRow) :=
  query tag [.int p.length, .str p] fun db => db.names.filter fun r => r.name.take p.length == p

/-- `… WHERE id IN (SELECT object FROM pyro_metadata WHERE metadata IN (…))` -/
def selMetaAny (ts : Tags) : Statement (List NameRow) :=
  query .selMetaAny (ts.map .str) fun db =>
    db.names.filter fun r => db.metas.any fun m => m.object == r.id && ts.contains m.tag

/-- `… WHERE id IN (SELECT object … WHERE metadata IN (…) GROUP BY object HAVING COUNT(metadata)=?)`:
    the object's group is non-empty and holds exactly `n` rows -/
def selMetaAll (ts : Tags) (n : Nat) : Statement (List NameRow) :=
  query .selMetaAll (ts.map .str ++ [.int n]) fun db =>
    db.names.filter fun r =>
      let c := (db.metas.filter fun m => m.object == r.id && ts.contains m.tag).length
      decide (0 < c) && c == n

def delMetaByObj (i : Nat) : Statement Unit :=
  ⟨.delMetaByObj, [.int i], fun db => some ((), { db with metas := db.metas.filter (·.object != i) })⟩

/-- FOREIGN KEY(object) REFERENCES pyro_names(id): a referenced row cannot be deleted -/
def delNameById (i : Nat) : Statement Unit :=
  ⟨.delNameById, [.int i], fun db =>
    if db.metas.any (·.object == i) then none
    else some ((), { db with names := db.names.filter (·.id != i) })⟩

/-- UNIQUE(name); returns `cursor.lastrowid` -/
def insName (n u : Str) : Statement Nat :=
  ⟨.insName, [.str n, .str u], fun db =>
    if db.names.any (·.name == n) then none
    else some (db.newId, { db with names := db.names ++ [⟨db.newId, n, u⟩] })⟩

def insMeta (oid : Nat) (t : Str) : Statement Unit :=
  ⟨.insMeta, [.int oid, .str t], fun db =>
    if db.names.any (·.id == oid) then some ((), { db with metas := db.metas ++ [⟨oid, t⟩] })
    else none⟩

/-! ### programs and their execution -/

inductive Prog (α : Type) : Type 1 where
  | ret (a : α)
  | step {β : Type} (st : Statement β) (k : β → Prog α)

abbrev Fuel := Option Nat

/-- run without injected failures -/
def eval {α : Type} : Prog α → Db → Option (α × Db)
  | .ret a, db => some (a, db)
  | .step st k, db =>
    match st.run db with
    | none => none
    | some (b, db') => eval (k b) db'

/-- run with a failure counter: `some 0` = the next statement raises -/
def run {α : Type} : Prog α → Db → Fuel → Option (α × Db × Fuel)
  | .ret a, db, f => some (a, db, f)
  | .step st k, db, f =>
    match f with
    | some 0 => none
    | _ =>
      match st.run db with
      | none => none
      | some (b, db') => run (k b) db' (f.map (· - 1))

/-- the statements a failure-free run executes, in order, with their parameters -/
def trace {α : Type} : Prog α → Db → List (Stmt × List Arg)
  | .ret _, _ => []
  | .step st k, db =>
    (st.tag, st.args) ::
      match st.run db with
      | none => []
      | some (b, db') => trace (k b) db'

structure SqlState where
  db : Db
  fuel : Fuel

/-- `try: with sqlite3.connect(self.dbfile) as db: … except sqlite3.DatabaseError: raise NamingError(…)` -/
def transaction {α : Type} (p : Prog α) (s : SqlState) : Option α × SqlState :=
  match run p s.db s.fuel with
  | none => (none, s)
  | some (a, db', f') => (some a, ⟨db', f'⟩)

/-- `SqlStorage(dbfile)` on an existing file: the state is the tables (nameserver.py:71-92, schema exists) -/
def reopen (s : SqlState) : SqlState := ⟨s.db, none⟩

/-! ### the methods -/

/-- `for dbid, name, uri in rows: metadata = {… SELECT metadata … WHERE object=?}; names[name] = uri, metadata` -/
def withMetaRows {α : Type} : List NameRow → (List Entry → Prog α) → Prog α
  | [], k => k []
  | r :: rs, k => .step (selMetaByObj r.id) fun ts => withMetaRows rs fun l => k (⟨r.name, r.uri, ts⟩ :: l)

/-- rows of a `SELECT name, uri` (or of a full select when metadata is not wanted) as a listing -/
def rowsNoMeta (rs : List NameRow) : List Entry := rs.map fun r => ⟨r.name, r.uri, []⟩

/-- common tail of optimized_prefix_list / everything: full select + per-row metadata, or the short select -/
def listRows {α : Type} (full short : Statement (List NameRow)) (wm : Bool) (k : List Entry → Prog α) : Prog α :=
  if wm then .step full fun rs => withMetaRows rs k
  else .step short fun rs => k (rowsNoMeta rs)

/-- `if dbid: DELETE FROM pyro_metadata WHERE object=?; DELETE FROM pyro_names WHERE id=?` -/
def deleteIfFound {α : Type} (o : Option Nat) (k : Prog α) : Prog α :=
  match o with
  | some i => .step (delMetaByObj i) fun _ => .step (delNameById i) fun _ => k
  | none => k

/-- `for m in metadata: INSERT INTO pyro_metadata …` -/
def insMetaAll {α : Type} (oid : Nat) : Tags → Prog α → Prog α
  | [], k => k
  | m :: ms, k => .step (insMeta oid m) fun _ => insMetaAll oid ms k

/-- `__getitem__` (nameserver.py:111-122) -/
def pGetItem (n : Str) : Prog (Option Entry) :=
  .step (selIdUriByName n) fun o =>
    match o with
    | some (i, u) => .step (selMetaByObj i) fun ts => .ret (some ⟨n, u, ts⟩)
    | none => .ret none

/-- `__setitem__` (nameserver.py:124-143) -/
def pSetItem (n u : Str) (t : Tags) : Prog Unit :=
  .step pragmaFk fun _ =>
  .step (selIdByName n) fun o =>
  deleteIfFound o <|
  .step (insName n u) fun oid =>
  insMetaAll oid t <|
  .step commit fun _ => .ret ()

/-- `__len__` -/
def pLen : Prog Nat := .step countNames fun n => .ret n
/-- `__contains__` -/
def pContains (n : Str) : Prog Bool := .step (existsName n) fun b => .ret b
/-- `__delitem__` (nameserver.py:159-170): no KeyError for a missing key -/
def pDelItem (n : Str) : Prog Bool :=
  .step pragmaFk fun _ =>
  .step (selIdByName n) fun o =>
  deleteIfFound o <|
  .step commit fun _ => .ret true
/-- `__iter__` -/
def pIter : Prog (List Str) := .step selNames fun l => .ret l

/-- `optimized_prefix_list` (nameserver.py:192-205, with the literal-prefix fix) -/
def pOptPrefix (p : Str) (wm : Bool) : Prog (Option (List Entry)) :=
  listRows (selPrefix .selPrefixFull p) (selPrefix .selPrefix p) wm fun l => .ret (some l)

/-- `everything` (nameserver.py:252-265) -/
def pEverything (wm : Bool) : Prog (List Entry) :=
  listRows (selAll .selAllFull) (selAll .selAll) wm fun l => .ret l

/-- `optimized_metadata_search` (nameserver.py:211-236, with the de-duplication fix for metadata_all) -/
def pOptMeta (all : Bool) (ts : Tags) (wm : Bool) : Prog (Option (List Entry)) :=
  .step (if all then selMetaAll (dedup ts) (dedup ts).length else selMetaAny ts) fun rs =>
    if wm then withMetaRows rs fun l => .ret (some l)
    else .ret (some (rowsNoMeta rs))

/-- the loop of `remove_items` -/
def removeLoop {α : Type} : List Str → Prog α → Prog α
  | [], k => k
  | n :: ns, k => .step (selIdByName n) fun o => deleteIfFound o (removeLoop ns k)

/-- `remove_items` (nameserver.py:238-250) -/
def pRemoveItems (items : List Str) : Prog Unit :=
  .step pragmaFk fun _ => removeLoop items <| .step commit fun _ => .ret ()

def sqlStore : Store SqlState where
  len := transaction pLen
  contains n := transaction (pContains n)
  getItem n := transaction (pGetItem n)
  setItem n u t := transaction (pSetItem n u t)
  delItem n := transaction (pDelItem n)
  iter := transaction pIter
  optPrefix p wm := transaction (pOptPrefix p wm)
  optRegex _ _ s := (some none, s)
  optMeta all ts wm := transaction (pOptMeta all ts wm)
  everything wm := transaction (pEverything wm)
  removeItems l := transaction (pRemoveItems l)

/-! ### probing: one storage-method call, its statement trace and its effect on the tables

  The extractor calls the real `SqlStorage` methods on a fixed table of inputs against a tracing sqlite3
  connection and records what was executed; `C14_gen_sql` re-runs the same calls here and compares. -/

inductive Call where
  | getItem (n : Str) | setItem (n u : Str) (t : Tags) | len | contains (n : Str) | delItem (n : Str) | iter
  | optPrefix (p : Str) (wm : Bool) | optRegex (r : Str) (wm : Bool) | optMeta (all : Bool) (ts : Tags) (wm : Bool)
  | removeItems (l : List Str) | everything (wm : Bool)
  deriving Repr

def probeProg {α : Type} (p : Prog α) (db : Db) : List (Stmt × List Arg) × Db :=
  (trace p db, match eval p db with
    | some (_, db') => db'
    | none => db)

/-- trace (none = the method touches no connection at all) and resulting tables of one call -/
def Call.probe : Call → Db → Option (List (Stmt × List Arg)) × Db
  | .getItem n, db => ((probeProg (pGetItem n) db).1, (probeProg (pGetItem n) db).2)
  | .setItem n u t, db => ((probeProg (pSetItem n u t) db).1, (probeProg (pSetItem n u t) db).2)
  | .len, db => ((probeProg pLen db).1, db)
  | .contains n, db => ((probeProg (pContains n) db).1, db)
  | .delItem n, db => ((probeProg (pDelItem n) db).1, (probeProg (pDelItem n) db).2)
  | .iter, db => ((probeProg pIter db).1, db)
  | .optPrefix p wm, db => ((probeProg (pOptPrefix p wm) db).1, db)
  | .optRegex _ _, db => (none, db)
  | .optMeta all ts wm, db => ((probeProg (pOptMeta all ts wm) db).1, db)
  | .removeItems l, db => ((probeProg (pRemoveItems l) db).1, (probeProg (pRemoveItems l) db).2)
  | .everything wm, db => ((probeProg (pEverything wm) db).1, db)

def allStmts : List Stmt :=
  [.pragmaFk, .selIdUriByName, .selMetaByObj, .selIdByName, .delMetaByObj, .delNameById, .insName, .insMeta,
   .countNames, .existsName, .selNames, .selPrefixFull, .selPrefix, .selMetaAny, .selMetaAll, .selAllFull, .selAll,
   .commit]

/-! ### the unfixed prefix query (kept only for the negative theorem `C14_like_not_literal`) -/

def suffixes : Str → List Str
  | [] => [[]]
  | a :: l => (a :: l) :: suffixes l

def foldAscii (c : Nat) : Nat := if 97 ≤ c ∧ c ≤ 122 then c - 32 else c

/-- sqlite's default `LIKE`: `%` (37) any sequence, `_` (95) any one character, ASCII letters fold -/
def likeMatch : Str → Str → Bool
  | [], s => s.isEmpty
  | c :: ps, s =>
    if c == 37 then (suffixes s).any (likeMatch ps)
    else match s with
      | [] => false
      | d :: s' => (c == 95 || foldAscii c == foldAscii d) && likeMatch ps s'

/-- `… WHERE name LIKE ?` with parameter `prefix + '%'` (the source before the fix) -/
def selPrefixLike (tag : Stmt) (p : Str) : Statement (List NameRow) :=
  query tag [.str (p ++ [37])] fun db => db.names.filter fun r => likeMatch (p ++ [37]) r.name

def pOptPrefixLike (p : Str) (wm : Bool) : Prog (Option (List Entry)) :=
  listRows (selPrefixLike .selPrefixFull p) (selPrefixLike .selPrefix p) wm fun l => .ret (some l)

/-- `optimized_metadata_search(metadata_all=…)` before the fix: raw parameter list, `len(metadata_all)` -/
def pOptMetaRaw (all : Bool) (ts : Tags) (wm : Bool) : Prog (Option (List Entry)) :=
  .step (if all then selMetaAll ts ts.length else selMetaAny ts) fun rs =>
    if wm then withMetaRows rs fun l => .ret (some l)
    else .ret (some (rowsNoMeta rs))

/-- the back-end as it was before the fixes -/
def sqlStoreOld : Store SqlState :=
  { sqlStore with
    optPrefix := fun p wm => transaction (pOptPrefixLike p wm)
    optMeta := fun all ts wm => transaction (pOptMetaRaw all ts wm) }

end Pyro.NS.Sql
