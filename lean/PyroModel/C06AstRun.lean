/-
  C06AstRun.lean — how the PyIR interpreter is started on the transcription of `ReceivingMessage.add_payload`
  and how its outcome is read back as the hand model's result type (executable; used by the driver and by the theorems).
-/
import PyroModel.PyIR
import PyroModel.Wire

namespace Pyro.C06AstRun

open Pyro Pyro.Wire Pyro.PyIR

/-- the state `add_payload` starts in: a message object fresh from `__init__(header)` -/
def initEnv (h : Header) (payload : Bytes) : Env :=
  [("p1", .bytes payload), ("self.data", .bytes []), ("self.annotations", .dict []),
   ("self.data_size", .int h.dataSize), ("self.annotations_size", .int h.annSize), ("self.flags", .int h.flags)]

def runAddPayload (cfg : PyIR.Cfg) (body : Stmt) (h : Header) (payload : Bytes) : Res :=
  exec cfg body (h.annSize + 2) none (initEnv h payload) ⟨[], [], [], []⟩

/-- the message object afterwards / the error raised, as the hand model reports it -/
def toDecoded (h : Header) : Res → Option (Except DecErr Decoded)
  | .normal env _ =>
    match env.lookup "self.data", env.lookup "self.annotations", env.lookup "self.flags" with
    | some (.bytes d), some (.dict a), some (.int f) =>
      some (.ok { type := h.type, serId := h.serId, flags := f.toNat, seq := h.seq, data := d, anns := a, corr := h.corr })
    | _, _, _ => none
  | .raise (.exc .protocolError _ _) _ _ => some (.error .protocol)
  | .raise (.exc .assertionError _ _) _ _ => some (.error .assertion)
  | .raise (.exc .unicodeDecodeError _ _) _ _ => some (.error .nonAsciiId)
  | .raise (.exc .zlibError _ _) _ _ => some (.error .zlib)
  | _ => none

def sameOutcome : Option (Except DecErr Decoded) → Except DecErr Decoded → Bool
  | some (.ok a), .ok b => a == b
  | some (.error a), .error b => a == b
  | _, _ => false

end Pyro.C06AstRun
