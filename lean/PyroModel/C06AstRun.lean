/-
  C06AstRun.lean — how the PyIR interpreter is started on the transcription of `ReceivingMessage.add_payload`
  and how its outcome is read back as the hand model's result type (executable; used by the driver and by the theorems).
-/
import PyroModel.PyIR
import PyroModel.Wire

namespace Pyro.C06AstRun

open Pyro Pyro.Wire Pyro.PyIR

/-- the state `add_payload` starts in: a message object fresh from `__init__(header)` -/
def initEnv (h : Header) (payload : Bytes) : Env :=
  [("p1", .bytes payload), ("self.data", .bytes []), ("self.annotations", .dict []),
   ("self.data_size", .int h.dataSize), ("self.annotations_size", .int h.annSize), ("self.flags", .int h.flags)]

def runAddPayload (cfg : PyIR.Cfg) (body : Stmt) (h : Header) (payload : Bytes) : Res :=
  exec cfg body (h.annSize + 2) none (initEnv h payload) ⟨[], [], [], []⟩

/-- the message object afterwards / the error raised, as the hand model reports it -/
def toDecoded (h : Header) : Res → Option (Except DecErr Decoded)
  | .normal env _ =>
    match env.lookup "self.data", env.lookup "self.annotations", env.lookup "self.flags" with
    | some (.bytes d), some (.dict a), some (.int f) =>
      some (.ok { type := h.type, serId := h.serId, flags := f.toNat, seq := h.seq, data := d, anns := a, corr := h.corr })
    | _, _, _ => none
  | .raise (.exc .protocolError _ _) _ _ => some (.error .protocol)
  | .raise (.exc .assertionError _ _) _ _ => some (.error .assertion)
  | .raise (.exc .unicodeDecodeError _ _) _ _ => some (.error .nonAsciiId)
  | .raise (.exc .zlibError _ _) _ _ => some (.error .zlib)
  | _ => none

/-- running `ReceivingMessage.__init__(header)` (payload = None) -/
def runInit (cfg : PyIR.Cfg) (body : Stmt) (header : Bytes) : Res :=
  exec cfg body 1 none [("p1", .bytes header), ("p2", .none)] ⟨[], [], [], []⟩

/-- the fields `__init__` leaves on the message object / the error it raises -/
def toHeader : Res → Option (Except DecErr Header)
  | .normal env _ =>
    match env.lookup "self.type", env.lookup "self.serializer_id", env.lookup "self.flags", env.lookup "self.seq",
          env.lookup "self.data_size", env.lookup "self.annotations_size", env.lookup "self.corr_id" with
    | some (.int t), some (.int s), some (.int f), some (.int q), some (.int d), some (.int a), some (.bytes c) =>
      some (.ok { type := t.toNat, serId := s.toNat, flags := f.toNat, seq := q.toNat, dataSize := d.toNat, annSize := a.toNat, corr := c })
    | _, _, _, _, _, _, _ => none
  | .raise (.exc .protocolError _ _) _ _ => some (.error .protocol)
  | _ => none

/-- running `ReceivingMessage.validate(data)` -/
def runValidate (cfg : PyIR.Cfg) (body : Stmt) (data : Bytes) : Res :=
  exec cfg body 1 none [("p0", .bytes data)] ⟨[], [], [], []⟩

/-! ### the sender: `SendingMessage.__init__` -/

/-- the arguments of `SendingMessage(msgtype, flags, seq, serializer_id, payload, annotations)` -/
def sendEnv (m : Msg) : Env :=
  [("p1", .int m.type), ("p2", .int m.flags), ("p3", .int m.seq), ("p4", .int m.serId), ("p5", .bytes m.payload),
   ("p6", .dict m.anns)]

/-- what the constructor sees of its surroundings: config.COMPRESSION / MAX_MESSAGE_SIZE, zlib.compress and the correlation id
    in the current context -/
def sendCfg (cfg : Wire.Cfg) (z : Zlib) (corr : Option Bytes) : PyIR.Cfg :=
  { useWaitall := false, peercert := false, blocking := true, isSub := fun a b => decide (a = b),
    maxSize := cfg.maxSize, compression := cfg.compression, zip := z.compress, corr := corr }

/-- one unit of fuel per annotation (the only loop) -/
def runSendInit (cfg : PyIR.Cfg) (body : Stmt) (m : Msg) : Res :=
  exec cfg body (m.anns.length + 2) none (sendEnv m) ⟨[], [], [], []⟩

/-- the class of the exception the real constructor raises for each of the model's error kinds -/
def encErrCls : EncErr → Cls
  | .tooLarge => .protocolError
  | .badKeyLen => .protocolError
  | .structRange => .structError
  | .nonAscii => .unicodeEncodeError
  | .badCorr => .valueError          -- outside the domain (a uuid's .bytes is always 16 bytes)

/-- `.data` of the finished message / the class of the exception raised -/
def toEncoded : Res → Option (Except Cls Bytes)
  | .normal env _ =>
    match env.lookup "self.data" with
    | some (.bytes d) => some (.ok d)
    | _ => none
  | .raise (.exc c _ _) _ _ => some (.error c)
  | _ => none

def encExpected (r : Except EncErr Bytes) : Except Cls Bytes :=
  match r with
  | .ok b => .ok b
  | .error e => .error (encErrCls e)

def sameOutcome : Option (Except DecErr Decoded) → Except DecErr Decoded → Bool
  | some (.ok a), .ok b => a == b
  | some (.error a), .error b => a == b
  | _, _ => false

end Pyro.C06AstRun
