/-
  ServerLoop.lean — the transport loops around the per-connection protocol logic of `Server.lean`:
  which exception each layer catches, what the layer does then, the state of the request loop
  (running / stopped) and the worker / selector accounting.

    thread-pool server (Pyro5/svr_threads.py)
      ClientConnectionJob.__call__            34-64    request loop of one connection, `finally`: disconnect hook + close
      ClientConnectionJob.handleConnection    66-77    handshake, failures contained
      ClientConnectionJob.denyConnection      79-83    pool full: failed handshake run by the ACCEPTOR thread
      SocketServer_Threadpool.loop / events   156-200  accept loop
      Worker.run                              267-279  `except Exception` around the job, then Pool.notify_done
      Pool.process / notify_done              341-367  idle / busy accounting (coarse: counts; the fine model is Pool.lean, C18)
    multiplex server (Pyro5/svr_multiplex.py)
      events                                  73-93    accept → register; request → inactive: hook, unregister, close
      _handleConnection                       95-127   handshake, failures contained
      handleRequest                           161-185  except-ladder, returns active / inactive
      loop                                    187-212  select loop
    daemon (Pyro5/server.py)
      _handshake 318-366 (incl. denied_reason), handleRequest 383-524, _sendExceptionResponse 617-636

  The except-ladders are NOT hard-wired: they are a parameter (`Cfg`), extracted from the current
  source into `PyroModel/Gen/C05.lean`; the theorems hold for every `Cfg` whose containment layers
  end in a catch-all for `Exception` (`GoodCfg`), and `GoodCfg Gen.C05.cfg` is a proof obligation.

  An event is either `connect i` (the peer's TCP connect is taken by the acceptor: thread server —
  a worker is assigned if one is free; multiplex — nothing yet) or `item i it gone raw`: the outcome
  `it` of `recv_stub` on the next bytes of connection `i` (Server.Item; byte level: C06/C17),
  `gone` = the peer has disconnected by the time the daemon answers (`conn.send` raises
  ConnectionClosedError), `raw` = the class of the exception behind a `garbage` item or raised by a
  method whose outcome is `raises .generic` (any class the history chooses).
  Normalisation: the acceptor handles connections one at a time and reads a denied connection's
  first message itself (blocking); a connection that could not get a worker at `connect` time is
  accepted when its first item arrives (the history in which the connect happens right then).
-/
import PyroModel.Server

namespace Pyro.ServerLoop

open Pyro.Server

/-- exception classes, as far as any except clause of the transports / the daemon tells them apart -/
inductive Cls where
  | connClosed          -- errors.ConnectionClosedError
  | pyroTimeout         -- errors.TimeoutError
  | protocol            -- errors.ProtocolError (not SerializeError)
  | serialize           -- errors.SerializeError
  | security            -- errors.SecurityError
  | osError             -- OSError = socket.error (not a timeout)
  | sockTimeout         -- socket.timeout (= builtins.TimeoutError, an OSError)
  | other               -- any other subclass of Exception (KeyError, ValueError, AssertionError, zlib.error, user classes …)
  | keyboardInterrupt   -- BaseException, NOT an Exception
  | baseOther           -- SystemExit, GeneratorExit, user subclasses of BaseException: NOT an Exception
  deriving Repr, DecidableEq

/-- `issubclass(c, Exception)` (obligation `C05_gen_classes`: as for the real classes) -/
def isException : Cls → Bool
  | .keyboardInterrupt => false
  | .baseOther => false
  | _ => true

/-- a containment layer is described by the classes it contains: `c` is in the list iff an exception of
    class `c` raised inside the layer does NOT leave it.  The lists are measured on the real code by the
    extractor (each layer is run with a stand-in daemon / socket that raises a representative of every
    class, the sockets' auxiliary methods - getpeername, shutdown ... - failing as after a reset), so
    they do not depend on how the except clauses are spelled or split over helper methods. -/
def caught (cs : List Cls) (c : Cls) : Bool := cs.contains c

structure Cfg where
  thrJob : List Cls       -- ClientConnectionJob: around daemon.handleRequest in the request loop (then the `finally`)
  thrShake : List Cls     -- ClientConnectionJob: around daemon._handshake of an accepted connection (close, no loop)
  thrDeny : List Cls      -- ClientConnectionJob.denyConnection: around daemon._handshake(denied_reason)
  thrWorker : List Cls    -- Worker.run: around self.job()
  thrEvents : List Cls    -- SocketServer_Threadpool.events: swallowed inside events() itself
  thrLoop : List Cls      -- SocketServer_Threadpool.loop: what leaves events() and is swallowed by loop()
  muxReq : List Cls       -- SocketServer_Multiplex.handleRequest: around daemon.handleRequest (returns inactive)
  muxShake : List Cls     -- SocketServer_Multiplex._handleConnection: around daemon._handshake
  muxLoop : List Cls      -- SocketServer_Multiplex.loop: what leaves events() and is swallowed by loop()
  deriving Repr, DecidableEq

inductive Kind where
  | thread | multiplex
  deriving Repr, DecidableEq

structure Params where
  kind : Kind
  mn : Nat          -- config.THREADPOOL_SIZE_MIN
  mx : Nat          -- config.THREADPOOL_SIZE
  cfg : Cfg

inductive Ev where
  | connect (i : Nat)
  | item (i : Nat) (it : Item) (gone : Bool) (raw : Cls)
  deriving Repr, DecidableEq

def Ev.conn : Ev → Nat
  | .connect i => i
  | .item i _ _ _ => i

structure Loop where
  running : Bool := true          -- the request loop (requestLoop → transportServer.loop) has not been left
  conns : Daemon                  -- connection records (Server.Conn) by id
  seen : List Nat := []           -- connections the acceptor has taken from the listening socket
  busy : List Nat := []           -- thread: connections whose worker is in Pool.busy
  idle : Nat := 0                 -- thread: len(Pool.idle)
  registered : List Nat := []     -- multiplex: connections registered with the selector
  zombie : List Nat := []         -- connections abandoned by the code that served them, neither closed nor read any more
  objects : List Nat := []        -- ids in daemon.objectsById (no event touches them)
  deriving Repr, DecidableEq

/-! ### what one `_handshake` / `handleRequest` call does, and what escapes from it -/

structure Effect where
  conn : Conn                 -- the record after the call's own effects, before any cleanup by the transport
  esc : Option Cls := none    -- exception that leaves the call
  ok : Bool := false          -- `_handshake` returned True
  deriving Repr, DecidableEq

/-- `_handshake(conn)`: everything inside is caught (`except ConnectionClosedError: return False`,
    `except Exception:` → CONNECTFAIL); only `conn.send(reply)` is outside the try (server.py:365) -/
def doHandshake (c : Conn) (it : Item) (gone : Bool) : Effect :=
  match (handshake it).1 with
  | none => { conn := c }
  | some r =>
    if gone then { conn := c, esc := some .connClosed }
    else { conn := { c with outbox := c.outbox ++ [r] }, ok := (handshake it).2 }

/-- the reply of `_handshake(conn, denied_reason)`: `raise Exception(denied_reason)` comes after
    `msg_seq = msg.seq` and before `serializer_id = msg.serializer_id` (server.py:333-345) -/
def denyReply : Item → Option Reply
  | .cut => none
  | .garbage => some ⟨MSG_CONNECTFAIL, 0, marshalId, false, []⟩
  | .timeout => some ⟨MSG_CONNECTFAIL, 0, marshalId, false, []⟩
  | .msg m =>
    if m.type ≠ MSG_CONNECT then some ⟨MSG_CONNECTFAIL, 0, marshalId, false, []⟩
    else some ⟨MSG_CONNECTFAIL, m.seq, marshalId, false, []⟩

def doDeny (c : Conn) (it : Item) (gone : Bool) : Effect :=
  match denyReply it with
  | none => { conn := c }
  | some r =>
    if gone then { conn := c, esc := some .connClosed }
    else { conn := { c with outbox := c.outbox ++ [r] } }

def excCls (raw : Cls) : Exc → Cls
  | .generic => raw
  | .serialize => .serialize
  | .connClosed => .connClosed
  | .commOther => .pyroTimeout
  | .security => .security

/-- class of the exception that leaves `handleRequest` when `Server.handleRequest` says `raised` -/
def escClass (it : Item) (raw : Cls) : Cls :=
  match it with
  | .cut => .connClosed                  -- recv: ConnectionClosedError, `raise x`
  | .timeout => .pyroTimeout             -- recv: TimeoutError, `raise x`
  | .garbage => raw                      -- ProtocolError (`raise x`) or AssertionError / UnicodeDecodeError / zlib.error (not caught at all)
  | .msg m =>
    if m.type ≠ MSG_INVOKE then .protocol                 -- type filter of recv_stub
    else if !knownSerializer m.serId then .other          -- KeyError, again in _sendExceptionResponse
    else match m.body with
      | .call (.method md) =>
        match md.outcome with
        | .returns .serializeErr => .serialize              -- SerializeError from dumps: reported, re-raised
        | .returns _ => .other                              -- dumps raised something else under a @callback: re-raised
        | .returnsStream => .other                          -- (never raised: a stream answer leaves nothing to escape)
        | .raises e _ => excCls raw e                       -- re-raise rule: callback ∨ Communication ∨ Security
      | _ => .other

/-- `handleRequest(conn)` on an active connection -/
def doRequest (c : Conn) (it : Item) (gone : Bool) (raw : Cls) : Effect :=
  let r := handleRequest it
  let c1 := { c with execs := c.execs ++ r.execs,
                     tracked := delTracked (addTracked c.tracked r.tracks) r.untracks,
                     sessionInst := c.sessionInst || r.session }
  match r.reply with
  | some rep =>
    -- a failing send is a ConnectionClosedError inside the second try: not reported, re-raised;
    -- inside _sendExceptionResponse it leaves the except block directly
    if gone then { conn := c1, esc := some .connClosed }
    else { conn := { c1 with outbox := c1.outbox ++ [rep] }, esc := if r.raised then some (escClass it raw) else none }
  | none => { conn := c1, esc := if r.raised then some (escClass it raw) else none }

/-- handshake failed: `csock.close()`, no disconnect hook -/
def closeNoHook (c : Conn) : Conn := { c.close with phase := .closed }
/-- request loop left / connection inactive: disconnect hook, slot released, close -/
def closeWithHook (c : Conn) : Conn :=
  { ({ c with hookCalls := c.hookCalls + 1, slot := false }).close with phase := .closed }

def setConn (l : Loop) (i : Nat) (c : Conn) : Loop := { l with conns := l.conns.set i c }

/-! ### thread-pool server -/

/-- Pool.process(job): idle worker | new worker below THREADPOOL_SIZE | NoFreeWorkersError -/
def poolTake (p : Params) (l : Loop) (i : Nat) : Option Loop :=
  if 0 < l.idle then some { l with busy := l.busy ++ [i], idle := l.idle - 1 }
  else if l.busy.length + l.idle < p.mx then some { l with busy := l.busy ++ [i] }
  else none

/-- Pool.notify_done(worker) -/
def poolDone (p : Params) (l : Loop) (i : Nat) : Loop :=
  if p.mn ≤ l.idle then { l with busy := l.busy.erase i }
  else { l with busy := l.busy.erase i, idle := l.idle + 1 }

/-- the job (`ClientConnectionJob.__call__`) is left, normally or with exception `e`: Worker.run -/
def workerExit (p : Params) (l : Loop) (i : Nat) (e : Option Cls) : Loop :=
  match e with
  | none => poolDone p l i
  | some e =>
    if caught p.cfg.thrWorker e then poolDone p l i
    else { l with zombie := l.zombie ++ [i] }     -- the worker thread dies inside Pool.busy; nobody reads the connection again

/-- an item on a connection that a worker serves -/
def threadItem (p : Params) (l : Loop) (i : Nat) (c : Conn) (it : Item) (gone : Bool) (raw : Cls) : Loop :=
  match c.phase with
  | .closed => l
  | .fresh =>
    let r := doHandshake c it gone
    match r.esc with
    | none =>
      if r.ok then setConn l i { r.conn with phase := .active, slot := true }
      else workerExit p (setConn l i (closeNoHook r.conn)) i none
    | some e =>
      if caught p.cfg.thrShake e then workerExit p (setConn l i (closeNoHook r.conn)) i none
      else workerExit p (setConn l i r.conn) i (some e)
  | .active =>
    let r := doRequest c it gone raw
    match r.esc with
    | none => setConn l i r.conn
    | some e =>
      -- caught or not, the `finally` runs: disconnect hook, close
      workerExit p (setConn l i (closeWithHook r.conn)) i (if caught p.cfg.thrJob e then none else some e)

/-- pool full: `job.denyConnection(...)` in the acceptor thread (svr_threads.py:196-199) -/
def threadDeny (p : Params) (l : Loop) (i : Nat) (c : Conn) (it : Item) (gone : Bool) : Loop :=
  let r := doDeny c it gone
  match r.esc with
  | none => setConn l i (closeNoHook r.conn)
  | some e =>
    if caught p.cfg.thrDeny e then setConn l i (closeNoHook r.conn)
    else
      -- `csock.close()` is skipped: the socket stays open until the job object is garbage collected
      let l := { setConn l i r.conn with zombie := l.zombie ++ [i] }
      if caught p.cfg.thrEvents e || caught p.cfg.thrLoop e then l
      else { l with running := false }            -- the exception leaves loop() and requestLoop()

def threadStep (p : Params) (l : Loop) : Ev → Loop
  | .connect i =>
    match l.conns[i]? with
    | none => l
    | some c =>
      if !l.running || l.seen.contains i || c.phase != .fresh then l
      else match poolTake p l i with
        | some l' => { l' with seen := l'.seen ++ [i] }
        | none => l                                 -- stays in the listen backlog (see header)
  | .item i it gone raw =>
    match l.conns[i]? with
    | none => l
    | some c =>
      if l.zombie.contains i then l
      else if l.busy.contains i then threadItem p l i c it gone raw
      else if l.seen.contains i then l              -- its job is over
      else if !l.running || c.phase != .fresh then l   -- nobody accepts any more / not a new connection
      else match poolTake p l i with
        | some l' => threadItem p { l' with seen := l'.seen ++ [i] } i c it gone raw
        | none => threadDeny p { l with seen := l.seen ++ [i] } i c it gone

/-! ### multiplex server -/

/-- an exception leaves `events()`: the clauses of `loop` -/
def muxLoopLevel (p : Params) (l : Loop) (e : Cls) : Loop :=
  if caught p.cfg.muxLoop e then l else { l with running := false }

def muxStep (p : Params) (l : Loop) : Ev → Loop
  | .connect _ => l                                 -- accepted (and its handshake read) when the first bytes are there
  | .item i it gone raw =>
    match l.conns[i]? with
    | none => l
    | some c =>
      if !l.running || l.zombie.contains i then l
      else match c.phase with
        | .closed => l
        | .fresh =>
          if l.seen.contains i then l
          else
            let l := { l with seen := l.seen ++ [i] }
            let r := doHandshake c it gone
            match r.esc with
            | none =>
              if r.ok then { setConn l i { r.conn with phase := .active, slot := true } with registered := l.registered ++ [i] }
              else setConn l i (closeNoHook r.conn)
            | some e =>
              if caught p.cfg.muxShake e then setConn l i (closeNoHook r.conn)
              else muxLoopLevel p { setConn l i r.conn with zombie := l.zombie ++ [i] } e
        | .active =>
          if !l.registered.contains i then l
          else
            let r := doRequest c it gone raw
            match r.esc with
            | none => setConn l i r.conn
            | some e =>
              if caught p.cfg.muxReq e then
                { setConn l i (closeWithHook r.conn) with registered := l.registered.erase i }
              else muxLoopLevel p (setConn l i r.conn) e    -- still registered, still open

def step (p : Params) (l : Loop) (ev : Ev) : Loop :=
  match p.kind with
  | .thread => threadStep p l ev
  | .multiplex => muxStep p l ev

def run (p : Params) (l : Loop) (evs : List Ev) : Loop := evs.foldl (step p) l

/-- a daemon that has just entered its request loop: `n` connections to come, `mn` idle workers -/
def init (p : Params) (n : Nat) (objects : List Nat) : Loop :=
  { conns := List.replicate n {}, idle := p.mn, objects := objects }

/-- the items of connection `w` in a history, in order -/
def itemsOf (w : Nat) : List Ev → List Item
  | [] => []
  | .connect _ :: evs => itemsOf w evs
  | .item i it _ _ :: evs => if i = w then it :: itemsOf w evs else itemsOf w evs

end Pyro.ServerLoop
