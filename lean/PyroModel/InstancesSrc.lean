/-
  InstancesSrc.lean — the semantic kit of the SHALLOW transcription of `Daemon._getInstance` (C09).

  `harness/props/c09_tr.py` turns the python `ast` of `Daemon._getInstance` (and of the private helpers it
  calls) into Lean source text (`PyroModel/Gen/C09Src.lean`) that uses ONLY the operations below.  Each
  operation is the meaning of one python construct over the state of the hand model (`Pyro.Inst.State`):

    python                                   here
    ---------------------------------------  -------------------------------------------------------
    clazz._pyroInstancing                    `instancing`   (the class table `spec` of the model)
    a, b = t                                 `fst` / `snd`
    self._pyroInstances / conn.pyroInstances `daemonTable` / `connTable`  (→ `Slot.single` / `Slot.sess`)
    tbl.get(k) / tbl[k] = v                  `tabGet` / `tabSet`
    self.create_single_instance_lock         `lockOf`;  `with l:` = `withLock l`
    f(args)  (constructor / creator)         `call`  — user code: what it does is the `Outcome` of the call
    isinstance(x, c) / x is None / bool(x)   `isinstance` / `isNone` / `truth`
    m == "single"                            `eqMode`
    raise X(...) / try … except C: …         `throw` / `tryExcept`
    return e / sequencing / if               `pure` / `bind` / `cond`

  Nothing is guessed: an operation applied to a value it is not defined for yields `R.stuck`, and so does an
  access of the daemon's table while `create_single_instance_lock` is not held, or taking the (non
  re-entrant) lock twice.  `toRes` maps `stuck` to `none`, so the theorem "transcription = model"
  (`PyroProps/C09Src.lean`) also says that none of this ever happens.

  Ghost state: how often the creator ran and how many objects user code handed out during the call (what
  the harness counts on the real code), and whether the lock is held.
-/
import PyroModel.Instances

namespace Pyro.Inst.Src

open Pyro.Inst

/-- python values that occur in `_getInstance` -/
inductive Val where
  | none
  | self                               -- the daemon
  | cls (k : Nat)                      -- a registered class object
  | conn (c : Nat)                     -- a connection object
  | mode (m : Mode)                    -- a string; `Mode.invalid` = any string other than the three names
  | creator (truthy : Bool)            -- an `instance_creator` that is not None
  | obj (i : Instance) (isInst : Bool) -- an object user code has just handed out; is it an instance of the class
  | stored (i : Instance)              -- an object found in a table
  | foreign (truthy : Bool) (eqc : Nat)-- what a creator returned when it is not an instance of the class
  | dtab                               -- `self._pyroInstances`
  | ctab (c : Nat)                     -- `conn.pyroInstances`
  | lock                               -- `self.create_single_instance_lock`
  | pair (a b : Val)
  deriving Repr

inductive Err where
  | typeError | daemonError
  | user                               -- whatever user code raised
  deriving Repr, DecidableEq

structure Env where
  spec : Nat → ClassSpec
  o : Outcome          -- what the constructor / creator does if it is run during this call
  userBase : Bool      -- the exception user code raises is not an `Exception` (SystemExit, KeyboardInterrupt)

structure SState where
  st : State
  held : Bool          -- this thread holds create_single_instance_lock
  creatorCalls : Nat
  made : Nat           -- objects with an identity handed out by user code during this call

inductive R (α : Type) where
  | ok (a : α) (s : SState)
  | exc (e : Err) (s : SState)
  | stuck

abbrev M (α : Type) := Env → SState → R α

def pure {α : Type} (a : α) : M α := fun _ s => .ok a s
def throw {α : Type} (e : Err) : M α := fun _ s => .exc e s
def stuck {α : Type} : M α := fun _ _ => .stuck

def bind {α β : Type} (m : M α) (f : α → M β) : M β := fun env s =>
  match m env s with
  | .ok a s' => f a env s'
  | .exc e s' => .exc e s'
  | .stuck => .stuck

def cond {α : Type} (c : M Bool) (a b : M α) : M α := bind c fun x => if x then a else b

def creatorVal : Creator → Val
  | .none => .none
  | .callable => .creator true
  | .falsy => .creator false

/-- `clazz._pyroInstancing` -/
def instancing : Val → M Val
  | .cls k => fun env s => .ok (.pair (.mode (env.spec k).mode) (creatorVal (env.spec k).creator)) s
  | _ => stuck

def fst : Val → M Val
  | .pair a _ => pure a
  | _ => stuck

def snd : Val → M Val
  | .pair _ b => pure b
  | _ => stuck

def daemonTable : Val → M Val
  | .self => pure .dtab
  | _ => stuck

def connTable : Val → M Val
  | .conn c => pure (.ctab c)
  | _ => stuck

def lockOf : Val → M Val
  | .self => pure .lock
  | _ => stuck

def ofOpt : Option Instance → Val
  | some i => .stored i
  | none => .none

/-- `tbl.get(key)`; the daemon's table may only be touched while the lock is held -/
def tabGet (tbl key : Val) : M Val := fun _ s =>
  match tbl, key with
  | .dtab, .cls k => if s.held then .ok (ofOpt (s.st.tab (.single k))) s else .stuck
  | .ctab c, .cls k => .ok (ofOpt (s.st.tab (.sess c k))) s
  | _, _ => .stuck

def instOf : Val → Option Instance
  | .obj i _ => some i
  | .stored i => some i
  | _ => none

def store (s : SState) (sl : Slot) (i : Instance) : SState :=
  { s with st := { s.st with tab := setSlot s.st.tab sl (some i) } }

/-- `tbl[key] = v` -/
def tabSet (tbl key v : Val) : M Unit := fun _ s =>
  match tbl, key, instOf v with
  | .dtab, .cls k, some i => if s.held then .ok () (store s (.single k) i) else .stuck
  | .ctab c, .cls k, some i => .ok () (store s (.sess c k) i)
  | _, _, _ => .stuck

/-- `with l: body` — the lock is released however the body is left -/
def withLock {α : Type} (l : Val) (body : M α) : M α := fun env s =>
  match l with
  | .lock =>
    if s.held then .stuck        -- threading.Lock is not re-entrant
    else match body env { s with held := true } with
      | .ok a s' => .ok a { s' with held := false }
      | .exc e s' => .exc e { s' with held := false }
      | .stuck => .stuck
  | _ => .stuck

def alloc (s : SState) : SState :=
  { s with st := { s.st with next := s.st.next + 1 }, made := s.made + 1 }

def ranCreator (s : SState) : SState := { s with creatorCalls := s.creatorCalls + 1 }

/-- `f(args)`: `clazz()` runs the constructor, `creator(clazz)` the creator.  An object gets an identity
    (creation index) when it can be handed out: everything `clazz()` returns, and what a creator returns if
    it is an instance of the class (the model's convention, `Pyro.Inst.createInstance`). -/
def call (f : Val) (args : List Val) : M Val := fun env s =>
  match f, args with
  | .cls _, [] =>
    match env.o with
    | .ok t e => .ok (.obj ⟨s.st.next, t, e⟩ true) (alloc s)
    | .wrongType t e => .ok (.obj ⟨s.st.next, t, e⟩ false) (alloc s)
    | .raises => .exc .user s
  | .creator _, [.cls _] =>
    match env.o with
    | .ok t e => .ok (.obj ⟨s.st.next, t, e⟩ true) (alloc (ranCreator s))
    | .wrongType t e => .ok (.foreign t e) (ranCreator s)
    | .raises => .exc .user (ranCreator s)
  | _, _ => .stuck

def isinstance (v c : Val) : M Bool :=
  match v, c with
  | .obj _ b, .cls _ => pure b
  | .foreign _ _, .cls _ => pure false
  | .none, .cls _ => pure false
  | _, _ => stuck

def isNone : Val → M Bool
  | .none => pure true
  | _ => pure false

/-- `bool(v)` -/
def truth : Val → M Bool
  | .none => pure false
  | .creator b => pure b
  | .obj i _ => pure i.truthy
  | .stored i => pure i.truthy
  | .foreign t _ => pure t
  | _ => stuck

/-- `v == "<one of the three mode names>"` -/
def eqMode (v : Val) (m : Mode) : M Bool :=
  match v with
  | .mode m' => if m = .invalid then stuck else pure (decide (m' = m))
  | _ => stuck

/-- `v in ("…", …)` -/
def memMode (v : Val) (ms : List Mode) : M Bool :=
  match v with
  | .mode m' => if ms.contains .invalid then stuck else pure (ms.contains m')
  | _ => stuck

def notB (c : M Bool) : M Bool := bind c fun b => pure (!b)

/-- does `except Exception:` (`all = false`) / `except BaseException:` or a bare `except:` (`all = true`) catch it -/
def catches (all : Bool) (env : Env) : Err → Bool
  | .user => all || !env.userBase
  | _ => true

/-- `try: body  except <class>: handler` (the handler gets the exception for a bare `raise`) -/
def tryExcept {α : Type} (body : M α) (all : Bool) (handler : Err → M α) : M α := fun env s =>
  match body env s with
  | .exc e s' => if catches all env e then handler e env s' else .exc e s'
  | r => r

def start (s : State) : SState := ⟨s, false, 0, 0⟩

/-- what a call of the transcribed function observes, in the model's terms; `none` = stuck, an object that
    cannot be served, or the lock still held -/
def toRes : R Val → Option (State × Res)
  | .ok v s =>
    if s.held then none
    else match instOf v with
      | some i => some (s.st, .served i (decide (0 < s.made)) (decide (0 < s.creatorCalls)))
      | none => none
  | .exc e s =>
    if s.held then none
    else match e with
      | .typeError => some (s.st, .typeError)
      | .daemonError => some (s.st, .daemonError)
      | .user => some (s.st, .raised (decide (0 < s.creatorCalls)))
  | .stuck => none

/-- one call of the transcription `f self clazz conn` on connection `conn` for class `cls` -/
def runCall (f : Val → Val → Val → M Val) (spec : Nat → ClassSpec) (conn cls : Nat) (o : Outcome) (userBase : Bool)
    (s : State) : Option (State × Res) :=
  toRes (f .self (.cls cls) (.conn conn) ⟨spec, o, userBase⟩ (start s))

/-- `stepEv` with the call done by the transcription -/
def stepEvSrc (f : Val → Val → Val → M Val) (spec : Nat → ClassSpec) (ub : Bool) (s : State) : Event → Option (State × Res)
  | .call c cls o => runCall f spec c cls o ub s
  | e => some (stepEv ⟨.isNone, .isNone⟩ spec s e)

/-- a whole history through the transcription -/
def runHistSrc (f : Val → Val → Val → M Val) (spec : Nat → ClassSpec) (ub : Bool) : State → List Event → Option (State × List Res)
  | s, [] => some (s, [])
  | s, e :: es =>
    match stepEvSrc f spec ub s e with
    | none => none
    | some (s1, r) =>
      match runHistSrc f spec ub s1 es with
      | none => none
      | some (s2, rs) => some (s2, r :: rs)

end Pyro.Inst.Src
