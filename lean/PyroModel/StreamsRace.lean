/-
  StreamsRace.lean — the stream table under concurrency (C10, quantifier "schedules").

  Under the thread-pool server `get_next_stream_item` / `close_stream` (one thread per connection, one
  more per oneway call), `_clientDisconnect` (the connection's thread) and `_housekeeping` (the
  Housekeeper thread) run concurrently and share `Daemon.streaming_responses` with NO common lock
  (only `_housekeeping` takes `housekeeper_lock`).  Here every single access of that dict and every
  `next()` of an iterator is one atomic micro-step (GIL), and threads interleave freely.

  The iterator objects live in a heap (stream id ↦ remaining items): a thread that has read a table
  entry keeps its reference to the iterator after the entry has been removed by someone else.

  `Removal.strict`   = `del d[k]`          (KeyError when the key is gone)
  `Removal.tolerant` = `d.pop(k, None)`    (never fails)
  Which one the source uses is an extracted fact (Gen.C10.removals).
-/
import PyroModel.Streams

namespace Pyro.StreamsRace

open Pyro.Streams

inductive Removal where
  | strict | tolerant
  deriving DecidableEq, Repr

/-- the removal statement used by each of the four functions that remove streams -/
structure Modes where
  next : Removal          -- get_next_stream_item, `except Exception:` handler
  close : Removal         -- close_stream
  disc : Removal          -- _clientDisconnect
  hk : Removal            -- _housekeeping (both loops)
  deriving DecidableEq, Repr

def Modes.all (r : Removal) : Modes := { next := r, close := r, disc := r, hk := r }

/-- (client, timestamp, linger_timestamp); the 4th component, the iterator, is `heap[id]` -/
structure REntry where
  owner : Option Nat
  created : Nat
  linger : Nat
  deriving DecidableEq, Repr

abbrev RTable := List (Nat × REntry)

def RTable.get : RTable → Nat → Option REntry
  | [], _ => none
  | (k, e) :: r, id => if k = id then some e else RTable.get r id

def RTable.erase (t : RTable) (id : Nat) : RTable := t.filter (fun p => p.1 ≠ id)

def RTable.set : RTable → Nat → REntry → RTable
  | [], id, e => [(id, e)]
  | (k, w) :: r, id, e => if k = id then (id, e) :: r else (k, w) :: RTable.set r id e

structure Shared where
  table : RTable
  heap : List (List Item)          -- heap[id] = what the iterator of stream id still holds
  handed : List (Nat × Item)       -- ghost: every (stream, item) a `next()` produced, in order
  now : Nat
  deriving DecidableEq, Repr

inductive Call where
  | next (sid conn : Nat)
  | close (sid : Nat)
  | disconnect (conn : Nat)
  | housekeeping
  deriving DecidableEq, Repr

/-- replies; `keyError` is the KeyError of a dict access on a vanished key -/
inductive RRes where
  | item (v : Nat) | stop | raised (e : Nat) | terminated | ok | keyError
  deriving DecidableEq, Repr

/-- where a thread is inside the current call: always just before its next dict access / `next()` -/
inductive Pc where
  | idle
  | nGet (sid conn : Nat)                           -- `... = self.daemon.streaming_responses[streamId]`
  | nSet (sid conn : Nat) (e : REntry)              -- `streaming_responses[streamId] = (client, ts, 0, stream)`
  | nNext (sid : Nat)                               -- `next(stream)`
  | nDel (sid : Nat) (pending : RRes)               -- removal in the `except Exception:` handler
  | cDel (sid : Nat)                                -- removal in close_stream
  | dGet (conn : Nat) (todo : List Nat)             -- `info = streaming_responses.get(streamId)`
  | dSet (conn k : Nat) (e : REntry) (todo : List Nat)
  | dDel (conn k : Nat) (todo : List Nat)
  | hKeys1 | hGet1 (todo : List Nat) | hDel1 (k : Nat) (todo : List Nat)
  | hKeys2 | hGet2 (todo : List Nat) | hDel2 (k : Nat) (todo : List Nat)
  deriving DecidableEq, Repr

/-- a completed call: the call, its reply, and (ghost) what `next(stream)` did during it, if reached -/
abbrev Done := Call × RRes × Option RRes

structure Thread where
  prog : List Call           -- calls still to be made
  cur : Call                 -- the call in progress (meaningful when pc ≠ idle)
  pc : Pc
  done : List Done
  deriving DecidableEq, Repr

def Thread.new (prog : List Call) : Thread := { prog := prog, cur := .housekeeping, pc := .idle, done := [] }

def Thread.finished (t : Thread) : Bool := t.pc == .idle && t.prog.isEmpty

/-- the call returns / raises: back to idle.  A failed housekeeping pass ends its thread: the
    Housekeeper loop (svr_threads.py 93-98) has no exception handler. -/
def Thread.finish (t : Thread) (r : RRes) (y : Option RRes) : Thread :=
  { t with pc := .idle, done := t.done ++ [(t.cur, r, y)],
           prog := if t.cur = .housekeeping ∧ r = .keyError then [] else t.prog }

def Thread.goto (t : Thread) (pc : Pc) : Thread := { t with pc := pc }

def rLifeExpired (cfg : Settings) (now : Nat) (e : REntry) : Bool :=
  decide (0 < cfg.lifetime ∧ cfg.lifetime < (now : Int) - (e.created : Int))

def rLingerExpired (cfg : Settings) (now : Nat) (e : REntry) : Bool :=
  decide (e.linger ≠ 0 ∧ (now : Int) - (e.linger : Int) > cfg.linger)

/-- the removal statement: `del d[k]` or `d.pop(k, None)`; `none` = KeyError -/
def remove (mode : Removal) (t : RTable) (k : Nat) : Option RTable :=
  match mode, t.get k with
  | .strict, none => none
  | _, _ => some (t.erase k)

/-- after the lifetime loop of `_housekeeping`: the linger loop, if configured -/
def afterLife (cfg : Settings) (t : Thread) : Thread :=
  if 0 < cfg.linger then t.goto .hKeys2 else t.finish .ok none

def contD (conn : Nat) (todo : List Nat) (t : Thread) : Thread :=
  if todo.isEmpty then t.finish .ok none else t.goto (.dGet conn todo)

def contH1 (cfg : Settings) (todo : List Nat) (t : Thread) : Thread :=
  if todo.isEmpty then afterLife cfg t else t.goto (.hGet1 todo)

def contH2 (todo : List Nat) (t : Thread) : Thread :=
  if todo.isEmpty then t.finish .ok none else t.goto (.hGet2 todo)

/-- the first dict access of a call -/
def startCall (cfg : Settings) (t : Thread) (sh : Shared) (c : Call) : Thread × Shared :=
  let t := { t with cur := c }
  match c with
  | .next sid conn =>          -- `if streamId not in self.daemon.streaming_responses:`
    match sh.table.get sid with
    | none => (t.finish .terminated none, sh)
    | some _ => (t.goto (.nGet sid conn), sh)
  | .close sid =>              -- `if streamId in self.daemon.streaming_responses:`
    match sh.table.get sid with
    | none => (t.finish .ok none, sh)
    | some _ => (t.goto (.cDel sid), sh)
  | .disconnect conn =>        -- `for streamId in list(self.streaming_responses):`
    (contD conn (sh.table.map (·.1)) t, sh)
  | .housekeeping =>           -- `if self.streaming_responses:`
    if sh.table.isEmpty then (t.finish .ok none, sh)
    else if 0 < cfg.lifetime then (t.goto .hKeys1, sh)
    else (afterLife cfg t, sh)

/-- one micro-step of one thread -/
def micro (mode : Modes) (cfg : Settings) (t : Thread) (sh : Shared) : Thread × Shared :=
  match t.pc with
  | .idle =>
    match t.prog with
    | [] => (t, sh)
    | c :: rest => startCall cfg { t with prog := rest } sh c
  | .nGet sid conn =>
    match sh.table.get sid with
    | none => (t.finish .keyError none, sh)
    | some e => if e.owner.isNone then (t.goto (.nSet sid conn e), sh) else (t.goto (.nNext sid), sh)
  | .nSet sid conn e =>
    (t.goto (.nNext sid), { sh with table := sh.table.set sid { owner := some conn, created := e.created, linger := 0 } })
  | .nNext sid =>
    match sh.heap.getD sid [] with
    | .val v :: tl =>
      (t.finish (.item v) (some (.item v)), { sh with heap := sh.heap.set sid tl, handed := sh.handed ++ [(sid, .val v)] })
    | [] => (t.goto (.nDel sid .stop), sh)
    | .raises x :: tl =>
      (t.goto (.nDel sid (.raised x)), { sh with heap := sh.heap.set sid tl, handed := sh.handed ++ [(sid, .raises x)] })
  | .nDel sid pending =>
    match remove mode.next sh.table sid with
    | none => (t.finish .keyError (some pending), sh)
    | some t' => (t.finish pending (some pending), { sh with table := t' })
  | .cDel sid =>
    match remove mode.close sh.table sid with
    | none => (t.finish .keyError none, sh)
    | some t' => (t.finish .ok none, { sh with table := t' })
  | .dGet conn todo =>
    match todo with
    | [] => (t.finish .ok none, sh)
    | k :: todo =>
      match sh.table.get k with
      | some e =>
        if e.owner = some conn then
          if 0 < cfg.linger then (t.goto (.dSet conn k e todo), sh) else (t.goto (.dDel conn k todo), sh)
        else (contD conn todo t, sh)
      | none => (contD conn todo t, sh)
  | .dSet conn k e todo =>
    (contD conn todo t, { sh with table := sh.table.set k { owner := none, created := e.created, linger := sh.now } })
  | .dDel conn k todo =>
    match remove mode.disc sh.table k with
    | none => (t.finish .keyError none, sh)
    | some t' => (contD conn todo t, { sh with table := t' })
  | .hKeys1 => (contH1 cfg (sh.table.map (·.1)) t, sh)
  | .hGet1 todo =>
    match todo with
    | [] => (afterLife cfg t, sh)
    | k :: todo =>
      match sh.table.get k with
      | some e => if rLifeExpired cfg sh.now e then (t.goto (.hDel1 k todo), sh) else (contH1 cfg todo t, sh)
      | none => (contH1 cfg todo t, sh)
  | .hDel1 k todo =>
    match remove mode.hk sh.table k with
    | none => (t.finish .keyError none, sh)
    | some t' => (contH1 cfg todo t, { sh with table := t' })
  | .hKeys2 => (contH2 (sh.table.map (·.1)) t, sh)
  | .hGet2 todo =>
    match todo with
    | [] => (t.finish .ok none, sh)
    | k :: todo =>
      match sh.table.get k with
      | some e => if rLingerExpired cfg sh.now e then (t.goto (.hDel2 k todo), sh) else (contH2 todo t, sh)
      | none => (contH2 todo t, sh)
  | .hDel2 k todo =>
    match remove mode.hk sh.table k with
    | none => (t.finish .keyError none, sh)
    | some t' => (contH2 todo t, { sh with table := t' })

structure Config where
  shared : Shared
  threads : List Thread
  deriving DecidableEq, Repr

def Config.init (table : RTable) (heap : List (List Item)) (now : Nat) (progs : List (List Call)) : Config :=
  { shared := { table := table, heap := heap, handed := [], now := now }, threads := progs.map Thread.new }

/-- one scheduling decision: thread `tid` performs its next micro-step (a finished thread stutters) -/
def stepT (mode : Modes) (cfg : Settings) (c : Config) (tid : Nat) : Config :=
  match c.threads[tid]? with
  | none => c
  | some t =>
    let p := micro mode cfg t c.shared
    { shared := p.2, threads := c.threads.set tid p.1 }

def run (mode : Modes) (cfg : Settings) (c : Config) (schedule : List Nat) : Config :=
  schedule.foldl (stepT mode cfg) c

/-- what `next()` calls on stream `sid` produced so far, in order -/
def handedOf (sid : Nat) (h : List (Nat × Item)) : List Item := (h.filter (·.1 = sid)).map (·.2)

/-! ### all interleavings (for the correspondence run) -/

def runnable (c : Config) : List Nat :=
  (List.range c.threads.length).filter fun i => match c.threads[i]? with
    | some t => !t.finished
    | none => false

/-- breadth-first over all schedules, merging equal configurations; `fuel` bounds the number of micro-steps -/
def explore (mode : Modes) (cfg : Settings) : Nat → List Config → List Config → List Config
  | 0, _, acc => acc
  | fuel + 1, frontier, acc =>
    if frontier.isEmpty then acc
    else
      let finals := frontier.filter (fun c => (runnable c).isEmpty)
      let next := (frontier.flatMap fun c => (runnable c).map (stepT mode cfg c)).eraseDups
      explore mode cfg fuel next (acc ++ finals)

/-! ### line protocol -/

def rresStr : RRes → String
  | .item v => s!"item{v}"
  | .stop => "stop"
  | .raised e => s!"raised{e}"
  | .terminated => "term"
  | .ok => "ok"
  | .keyError => "keyerr"

def itemStr : Item → String
  | .val v => s!"v{v}"
  | .raises e => s!"r{e}"

def dash (s : String) : String := if s.isEmpty then "-" else s

def outcomeStr (c : Config) : String :=
  let res := "/".intercalate (c.threads.map fun t => dash (",".intercalate (t.done.map fun d =>
    match d.2 with
    | (.keyError, some _) => "keyerr!"       -- a KeyError that replaced the outcome of `next(stream)`
    | (r, _) => rresStr r)))
  let tab := dash (";".intercalate (c.shared.table.map fun (k, e) =>
    s!"{k}:{match e.owner with | none => "n" | some o => toString o}:{e.created}:{e.linger}"))
  let heap := "/".intercalate (c.shared.heap.map fun l => dash (",".intercalate (l.map itemStr)))
  s!"{res} # {tab} # {heap}"

def parseItem (s : String) : Option Item :=
  if s.startsWith "v" then (s.drop 1).toNat?.map .val
  else if s.startsWith "r" then (s.drop 1).toNat?.map .raises
  else none

def parseItems (s : String) : Option (List Item) :=
  if s == "-" then some [] else (s.splitOn ",").mapM parseItem

def parseEntry (s : String) : Option (Nat × REntry) :=
  match s.splitOn ":" with
  | [k, o, c, l] => do
    let owner ← if o == "n" then some none else o.toNat?.map some
    pure (← k.toNat?, { owner := owner, created := ← c.toNat?, linger := ← l.toNat? })
  | _ => none

def parseTable (s : String) : Option RTable :=
  if s == "-" then some [] else (s.splitOn ";").mapM parseEntry

def parseCall (s : String) : Option Call :=
  match s.splitOn "." with
  | ["N", sid, conn] => do pure (.next (← sid.toNat?) (← conn.toNat?))
  | ["C", sid] => do pure (.close (← sid.toNat?))
  | ["D", conn] => do pure (.disconnect (← conn.toNat?))
  | ["H"] => some .housekeeping
  | _ => none

def parseProg (s : String) : Option (List Call) := (s.splitOn "+").mapM parseCall

def raceLine : List String → String
  | mode :: lifetime :: linger :: now :: table :: heap :: progs =>
    match lifetime.toInt?, linger.toInt?, now.toNat?, parseTable table, (heap.splitOn "/").mapM parseItems,
          progs.mapM parseProg with
    | some lt, some lg, some nw, some tb, some hp, some ps =>
      let cfg : Settings := { streaming := true, lifetime := lt, linger := lg }
      let rm := fun (c : Char) => if c == 't' then Removal.tolerant else Removal.strict
      let ms := mode.toList
      let m : Modes := { next := rm (ms.getD 0 's'), close := rm (ms.getD 1 's'), disc := rm (ms.getD 2 's'), hk := rm (ms.getD 3 's') }
      let finals := explore m cfg 200 [Config.init tb hp nw ps] []
      " || ".intercalate ((finals.map outcomeStr).eraseDups)
    | _, _, _, _, _, _ => "bad-op"
  | _ => "bad-op"

end Pyro.StreamsRace
