/-
  C02 (round 5) — the per-class member-list cache of `_get_exposed_members` (server.py) with computations that do
  not complete.  Core Lean only.

  `_get_exposed_members`: `if cache_key in cache: return cache[cache_key]` … loop over `dir(cls)` (each
  `getattr(cls, name)` may raise: a class attribute that is a descriptor failing on class-level access) …
  `cache[cache_key] = result; return result`.  The cache entry is written only after the loop has completed, so a
  computation that raises part-way leaves the cache as it was, and two computations that overlap (two first
  connects) each build a list of their own.
-/
import PyroModel.Expose

namespace Pyro.Expose

inductive CacheEv
  | step (s : Step)      -- run-time change of the object / its classes
  | reset                -- Daemon.resetMetadataCache
  | get                  -- a get_metadata / connect handshake whose computation (if one is needed) completes
  | getFails             -- a get_metadata during which a class-level attribute lookup raises (if a computation is needed)
  | getPair              -- two requests that overlap: the second starts while the first is still inside the loop
  deriving DecidableEq, Repr

/-- what each request is told (`none` = error reply, no list); first argument = the cache entry of the class -/
def advertisedF : Option Meta → Shape → List CacheEv → List (Option Meta)
  | _, _, [] => []
  | c, sh, .step s :: rest => advertisedF c (applyStep sh s) rest
  | _, sh, .reset :: rest => advertisedF none sh rest
  | some m, sh, .get :: rest => some m :: advertisedF (some m) sh rest
  | none, sh, .get :: rest => some (metadata sh) :: advertisedF (some (metadata sh)) sh rest
  | some m, sh, .getFails :: rest => some m :: advertisedF (some m) sh rest     -- cached: nothing is computed, nothing can fail
  | none, sh, .getFails :: rest => none :: advertisedF none sh rest             -- the entry is written after the loop only
  | some m, sh, .getPair :: rest => some m :: some m :: advertisedF (some m) sh rest
  | none, sh, .getPair :: rest =>
      some (metadata sh) :: some (metadata sh) :: advertisedF (some (metadata sh)) sh rest

/-- the states the object goes through -/
def statesF : Shape → List CacheEv → List Shape
  | sh, [] => [sh]
  | sh, .step s :: rest => sh :: statesF (applyStep sh s) rest
  | sh, _ :: rest => statesF sh rest

end Pyro.Expose
