/-
  C06Glue.lean — the vocabulary of the *shallow* transcription of `protocol.recv_stub` (harness/props/c06_tr.py writes
  `Pyro.Gen.C06.recvStubGlueSrc` in these terms on every run; PyroProps/C06Src.lean proves it equal to `Wire.recvStub`).

  `M α`      a computation over the connection: state = (bytes requested so far, unread stream), outcome = a value or the error
             raised; `none` = a collaborator left the fragment its own transcription is understood in (never happens for the
             model's operations; proved never to happen for the transcribed ones)
  `gRecv n`  `connection.recv(n)`: exactly the next n bytes or ConnectionClosedError (that contract is property C17)
  `Ops`      the collaborators `recv_stub` calls: `ReceivingMessage.validate`, `ReceivingMessage(header)`, `msg.add_payload`
  Executable, core Lean only (linked into the driver).
-/
import PyroModel.Wire

namespace Pyro.C06Glue

open Pyro Pyro.Wire

structure Conn where
  requested : Nat
  rest : Bytes

abbrev M (α : Type) := Conn → Option (Except DecErr α × Conn)

def gRet {α : Type} (a : α) : M α := fun c => some (.ok a, c)

/-- `raise X` -/
def gRaise {α : Type} (e : DecErr) : M α := fun c => some (.error e, c)

/-- statement sequencing: an exception ends the function, the connection stays as it is then -/
def gBind {α β : Type} (m : M α) (f : α → M β) : M β := fun c =>
  match m c with
  | none => none
  | some (.error e, c') => some (.error e, c')
  | some (.ok a, c') => f a c'

/-- `connection.recv(n)` (Wire.recvN; FakeConn in the harness: the request is counted, a short stream is drained) -/
def gRecv (n : Nat) : M Bytes := fun c =>
  match recvN n c.rest with
  | none => some (.error .closed, ⟨c.requested + n, []⟩)
  | some (b, r) => some (.ok b, ⟨c.requested + n, r⟩)

/-- a collaborator that does not touch the connection -/
def gLift {α : Type} (x : Option (Except DecErr α)) : M α := fun c =>
  match x with
  | none => none
  | some r => some (r, c)

/-- the collaborators of `recv_stub` -/
structure Ops where
  /-- `ReceivingMessage.validate(data)`: returns or raises -/
  validate : Bytes → Option (Except DecErr Unit)
  /-- `ReceivingMessage(header)`: the message before its body is added -/
  construct : Bytes → Option (Except DecErr Header)
  /-- `msg.add_payload(payload)`: the message afterwards -/
  addPayload : Header → Bytes → Option (Except DecErr Decoded)

/-- run on a fresh connection over `stream` -/
def run (m : M Decoded) (stream : Bytes) : Option StubResult :=
  match m ⟨0, stream⟩ with
  | none => none
  | some (out, c) => some ⟨out, c.requested, c.rest⟩

/-- the model's own operations: `validate` on the 6-byte prefix as `Wire.recvStub` writes it, `parseHeader`, `addPayload` -/
def modelOps (cfg : Cfg) (z : Zlib) : Ops where
  validate := fun h6 =>
    if h6.take 4 ≠ tagPYRO then some (.error .protocol)
    else if h6.drop 4 ≠ toBE 2 protocolVersion then some (.error .protocol)
    else some (.ok ())
  construct := fun h => some (parseHeader cfg h)
  addPayload := fun hdr body => some (addPayload z hdr body)

end Pyro.C06Glue
