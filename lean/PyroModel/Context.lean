/-
  Context.lean — model of the per-call context and of the response-annotation dictionaries
  (Pyro5/callcontext.py, server.py handleRequest 394-524, _handshake 318-366, __annotations 776-779,
  _sendExceptionResponse 617-636, _OnewayCallThread 1000-1013).

  `current_context` is thread local; `response_annotations` is a Python dict, i.e. an OBJECT that a
  oneway thread shares with the thread that spawned it (to_global() copies references).  The model
  therefore has an explicit heap of dict objects; every key carries the id of the request whose
  method wrote it, so that "whose annotation is this?" is a question about data, not about intent.

  Events are atomic (one request handled to completion); the write of a oneway method is a separate
  event that the schedule may place anywhere later.  Worker = OS thread: the multiplex server has
  one worker for all connections, the thread-pool server one per connection at a time (reused).
-/

namespace Pyro.Context

/-- a dict object: which request's handling created it, and its keys with the request that wrote each -/
structure Dict where
  owner : Nat
  keys : List (Nat × Nat)        -- (annotation key, writer request id)
  deriving Repr, DecidableEq

inductive AnnMode where
  | assign      -- `ctx.response_annotations = {**ctx.response_annotations, k: v}` (new dict object)
  | mutate      -- `ctx.response_annotations[k] = v` (same dict object)
  deriving Repr, DecidableEq

inductive Kind where
  | handshake (ok : Bool)
  | ping
  | call (keys : List Nat) (mode : AnnMode) (raises : Bool)      -- normal call: method sets keys, then returns / raises
  | oneway (keys : List Nat) (mode : AnnMode)                    -- oneway call: the method runs later, in its own thread
  | refused                                                       -- error before any method runs (unknown object, gate)
  deriving Repr, DecidableEq

/-- what of a request the context exposes -/
structure ReqInfo where
  conn : Nat
  seq : Nat
  flags : Nat
  serId : Nat
  anns : List Nat
  corr : Nat
  deriving Repr, DecidableEq

inductive Event where
  | request (worker : Nat) (rid : Nat) (info : ReqInfo) (kind : Kind)
  | onewayRun (rid : Nat)            -- the oneway thread of request `rid` performs its writes now
  deriving Repr, DecidableEq

structure Reply where
  rid : Nat
  conn : Nat
  keys : List (Nat × Nat)          -- (key, writer) sent with the reply; daemon-level annotations are writer-less and omitted
  deriving Repr, DecidableEq

structure Snapshot where             -- what a method saw when it ran
  rid : Nat
  seen : ReqInfo
  deriving Repr, DecidableEq

structure Pending where              -- a started oneway thread that has not written yet
  rid : Nat
  dict : Nat                         -- the dict OBJECT its context copy refers to
  keys : List Nat
  mode : AnnMode
  info : ReqInfo
  deriving Repr, DecidableEq

structure State where
  heap : List Dict := []
  tls : List (Nat × Nat) := []       -- worker ↦ id of its current response_annotations dict
  replies : List Reply := []
  snaps : List Snapshot := []
  pending : List Pending := []
  deriving Repr

def State.cur (s : State) (w : Nat) : Option Nat := (s.tls.find? (·.1 = w)).map (·.2)

def setTls (tls : List (Nat × Nat)) (w d : Nat) : List (Nat × Nat) := (w, d) :: tls.filter (·.1 ≠ w)

/-- allocate a fresh dict owned by request `rid` with the given keys; returns its id -/
def alloc (s : State) (rid : Nat) (keys : List (Nat × Nat)) : State × Nat :=
  ({ s with heap := s.heap ++ [⟨rid, keys⟩] }, s.heap.length)

def writeKeys (d : Dict) (keys : List Nat) (writer : Nat) : Dict :=
  { d with keys := d.keys ++ keys.map (fun k => (k, writer)) }

def heapWrite (heap : List Dict) (id : Nat) (keys : List Nat) (writer : Nat) : List Dict :=
  match heap[id]? with
  | some d => heap.set id (writeKeys d keys writer)
  | none => heap

/-- the method of request `rid`, running on a context whose response_annotations is dict `d`,
    sets `keys`: returns the new heap and the dict its context refers to afterwards -/
def methodWrites (s : State) (rid d : Nat) (keys : List Nat) (mode : AnnMode) : State × Nat :=
  match mode with
  | .mutate => ({ s with heap := heapWrite s.heap d keys rid }, d)
  | .assign =>
    let old := (s.heap[d]?.map (·.keys)).getD []
    alloc s rid (old ++ keys.map (fun k => (k, rid)))

def step (s : State) : Event → State
  | .request w rid info kind =>
    -- every request and every handshake starts with a fresh dict (server.py: `response_annotations = {}`)
    let (s, d) := alloc s rid []
    let s := { s with tls := setTls s.tls w d }
    match kind with
    | .handshake _ | .ping =>
      -- reply built from __annotations(): the current dict (plus daemon annotations)
      { s with replies := s.replies ++ [⟨rid, info.conn, (s.heap[d]?.map (·.keys)).getD []⟩] }
    | .refused =>
      -- error reply: built from the annotations argument and daemon.annotations() only
      { s with replies := s.replies ++ [⟨rid, info.conn, []⟩] }
    | .call keys mode raises =>
      let s := { s with snaps := s.snaps ++ [⟨rid, info⟩] }
      let (s, d') := methodWrites s rid d keys mode
      let s := { s with tls := setTls s.tls w d' }
      if raises then
        { s with replies := s.replies ++ [⟨rid, info.conn, []⟩] }
      else
        -- normal reply carries the current dict; then `response_annotations = {}`
        let sent := (s.heap[d']?.map (·.keys)).getD []
        let (s, d'') := alloc s rid []
        { s with replies := s.replies ++ [⟨rid, info.conn, sent⟩], tls := setTls s.tls w d'' }
    | .oneway keys mode =>
      -- _OnewayCallThread: context copy shares the dict object `d`; nothing is sent
      { s with pending := s.pending ++ [⟨rid, d, keys, mode, info⟩] }
  | .onewayRun rid =>
    match s.pending.find? (·.rid = rid) with
    | none => s
    | some p =>
      let s := { s with pending := s.pending.filter (·.rid ≠ rid), snaps := s.snaps ++ [⟨p.rid, p.info⟩] }
      (methodWrites s p.rid p.dict p.keys p.mode).1

def run (s : State) (evs : List Event) : State := evs.foldl step s

/-! ### the client side (client.py `_pyroInvoke` 229-286, connection handshake 340-357) -/

/-- what one `_pyroInvoke` meets, as far as `current_context.response_annotations` is concerned -/
structure ClientCall where
  connects : Bool               -- a handshake happens inside this call (reconnect of a proxy that knows its metadata;
                                -- a fresh proxy connects earlier, in __getattr__, before the per-call reset)
  handshakeAnns : List Nat      -- annotation keys on the CONNECTOK answer
  reply : Option (List Nat)     -- annotation keys on the reply that was read; none = oneway / failed before a reply was read
  deriving Repr, DecidableEq

/-- the client's response_annotations after the call, given what they were before it -/
def clientAfter (_before : List Nat) (c : ClientCall) : List Nat :=
  let ra : List Nat := []                                                      -- `response_annotations = {}` first
  let ra := if c.connects && !c.handshakeAnns.isEmpty then c.handshakeAnns else ra   -- `if msg.annotations:` (handshake)
  match c.reply with
  | some anns => if anns.isEmpty then ra else anns                             -- `if msg.annotations:` (reply)
  | none => ra

/-- what the client observes after each call of a sequence -/
def clientRun : List Nat → List ClientCall → List (List Nat)
  | _, [] => []
  | before, c :: cs => clientAfter before c :: clientRun (clientAfter before c) cs

/-! ### the client on the wire (client.py `Proxy._pyroInvoke` 229-286, whole function; round 5)

  The proxy's connection is a byte stream: replies the peer sent and the client has not read yet stay
  on it (`inbox`).  A call reads the NEXT message, whichever call it answers; it accepts it only if it
  carries the call's own sequence number and serializer.  A wait interrupted by an application
  exception (not a CommunicationError: the proxy stays connected) leaves the reply unread. -/

structure PeerReply where
  forCall : Nat                 -- the sequence number the message carries
  typeOk : Bool                 -- it is a MSG_RESULT
  serOk : Bool                  -- serializer id equals the request's
  anns : List Nat               -- annotation keys on it
  stream : Bool := false        -- FLAGS_ITEMSTREAMRESULT
  noStreamId : Bool := false    -- ... without a STRM annotation
  excFlag : Bool := false       -- FLAGS_EXCEPTION: the payload is raised
  excIsComm : Bool := false     -- ... and is an instance of CommunicationError
  deriving Repr, DecidableEq

/-- what the peer sends in answer to one request (`seqDelta = 0`: it answers with the request's seq) -/
structure PeerSpec where
  seqDelta : Nat
  typeOk : Bool
  serOk : Bool
  anns : List Nat
  stream : Bool := false
  noStreamId : Bool := false
  excFlag : Bool := false
  excIsComm : Bool := false
  deriving Repr, DecidableEq

structure WCall where
  releaseFirst : Bool           -- the application released the proxy before this call
  hsOk : Bool                   -- a handshake inside this call is answered CONNECTOK (else CONNECTFAIL)
  hsAnns : List Nat             -- annotation keys on that answer
  oneway : Bool                 -- flags & FLAGS_ONEWAY after the method-name lookup
  raw : Bool := false           -- proxy._pyroRawWireResponse
  peer : Option PeerSpec        -- the peer's answer to this request (none: it sends nothing)
  interrupted : Bool            -- an application exception interrupts the wait for the reply
  deriving Repr, DecidableEq

structure CState where
  connected : Bool := false
  seq : Nat := 0
  inbox : List PeerReply := []
  ra : List Nat := []           -- current_context.response_annotations (keys)
  deriving Repr, DecidableEq

/-- classes of exception that can leave the `try` block of `_pyroInvoke` -/
inductive ExcCls where
  | app            -- an application exception (signal handler, remote exception that is no CommunicationError)
  | connClosed     -- errors.ConnectionClosedError (recv on a closed connection)
  | protocol       -- errors.ProtocolError (recv_stub: unexpected message type; sequence check; stream without id)
  | serialize      -- errors.SerializeError
  | keyboard       -- KeyboardInterrupt
  deriving Repr, DecidableEq

inductive Exit where
  | ret
  | raised (c : ExcCls)
  deriving Repr, DecidableEq

inductive Recv where
  | raised (c : ExcCls)
  | msg (r : PeerReply)
  deriving Repr, DecidableEq

def releaseOp (s : CState) : CState := { s with connected := false, inbox := [] }

/-- `__pyroCreateConnection` as far as this state is concerned (client.py 296-357): CONNECTFAIL raises and
    leaves the proxy unconnected; CONNECTOK records the answer's annotations if there are any -/
def connectOp (s : CState) (c : WCall) : CState × Bool :=
  if c.hsOk then
    ({ s with connected := true, inbox := [], ra := if !c.hsAnns.isEmpty then c.hsAnns else s.ra }, true)
  else (s, false)

def mkReply (seq : Nat) (p : PeerSpec) : PeerReply :=
  ⟨seq + p.seqDelta, p.typeOk, p.serOk, p.anns, p.stream, p.noStreamId, p.excFlag, p.excIsComm⟩

/-- `self._pyroConnection.send(msg.data)`: the peer's answer (if any) is queued behind what is unread -/
def sendOp (s : CState) (c : WCall) : CState :=
  { s with inbox := s.inbox ++ (c.peer.map (mkReply s.seq)).toList }

/-- `protocol.recv_stub(conn, [MSG_RESULT])` -/
def recvOp (s : CState) (c : WCall) : CState × Recv :=
  if c.interrupted then (s, .raised .app) else
  match s.inbox with
  | [] => (s, .raised .connClosed)
  | r :: rest => if r.typeOk then ({ s with inbox := rest }, .msg r) else (s, .raised .protocol)

def nextSeq (n _mask : Nat) : Nat := n + 1     -- wrap-around after 65536 calls is outside the model

/-- `except (errors.CommunicationError, KeyboardInterrupt): self._pyroRelease(); raise` -/
def handlerCatchesModel : ExcCls → Bool
  | .app => false
  | _ => true

def tryRelease (catches : ExcCls → Bool) (x : CState × Exit) : CState :=
  match x with
  | (s, .raised e) => if catches e then releaseOp s else s
  | (s, .ret) => s

/-- the `try` block of `_pyroInvoke`: send, then (unless oneway) read ONE message and validate it -/
def invokeBody (s : CState) (c : WCall) : CState × Exit :=
  let s := sendOp s c
  if c.oneway then (s, .ret) else
  match recvOp s c with
  | (s, .raised e) => (s, .raised e)
  | (s, .msg r) =>
    if r.forCall != s.seq then (s, .raised .protocol) else
    if !r.serOk then (s, .raised .serialize) else
    let s := if !r.anns.isEmpty then { s with ra := r.anns } else s
    if c.raw then (s, .ret) else
    if r.stream then (if r.noStreamId then (s, .raised .protocol) else (s, .ret)) else
    if r.excFlag then (s, .raised (if r.excIsComm then .connClosed else .app)) else (s, .ret)

/-- hand-written model of `_pyroInvoke`: the state after the call -/
def pyroInvoke (s : CState) (c : WCall) : CState :=
  let s := { s with ra := [] }
  match (if s.connected then (s, true) else connectOp s c) with
  | (s, false) => s
  | (s, true) =>
    let s := { s with seq := nextSeq s.seq 65535 }
    tryRelease handlerCatchesModel (invokeBody s c)

def wcall (s : CState) (c : WCall) : CState :=
  pyroInvoke (if c.releaseFirst then releaseOp s else s) c

/-- the states after each call of a history -/
def wrun : CState → List WCall → List CState
  | _, [] => []
  | s, c :: cs => wcall s c :: wrun (wcall s c) cs

end Pyro.Context
