/-
  Gateway.lean — model of the HTTP gateway, Pyro5/utils/httpgateway.py
  (pyro_app 290-316, process_pyro_request 211-287, return_homepage 168-208,
  singlyfy_parameters 319-327), for property C20.

  The model starts at the WSGI `environ` (the WSGI server's decoding of the request line is outside).
  Text is a list of code points (`Str`).  Externals are parameters (`Backend`): `re.match` on the
  expose pattern, the name server, the proxy objects and the remote objects behind them.  Every use
  of such an external is recorded as an `Action`, in program order: the action list is the
  "log of name-server lookups and object invocations behind the gateway" the property observes.
  `urllib.parse.parse_qs` and `uuid.UUID` are externals too: the request carries their results.

  The model follows the tree WITH fixes/C20-dupkey.patch and fixes/C20-proxy-local-member.patch
  applied (see notes/C20.md); an exception that leaves `pyro_app` is the explicit reply `escaped`.
-/
import PyroModel.Bytes

namespace Pyro.Gateway

open Pyro

/-- Python `str` as code points. -/
abbrev Str := List Nat

def sPyro : Str := [112, 121, 114, 111, 47]                 -- "pyro/"
def sGET : Str := [71, 69, 84]                              -- "GET"
def sPOST : Str := [80, 79, 83, 84]                         -- "POST"
def sOPTIONS : Str := [79, 80, 84, 73, 79, 78, 83]          -- "OPTIONS"
def sKey : Str := [36, 107, 101, 121]                       -- "$key"
def sMeta : Str := [36, 109, 101, 116, 97]                  -- "$meta"
def sOneway : Str := [111, 110, 101, 119, 97, 121]          -- "oneway"
def sSelf : Str := [115, 101, 108, 102]                     -- "self"
def cSlash : Nat := 47
def cNewline : Nat := 10
def cComma : Nat := 44

/-! ### small string functions of the Python code -/

/-- `path.lstrip('/')` -/
def lstripSlash : Str → Str
  | [] => []
  | c :: rest => if c = cSlash then lstripSlash rest else c :: rest

/-- the part of a string `.` can run over from the start: up to the first `\n` -/
def firstLine : Str → Str
  | [] => []
  | c :: rest => if c = cNewline then [] else c :: firstLine rest

/-- `re.match(r"(.+)/(.+)", line)` on a string without newline: both groups greedy, so the split
    is at the LAST '/' that has at least one character before it and one after it.
    `acc` = the characters already passed, `best` = last admissible split seen so far. -/
def splitGo (acc : Str) (best : Option (Str × Str)) : Str → Option (Str × Str)
  | [] => best
  | c :: rest =>
    splitGo (acc ++ [c]) (if c = cSlash ∧ acc ≠ [] ∧ rest ≠ [] then some (acc, rest) else best) rest

/-- `re.match(r"(.+)/(.+)", path).groups()` (httpgateway.py:216-219); `.` does not match '\n',
    so only the first line of the path takes part. -/
def splitPath (path : Str) : Option (Str × Str) := splitGo [] none (firstLine path)

/-- `s.split(",")` -/
def splitOn (sep : Nat) : Str → List Str
  | [] => [[]]
  | c :: rest =>
    if c = sep then [] :: splitOn sep rest
    else match splitOn sep rest with
      | [] => [[c]]
      | h :: t => (c :: h) :: t

def utf8Char (c : Nat) : Bytes :=
  if c < 0x80 then [UInt8.ofNat c]
  else if c < 0x800 then [UInt8.ofNat (0xC0 + c / 64), UInt8.ofNat (0x80 + c % 64)]
  else if c < 0x10000 then
    [UInt8.ofNat (0xE0 + c / 4096), UInt8.ofNat (0x80 + c / 64 % 64), UInt8.ofNat (0x80 + c % 64)]
  else
    [UInt8.ofNat (0xF0 + c / 262144), UInt8.ofNat (0x80 + c / 4096 % 64),
     UInt8.ofNat (0x80 + c / 64 % 64), UInt8.ofNat (0x80 + c % 64)]

/-- `s.encode("utf-8")` for a string without surrogates (environ strings are latin-1, PEP 3333) -/
def utf8 (s : Str) : Bytes := s.flatMap utf8Char

/-- code-point order of Python `str` comparison -/
def strLe : Str → Str → Bool
  | [], _ => true
  | _ :: _, [] => false
  | a :: as, b :: bs => if a < b then true else if b < a then false else strLe as bs

def insertS (x : Str) : List Str → List Str
  | [] => [x]
  | y :: ys => if strLe x y then x :: y :: ys else y :: insertS x ys

/-- `sorted(names)` -/
def sortS (l : List Str) : List Str := l.foldr insertS []

/-! ### query parameters -/

/-- a value of the parameter dict after `singlyfy_parameters`: a `str`, or still a `list` -/
inductive PVal where
  | one (v : Str)
  | many (vs : List Str)
  deriving DecidableEq, Repr

/-- the parameter dict, in insertion order (keys distinct) -/
abbrev Params := List (Str × PVal)

/-- `singlyfy_parameters(parse_qs(...))` (httpgateway.py:319-327): a one-element list becomes its element. -/
def singlyfy (q : List (Str × List Str)) : Params :=
  q.map fun kv => match kv.2 with
    | [v] => (kv.1, PVal.one v)
    | vs => (kv.1, PVal.many vs)

/-- `parameters.get(k)` -/
def lookupP (k : Str) : Params → Option PVal
  | [] => none
  | kv :: rest => if kv.1 = k then some kv.2 else lookupP k rest

/-- `del parameters[k]` (if present) -/
def eraseP (k : Str) (ps : Params) : Params := ps.filter fun kv => decide (kv.1 ≠ k)

/-! ### requests, configuration, replies -/

/-- `HTTP_X_PYRO_CORRELATION_ID`: missing or empty / `uuid.UUID(..)` raises ValueError / parses -/
inductive Corr where
  | absent | invalid | valid
  deriving DecidableEq, Repr

/-- the parts of `environ` the gateway reads -/
structure Req where
  method : Str                        -- REQUEST_METHOD
  path : Str                          -- PATH_INFO
  query : List (Str × List Str)       -- urllib.parse.parse_qs(QUERY_STRING), in dict order
  keyHeader : Str                     -- HTTP_X_PYRO_GATEWAY_KEY ("" when absent)
  options : Str                       -- HTTP_X_PYRO_OPTIONS ("" when absent)
  corr : Corr                         -- HTTP_X_PYRO_CORRELATION_ID

/-- `pyro_app.gateway_key` (None or bytes) and `pyro_app.ns_regex` (None or str) -/
structure Cfg where
  key : Option Bytes
  pattern : Option Str

/-- exception classes that reach the HTTP client as `{"__class__": ...}` -/
inductive ErrCls where
  | assertion      -- builtins.AssertionError
  | attribute      -- builtins.AttributeError
  | value          -- builtins.ValueError
  | type           -- builtins.TypeError
  | other (id : Nat)   -- any class the backend raises (id = index in the harness's table)
  deriving DecidableEq, Repr

inductive Lit where
  | notAllowed    -- b'Error 405: Method Not Allowed'
  | optionsOk     -- b'200 OK'
  | notFound      -- b'Error 404: Not Found'
  | badKey        -- b"403 Forbidden - incorrect gateway api key"
  | denied        -- b"403 Forbidden - access to the requested object has been denied"
  | nsDown        -- b"Cannot connect to the Pyro name server. ..."
  deriving DecidableEq, Repr

inductive CType where
  | none | plain | html | json
  deriving DecidableEq, Repr

inductive Body where
  | empty                                       -- `return []`
  | lit (t : Lit)                               -- one of the gateway's own texts
  | raw (data : Bytes)                          -- `[msg.data]`: the call's serialized answer, untouched
  | metaInfo (methods attrs : List Str)           -- json of {"methods": [...], "attributes": [...]}
  | error (cls : ErrCls)                        -- json of class_to_dict(exception)
  | homepage (rows : List (Str × Bool))         -- index page: listed names, in order (Bool: metadata obtained)
  deriving DecidableEq, Repr

structure Response where
  status : Nat
  ctype : CType
  corrId : Bool        -- an X-Pyro-Correlation-Id header is sent
  body : Body
  deriving DecidableEq, Repr

inductive Reply where
  | http (r : Response)
  | escaped (cls : ErrCls)     -- an exception leaves pyro_app (the WSGI server answers, not the gateway)
  deriving DecidableEq, Repr

/-- everything the gateway does to the name server, a proxy or a remote object -/
inductive Action where
  | getNameServer                                   -- get_nameserver()
  | nsList (regex : Option Str)                     -- nameserver.list(regex=...)
  | lookup (name : Str)                             -- nameserver.lookup(name)
  | batchLookup (names : List Str)                  -- one batch of nameserver.lookup calls (index page)
  | connect (uri : Str)                             -- client.Proxy(uri)
  | bind (uri : Str)                                -- proxy._pyroBind()
  | getMetadata (uri : Str)                         -- proxy._pyroGetMetadata()
  | call (uri member : Str) (params : Params) (oneway : Bool)   -- remote method invocation
  | getattr (uri member : Str)                      -- remote attribute read
  | release (uri : Str)                             -- proxy.__exit__ → _pyroRelease()
  deriving DecidableEq, Repr

/-- what `proxy._pyroInvoke` gives back with `_pyroRawWireResponse = True` -/
inductive CallResult where
  | none                       -- None (oneway call)
  | ret (data : Bytes)         -- a message without FLAGS_EXCEPTION
  | exc (data : Bytes)         -- a message with FLAGS_EXCEPTION
  | raised (cls : ErrCls)      -- the invocation itself raised (communication error, ...)
  deriving DecidableEq, Repr

structure Meta where
  methods : List Str
  attrs : List Str
  oneway : List Str

/-- the world behind the gateway; the theorems quantify over all of them -/
structure Backend where
  rmatch : Str → Str → Bool                       -- `re.match(pattern, name) is not None`
  nsGet : Option ErrCls                           -- get_nameserver(): returns / raises
  nsGetIsNaming : Bool                            -- that exception is an errors.NamingError
  nsList : Option Str → Except ErrCls (List Str)  -- keys of nameserver.list(regex=..), dict order
  lookup : Str → Except ErrCls Str                -- nameserver.lookup(name): uri / raises
  connect : Str → Option ErrCls                   -- client.Proxy(uri) raises?
  isPyroError : ErrCls → Bool                     -- subclass of errors.PyroError
  bind : Str → Option ErrCls                      -- proxy._pyroBind() raises?
  getMeta : Str → Except ErrCls Meta                -- proxy._pyroGetMetadata(): member names / raises
  call : Str → Str → Params → Bool → CallResult   -- uri, member, kwargs, oneway
  getattr : Str → Str → CallResult                -- uri, attribute

/-! ### fixed replies (httpgateway.py:58-77) -/

def resp405 : Response := ⟨405, .plain, false, .lit .notAllowed⟩
def respOptions : Response := ⟨200, .plain, false, .lit .optionsOk⟩
def resp404 : Response := ⟨404, .plain, false, .lit .notFound⟩
def resp302 : Response := ⟨302, .none, false, .empty⟩
def respBadKey : Response := ⟨403, .plain, false, .lit .badKey⟩
def respDenied : Response := ⟨403, .plain, false, .lit .denied⟩
def respNsDown : Response := ⟨500, .plain, false, .lit .nsDown⟩
/-- the `except Exception as x:` handler (281-287) -/
def resp500 (cls : ErrCls) : Response := ⟨500, .json, false, .error cls⟩

/-! ### the key and pattern checks (220-230) -/

/-- `if pyro_app.gateway_key:` — None and b"" both switch the check off -/
def keyConfigured (cfg : Cfg) : Bool :=
  match cfg.key with
  | none => false
  | some k => !k.isEmpty

/-- `environ.get("HTTP_X_PYRO_GATEWAY_KEY", "") or parameters.get("$key", "")` -/
def presentedKey (req : Req) (params : Params) : PVal :=
  if req.keyHeader ≠ [] then .one req.keyHeader
  else match lookupP sKey params with
    | some v => v
    | none => .one []

/-- the key check passes (or is switched off).  A `$key` that is a list (repeated parameter) is
    never the key (fixes/C20-dupkey.patch; the unfixed code raised AttributeError here). -/
def keyOK (cfg : Cfg) (req : Req) (params : Params) : Bool :=
  if keyConfigured cfg then
    match presentedKey req params with
    | .one s => decide (some (utf8 s) = cfg.key)
    | .many _ => false
  else true

/-- parameters that go on: `$key` is removed only when a key is configured (226-227) -/
def forwardParams (cfg : Cfg) (params : Params) : Params :=
  if keyConfigured cfg then eraseP sKey params else params

/-- `not (pyro_app.ns_regex and not re.match(pyro_app.ns_regex, object_name))` -/
def patternOK (cfg : Cfg) (be : Backend) (obj : Str) : Bool :=
  match cfg.pattern with
  | none => true
  | some p => p.isEmpty || be.rmatch p obj

/-! ### forwarding (231-287) -/

/-- `"oneway" in environ.get("HTTP_X_PYRO_OPTIONS", "").split(",")` -/
def onewayOpt (req : Req) : Bool := (splitOn cComma req.options).contains sOneway

/-- response for the message the invocation gave back (261-280) -/
def replyOfResult (ow : Bool) : CallResult → Response
  | .none => ⟨200, .json, true, .empty⟩
  | .raised cls => resp500 cls
  | .ret d => if ow then ⟨200, .json, true, .empty⟩ else ⟨200, .json, true, .raw d⟩
  | .exc d => if ow then ⟨200, .json, true, .empty⟩ else ⟨500, .json, false, .raw d⟩

/-- the body of `with client.Proxy(uri) as proxy:` (235-280) -/
def withProxy (be : Backend) (req : Req) (uri member : Str) (params : Params) : Response × List Action :=
  match req.corr with
  | .invalid => (resp500 .value, [])                 -- uuid.UUID(header) raises ValueError
  | _ =>
    match be.getMeta uri with
    | .error cls => (resp500 cls, [.getMetadata uri])
    | .ok m =>
      let ow := onewayOpt req
      if member = sMeta then
        (⟨200, .json, true, .metaInfo m.methods m.attrs⟩, [.getMetadata uri])
      else if m.attrs.contains member then
        -- `assert not parameters`, then the remote attribute read
        if params ≠ [] then (resp500 .assertion, [.getMetadata uri])
        else (replyOfResult ow (be.getattr uri member), [.getMetadata uri, .getattr uri member])
      else if m.methods.contains member then
        -- `_RemoteMethod.__call__(self, *args, **kwargs)`: a kwarg named "self" is a TypeError before any send
        if (lookupP sSelf params).isSome then (resp500 .type, [.getMetadata uri])
        else
          let oneway := ow || m.oneway.contains member
          (replyOfResult ow (be.call uri member params oneway),
           [.getMetadata uri, .call uri member params oneway])
      else
        -- not a member of the remote object: AttributeError (fixes/C20-proxy-local-member.patch)
        (resp500 .attribute, [.getMetadata uri])

/-- the `try:` block of process_pyro_request (231-287) -/
def forward (be : Backend) (req : Req) (obj member : Str) (params : Params) : Response × List Action :=
  match be.nsGet with
  | some cls => (resp500 cls, [.getNameServer])
  | none =>
    match be.lookup obj with
    | .error cls => (resp500 cls, [.getNameServer, .lookup obj])
    | .ok uri =>
      match be.connect uri with
      | some cls => (resp500 cls, [.getNameServer, .lookup obj, .connect uri])
      | none =>
        let r := withProxy be req uri member params
        (r.1, [.getNameServer, .lookup obj, .connect uri] ++ r.2 ++ [.release uri])

/-! ### the index page (168-208) -/

/-- one table row: `with client.Proxy(uri) as proxy: proxy._pyroBind()` under `except errors.PyroError` -/
def homeRow (be : Backend) (uri : Str) : Except ErrCls Bool × List Action :=
  match be.connect uri with
  | some cls => (if be.isPyroError cls then .ok false else .error cls, [.connect uri])
  | none =>
    match be.bind uri with
    | some cls => (if be.isPyroError cls then .ok false else .error cls, [.connect uri, .bind uri, .release uri])
    | none => (.ok true, [.connect uri, .bind uri, .release uri])

/-- `for name, uri in zip(names, nsbatch()):` — a failed lookup in the batch raises when reached -/
def homeRows (be : Backend) : List Str → Except ErrCls (List (Str × Bool)) × List Action
  | [] => (.ok [], [])
  | name :: rest =>
    match be.lookup name with
    | .error cls => (.error cls, [])
    | .ok uri =>
      match homeRow be uri with
      | (.error cls, acts) => (.error cls, acts)
      | (.ok b, acts) =>
        match homeRows be rest with
        | (.error cls, acts') => (.error cls, acts ++ acts')
        | (.ok rows, acts') => (.ok ((name, b) :: rows), acts ++ acts')

def homepage (cfg : Cfg) (be : Backend) : Reply × List Action :=
  match be.nsGet with
  | some cls =>
    if be.nsGetIsNaming then (.http respNsDown, [.getNameServer]) else (.escaped cls, [.getNameServer])
  | none =>
    match be.nsList cfg.pattern with
    | .error cls => (.escaped cls, [.getNameServer, .nsList cfg.pattern])
    | .ok keys =>
      let names := sortS (keys.take 10)
      let pre := [Action.getNameServer, .nsList cfg.pattern, .batchLookup names]
      match homeRows be names with
      | (.error cls, acts) => (.escaped cls, pre ++ acts)
      | (.ok rows, acts) => (.http ⟨200, .html, false, .homepage rows⟩, pre ++ acts)

/-! ### routing -/

/-- process_pyro_request (211-287) -/
def process (cfg : Cfg) (be : Backend) (req : Req) (path : Str) (params : Params) : Reply × List Action :=
  if path = [] then homepage cfg be
  else match splitPath path with
    | none => (.http resp404, [])
    | some (obj, member) =>
      if !keyOK cfg req params then (.http respBadKey, [])
      else if !patternOK cfg be obj then (.http respDenied, [])
      else
        let r := forward be req obj member (forwardParams cfg params)
        (.http r.1, r.2)

/-- pyro_app (290-316).  `method in ("OPTIONS")` is a substring test on the string "OPTIONS"; among
    GET / POST / OPTIONS only OPTIONS passes it. -/
def app (cfg : Cfg) (be : Backend) (req : Req) : Reply × List Action :=
  let path := lstripSlash req.path
  if path = [] then (.http resp302, [])
  else if sPyro.isPrefixOf path then
    if req.method = sGET ∨ req.method = sPOST ∨ req.method = sOPTIONS then
      if req.method = sOPTIONS then (.http respOptions, [])
      else process cfg be req (path.drop 5) (singlyfy req.query)
    else (.http resp405, [])
  else (.http resp404, [])

/-! ### the process-global Pyro configuration and histories of requests

`pyro_app` begins every request by writing `config.SERIALIZER = "json"` and
`config.COMMTIMEOUT = pyro_app.comm_timeout` (297-298).  The proxies it creates read the global
configuration when they send, so the configuration in force while a request is handled decides in
which wire format the call travels and comes back.  Other code in the same process may change the
configuration between two requests (`perturb`). -/

inductive Ser where
  | json | serpent | marshal | msgpack
  deriving DecidableEq, Repr

/-- the two items of `Pyro5.config` the gateway writes; COMMTIMEOUT in milliseconds -/
structure PyroConfig where
  serializer : Ser
  commTimeout : Nat
  deriving DecidableEq, Repr

/-- pyro_app 297-298: unconditional, whatever the configuration was before -/
def writeConfig (appTimeout : Nat) (_before : PyroConfig) : PyroConfig := ⟨.json, appTimeout⟩

/-- one handled request: reply, action log, and the configuration in force while (and after) it ran -/
structure Outcome where
  reply : Reply
  actions : List Action
  config : PyroConfig

/-- pyro_app as a step on the global configuration -/
def appC (cfg : Cfg) (appTimeout : Nat) (be : Backend) (before : PyroConfig) (req : Req) : Outcome :=
  let r := app cfg be req
  ⟨r.1, r.2, writeConfig appTimeout before⟩

/-- what happens in the process, in order: a request (with the gateway settings, `pyro_app.comm_timeout`
    and the world behind the gateway as they are at that moment), or other code writing `Pyro5.config` -/
inductive HEv where
  | request (cfg : Cfg) (appTimeout : Nat) (be : Backend) (req : Req)
  | perturb (c : PyroConfig)

/-- the outcomes of the requests of a history, starting from configuration `c` -/
def runHistory : PyroConfig → List HEv → List Outcome
  | _, [] => []
  | _, .perturb c' :: rest => runHistory c' rest
  | c, .request cfg tmo be req :: rest =>
    let o := appC cfg tmo be c req
    o :: runHistory o.config rest

end Pyro.Gateway
