/-
  LockSkeleton.lean — what a method does to a lock and to the data the lock protects, with everything else
  abstracted away: the *lock skeleton* that harness/props/c15.py extracts from every public method of
  `Pyro5.nameserver.NameServer` on every run (calls of the class's own helper methods are inlined).

  `Exec sk d t`: `t` is a possible sequence of storage accesses of `sk` started at lock depth `d`, each access
  tagged with the depth at which it happens (if / try: either side; loops: any number of rounds; an exception only
  cuts a trace short, and `with` releases on every exit, so prefixes need no extra rule: the claim is per access).
  `allLocked sk d`: the decidable check.  `allLocked_sound`: the check implies that EVERY access of EVERY possible
  execution happens while the lock is held.
-/
namespace Pyro.LockSkeleton

inductive Sk where
  | nop
  | access                    -- one use of `self.storage`
  | deferred                  -- a use of `self.storage` inside a lambda / generator expression / nested def that is not
                              -- consumed on the spot: it runs whenever the closure is run, possibly after the lock is released
  | seq (a b : Sk)
  | locked (body : Sk)        -- `with self.lock:` (re-entrant)
  | alt (a b : Sk)            -- if / else, try / except
  | star (body : Sk)          -- for / while / comprehension
  deriving Repr, DecidableEq

/-- an access, tagged with the lock depth it happens at (0 = the lock is not held) -/
abbrev Trace := List Nat

inductive Exec : Sk → Nat → Trace → Prop where
  | nop (d) : Exec .nop d []
  | access (d) : Exec .access d [d]
  | deferred (d) : Exec .deferred d [0]
  | seq {a b d t1 t2} : Exec a d t1 → Exec b d t2 → Exec (.seq a b) d (t1 ++ t2)
  | locked {b d t} : Exec b (d + 1) t → Exec (.locked b) d t
  | altL {a b d t} : Exec a d t → Exec (.alt a b) d t
  | altR {a b d t} : Exec b d t → Exec (.alt a b) d t
  | starNil {b d} : Exec (.star b) d []
  | starCons {b d t1 t2} : Exec b d t1 → Exec (.star b) d t2 → Exec (.star b) d (t1 ++ t2)

def allLocked : Sk → Nat → Bool
  | .nop, _ => true
  | .access, d => decide (0 < d)
  | .deferred, _ => false
  | .seq a b, d => allLocked a d && allLocked b d
  | .locked b, d => allLocked b (d + 1)
  | .alt a b, d => allLocked a d && allLocked b d
  | .star b, d => allLocked b d

theorem allLocked_sound {sk : Sk} {d : Nat} {t : Trace} (h : Exec sk d t) :
    allLocked sk d = true → ∀ e ∈ t, 0 < e := by
  induction h with
  | nop d => intro _ e he; cases he
  | access d => intro hc e he; simp [allLocked] at hc; simp at he; omega
  | deferred d => intro hc; simp [allLocked] at hc
  | seq _ _ ih1 ih2 =>
    intro hc e he
    simp [allLocked] at hc
    rcases List.mem_append.mp he with h1 | h2
    · exact ih1 hc.1 e h1
    · exact ih2 hc.2 e h2
  | locked _ ih => intro hc; exact ih (by simpa [allLocked] using hc)
  | altL _ ih => intro hc; simp [allLocked] at hc; exact ih hc.1
  | altR _ ih => intro hc; simp [allLocked] at hc; exact ih hc.2
  | starNil => intro _ e he; cases he
  | starCons _ _ ih1 ih2 =>
    intro hc e he
    rcases List.mem_append.mp he with h1 | h2
    · exact ih1 (by simpa [allLocked] using hc) e h1
    · exact ih2 hc e h2

/-- the check is not vacuous the other way round either: an unlocked access IS reachable when it says no (for loop-free,
    choice-free skeletons the canonical execution exhibits it) -/
example : Exec (.seq (.locked .access) .access) 0 [1, 0] := .seq (.locked (.access 1)) (.access 0)

end Pyro.LockSkeleton
