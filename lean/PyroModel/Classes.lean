/-
  Classes.lean — executable model of Pyro5's class re-creation during deserialisation (property C04).

  Follows Pyro5/serializers.py (tree with fixes/C04-msgpack-topdown.patch applied):
    SerializerBase.dict_to_class   (l.171-235)     → `dictToClass`
    SerializerBase.make_exception  (l.237-244)     → `makeException`, `setattrs`
    SerializerBase.recreate_classes (l.246-261)    → `recreate`, `recreateList`
    SerpentSerializer.dict_to_class (l.305-309)    → `serpentEntry`
    MsgpackSerializer.ext_hook                     → `applyExt`, `applyExtList`
    loads / loadsCall of the four serializers      → `loads`, `loadsCall`
  and Pyro5/core.py URI.__setstate__ (l.141), Pyro5/client.py Proxy.__setstate__ (l.133-146),
  Pyro5/server.py Daemon.__setstate__ (l.803).

  What is NOT modelled but a parameter (`Ext`): the CPython constructors of the whitelisted exception classes,
  `setattr` on their instances, `float()`, `set()`, the URI parser, and the byte parsing inside `ext_hook`.  Each is a
  Boolean "did it succeed"; the theorems hold for every `Ext`.  The four wire codecs (serpent, json, marshal, msgpack)
  are not modelled either: the model starts from the literal tree they return.

  Every function returns its result together with the log of *effects* it performed (`M`), so that "decoding calls
  nothing but …" is a statement about that log.

  Core Lean only (linked into the driver executable).
-/
import PyroModel.Gen.C04

namespace Pyro.Classes

open Pyro.Gen.C04 (Kind)

abbrev Str := List Char

/-- dictionary keys: a `str`, or any other hashable (opaque, `label` = canonical rendering) -/
inductive Key
  | str (s : Str)
  | other (label : String)
  deriving DecidableEq, Repr

inductive PyroCls
  | uri | proxy | daemon | wrapper | serpentSer | marshalSer | jsonSer | msgpackSer
  deriving DecidableEq, Repr

/-- a class an instance can have: one of Pyro's own fixed classes, an exception class given by its real
    `__module__.__qualname__`, or "whatever the application's registered converter for `tag` returned" -/
inductive Cls
  | pyro (c : PyroCls)
  | exc (qual : Str)
  | custom (tag : Str)
  deriving DecidableEq, Repr

/-- Python values as far as class re-creation looks at them.
    `atom`  : a leaf that is neither iterable nor subscriptable nor sized (None, bool, int, float, complex, datetime …);
              `truthy` is its truth value, `label` an opaque canonical rendering that is only passed through.
    `blob`  : any other plain-data leaf (frozenset, …): passed through unchanged; iterating / indexing / len() of it is
              outside the modelled domain (explicit `unmodelled` error).
    `dict`  : `ks[i] ↦ vs[i]` (the harness sends equally long lists with distinct keys).
    `ext`   : a msgpack extension value before `ext_hook` ran: `raw` renders the `ExtType`, `conv`/`convTruthy`
              the value `ext_hook` yields when it succeeds.
    `inst`  : an instance of class `c`; `parts` are the values reachable from it. -/
inductive Val
  | atom (truthy : Bool) (label : String)
  | blob (truthy : Bool) (label : String)
  | str (s : Str)
  | bytes (b : List UInt8)
  | list (xs : List Val)
  | tuple (xs : List Val)
  | set (xs : List Val)
  | dict (ks : List Key) (vs : List Val)
  | ext (code : Int) (raw : String) (conv : String) (convTruthy : Bool)
  | inst (c : Cls) (parts : List Val)

/-- calls that leave Pyro's own code; their outcome is a parameter of the model -/
inductive ExtSite
  | ctor | setattr | float | uri | mkset | exthook
  deriving DecidableEq, Repr

/-- error classes (Python exception types mapped to a small enum):
    security = SecurityError, serialize = SerializeError, lookup = KeyError/IndexError,
    typeAttr = TypeError/AttributeError, value = ValueError (incl. UnicodeDecodeError), assertion = AssertionError,
    ext s = whatever the external call `s` raised, unmodelled = input outside the modelled domain (explicit, never
    silently mapped to another result), fuel = recursion budget exhausted (ruled out by `fuelFor`). -/
inductive Err
  | security | serialize | lookup | typeAttr | value | assertion
  | ext (s : ExtSite)
  | unmodelled
  | fuel
  deriving DecidableEq, Repr

/-- things decoding does besides building data.  The type can express effects the model never performs
    (importing any module, `getattr` on any module, constructing any class), so "all logged effects are allowed" is a
    real statement. -/
inductive Effect
  | convert (tag : Str)                      -- call of the converter the application registered for `tag`
  | construct (c : Cls)                      -- `C.__new__(C)` / `C(...)`
  | getattrMod (module : Str) (name : Str)   -- `getattr(<module>, name)`
  | importMod (module : Str)                 -- `import <module>`
  | setattr (c : Cls) (k : Key)              -- `setattr(<instance of c>, k, value)`
  | pureCall (what : String)                 -- float(), set(), URI text parsing, bytes.decode, struct.unpack/int/date in ext_hook
  | logWarn                                  -- log.warning(...)
  deriving DecidableEq, Repr

/-- result + effect log (the log is kept when the result is an error) -/
def M (α : Type) : Type := Except Err α × List Effect

namespace M
def ret {α : Type} (a : α) : M α := (.ok a, [])
def fail {α : Type} (e : Err) : M α := (.error e, [])
def bind {α β : Type} (x : M α) (f : α → M β) : M β :=
  match x with
  | (.error e, l) => (.error e, l)
  | (.ok a, l) => ((f a).1, l ++ (f a).2)
end M

instance : Monad M where
  pure := M.ret
  bind := M.bind

def emit (e : Effect) : M Unit := (.ok (), [e])
def lift {α : Type} (x : Except Err α) : M α := (x, [])

/-- outcome of the calls that leave Pyro's code -/
structure Ext where
  ctorOk : Cls → List Val → Bool
  setattrOk : Cls → Key → Val → Bool
  floatOk : Val → Bool
  uriOk : Val → Bool
  setOk : Val → Bool
  extOk : Int → String → Bool

structure Env where
  /-- tags for which the application registered a converter (`register_dict_to_class`) -/
  reg : List Str
  ext : Ext

def checkExt (ok : Bool) (s : ExtSite) : M Unit :=
  if ok then pure () else M.fail (.ext s)

/-! ### strings -/

def cs (s : String) : Str := s.toList

/-- `"__" in s` -/
def hasDunder : Str → Bool
  | '_' :: '_' :: _ => true
  | _ :: rest => hasDunder rest
  | [] => false

def startsWith (s pre : Str) : Bool := pre.isPrefixOf s
def endsWith (s suf : Str) : Bool := suf.isSuffixOf s

/-- `a, b = s.split('.', 1)` : `none` when there is no dot (ValueError: not enough values to unpack) -/
def splitDot : Str → Option (Str × Str)
  | [] => none
  | c :: rest =>
    if c = '.' then some ([], rest)
    else match splitDot rest with
      | some (a, b) => some (c :: a, b)
      | none => none

/-- strict UTF-8 decoding as `bytes.decode("utf-8")`: `need` continuation bytes are still expected for the code
    point accumulated in `acc`, which must end up ≥ `lo` (no overlong forms), outside the surrogates, ≤ U+10FFFF. -/
def utf8Go : List UInt8 → Nat → Nat → Nat → Option Str
  | [], need, _, _ => if need = 0 then some [] else none
  | b :: bs, 0, _, _ =>
    let n := b.toNat
    if n < 0x80 then (utf8Go bs 0 0 0).map (Char.ofNat n :: ·)
    else if n < 0xC2 then none
    else if n < 0xE0 then utf8Go bs 1 (n - 0xC0) 0x80
    else if n < 0xF0 then utf8Go bs 2 (n - 0xE0) 0x800
    else if n < 0xF5 then utf8Go bs 3 (n - 0xF0) 0x10000
    else none
  | b :: bs, need + 1, acc, lo =>
    let n := b.toNat
    if 0x80 ≤ n ∧ n < 0xC0 then
      let acc' := acc * 64 + (n - 0x80)
      if need = 0 then
        if lo ≤ acc' ∧ acc' ≤ 0x10FFFF ∧ ¬ (0xD800 ≤ acc' ∧ acc' ≤ 0xDFFF) then
          (utf8Go bs 0 0 0).map (Char.ofNat acc' :: ·)
        else none
      else utf8Go bs need acc' lo
    else none

def utf8Decode (b : List UInt8) : Option Str := utf8Go b 0 0 0

/-! ### dictionaries and generic value operations -/

def assoc {β : Type} (k : Str) : List (Str × β) → Option β
  | [] => none
  | (n, v) :: rest => if k = n then some v else assoc k rest

/-- `data[k]` / `data.get(k)` for a `str` key -/
def lookup (k : Str) : List Key → List Val → Option Val
  | kk :: ks, v :: vs => if kk = .str k then some v else lookup k ks vs
  | _, _ => none

/-- `k in data` -/
def hasKey (k : Str) (ks : List Key) (vs : List Val) : Bool := (lookup k ks vs).isSome

/-- `data[k]` — KeyError when absent -/
def need (k : Str) (ks : List Key) (vs : List Val) : M Val :=
  match lookup k ks vs with
  | some v => pure v
  | none => M.fail .lookup

/-- `bool(v)` -/
def truthy : Val → Bool
  | .atom t _ => t
  | .blob t _ => t
  | .str s => !s.isEmpty
  | .bytes b => !b.isEmpty
  | .list xs => !xs.isEmpty
  | .tuple xs => !xs.isEmpty
  | .set xs => !xs.isEmpty
  | .dict ks _ => !ks.isEmpty
  | .ext _ _ _ _ => true
  | .inst _ _ => true

/-- a key as a value (iterating a dict yields its keys) -/
def keyVal : Key → Val
  | .str s => .str s
  | .other l => .blob true l

def isStrKey : Key → Bool
  | .str _ => true
  | .other _ => false

/-- `iter(v)` fully consumed.  Not modelled (explicit error): the arbitrary order of a set with ≥ 2 elements, the ints
    of a non-empty bytes, a dict with non-str keys, opaque leaves, ExtType, instances. -/
def iterate : Val → Except Err (List Val)
  | .list xs => .ok xs
  | .tuple xs => .ok xs
  | .str s => .ok (s.map fun c => .str [c])
  | .dict ks _ => if ks.all isStrKey then .ok (ks.map keyVal) else .error .unmodelled
  | .set xs => if xs.length ≤ 1 then .ok xs else .error .unmodelled
  | .bytes b => if b.isEmpty then .ok [] else .error .unmodelled
  | .atom _ _ => .error .typeAttr
  | .blob _ _ => .error .unmodelled
  | .ext _ _ _ _ => .error .unmodelled
  | .inst _ _ => .error .unmodelled

/-- `v[i]` for a literal int `i` -/
def index (v : Val) (i : Nat) : Except Err Val :=
  match v with
  | .list xs => match xs[i]? with | some x => .ok x | none => .error .lookup
  | .tuple xs => match xs[i]? with | some x => .ok x | none => .error .lookup
  | .str s => match s[i]? with | some c => .ok (.str [c]) | none => .error .lookup
  | .dict ks _ => if ks.all isStrKey then .error .lookup else .error .unmodelled
  | .bytes b => if i < b.length then .error .unmodelled else .error .lookup
  | .atom _ _ => .error .typeAttr
  | .set _ => .error .typeAttr
  | .blob _ _ => .error .unmodelled
  | .ext _ _ _ _ => .error .unmodelled
  | .inst _ _ => .error .unmodelled

/-- `len(v)` -/
def lenOf : Val → Except Err Nat
  | .list xs => .ok xs.length
  | .tuple xs => .ok xs.length
  | .set xs => .ok xs.length
  | .str s => .ok s.length
  | .bytes b => .ok b.length
  | .dict ks _ => .ok ks.length
  | .ext _ _ _ _ => .ok 2
  | .atom _ _ => .error .typeAttr
  | .blob _ _ => .error .unmodelled
  | .inst _ _ => .error .unmodelled

/-! ### constants of the decision list (checked against the extracted source facts in PyroProps/C04.lean) -/

def kClass : Str := cs "__class__"
def kState : Str := cs "state"
def kArgs : Str := cs "args"
def kAttributes : Str := cs "attributes"
def kException : Str := cs "exception"
def kExcFlag : Str := cs "__exception__"
def kValue : Str := cs "value"
def tUnknown : Str := cs "<unknown>"
def tURI : Str := cs "Pyro5.core.URI"
def tProxy : Str := cs "Pyro5.client.Proxy"
def tDaemon : Str := cs "Pyro5.server.Daemon"
def pUtil : Str := cs "Pyro5.util."
def tSerpent : Str := cs "Pyro5.util.SerpentSerializer"
def tMarshal : Str := cs "Pyro5.util.MarshalSerializer"
def tJson : Str := cs "Pyro5.util.JsonSerializer"
def tMsgpack : Str := cs "Pyro5.util.MsgpackSerializer"
def pErrors : Str := cs "Pyro5.errors."
def tStructError : Str := cs "struct.error"
def tWrapper : Str := cs "Pyro5.core._ExceptionWrapper"
def nsBuiltins : Str := cs "builtins"
def nsExceptions : Str := cs "exceptions"
def nsSqlite3 : Str := cs "sqlite3"
def sufError : Str := cs "Error"
def tFloat : Str := cs "float"
def mErrors : Str := cs "Pyro5.errors"

/-! ### make_exception and the __setstate__ methods -/

/-- `for attr, value in data["attributes"].items(): setattr(ex, attr, value)` -/
def setattrs (E : Env) (c : Cls) : List Key → List Val → M Unit
  | k :: ks, v :: vs => do
    emit (.setattr c k)
    checkExt (E.ext.setattrOk c k v) .setattr
    setattrs E c ks vs
  | _, _ => pure ()

/-- serializers.py l.237-244 -/
def makeException (E : Env) (c : Cls) (ks : List Key) (vs : List Val) : M Val := do
  let args ← need kArgs ks vs                       -- data["args"]
  let xs ← lift (iterate args)                      -- *args
  emit (.construct c)                               -- exceptiontype(...)
  checkExt (E.ext.ctorOk c xs) .ctor
  match lookup kAttributes ks vs with               -- if "attributes" in data
  | none => pure (.inst c [.tuple xs, .dict [] []])
  | some (.dict aks avs) => do
    setattrs E c aks avs
    pure (.inst c [.tuple xs, .dict aks avs])
  | some (.inst _ _) => M.fail .unmodelled
  | some (.blob _ _) => M.fail .unmodelled
  | some (.ext _ _ _ _) => M.fail .unmodelled
  | some _ => M.fail .typeAttr                      -- no .items()

/-- core.py l.141-142: `self.protocol, self.object, self.sockname, self.host, self.port = state` -/
def uriSetstate (st : Val) : M Val := do
  let xs ← lift (iterate st)
  if xs.length = 5 then pure (.inst (.pyro .uri) xs) else M.fail .value

/-- client.py l.133-146.  The instance's parts: the URI built from state[0], the three sets' sources, handshake,
    serializer name. -/
def proxySetstate (E : Env) (st : Val) : M Val := do
  let s0 ← lift (index st 0)
  emit (.pureCall "URI")
  emit (.construct (.pyro .uri))
  checkExt (E.ext.uriOk s0) .uri                    -- core.URI(state[0])
  let s1 ← lift (index st 1)
  emit (.pureCall "set")
  checkExt (E.ext.setOk s1) .mkset
  let s2 ← lift (index st 2)
  emit (.pureCall "set")
  checkExt (E.ext.setOk s2) .mkset
  let s3 ← lift (index st 3)
  emit (.pureCall "set")
  checkExt (E.ext.setOk s3) .mkset
  let s4 ← lift (index st 4)
  let s5 ← lift (index st 5)
  pure (.inst (.pyro .proxy) [.inst (.pyro .uri) [], s1, s2, s3, s4, s5])

/-- server.py l.803-804: `assert len(state) == 0` -/
def daemonSetstate (st : Val) : M Val := do
  let n ← lift (lenOf st)
  if n = 0 then pure (.inst (.pyro .daemon) []) else M.fail .assertion

/-- l.234-235 -/
def unsupported : M Val := do
  emit .logWarn
  M.fail .serialize

/-- `t = getattr(<module>, name); if issubclass(t, <base>): return make_exception(t, data)` and otherwise fall out of
    the if/elif chain.  `tbl` is the extracted name table of the module (`vars(module)`; for names without a double
    underscore — all that get here — `getattr` finds exactly these). -/
def resolveExc (E : Env) (module : Str) (tbl : List (Str × Kind)) (name : Str)
    (ks : List Key) (vs : List Val) : M Val := do
  emit (.getattrMod module name)
  match assoc name tbl with
  | none => M.fail .typeAttr                        -- AttributeError
  | some .other => M.fail .typeAttr                 -- issubclass() arg 1 must be a class
  | some .cls => unsupported
  | some (.exc q) => makeException E (.exc q) ks vs

/-- the class tag: `classname = data.get("__class__", "<unknown>")`, bytes decoded.  Any other type of tag ends in a
    TypeError or AttributeError a few statements later (unhashable / `"__" in 5` / `.startswith`). -/
def tagOf (ks : List Key) (vs : List Val) : Except Err Str :=
  match lookup kClass ks vs with
  | none => .ok tUnknown
  | some (.str s) => .ok s
  | some (.bytes b) => match utf8Decode b with
    | some s => .ok s
    | none => .error .value
  | some (.blob _ _) => .error .unmodelled         -- opaque leaf as a tag: hashability / `"__" in tag` unknown
  | some (.inst _ _) => .error .unmodelled         -- never in a literal tree
  | some _ => .error .typeAttr

/-- `data.get("__exception__", False)` as a truth value -/
def excFlag (ks : List Key) (vs : List Val) : Bool :=
  match lookup kExcFlag ks vs with
  | some v => truthy v
  | none => false

/-- SerializerBase.dict_to_class (serializers.py l.171-235) on the dict `ks ↦ vs`.
    `fuel` bounds the `_ExceptionWrapper` recursion. -/
def dictToClass (E : Env) : Nat → List Key → List Val → M Val
  | 0, _, _ => M.fail .fuel
  | fuel + 1, ks, vs =>
    match tagOf ks vs with
    | .error e => M.fail e
    | .ok cn =>
      if cn ∈ E.reg then do                           -- l.181-183 custom converter first
        emit (.convert cn)
        pure (.inst (.custom cn) [.dict ks vs])
      else if hasDunder cn then M.fail .security      -- l.184-185
      else if cn = tURI then do                       -- l.188-191
        emit (.construct (.pyro .uri))
        let st ← need kState ks vs
        uriSetstate st
      else if cn = tProxy then do                     -- l.192-195
        emit (.construct (.pyro .proxy))
        let st ← need kState ks vs
        proxySetstate E st
      else if cn = tDaemon then do                    -- l.196-199
        emit (.construct (.pyro .daemon))
        let st ← need kState ks vs
        daemonSetstate st
      else if startsWith cn pUtil then                -- l.200-208
        if cn = tSerpent then do emit (.construct (.pyro .serpentSer)); pure (.inst (.pyro .serpentSer) [])
        else if cn = tMarshal then do emit (.construct (.pyro .marshalSer)); pure (.inst (.pyro .marshalSer) [])
        else if cn = tJson then do emit (.construct (.pyro .jsonSer)); pure (.inst (.pyro .jsonSer) [])
        else if cn = tMsgpack then do emit (.construct (.pyro .msgpackSer)); pure (.inst (.pyro .msgpackSer) [])
        else unsupported
      else if startsWith cn pErrors then              -- l.209-212; split('.', 2)[2] = everything after "Pyro5.errors."
        resolveExc E mErrors Pyro.Gen.C04.errorsKinds (cn.drop pErrors.length) ks vs
      else if cn = tStructError then                  -- l.213-214
        makeException E (.exc Pyro.Gen.C04.structErrorQual) ks vs
      else if cn = tWrapper then do                   -- l.215-219
        let ex ← need kException ks vs
        let ex' ← (match ex with
          | .dict ks' vs' => if hasKey kClass ks' vs' then dictToClass E fuel ks' vs' else pure ex
          | _ => pure ex)
        emit (.construct (.pyro .wrapper))
        pure (.inst (.pyro .wrapper) [ex'])
      else if excFlag ks vs then                      -- l.220-233
        match assoc cn Pyro.Gen.C04.allExceptions with
        | some q => makeException E (.exc q) ks vs
        | none =>
          match splitDot cn with
          | none => M.fail .value
          | some (ns, short) =>
            if ns = nsBuiltins ∨ ns = nsExceptions then
              resolveExc E nsBuiltins Pyro.Gen.C04.builtinsKinds short ks vs
            else if ns = nsSqlite3 ∧ endsWith short sufError then do
              emit (.importMod nsSqlite3)
              resolveExc E nsSqlite3 Pyro.Gen.C04.sqlite3Kinds short ks vs
            else unsupported
      else unsupported

inductive Ser
  | serpent | marshal | json | msgpack
  deriving DecidableEq, Repr

/-- the `dict_to_class` a serializer's `recreate_classes` calls: SerpentSerializer overrides it (l.305-309) with the
    `float` special case (not used by the `_ExceptionWrapper` recursion, which names SerializerBase explicitly). -/
def dictEntry (E : Env) (ser : Ser) (fuel : Nat) (ks : List Key) (vs : List Val) : M Val :=
  if ser = .serpent then
    match lookup kClass ks vs with
    | some (.str t) =>
      if t = tFloat then do
        let v ← need kValue ks vs
        emit (.pureCall "float")
        checkExt (E.ext.floatOk v) .float
        pure (.atom true "float")                     -- a float; its truth value is not tracked (result leaf)
      else dictToClass E fuel ks vs
    | _ => dictToClass E fuel ks vs
  else dictToClass E fuel ks vs

mutual
/-- SerializerBase.recreate_classes (l.246-261): top-down, stops at a class dict -/
def recreate (E : Env) (ser : Ser) (fuel : Nat) : Val → M Val
  | .set xs => do let ys ← recreateList E ser fuel xs; pure (.set ys)
  | .list xs => do let ys ← recreateList E ser fuel xs; pure (.list ys)
  | .tuple xs => do let ys ← recreateList E ser fuel xs; pure (.tuple ys)
  | .dict ks vs =>
    if hasKey kClass ks vs then dictEntry E ser fuel ks vs
    else do let ws ← recreateList E ser fuel vs; pure (.dict ks ws)
  | .atom t l => pure (.atom t l)
  | .blob t l => pure (.blob t l)
  | .str s => pure (.str s)
  | .bytes b => pure (.bytes b)
  | .ext c r v t => pure (.ext c r v t)
  | .inst c ps => pure (.inst c ps)
def recreateList (E : Env) (ser : Ser) (fuel : Nat) : List Val → M (List Val)
  | [] => pure []
  | x :: xs => do
    let y ← recreate E ser fuel x
    let ys ← recreateList E ser fuel xs
    pure (y :: ys)
end

def extCodes : List Int := [0x30, 0x31, 0x32, 0x33]

mutual
/-- msgpack.unpackb(..., ext_hook=self.ext_hook): every extension value goes through `ext_hook` while the document is
    parsed (document order).  Codes 0x30-0x33 are parsed (external), any other code → SerializeError. -/
def applyExt (E : Env) : Val → M Val
  | .ext code raw conv t =>
    if code ∈ extCodes then do
      emit (.pureCall "ext")
      checkExt (E.ext.extOk code raw) .exthook
      pure (.atom t conv)
    else M.fail .serialize
  | .set xs => do let ys ← applyExtList E xs; pure (.set ys)
  | .list xs => do let ys ← applyExtList E xs; pure (.list ys)
  | .tuple xs => do let ys ← applyExtList E xs; pure (.tuple ys)
  | .dict ks vs => do let ws ← applyExtList E vs; pure (.dict ks ws)
  | .atom t l => pure (.atom t l)
  | .blob t l => pure (.blob t l)
  | .str s => pure (.str s)
  | .bytes b => pure (.bytes b)
  | .inst c ps => pure (.inst c ps)
def applyExtList (E : Env) : List Val → M (List Val)
  | [] => pure []
  | x :: xs => do
    let y ← applyExt E x
    let ys ← applyExtList E xs
    pure (y :: ys)
end

/-- `ser.loads(data)` from the codec's literal tree -/
def loads (E : Env) (ser : Ser) (fuel : Nat) (lit : Val) : M Val :=
  if ser = .msgpack then do
    let lit' ← applyExt E lit
    recreate E ser fuel lit'
  else recreate E ser fuel lit

/-- `obj, method, vargs, kwargs = <literal>` then recreate_classes on vargs and kwargs (serpent l.283-287,
    marshal l.324-329, msgpack after the fix) -/
def unpack4 (E : Env) (ser : Ser) (fuel : Nat) (lit : Val) : M Val := do
  let xs ← lift (iterate lit)
  match xs with
  | [o, m, va, kw] => do
    let va' ← recreate E ser fuel va
    let kw' ← recreate E ser fuel kw
    pure (.tuple [o, m, va', kw'])
  | _ => M.fail .value

/-- `ser.loadsCall(data)`; `callExtHook` = MsgpackSerializer.loadsCall passes `ext_hook` (extracted from the source) -/
def loadsCall (E : Env) (callExtHook : Bool) (ser : Ser) (fuel : Nat) (lit : Val) : M Val :=
  match ser with
  | .json =>                                           -- l.374-379
    match lit with
    | .dict ks vs => do
      let p ← need (cs "params") ks vs
      let p' ← recreate E ser fuel p
      let k ← need (cs "kwargs") ks vs
      let k' ← recreate E ser fuel k
      let o ← need (cs "object") ks vs
      let m ← need (cs "method") ks vs
      pure (.tuple [o, m, p', k'])
    | .inst _ _ => M.fail .unmodelled
    | .blob _ _ => M.fail .unmodelled
    | .ext _ _ _ _ => M.fail .unmodelled
    | _ => M.fail .typeAttr                            -- data["params"] on a non-dict
  | .msgpack =>
    if callExtHook then do
      let lit' ← applyExt E lit
      unpack4 E ser fuel lit'
    else unpack4 E ser fuel lit
  | _ => unpack4 E ser fuel lit

/-! ### canonical rendering (what the driver prints and what the extracted probe table records) -/

def hexDigitC (n : Nat) : Char := if n < 10 then Char.ofNat (48 + n) else Char.ofNat (87 + n)

def hexBytes : List Nat → List Char
  | [] => []
  | b :: bs => hexDigitC (b / 16) :: hexDigitC (b % 16) :: hexBytes bs

def hexOrDash (bs : List Nat) : List Char := if bs.isEmpty then ['-'] else hexBytes bs

def utf8Enc (c : Char) : List Nat :=
  let n := c.toNat
  if n < 0x80 then [n]
  else if n < 0x800 then [0xC0 + n / 64, 0x80 + n % 64]
  else if n < 0x10000 then [0xE0 + n / 4096, 0x80 + n / 64 % 64, 0x80 + n % 64]
  else [0xF0 + n / 262144, 0x80 + n / 4096 % 64, 0x80 + n / 64 % 64, 0x80 + n % 64]

def utf8EncStr : Str → List Nat
  | [] => []
  | c :: cs' => utf8Enc c ++ utf8EncStr cs'

/-- hex of the UTF-8 encoding ("-" = empty) -/
def strHex (s : Str) : List Char := hexOrDash (utf8EncStr s)

def pyroNameL : PyroCls → Str
  | .uri => cs "Pyro5.core.URI"
  | .proxy => cs "Pyro5.client.Proxy"
  | .daemon => cs "Pyro5.server.Daemon"
  | .wrapper => cs "Pyro5.core._ExceptionWrapper"
  | .serpentSer => cs "Pyro5.serializers.SerpentSerializer"
  | .marshalSer => cs "Pyro5.serializers.MarshalSerializer"
  | .jsonSer => cs "Pyro5.serializers.JsonSerializer"
  | .msgpackSer => cs "Pyro5.serializers.MsgpackSerializer"

def clsNameL : Cls → Str
  | .pyro c => pyroNameL c
  | .exc q => q
  | .custom t => cs "custom:" ++ strHex t

def renderKeyL : Key → List Char
  | .str s => 'S' :: strHex s
  | .other l => 'O' :: l.toList

def sepL (first : Bool) : List Char := if first then [] else [',']

mutual
/-- the canonical text of a decoded value (mirrored by `canon` in harness/props/c04.py) -/
def renderL : Val → List Char
  | .atom _ l => 'A' :: l.toList
  | .blob _ l => 'A' :: l.toList
  | .str s => 'S' :: strHex s
  | .bytes b => 'B' :: hexOrDash (b.map UInt8.toNat)
  | .list xs => 'L' :: '[' :: renderItemsL true xs ++ [']']
  | .tuple xs => 'T' :: '[' :: renderItemsL true xs ++ [']']
  | .set xs => 'E' :: '[' :: renderItemsL true xs ++ [']']
  | .dict ks vs => 'D' :: '[' :: renderEntriesL true ks vs ++ [']']
  | .ext _ raw _ _ => 'A' :: raw.toList
  | .inst (.pyro .proxy) (_ :: _ :: _ :: _ :: rest) => 'I' :: pyroNameL .proxy ++ '(' :: renderItemsL true rest ++ [')']
  | .inst c ps => 'I' :: clsNameL c ++ '(' :: renderItemsL true ps ++ [')']
def renderItemsL : Bool → List Val → List Char
  | _, [] => []
  | first, x :: xs => sepL first ++ renderL x ++ renderItemsL false xs
def renderEntriesL : Bool → List Key → List Val → List Char
  | first, k :: ks, v :: vs => sepL first ++ renderKeyL k ++ '=' :: renderL v ++ renderEntriesL false ks vs
  | _, _, _ => []
end

def renderErrL : Err → List Char
  | .security => cs "Security"
  | .serialize => cs "Serialize"
  | .lookup => cs "Lookup"
  | .typeAttr => cs "TypeAttr"
  | .value => cs "Value"
  | .assertion => cs "Assertion"
  | .ext .ctor => cs "ext:ctor"
  | .ext .setattr => cs "ext:setattr"
  | .ext .float => cs "ext:float"
  | .ext .uri => cs "ext:uri"
  | .ext .mkset => cs "ext:mkset"
  | .ext .exthook => cs "ext:exthook"
  | .unmodelled => cs "Unmodelled"
  | .fuel => cs "Fuel"

/-- "ok <rendering>" / "err <Enum>" -/
def outcomeL (m : M Val) : List Char :=
  match m.1 with
  | .ok w => cs "ok " ++ renderL w
  | .error e => cs "err " ++ renderErrL e

/-- `kind=detail` → (kind, some detail); no '=' → (spec, none) -/
def splitEq : List Char → List Char × Option (List Char)
  | [] => ([], none)
  | c :: rest =>
    if c = '=' then ([], some rest)
    else match splitEq rest with
      | (k, d) => (c :: k, d)

/-- the `Ext` in which exactly the external call named by `spec` fails: "-" = none; otherwise `<kind>=<inputs>` with kind
    `ctor:<qualified class>` (inputs: the rendered constructor arguments), `setattr` (`<key>=<value>`), `float`, `uri`, `mkset`
    (the rendered argument), `exthook` (`<code>:<raw label>`).  The call fails iff kind AND inputs match — the external functions
    are deterministic, so an earlier call of the same kind with other inputs (which succeeded in the real run) succeeds here
    too.  Without `=<inputs>` every call of the kind fails. -/
def mkExtL (spec : List Char) : Ext :=
  let kind := (splitEq spec).1
  let hit (d : List Char) : Bool := match (splitEq spec).2 with
    | none => true
    | some t => t == d
  { ctorOk := fun c xs => !(kind == cs "ctor:" ++ clsNameL c && hit (renderItemsL true xs))
    setattrOk := fun _ k v => !(kind == cs "setattr" && hit (renderKeyL k ++ '=' :: renderL v))
    floatOk := fun v => !(kind == cs "float" && hit (renderL v))
    uriOk := fun v => !(kind == cs "uri" && hit (renderL v))
    setOk := fun v => !(kind == cs "mkset" && hit (renderL v))
    extOk := fun code raw => !(kind == cs "exthook" && hit (Nat.toDigits 10 code.toNat ++ ':' :: raw.toList)) }

/-! ### recursion budget -/

mutual
def depth : Val → Nat
  | .list xs => depthList xs + 1
  | .tuple xs => depthList xs + 1
  | .set xs => depthList xs + 1
  | .dict _ vs => depthList vs + 1
  | .inst _ ps => depthList ps + 1
  | _ => 0
def depthList : List Val → Nat
  | [] => 0
  | x :: xs => max (depth x) (depthList xs)
end

/-- a budget that the `_ExceptionWrapper` recursion cannot exhaust (theorem `C04_fuel_sufficient`) -/
def fuelFor (v : Val) : Nat := depth v + 1

/-! ### the extracted probe table: literal trees and what the REAL decoder made of them -/

mutual
def litToVal : Pyro.Gen.C04.Lit → Val
  | .atom t l => .atom t l
  | .blob t l => .blob t l
  | .str s => .str s
  | .bytes b => .bytes b
  | .list xs => .list (litsToVals xs)
  | .tuple xs => .tuple (litsToVals xs)
  | .set xs => .set (litsToVals xs)
  | .dictS ks vs => .dict (ks.map Key.str) (litsToVals vs)
  | .dictK ks vs => .dict (ks.map fun k => match k with | (true, s) => Key.str s | (false, s) => Key.other (String.ofList s)) (litsToVals vs)
  | .ext c raw conv t => .ext c raw conv t
def litsToVals : List Pyro.Gen.C04.Lit → List Val
  | [] => []
  | x :: xs => litToVal x :: litsToVals xs
end

def serOfNat : Nat → Ser
  | 0 => .serpent
  | 1 => .marshal
  | 2 => .json
  | _ => .msgpack

/-- what the model makes of a probe (same entry points, registry and failing external call as the real run) -/
def runProbe (p : Pyro.Gen.C04.Probe) : List Char :=
  let v := litToVal p.input
  let E : Env := { reg := p.reg, ext := mkExtL p.spec }
  if p.call then outcomeL (loadsCall E Pyro.Gen.C04.msgpackCallExtHook (serOfNat p.ser) (fuelFor v) v)
  else outcomeL (loads E (serOfNat p.ser) (fuelFor v) v)

/-- every probe whose model outcome differs from the recorded real outcome (empty = the model agrees with the source) -/
def probeFailures : List String :=
  (Pyro.Gen.C04.probes.filter fun p => !(runProbe p == p.expect)).map fun p => p.name

/-! ### specification vocabulary: the closed set -/

def excQuals : List (Str × Kind) → List Str
  | [] => []
  | (_, .exc q) :: rest => q :: excQuals rest
  | _ :: rest => excQuals rest

/-- names reachable through the sqlite3 branch: those ending in "Error" -/
def sqliteErrorRows : List (Str × Kind) :=
  Pyro.Gen.C04.sqlite3Kinds.filter fun r => endsWith r.1 sufError

/-- qualified names of the exception classes of the closed set -/
def closedExcQuals : List Str :=
  excQuals Pyro.Gen.C04.builtinsKinds ++ excQuals Pyro.Gen.C04.errorsKinds ++ excQuals sqliteErrorRows
    ++ [Pyro.Gen.C04.structErrorQual]

/-- the closed set of classes (relative to the application's converter registry): Pyro's own fixed classes, the
    exception classes of `closedExcQuals`, and the results of converters registered by the application -/
def closedClsB (reg : List Str) : Cls → Bool
  | .pyro _ => true
  | .exc q => decide (q ∈ closedExcQuals)
  | .custom t => decide (t ∈ reg)

def ClosedCls (reg : List Str) (c : Cls) : Prop := closedClsB reg c = true

mutual
/-- every instance inside the value is of a class of the closed set -/
def closedB (reg : List Str) : Val → Bool
  | .list xs => closedListB reg xs
  | .tuple xs => closedListB reg xs
  | .set xs => closedListB reg xs
  | .dict _ vs => closedListB reg vs
  | .inst c ps => closedClsB reg c && closedListB reg ps
  | _ => true
def closedListB (reg : List Str) : List Val → Bool
  | [] => true
  | x :: xs => closedB reg x && closedListB reg xs
end

def Closed (reg : List Str) (v : Val) : Prop := closedB reg v = true

mutual
/-- plain data: no instance anywhere (what the codecs deliver) -/
def plainB : Val → Bool
  | .list xs => plainListB xs
  | .tuple xs => plainListB xs
  | .set xs => plainListB xs
  | .dict _ vs => plainListB vs
  | .inst _ _ => false
  | _ => true
def plainListB : List Val → Bool
  | [] => true
  | x :: xs => plainB x && plainListB xs
end

mutual
/-- no msgpack extension value is left unconverted anywhere in the value -/
def noExtB : Val → Bool
  | .ext _ _ _ _ => false
  | .list xs => noExtListB xs
  | .tuple xs => noExtListB xs
  | .set xs => noExtListB xs
  | .dict _ vs => noExtListB vs
  | .inst _ ps => noExtListB ps
  | _ => true
def noExtListB : List Val → Bool
  | [] => true
  | x :: xs => noExtB x && noExtListB xs
end

/-- the effects decoding may have -/
def Allowed (reg : List Str) : Effect → Prop
  | .convert t => t ∈ reg
  | .construct c => ClosedCls reg c
  | .getattrMod m _ => m = nsBuiltins ∨ m = mErrors ∨ m = nsSqlite3
  | .importMod m => m = nsSqlite3
  | .setattr (.exc q) _ => q ∈ closedExcQuals
  | .setattr _ _ => False
  | .pureCall _ => True
  | .logWarn => True

/-- the properties of the extracted tables that `decide +kernel` checks in one evaluation (PyroProps/C04.lean):
    every reachable exception class is defined in builtins / Pyro5.errors / sqlite3 or is struct.error and has no
    double underscore in its name; every sqlite3 attribute whose name ends in "Error" is an exception class; every
    class `all_exceptions` maps to is in the closed list. -/
def tablesOk : Bool :=
  closedExcQuals.all (fun q =>
    (startsWith q (cs "builtins.") || startsWith q (cs "Pyro5.errors.") || startsWith q (cs "sqlite3.")
      || decide (q = cs "struct.error")) && !hasDunder q)
  && sqliteErrorRows.all (fun r => match r.2 with | .exc _ => true | _ => false)
  && Pyro.Gen.C04.allExceptions.all (fun p => decide (p.2 ∈ closedExcQuals))

/-- the tags `dict_to_class` recognises by itself (`flag` = the dict's `__exception__` entry is truthy) -/
def KnownTag (flag : Bool) (t : Str) : Prop :=
  t ∈ [tURI, tProxy, tDaemon, tSerpent, tMarshal, tJson, tMsgpack, tStructError, tWrapper]
  ∨ (∃ n q, t = pErrors ++ n ∧ assoc n Pyro.Gen.C04.errorsKinds = some (.exc q))
  ∨ (flag = true ∧
      ((∃ q, assoc t Pyro.Gen.C04.allExceptions = some q)
       ∨ (∃ n q, (t = nsBuiltins ++ '.' :: n ∨ t = nsExceptions ++ '.' :: n)
            ∧ assoc n Pyro.Gen.C04.builtinsKinds = some (.exc q))
       ∨ (∃ n q, t = nsSqlite3 ++ '.' :: n ∧ endsWith n sufError = true
            ∧ assoc n Pyro.Gen.C04.sqlite3Kinds = some (.exc q))))

end Pyro.Classes
