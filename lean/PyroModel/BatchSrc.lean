/-
  BatchSrc.lean — the path of one `batch()` call composed from the TRANSCRIBED functions of `PyroModel/Gen/C11.lean`
  (written on every run by harness/props/c11_tr.py from the AST of the checked tree).  Core Lean only: the driver
  evaluates `clientBatchSrc` next to the hand-written `clientBatch` on every correspondence line.
-/
import PyroModel.Batch
import PyroModel.Gen.C11

namespace Pyro.Batch

open Pyro.Gen.C11

variable {St W Val Exc : Type}

/-- `Proxy._pyroInvoke` + the daemon for a `<batch>` request, over the TRANSCRIBED server loop: the request is a batch iff
    FLAGS_BATCH is set, oneway iff FLAGS_ONEWAY is set (server.py:440, 499); reply handling as `invokedOf`. -/
def pyroInvokeW (w : WireOps W) (errs : SrcErrs Exc) (sent : Exc → Exc) (pre : Option Exc) (o : Obj St W (W × W) Val Exc)
    (s : St) : String → List W → Bool → Nat → St × Invoked Val Exc :=
  fun _ cs _ flags =>
    if flags &&& flagsBatch = 0 then (s, .error errs.notABatch)
    else invokedOf pre s (fun s => replyOf (flags &&& flagsOneway != 0) (batchLoopSrc w errs sent o s cs []))

/-- The whole path of one `batch()` / `batch(oneway=True)` call composed from the four transcriptions: new state of the
    remote object, the BatchProxy's own call list afterwards, what the caller gets. -/
def clientBatchSrc (w : WireOps W) (errs : SrcErrs Exc) (sent : Exc → Exc) (pre : Option Exc) (o : Obj St W (W × W) Val Exc)
    (oneway : Bool) (s : St) (items : List W) : St × List W × Seen Val Exc :=
  batchCallSrc errs (fun cs ow st => invokeBatchSrc (pyroInvokeW w errs sent pre o st) cs ow) items oneway s

/-- what `self.__calls` holds after `BatchProxy.__call__`: cleared, unless the submission itself raised (client.py:619-620) -/
def keptCalls {C : Type} (calls : List C) : Seen Val Exc → List C
  | .submitRaised _ => calls
  | _ => []

end Pyro.Batch
