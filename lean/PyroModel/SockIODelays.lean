/-
  SockIODelays.lean — the back-off of `Pyro5.socketutil` (socketutil.py:106-115 `__retrydelays`, and the
  `time.sleep(next(delays))` of the except-branches of receive_data / send_data, lines 145, 167, 201).

  * `retryDelay k`   the k-th value of the documented back-off sequence, in units of 0.1 ms
  * `genNth`         meaning of a generator of the shape "straight-line prefix; while True: straight-line body"
                     (what harness/props/c17_tr.py emits into Gen/C17Src.lean): its k-th `next`, `none` = StopIteration / no value
  * `recvLoopS` …    the transfer loops of SockIO.lean with the number of sleeps performed so far threaded through
-/
import PyroModel.SockIO

namespace Pyro.SockIO

open Pyro

/-- 0.0001, 0.001, 0.01, then 0.1, 0.2, 0.3, … seconds — in units of 1/10000 s -/
def retryDelay (k : Nat) : Nat := if k < 3 then 10 ^ k else 1000 * (k - 2)

/-- k-th value yielded by `while True: body`, started with locals `s`; `fuel` passes through the body are allowed
    (a pass that yields nothing consumes fuel only: a body that never yields gives `none`, never a made-up value) -/
def loopNth {σ : Type} (body : σ → List Nat × σ) : Nat → σ → Nat → Option Nat
  | 0, _, _ => none
  | fuel + 1, s, k =>
    let r := body s
    if k < r.1.length then r.1[k]? else loopNth body fuel r.2 (k - r.1.length)

/-- k-th `next()` of the generator: the prefix's values first, then the loop's (`none` when there is no loop: StopIteration) -/
def genNth {σ : Type} (pre : List Nat) (init : σ) (body : σ → List Nat × σ) (loops : Bool) (k : Nat) : Option Nat :=
  if k < pre.length then pre[k]?
  else if loops then loopNth body (k - pre.length + 1) init (k - pre.length) else none

/-- is this event answered by `time.sleep(next(delays))` and another round of the loop? -/
def Ev.isRetry : Ev → Bool
  | .retryable => true
  | .partialFail _ true => true
  | _ => false

/-- `recvLoop` (socketutil.py:147-167) with `n` = number of `time.sleep(next(delays))` executed so far -/
def recvLoopS (size : Nat) (data : Bytes) (stream : Bytes) (n : Nat) : List Ev → (RecvResult × Bytes × List Ev) × Nat
  | [] => (if data.length < size then (.scriptEnd, stream, []) else recvFinish size data stream [], n)
  | ev :: rest =>
    if data.length < size then
      match ev with
      | .deliver k =>
        let m := min k (min recvCap (size - data.length))
        let chunk := stream.take m
        if chunk.isEmpty then ((.closed (some data), stream, rest), n)
        else recvLoopS size (data ++ chunk) (stream.drop m) n rest
      | .retryable => recvLoopS size data stream (n + 1) rest        -- line 167: sleep, then `while True` again
      | .fatal => ((.closed none, stream, rest), n)
      | .timeout => ((.timeout, stream, rest), n)
      | .partialFail _ true => recvLoopS size data stream (n + 1) rest
      | .partialFail _ false => ((.closed none, stream, rest), n)
    else (recvFinish size data stream (ev :: rest), n)

/-- `recvWaitall` (socketutil.py:129-145); the generator `delays` is shared with the loop it falls into -/
def recvWaitallS (size : Nat) (stream : Bytes) (n : Nat) : List Ev → (RecvResult × Bytes × List Ev) × Nat
  | [] => ((.scriptEnd, stream, []), n)
  | .deliver k :: rest =>
    let m := min k size
    let chunk := stream.take m
    if chunk.length = size then ((.ok chunk, stream.drop m, rest), n)
    else recvLoopS size chunk (stream.drop m) n rest
  | .retryable :: rest => recvWaitallS size stream (n + 1) rest      -- line 145
  | .fatal :: rest => ((.closed none, stream, rest), n)
  | .timeout :: rest => ((.timeout, stream, rest), n)
  | .partialFail _ true :: rest => recvWaitallS size stream (n + 1) rest
  | .partialFail _ false :: rest => ((.closed none, stream, rest), n)

def receiveS (waitall : Bool) (size : Nat) (stream : Bytes) (script : List Ev) : (RecvResult × Bytes × List Ev) × Nat :=
  if waitall then recvWaitallS size stream 0 script else recvLoopS size [] stream 0 script

/-- `sendLoop` (socketutil.py:188-201) with the number of sleeps -/
def sendLoopS (data : Bytes) (acc : Bytes) (n : Nat) : List Ev → (SendResult × Bytes × List Ev) × Nat
  | [] => (if data.isEmpty then (.ok, acc, []) else (.scriptEnd, acc, []), n)
  | ev :: rest =>
    if data.isEmpty then ((.ok, acc, ev :: rest), n)
    else match ev with
      | .deliver k =>
        let m := min k data.length
        sendLoopS (data.drop m) (acc ++ data.take m) n rest
      | .retryable => sendLoopS data acc (n + 1) rest                -- line 201
      | .fatal => ((.closed, acc, rest), n)
      | .timeout => ((.timeout, acc, rest), n)
      | .partialFail _ true => sendLoopS data acc (n + 1) rest
      | .partialFail _ false => ((.closed, acc, rest), n)

/-- `send_data`: the blocking branch (one `sendall`) never sleeps -/
def sendS (blocking : Bool) (data : Bytes) (script : List Ev) : (SendResult × Bytes × List Ev) × Nat :=
  if blocking then (send true data script, 0) else sendLoopS data [] 0 script

/-- the sleeps of a call that slept `n` times: the first `n` values of the back-off sequence, in order -/
def sleepsOf (n : Nat) : List Nat := (List.range n).map retryDelay

/-- the events of `script` that the call consumed, given what it left -/
def consumed (script left : List Ev) : List Ev := script.take (script.length - left.length)

end Pyro.SockIO
