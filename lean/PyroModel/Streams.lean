/-
  Streams.lean — the server's item-stream table and the client-side stream iterator (C10).

  Server side (Pyro5/server.py): `Daemon.streaming_responses` is a dict
      stream id ↦ (owning connection | None, creation time, linger start | 0, iterator)
  written by `_streamResponse` (806-815), `DaemonObject.get_next_stream_item` / `close_stream`
  (177-193), `_clientDisconnect` (526-540) and `_housekeeping` (542-566).
  Client side (Pyro5/client.py 518-568): `_StreamResultIterator`.

  Modelling decisions
  * time is the virtual clock of the harness: a natural number that only `tick` advances.  The
    configured lifetime / linger are integers (they may be zero or negative = disabled).
  * an iterator is the list of what its successive `next()` calls do: `val v` (yield v) or
    `raises e` (raise exception e); the end of the list is StopIteration, and an exhausted
    iterator stays exhausted.  A generator is the special case where `raises` is last.
  * stream ids are `uuid.uuid4()` strings: modelled as a counter (never reused — assumption).
  * the dict is an association list in insertion order; assignment to an existing key keeps its
    position (dict semantics).  `_clientDisconnect` and `_housekeeping` loop over a snapshot of
    the keys and `get`/assign/`del` each one: sequentially that is a `map` / `filter` of the table,
    which is how it is written here (the key-by-key form is `PyroModel/StreamsRace.lean`).
-/

namespace Pyro.Streams

inductive Item where
  | val (v : Nat)
  | raises (e : Nat)
  deriving DecidableEq, Repr

/-- config.ITER_STREAMING / ITER_STREAM_LIFETIME / ITER_STREAM_LINGER -/
structure Settings where
  streaming : Bool
  lifetime : Int
  linger : Int
  /-- the daemon is a subclass whose user hook `clientDisconnect(conn)` raises (the transport servers
      call `_clientDisconnect` inside try/except and only log the error) -/
  hookFails : Bool := false
  deriving DecidableEq, Repr

/-- one value of `streaming_responses`: (client, timestamp, linger_timestamp, stream) -/
structure Entry where
  owner : Option Nat
  created : Nat
  linger : Nat            -- 0 = not lingering (the code tests its truthiness)
  rest : List Item
  deriving DecidableEq, Repr

abbrev Table := List (Nat × Entry)

/-- `d.get(id)` -/
def Table.get : Table → Nat → Option Entry
  | [], _ => none
  | (k, e) :: r, id => if k = id then some e else Table.get r id

/-- `del d[id]` on a present key / `d.pop(id, None)` -/
def Table.erase (t : Table) (id : Nat) : Table := t.filter (fun p => p.1 ≠ id)

/-- `d[id] = e`: overwrite in place or append -/
def Table.set : Table → Nat → Entry → Table
  | [], id, e => [(id, e)]
  | (k, w) :: r, id, e => if k = id then (id, e) :: r else (k, w) :: Table.set r id e

structure State where
  table : Table
  now : Nat
  nextId : Nat
  deriving DecidableEq, Repr

def State.init (t0 : Nat) : State := { table := [], now := t0, nextId := 0 }

/-- what a remote method returned -/
inductive Data where
  | iter (items : List Item)    -- an iterator / generator object
  | plain                       -- anything that is not an `Iterator` (lists, dict views, …)
  deriving DecidableEq, Repr

inductive Op where
  | open (conn : Nat) (d : Data)      -- `_streamResponse(data, conn)`
  | next (id conn : Nat)              -- `get_next_stream_item(id)` with `current_context.client = conn`
  | close (id : Nat)                  -- `close_stream(id)`
  | disconnect (conn : Nat)           -- `_clientDisconnect(conn)`
  | housekeeping                      -- `_housekeeping()`
  | tick (dt : Nat)                   -- the clock advances
  deriving DecidableEq, Repr

inductive Res where
  | stream (id : Nat)    -- (True, stream_id)
  | noStream             -- (True, None): streaming disabled
  | notIter              -- (False, data)
  | item (v : Nat)
  | stop                 -- StopIteration
  | raised (e : Nat)     -- the iterator's own exception
  | terminated           -- PyroError("item stream terminated")
  | ok                   -- returned None
  | hookError            -- `_clientDisconnect` raised out of the user hook (logged by the transport server)
  deriving DecidableEq, Repr

/-- server.py 806-815 -/
def doOpen (cfg : Settings) (st : State) (conn : Nat) : Data → State × Res
  | .plain => (st, .notIter)
  | .iter items =>
    if cfg.streaming then
      ({ st with table := st.table.set st.nextId { owner := some conn, created := st.now, linger := 0, rest := items },
                 nextId := st.nextId + 1 }, .stream st.nextId)
    else (st, .noStream)

/-- server.py 177-189.  `if client is None:` re-associates the stream with the calling connection and
    clears the linger start; then `next(stream)`; any exception (StopIteration included) removes the
    stream and propagates. -/
def doNext (st : State) (id conn : Nat) : State × Res :=
  match st.table.get id with
  | none => (st, .terminated)
  | some e =>
    let e1 : Entry := if e.owner.isNone then { e with owner := some conn, linger := 0 } else e
    match e1.rest with
    | .val v :: tl => ({ st with table := st.table.set id { e1 with rest := tl } }, .item v)
    | [] => ({ st with table := st.table.erase id }, .stop)
    | .raises x :: _ => ({ st with table := st.table.erase id }, .raised x)

/-- server.py 191-193 -/
def doClose (st : State) (id : Nat) : State :=
  match st.table.get id with
  | none => st
  | some _ => { st with table := st.table.erase id }

/-- server.py 531-533: `(None, timestamp, time.time(), stream)` for the streams of `conn` -/
def Entry.lingerIf (conn now : Nat) (e : Entry) : Entry :=
  if e.owner = some conn then { e with owner := none, linger := now } else e

/-- server.py 526-539 -/
def doDisconnect (cfg : Settings) (st : State) (conn : Nat) : State :=
  if 0 < cfg.linger then
    { st with table := st.table.map fun p => (p.1, p.2.lingerIf conn st.now) }
  else
    { st with table := st.table.filter fun p => decide (p.2.owner ≠ some conn) }

/-- `0 < config.ITER_STREAM_LIFETIME < time.time() - info[1]` -/
def lifeExpired (cfg : Settings) (now : Nat) (e : Entry) : Bool :=
  decide (0 < cfg.lifetime ∧ cfg.lifetime < (now : Int) - (e.created : Int))

/-- `info[2]` truthy and `time.time() - info[2] > config.ITER_STREAM_LINGER` -/
def lingerExpired (cfg : Settings) (now : Nat) (e : Entry) : Bool :=
  decide (e.linger ≠ 0 ∧ (now : Int) - (e.linger : Int) > cfg.linger)

/-- server.py 548-565 (the daemon is not shutting down) -/
def doHousekeeping (cfg : Settings) (st : State) : State :=
  if st.table.isEmpty then st
  else
    let t1 := if 0 < cfg.lifetime then st.table.filter (fun p => !lifeExpired cfg st.now p.2) else st.table
    let t2 := if 0 < cfg.linger then t1.filter (fun p => !lingerExpired cfg st.now p.2) else t1
    { st with table := t2 }

def step (cfg : Settings) (st : State) : Op → State × Res
  | .open conn d => doOpen cfg st conn d
  | .next id conn => doNext st id conn
  | .close id => (doClose st id, .ok)
  -- server.py 526-540: the stream bookkeeping comes first, the user hook `self.clientDisconnect(conn)` is the
  -- LAST statement (extracted fact): a failing hook cannot skip the bookkeeping
  | .disconnect conn => (doDisconnect cfg st conn, if cfg.hookFails then .hookError else .ok)
  | .housekeeping => (doHousekeeping cfg st, .ok)
  | .tick dt => ({ st with now := st.now + dt }, .ok)

abbrev Event := Op × Res

/-- run a history; returns the final state and the events (operation, reply) in order -/
def exec (cfg : Settings) : State → List Op → State × List Event
  | st, [] => (st, [])
  | st, op :: ops =>
    let p := step cfg st op
    let q := exec cfg p.1 ops
    (q.1, (op, p.2) :: q.2)

/-! ### what the observers of the property see in a list of events -/

/-- the items of the iterator that was registered under `id` -/
def srcOf (id : Nat) : Event → List Item
  | (.open _ (.iter items), .stream id') => if id' = id then items else []
  | _ => []

/-- what a reply handed to a client of stream `id` -/
def delOf (id : Nat) : Event → List Item
  | (.next id' _, .item v) => if id' = id then [.val v] else []
  | (.next id' _, .raised x) => if id' = id then [.raises x] else []
  | _ => []

def source (id : Nat) (ev : List Event) : List Item := ev.flatMap (srcOf id)
def delivered (id : Nat) (ev : List Event) : List Item := ev.flatMap (delOf id)

/-- the reply the property demands for a `next` on a live stream, from its source and the number of
    replies already handed out: the next item in order, the iterator's exception, or StopIteration
    exactly at the end -/
def expectedReply (src : List Item) (ndelivered : Nat) : Res :=
  match src.drop ndelivered with
  | [] => .stop
  | .val v :: _ => .item v
  | .raises x :: _ => .raised x

/-! ### client side: proxies and `_StreamResultIterator` (client.py 518-568) -/

/-- the part of a proxy the stream iterator looks at: `_pyroConnection`, `_pyroSeq` -/
structure Proxy where
  conn : Option Nat
  seq : Nat
  deriving DecidableEq, Repr

/-- `_StreamResultIterator`: `proxy` (None once exhausted / closed), `pyroseq`, `streamId` -/
structure Iter where
  proxy : Option Nat
  pyroseq : Nat
  sid : Nat
  deriving DecidableEq, Repr

structure Sys where
  srv : State
  proxies : List Proxy
  iters : List Iter
  nextConn : Nat
  log : List Event        -- every server-side operation performed so far, with its reply
  deriving Repr

def Sys.init (t0 nprox seq0 : Nat) : Sys :=
  { srv := State.init t0, proxies := List.replicate nprox { conn := none, seq := seq0 }, iters := [],
    nextConn := 0, log := [] }

inductive COp where
  | call (p : Nat) (d : Data)     -- remote method call on proxy p whose result is `d`
  | inext (i : Nat)               -- `next(it)` on client iterator i
  | inextLost (i : Nat)           -- `next(it)` while the connection breaks during the request: `_pyroInvoke`
                                  --   (client.py 278-286) releases the connection and raises ConnectionClosedError
  | iclose (i : Nat)              -- `it.close()`
  | pcall (p : Nat)               -- an unrelated remote call on proxy p (advances `_pyroSeq`)
  | prelease (p : Nat)            -- `proxy._pyroRelease()`: the server sees the connection end
  | srv (op : Op)                 -- a server-side event (housekeeping, clock, a raw daemon-object call)
  deriving DecidableEq, Repr

inductive CRes where
  | iter (i : Nat)        -- a new `_StreamResultIterator` (index in creation order)
  | protoErr              -- ProtocolError: server not configured to allow streaming
  | plain                 -- an ordinary result
  | srv (r : Res)         -- the server's reply, passed through
  | connClosed            -- ConnectionClosedError("the proxy for this stream result has been closed")
  | none
  | bad                   -- no such proxy / iterator (harness error, never generated)
  deriving DecidableEq, Repr

/-- `(self._pyroSeq + 1) & 0xffff` with the extracted mask -/
def bumpSeq (mask seq : Nat) : Nat := (seq + 1) &&& mask

/-- one server operation on behalf of the client, recorded in the log -/
def Sys.server (cfg : Settings) (s : Sys) (op : Op) : Sys × Res :=
  let p := step cfg s.srv op
  ({ s with srv := p.1, log := s.log ++ [(op, p.2)] }, p.2)

/-- `_pyroInvoke` preamble: connect if necessary (fresh connection), advance the sequence number -/
def Sys.invoke (mask : Nat) (s : Sys) (p : Nat) (px : Proxy) : Sys × Nat :=
  match px.conn with
  | some c => ({ s with proxies := s.proxies.set p { px with seq := bumpSeq mask px.seq } }, c)
  | none => ({ s with proxies := s.proxies.set p { conn := some s.nextConn, seq := bumpSeq mask px.seq },
                       nextConn := s.nextConn + 1 }, s.nextConn)

def cstep (cfg : Settings) (mask : Nat) (s : Sys) : COp → Sys × CRes
  | .call p d =>
    match s.proxies[p]? with
    | none => (s, .bad)
    | some px =>
      let (s1, c) := s.invoke mask p px
      let (s2, r) := s1.server cfg (.open c d)
      match r with
      | .stream id =>
        -- client.py 269-273: `_StreamResultIterator(streamId, self)`, pyroseq = proxy._pyroSeq
        ({ s2 with iters := s2.iters ++ [{ proxy := some p, pyroseq := bumpSeq mask px.seq, sid := id }] },
         .iter s2.iters.length)
      | .noStream => (s2, .protoErr)
      | _ => (s2, .plain)
  | .inext i =>
    match s.iters[i]? with
    | none => (s, .bad)
    | some it =>
      match it.proxy with
      | none => (s, .srv .stop)                                   -- 533-534
      | some p =>
        match s.proxies[p]? with
        | none => (s, .bad)
        | some px =>
          match px.conn with
          | none => (s, .connClosed)                               -- 535-536
          | some c =>
            let s1 := { s with proxies := s.proxies.set p { px with seq := bumpSeq mask px.seq } }
            let (s2, r) := s1.server cfg (.next it.sid c)
            -- 537: pyroseq += 1 (not masked); 540-544: StopIteration drops the proxy
            let it' : Iter := { it with pyroseq := it.pyroseq + 1, proxy := if r = .stop then none else some p }
            ({ s2 with iters := s2.iters.set i it' }, .srv r)
  | .inextLost i =>
    match s.iters[i]? with
    | none => (s, .bad)
    | some it =>
      match it.proxy with
      | none => (s, .srv .stop)
      | some p =>
        match s.proxies[p]? with
        | none => (s, .bad)
        | some px =>
          match px.conn with
          | none => (s, .connClosed)
          | some c =>
            -- the request never reaches the daemon; the server sees the connection end.  ConnectionClosedError is not
            -- one of the exceptions after which the iterator drops its proxy (extracted fact): it stays usable
            let s1 := { s with proxies := s.proxies.set p { conn := none, seq := bumpSeq mask px.seq },
                               iters := s.iters.set i { it with pyroseq := it.pyroseq + 1 } }
            ((s1.server cfg (.disconnect c)).1, .connClosed)
  | .iclose i =>
    match s.iters[i]? with
    | none => (s, .bad)
    | some it =>
      let closed := { s with iters := s.iters.set i { it with proxy := none } }
      match it.proxy with
      | none => (closed, .none)
      | some p =>
        match s.proxies[p]? with
        | none => (s, .bad)
        | some px =>
          match px.conn with
          | none => (closed, .none)
          | some _ =>
            if it.pyroseq = px.seq then
              -- 554-557: still in sync, close through the same proxy
              let s1 := { closed with proxies := closed.proxies.set p { px with seq := bumpSeq mask px.seq } }
              ((s1.server cfg (.close it.sid)).1, .none)
            else
              -- 558-567: a temporary copy of the proxy: new connection, close_stream, released again
              let c' := closed.nextConn
              let s1 := { closed with nextConn := c' + 1 }
              let s2 := (s1.server cfg (.close it.sid)).1
              ((s2.server cfg (.disconnect c')).1, .none)
  | .pcall p =>
    match s.proxies[p]? with
    | none => (s, .bad)
    | some px => ((s.invoke mask p px).1, .none)
  | .prelease p =>
    match s.proxies[p]? with
    | none => (s, .bad)
    | some px =>
      match px.conn with
      | none => (s, .none)
      | some c =>
        let s1 := { s with proxies := s.proxies.set p { px with conn := none } }
        ((s1.server cfg (.disconnect c)).1, .none)
  | .srv op => let (s1, r) := s.server cfg op; (s1, .srv r)

def crun (cfg : Settings) (mask : Nat) : Sys → List COp → Sys × List CRes
  | s, [] => (s, [])
  | s, op :: ops =>
    let p := cstep cfg mask s op
    let q := crun cfg mask p.1 ops
    (q.1, p.2 :: q.2)

end Pyro.Streams
