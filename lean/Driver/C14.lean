-- placeholder driver (model for C14 not built yet)
def main : IO Unit := pure ()
