/-
  Driver for the name-server model (C14).  One history per line:

    hist <backend mem|sql|spec|memsrc|sqlsrc> <baduris> <retable> <op> <op> …     →  one result token per op
    like <pattern> <name>                                          →  1 | 0     (sqlite LIKE model)

  str      : comma separated code points, "-" = empty;  optional str: "~" = None
  baduris  : "~" or strs joined by "/"  (texts core.URI rejects; everything else is accepted)
  retable  : "~" or entries joined by ";", entry = <regex>=<compiles 0|1>=<names it matches joined by "/" | ~>
  meta arg : "~" None | "S0" empty str | "S1" non-empty str | "L"+tags joined by "/"   ("L" = empty list)
  op       : count | look:<name>:<wm> | reg:<name>:<uri>:<safe>:<meta> | setm:<name>:<meta>
           | rm:<optname>:<optprefix>:<optregex> | list:<optprefix>:<optregex>:<wm> | yp:<all>:<any>:<wm> | reopen
             optionally followed by "@k": the k-th (0-based) storage statement of this operation raises
  result   : N | n<k> | u<uri> | m<uri>|<tags> | d<entries> | E<kind>  followed by "#<statements executed>"
             entries sorted by name, joined by ";", each name>uri>tags ; tags sorted, joined by "/", "~" = none
-/
import PyroModel.NameServer
import PyroModel.Sql
import PyroModel.Gen.C14Src
import Driver.Util

open Pyro.NS Pyro.NS.Sql Driver

def strLe : Str → Str → Bool
  | [], _ => true
  | _ :: _, [] => false
  | a :: as, b :: bs => a < b || (a == b && strLe as bs)

def pStr (s : String) : Option Str := parseNatList s

def pOptStr (s : String) : Option (Option Str) :=
  if s == "~" then some none else (pStr s).map some

def pStrs (s : String) : Option (List Str) :=
  if s == "~" then some [] else (s.splitOn "/").mapM pStr

def pMeta (s : String) : Option MetaArg :=
  if s == "~" then some .none
  else if s == "S0" then some (.str false)
  else if s == "S1" then some (.str true)
  else if s == "L" then some (.list [])
  else if s.startsWith "L" then ((s.drop 1).toString.splitOn "/").mapM pStr |>.map .list
  else none

def pBool (s : String) : Option Bool :=
  if s == "1" then some true else if s == "0" then some false else none

def pOp (s : String) : Option Op :=
  match s.splitOn ":" with
  | ["count"] => some .count
  | ["look", n, wm] => do some (.lookup (← pStr n) (← pBool wm))
  | ["reg", n, u, safe, md] => do some (.register (← pStr n) (← pStr u) (← pBool safe) (← pMeta md))
  | ["setm", n, md] => do some (.setMeta (← pStr n) (← pMeta md))
  | ["rm", n, p, r] => do some (.remove (← pOptStr n) (← pOptStr p) (← pOptStr r))
  | ["list", p, r, wm] => do some (.list (← pOptStr p) (← pOptStr r) (← pBool wm))
  | ["yp", a, b, wm] => do some (.yplookup (← pMeta a) (← pMeta b) (← pBool wm))
  | _ => none

structure ReEntry where
  pat : Str
  ok : Bool
  names : List Str

def pReEntry (s : String) : Option ReEntry :=
  match s.splitOn "=" with
  | [p, ok, ns] => do some ⟨← pStr p, ← pBool ok, ← pStrs ns⟩
  | _ => none

def pReTable (s : String) : Option (List ReEntry) :=
  if s == "~" then some [] else (s.splitOn ";").mapM pReEntry

def mkEnv (bad : List Str) (tab : List ReEntry) : Env where
  uriOk u := !bad.contains u
  reOk r := match tab.find? (·.pat == r) with
    | some e => e.ok
    | none => false
  reMatch r n := match tab.find? (·.pat == r) with
    | some e => e.names.contains n
    | none => false

def opRegexKnown (tab : List ReEntry) : Op → Bool
  | .remove _ _ (some r) => r.isEmpty || tab.any (·.pat == r)
  | .list _ (some r) _ => r.isEmpty || tab.any (·.pat == r)
  | _ => true

def showTags (t : Tags) : String :=
  if t.isEmpty then "~" else "/".intercalate ((t.mergeSort strLe).map natListToString)

def showEntry (e : Entry) : String :=
  natListToString e.name ++ ">" ++ natListToString e.uri ++ ">" ++ showTags e.tags

def showErr : Err → String
  | .naming => "naming" | .type => "type" | .value => "value" | .pyro => "pyro" | .key => "key" | .storage => "storage"

def showRes : Res → String
  | .none => "N"
  | .num n => s!"n{n}"
  | .uri u => "u" ++ natListToString u
  | .uriMeta u t => "m" ++ natListToString u ++ "|" ++ showTags t
  | .listing l =>
    if l.isEmpty then "d~"
    else "d" ++ ";".intercalate ((l.mergeSort fun a b => strLe a.name b.name).map showEntry)
  | .err e => "E" ++ showErr e

def bigFuel : Nat := 1000000

/-- split "op@k" -/
def splitFault (tok : String) : Option (String × Option Nat) :=
  match tok.splitOn "@" with
  | [o] => some (o, none)
  | [o, k] => k.toNat?.map fun k => (o, some k)
  | _ => none

/-- `step` = the hand-written model `nsStep memStore env` or the transcription `nsStepSrc memStore env` (backend memsrc) -/
def runMem (step : Op → MemDb → Res × MemDb) (tab : List ReEntry) : List String → MemDb → List String → List String
  | [], _, acc => acc.reverse
  | tok :: rest, s, acc =>
    match splitFault tok with
    | some (o, none) =>
      match pOp o with
      | some op =>
        if opRegexKnown tab op then
          let (r, s') := step op s
          runMem step tab rest s' ((showRes r ++ "#0") :: acc)
        else ["bad-regex"]
      | none => ["bad-op"]
    | _ => ["bad-op"]

def runSpec (env : Env) (tab : List ReEntry) : List String → Spec → List String → List String
  | [], _, acc => acc.reverse
  | tok :: rest, s, acc =>
    match splitFault tok with
    | some (o, none) =>
      match pOp o with
      | some op =>
        if opRegexKnown tab op then
          let (r, s') := specStep env op s
          runSpec env tab rest s' ((showRes r ++ "#0") :: acc)
        else ["bad-regex"]
      | none => ["bad-op"]
    | _ => ["bad-op"]

def runSql (step : Op → SqlState → Res × SqlState) (tab : List ReEntry) : List String → SqlState → List String → List String
  | [], _, acc => acc.reverse
  | tok :: rest, s, acc =>
    match splitFault tok with
    | some (o, k) =>
      if o == "reopen" then runSql step tab rest (reopen s) ("R" :: acc)
      else
        match pOp o with
        | some op =>
          if opRegexKnown tab op then
            let f0 := k.getD bigFuel
            let (r, s') := step op ⟨s.db, some f0⟩
            let out := match r with
              | .err .storage => showRes r
              | _ => showRes r ++ s!"#{f0 - s'.fuel.getD 0}"
            runSql step tab rest ⟨s'.db, none⟩ (out :: acc)
          else ["bad-regex"]
        | none => ["bad-op"]
    | none => ["bad-op"]

def step : List String → String
  | "hist" :: backend :: bad :: tab :: ops =>
    match pStrs bad, pReTable tab with
    | some bad, some tab =>
      let env := mkEnv bad tab
      let out :=
        if backend == "mem" then runMem (nsStep memStore env) tab ops [] []
        else if backend == "sql" then runSql (nsStep sqlStore env) tab ops ⟨Db.empty, none⟩ []
        else if backend == "memsrc" then runMem (Pyro.Gen.C14Src.nsStepSrc memStore env) tab ops [] []
        else if backend == "sqlsrc" then runSql (Pyro.Gen.C14Src.nsStepSrc sqlStore env) tab ops ⟨Db.empty, none⟩ []
        else if backend == "spec" then runSpec env tab ops [] []
        else ["bad-backend"]
      if out.isEmpty then "-" else " ".intercalate out
    | _, _ => "bad-env"
  | ["like", p, n] =>
    match pStr p, pStr n with
    | some p, some n => if likeMatch p n then "1" else "0"
    | _, _ => "bad-op"
  | _ => "bad-op"

def main : IO Unit := runDriver step
