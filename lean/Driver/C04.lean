-- placeholder driver (model for C04 not built yet)
def main : IO Unit := pure ()
