/-
  Driver for the class re-creation model (C04).  One request per line:

    <op> <ser> <reg> <failspec> <node tokens…>
      op        loads | call
      ser       serpent | marshal | json | msgpack
      reg       "-" or comma separated hex(utf-8) tags that have a registered converter
      failspec  "-" (every external call succeeds) | ctor:<qualified class> | setattr | float | uri | mkset | exthook
                (the external call that failed in the real run; all others succeed)
      node      a0:<label> | a1:<label>            atom (falsy / truthy)
                o0:<label> | o1:<label>            opaque leaf (frozenset …)
                s:<hex utf-8>                      str          ("-" = empty)
                b:<hex>                            bytes
                l:<n> node*n | t:<n> … | e:<n> …   list / tuple / set
                d:<n> (key node)*n                 dict;  key = ks:<hex utf-8> | ko:<label>
                x:<code>:<rawlabel>:<convlabel>:<0|1>   msgpack extension value
  Reply:  ok <rendering> <effects> src=same|src=DIFF   |   err <Enum> <effects> src=…
          (src: the transcription of the source, Gen/C04Src.lean, evaluated on the literal tree agrees with the model)
-/
import PyroModel.Classes
import PyroModel.Gen.C04Src
import Driver.Util

open Pyro Pyro.Classes Driver

def hexToStr (h : String) : Option Str := do
  let bs ← hexToBytes h
  let s ← String.fromUTF8? (ByteArray.mk bs.toArray)
  pure s.toList

def strToHex (s : Str) : String := bytesToHex (String.ofList s).toUTF8.toList

def parseKey (t : String) : Option Key :=
  if t.startsWith "ks:" then (hexToStr (t.drop 3).toString).map Key.str
  else if t.startsWith "ko:" then some (Key.other (t.drop 3).toString)
  else none

mutual
partial def parseVal : List String → Option (Val × List String)
  | [] => none
  | t :: rest =>
    if t.startsWith "a0:" then some (.atom false (t.drop 3).toString, rest)
    else if t.startsWith "a1:" then some (.atom true (t.drop 3).toString, rest)
    else if t.startsWith "o0:" then some (.blob false (t.drop 3).toString, rest)
    else if t.startsWith "o1:" then some (.blob true (t.drop 3).toString, rest)
    else if t.startsWith "s:" then (hexToStr (t.drop 2).toString).map fun s => (.str s, rest)
    else if t.startsWith "b:" then (hexToBytes (t.drop 2).toString).map fun b => (.bytes b, rest)
    else if t.startsWith "l:" then do
      let n ← (t.drop 2).toString.toNat?
      let (xs, r) ← parseVals n rest
      pure (.list xs, r)
    else if t.startsWith "t:" then do
      let n ← (t.drop 2).toString.toNat?
      let (xs, r) ← parseVals n rest
      pure (.tuple xs, r)
    else if t.startsWith "e:" then do
      let n ← (t.drop 2).toString.toNat?
      let (xs, r) ← parseVals n rest
      pure (.set xs, r)
    else if t.startsWith "d:" then do
      let n ← (t.drop 2).toString.toNat?
      let (ks, vs, r) ← parseEntries n rest
      pure (.dict ks vs, r)
    else if t.startsWith "x:" then
      match (t.drop 2).toString.splitOn ":" with
      | [c, raw, conv, tr] => (c.toInt?).map fun code => (.ext code raw conv (tr == "1"), rest)
      | _ => none
    else none
partial def parseVals : Nat → List String → Option (List Val × List String)
  | 0, r => some ([], r)
  | n + 1, r => do
    let (v, r1) ← parseVal r
    let (vs, r2) ← parseVals n r1
    pure (v :: vs, r2)
partial def parseEntries : Nat → List String → Option (List Key × List Val × List String)
  | 0, r => some ([], [], r)
  | _ + 1, [] => none
  | n + 1, k :: r => do
    let key ← parseKey k
    let (v, r1) ← parseVal r
    let (ks, vs, r2) ← parseEntries n r1
    pure (key :: ks, v :: vs, r2)
end

def clsName (c : Cls) : String := String.ofList (clsNameL c)

def renderEffect : Effect → String
  | .convert t => "conv:" ++ strToHex t
  | .construct c => "new:" ++ clsName c
  | .getattrMod m _ => "get:" ++ String.ofList m
  | .importMod m => "imp:" ++ String.ofList m
  | .setattr _ _ => "set"
  | .pureCall w => "pure:" ++ w
  | .logWarn => "warn"

def parseSer : String → Option Ser
  | "serpent" => some .serpent
  | "marshal" => some .marshal
  | "json" => some .json
  | "msgpack" => some .msgpack
  | _ => none

def parseReg (s : String) : Option (List Str) :=
  if s == "-" then some [] else (s.splitOn ",").mapM hexToStr

def callExtHook : Bool := Pyro.Gen.C04.msgpackCallExtHook

/-- `self.dict_to_class` of a serializer over the TRANSCRIBED dict_to_class (serpent's float special case stays the model's) -/
def dictEntryS (E : Env) (ser : Ser) (fuel : Nat) (ks : List Key) (vs : List Val) : M Val :=
  let isFloat := match lookup kClass ks vs with
    | some (.str t) => t == tFloat
    | _ => false
  if ser == .serpent && isFloat then dictEntry E ser fuel ks vs
  else Pyro.Gen.C04Src.dictToClassFix E fuel ks vs

/-- the transcription of recreate_classes / dict_to_class / make_exception (Gen/C04Src.lean) evaluated on the literal tree
    next to the model: same outcome and same effect log?  (proved for all inputs in PyroProps/C04Src.lean; evaluated here so
    that the translator and the `py…` vocabulary are exercised on every correspondence case) -/
def srcAgrees (E : Env) (s : Ser) (v : Val) : Bool :=
  let fuel := fuelFor v
  let a := Pyro.Gen.C04Src.recreateFix (dictEntryS E s fuel) (depth v + 1) v
  let b := recreate E s fuel v
  outcomeL a == outcomeL b && a.2 == b.2

def step : List String → String
  | op :: ser :: reg :: spec :: toks =>
    match parseSer ser, parseReg reg, parseVal toks with
    | some s, some r, some (v, []) =>
      let E : Env := { reg := r, ext := mkExtL spec.toList }
      let out : Option (M Val) :=
        if op == "loads" then some (loads E s (fuelFor v) v)
        else if op == "call" then some (loadsCall E callExtHook s (fuelFor v) v)
        else none
      match out with
      | none => "bad-op"
      | some (res, log) =>
        let fx := if log.isEmpty then "-" else ",".intercalate (log.map renderEffect)
        let src := if srcAgrees E s v then " src=same" else " src=DIFF"
        match res with
        | .ok w => "ok " ++ String.ofList (renderL w) ++ " " ++ fx ++ src
        | .error e => "err " ++ String.ofList (renderErrL e) ++ " " ++ fx ++ src
    | _, _, _ => "bad-line"
  | _ => "bad-line"

def main : IO Unit := runDriver step
