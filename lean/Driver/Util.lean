/-
  Driver/Util.lean — shared glue for the line-protocol drivers (trusted base: parsing/printing only).
  One request per input line, tokens separated by single spaces; one reply line per request.
  Bytes travel as lowercase hex ("-" = empty); code-point lists as comma separated decimals ("-" = empty).
-/
import PyroModel.Bytes

namespace Driver

open Pyro

def hexDigit (c : Char) : Option Nat :=
  if '0' ≤ c ∧ c ≤ '9' then some (c.toNat - '0'.toNat)
  else if 'a' ≤ c ∧ c ≤ 'f' then some (c.toNat - 'a'.toNat + 10)
  else none

partial def hexToBytesAux : List Char → List UInt8 → Option (List UInt8)
  | [], acc => some acc.reverse
  | [_], _ => none
  | a :: b :: rest, acc =>
    match hexDigit a, hexDigit b with
    | some x, some y => hexToBytesAux rest (UInt8.ofNat (x * 16 + y) :: acc)
    | _, _ => none

def hexToBytes (s : String) : Option Bytes :=
  if s == "-" then some [] else hexToBytesAux s.toList []

def nibble (n : Nat) : Char :=
  if n < 10 then Char.ofNat (n + '0'.toNat) else Char.ofNat (n - 10 + 'a'.toNat)

def bytesToHex (bs : Bytes) : String :=
  if bs.isEmpty then "-"
  else String.ofList (bs.foldr (fun b acc => nibble (b.toNat / 16) :: nibble (b.toNat % 16) :: acc) [])

def parseNatList (s : String) : Option (List Nat) :=
  if s == "-" then some [] else (s.splitOn ",").mapM String.toNat?

def natListToString (l : List Nat) : String :=
  if l.isEmpty then "-" else ",".intercalate (l.map toString)

def parseIntTok (s : String) : Option Int := s.toInt?

/-- read stdin line by line, answer each with `step` -/
partial def loop (h : IO.FS.Stream) (out : IO.FS.Stream) (step : List String → String) : IO Unit := do
  let line ← h.getLine
  if line.isEmpty then
    out.flush
    return ()
  let toks := (line.trimAscii.toString.splitOn " ").filter (· ≠ "")
  out.putStrLn (step toks)
  loop h out step

def runDriver (step : List String → String) : IO Unit := do
  let stdin ← IO.getStdin
  let stdout ← IO.getStdout
  loop stdin stdout step

end Driver
