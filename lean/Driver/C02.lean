/-
  Driver for the exposure-gate model (C02).  One line = one class shape + all requests against it:

    S <nclasses> { C <exposeClass> <nmembers> { <key> <member> } } I <n> { <key> <val> } R <nreq> { q <batch> <oneway> <method> <nargs> { <name> } }
      member := mf <fn> | ms <fn> | mc <fn> | mp <exposeProp> <ofn> <ofn> <ofn> | ma <val>
      fn     := f <name> <fid> <expose> <oneway>          ofn := <fn> | x
      val    := vd | vi <exposed> <hasCall> <callId> <initId> | vc <exposed> <hasCall> <callId> <initId> | vf <fn>
    optionally followed by a history   E <n> { is <key> <val> | id <key> | ts <class#> <key> <member> | td <class#> <key> | rm | gm | q ... }
    (each step answers "step" / "steperr:<err>", each request as below; the metadata is that of the initial shape)
      key / name inside fn := comma separated code points ("-" = empty)
      request name := s<code points> | h | u
  Reply:
    builderr:<err>
    ok M <names> O <names> A <names> { | <reply> <effects> }      names := cps;cps;..  ("-" = none), effects := n,n,.. ("-" = none)
  The gate configuration is the one extracted from the current source (Pyro.Gen.C02).
-/
import PyroModel.Expose
import Driver.Util

open Pyro Pyro.Expose Driver

abbrev P (α : Type) := List String → Option (α × List String)

def pBool : P Bool
  | "1" :: r => some (true, r)
  | "0" :: r => some (false, r)
  | _ => none

def pNat : P Nat
  | t :: r => t.toNat?.map (·, r)
  | _ => none

def pName : P Name
  | t :: r => (parseNatList t).map (·, r)
  | _ => none

def pFn : P FnDecl
  | "f" :: r => do
    let (n, r) ← pName r
    let (i, r) ← pNat r
    let (e, r) ← pBool r
    let (o, r) ← pBool r
    pure ({ fname := n, fid := i, expose := e, oneway := o }, r)
  | _ => none

def pOptFn : P (Option FnDecl)
  | "x" :: r => some (none, r)
  | ts => (pFn ts).map fun (f, r) => (some f, r)

def pHelper : P Helper := fun r => do
  let (e, r) ← pBool r
  let (c, r) ← pBool r
  let (ci, r) ← pNat r
  let (ii, r) ← pNat r
  pure ({ exposed := e, hasCall := c, callId := ci, initId := ii }, r)

def pVal : P Val
  | "vd" :: r => some (.data, r)
  | "vi" :: r => (pHelper r).map fun (h, r) => (.inst h, r)
  | "vc" :: r => (pHelper r).map fun (h, r) => (.cls h, r)
  | "vf" :: r => (pFn r).map fun (d, r) =>
      (.fn { fname := d.fname, fid := d.fid, exposed := d.expose, oneway := d.oneway }, r)
  | _ => none

def pMember : P MemberDecl
  | "mf" :: r => (pFn r).map fun (f, r) => (.func f, r)
  | "ms" :: r => (pFn r).map fun (f, r) => (.static f, r)
  | "mc" :: r => (pFn r).map fun (f, r) => (.clsm f, r)
  | "mp" :: r => do
    let (e, r) ← pBool r
    let (g, r) ← pOptFn r
    let (s, r) ← pOptFn r
    let (d, r) ← pOptFn r
    pure (.prop e g s d, r)
  | "ma" :: r => (pVal r).map fun (v, r) => (.attr v, r)
  | _ => none

def pMany {α : Type} (p : P α) : Nat → P (List α)
  | 0 => fun r => some ([], r)
  | n + 1 => fun r => do
    let (a, r) ← p r
    let (as, r) ← pMany p n r
    pure (a :: as, r)

def pKeyed {α : Type} (p : P α) : P (Name × α) := fun r => do
  let (k, r) ← pName r
  let (a, r) ← p r
  pure ((k, a), r)

def pClass : P ClassDecl
  | "C" :: r => do
    let (e, r) ← pBool r
    let (n, r) ← pNat r
    let (ms, r) ← pMany (pKeyed pMember) n r
    pure ({ exposeClass := e, members := ms }, r)
  | _ => none

def pReqName : P ReqName
  | "h" :: r => some (.hashable, r)
  | "u" :: r => some (.unhashable, r)
  | t :: r => if t.startsWith "s" then (parseNatList (t.drop 1).toString).map fun n => (.str n, r) else none
  | _ => none

def pReq : P Req
  | "q" :: r => do
    let (b, r) ← pBool r
    let (o, r) ← pBool r
    let (m, r) ← pReqName r
    let (n, r) ← pNat r
    let (as, r) ← pMany pReqName n r
    pure ({ batch := b, oneway := o, method := m, args := as }, r)
  | _ => none

/-- an event of the history after the first block of requests: a run-time change (the member of a
    `setMember` still as a declaration: the member decorators run when the step is executed) or a request -/
inductive Ev
  | setInst (k : Name) (v : Val)
  | delInst (k : Name)
  | setMember (ci : Nat) (k : Name) (m : MemberDecl)
  | delMember (ci : Nat) (k : Name)
  | req (r : Req)
  | resetMeta
  | getMeta

def pEv : P Ev
  | "rm" :: r => some (.resetMeta, r)
  | "gm" :: r => some (.getMeta, r)
  | "is" :: r => do
    let (k, r) ← pName r
    let (v, r) ← pVal r
    pure (.setInst k v, r)
  | "id" :: r => (pName r).map fun (k, r) => (.delInst k, r)
  | "ts" :: r => do
    let (ci, r) ← pNat r
    let (k, r) ← pName r
    let (m, r) ← pMember r
    pure (.setMember ci k m, r)
  | "td" :: r => do
    let (ci, r) ← pNat r
    let (k, r) ← pName r
    pure (.delMember ci k, r)
  | ts => (pReq ts).map fun (q, r) => (.req q, r)

def pLine : List String → Option (List ClassDecl × List (Name × Val) × List Req × List Ev)
  | "S" :: r => do
    let (n, r) ← pNat r
    let (cs, r) ← pMany pClass n r
    match r with
    | "I" :: r =>
      let (n, r) ← pNat r
      let (inst, r) ← pMany (pKeyed pVal) n r
      match r with
      | "R" :: r =>
        let (n, r) ← pNat r
        let (qs, r) ← pMany pReq n r
        match r with
        | [] => pure (cs, inst, qs, [])
        | "E" :: r =>
          let (n, r) ← pNat r
          let (evs, r) ← pMany pEv n r
          if r.isEmpty then pure (cs, inst, qs, evs) else none
        | _ => none
      | _ => none
    | _ => none
  | _ => none

def errTok : Err → String
  | .priv => "priv" | .unexposed => "unexposed" | .unprop => "unprop"
  | .attr => "attr" | .type => "type" | .index => "index"

def namesTok (ns : List Name) : String :=
  if ns.isEmpty then "-" else ";".intercalate (ns.map natListToString)

def replyTok : Reply → String
  | .result => "result"
  | .none => "none"
  | .error e => "error:" ++ errTok e

def cfg : Cfg :=
  { callTypeFirst := Pyro.Gen.C02.callGateTypeFirst
    getPriv := Pyro.Gen.C02.getGatePrivate
    setPriv := Pyro.Gen.C02.setGatePrivate
    nonStrType := Pyro.Gen.C02.privateGateNonStrTypeError }

def reqPart (sh : Shape) (q : Req) : String :=
  let (rep, eff) := dispatch cfg sh q
  replyTok rep ++ " " ++ natListToString eff

def metaTok (md : Meta) : String :=
  s!"M {namesTok md.methods} O {namesTok md.oneway} A {namesTok md.attrs}"

/-- the history after the first block: same recursion as `Pyro.Expose.runHistory` / `advertised`, one part per event;
    `c` = the cached member list (filled by the initial advertisement) -/
def runEvents : Option Meta → Shape → List Ev → List String
  | _, _, [] => []
  | c, sh, .req q :: rest => reqPart sh q :: runEvents c sh rest
  | c, sh, .setInst k v :: rest => "step" :: runEvents c (applyStep sh (.setInst k v)) rest
  | c, sh, .delInst k :: rest => "step" :: runEvents c (applyStep sh (.delInst k)) rest
  | c, sh, .delMember ci k :: rest => "step" :: runEvents c (applyStep sh (.delMember ci k)) rest
  | c, sh, .setMember ci k md :: rest =>
    match buildMember md with
    | .ok m => "step" :: runEvents c (applyStep sh (.setMember ci k m)) rest
    | .error e => ("steperr:" ++ errTok e) :: runEvents c sh rest
  | _, sh, .resetMeta :: rest => "reset" :: runEvents none sh rest
  | some m, sh, .getMeta :: rest => metaTok m :: runEvents (some m) sh rest
  | none, sh, .getMeta :: rest => metaTok (metadata sh) :: runEvents (some (metadata sh)) sh rest

def step (toks : List String) : String :=
  match pLine toks with
  | none => "bad-op"
  | some (cs, inst, qs, evs) =>
    match buildShape cs inst with
    | .error e => "builderr:" ++ errTok e
    | .ok sh =>
      let md := metadata sh      -- computed (and cached by the code) before any run-time change
      let head := "ok " ++ metaTok md
      " | ".intercalate (head :: (qs.map (reqPart sh) ++ runEvents (some md) sh evs))

def main : IO Unit := runDriver step
