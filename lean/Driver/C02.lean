-- placeholder driver (model for C02 not built yet)
def main : IO Unit := pure ()
