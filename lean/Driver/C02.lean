/-
  Driver for the exposure-gate model (C02).  One line = one class shape + all requests against it:

    S <nclasses> { C <exposeClass> <nmembers> { <key> <member> } } I <n> { <key> <val> } R <nreq> { q <batch> <oneway> <method> <nargs> { <name> } }
      member := mf <fn> | ms <fn> | mc <fn> | mp <exposeProp> <ofn> <ofn> <ofn> | ma <val>
      fn     := f <name> <fid> <expose> <oneway>          ofn := <fn> | x
      val    := vd | vi <exposed> <hasCall> <callId> <initId> | vc <exposed> <hasCall> <callId> <initId>
      key / name inside fn := comma separated code points ("-" = empty)
      request name := s<code points> | h | u
  Reply:
    builderr:<err>
    ok M <names> O <names> A <names> { | <reply> <effects> }      names := cps;cps;..  ("-" = none), effects := n,n,.. ("-" = none)
  The gate configuration is the one extracted from the current source (Pyro.Gen.C02).
-/
import PyroModel.Expose
import Driver.Util

open Pyro Pyro.Expose Driver

abbrev P (α : Type) := List String → Option (α × List String)

def pBool : P Bool
  | "1" :: r => some (true, r)
  | "0" :: r => some (false, r)
  | _ => none

def pNat : P Nat
  | t :: r => t.toNat?.map (·, r)
  | _ => none

def pName : P Name
  | t :: r => (parseNatList t).map (·, r)
  | _ => none

def pFn : P FnDecl
  | "f" :: r => do
    let (n, r) ← pName r
    let (i, r) ← pNat r
    let (e, r) ← pBool r
    let (o, r) ← pBool r
    pure ({ fname := n, fid := i, expose := e, oneway := o }, r)
  | _ => none

def pOptFn : P (Option FnDecl)
  | "x" :: r => some (none, r)
  | ts => (pFn ts).map fun (f, r) => (some f, r)

def pHelper : P Helper := fun r => do
  let (e, r) ← pBool r
  let (c, r) ← pBool r
  let (ci, r) ← pNat r
  let (ii, r) ← pNat r
  pure ({ exposed := e, hasCall := c, callId := ci, initId := ii }, r)

def pVal : P Val
  | "vd" :: r => some (.data, r)
  | "vi" :: r => (pHelper r).map fun (h, r) => (.inst h, r)
  | "vc" :: r => (pHelper r).map fun (h, r) => (.cls h, r)
  | _ => none

def pMember : P MemberDecl
  | "mf" :: r => (pFn r).map fun (f, r) => (.func f, r)
  | "ms" :: r => (pFn r).map fun (f, r) => (.static f, r)
  | "mc" :: r => (pFn r).map fun (f, r) => (.clsm f, r)
  | "mp" :: r => do
    let (e, r) ← pBool r
    let (g, r) ← pOptFn r
    let (s, r) ← pOptFn r
    let (d, r) ← pOptFn r
    pure (.prop e g s d, r)
  | "ma" :: r => (pVal r).map fun (v, r) => (.attr v, r)
  | _ => none

def pMany {α : Type} (p : P α) : Nat → P (List α)
  | 0 => fun r => some ([], r)
  | n + 1 => fun r => do
    let (a, r) ← p r
    let (as, r) ← pMany p n r
    pure (a :: as, r)

def pKeyed {α : Type} (p : P α) : P (Name × α) := fun r => do
  let (k, r) ← pName r
  let (a, r) ← p r
  pure ((k, a), r)

def pClass : P ClassDecl
  | "C" :: r => do
    let (e, r) ← pBool r
    let (n, r) ← pNat r
    let (ms, r) ← pMany (pKeyed pMember) n r
    pure ({ exposeClass := e, members := ms }, r)
  | _ => none

def pReqName : P ReqName
  | "h" :: r => some (.hashable, r)
  | "u" :: r => some (.unhashable, r)
  | t :: r => if t.startsWith "s" then (parseNatList (t.drop 1).toString).map fun n => (.str n, r) else none
  | _ => none

def pReq : P Req
  | "q" :: r => do
    let (b, r) ← pBool r
    let (o, r) ← pBool r
    let (m, r) ← pReqName r
    let (n, r) ← pNat r
    let (as, r) ← pMany pReqName n r
    pure ({ batch := b, oneway := o, method := m, args := as }, r)
  | _ => none

def pLine : List String → Option (List ClassDecl × List (Name × Val) × List Req)
  | "S" :: r => do
    let (n, r) ← pNat r
    let (cs, r) ← pMany pClass n r
    match r with
    | "I" :: r =>
      let (n, r) ← pNat r
      let (inst, r) ← pMany (pKeyed pVal) n r
      match r with
      | "R" :: r =>
        let (n, r) ← pNat r
        let (qs, r) ← pMany pReq n r
        if r.isEmpty then pure (cs, inst, qs) else none
      | _ => none
    | _ => none
  | _ => none

def errTok : Err → String
  | .priv => "priv" | .unexposed => "unexposed" | .unprop => "unprop"
  | .attr => "attr" | .type => "type" | .index => "index"

def namesTok (ns : List Name) : String :=
  if ns.isEmpty then "-" else ";".intercalate (ns.map natListToString)

def replyTok : Reply → String
  | .result => "result"
  | .none => "none"
  | .error e => "error:" ++ errTok e

def cfg : Cfg :=
  { callTypeFirst := Pyro.Gen.C02.callGateTypeFirst
    getPriv := Pyro.Gen.C02.getGatePrivate
    setPriv := Pyro.Gen.C02.setGatePrivate }

def step (toks : List String) : String :=
  match pLine toks with
  | none => "bad-op"
  | some (cs, inst, qs) =>
    match buildShape cs inst with
    | .error e => "builderr:" ++ errTok e
    | .ok sh =>
      let md := metadata sh
      let head := s!"ok M {namesTok md.methods} O {namesTok md.oneway} A {namesTok md.attrs}"
      let parts := qs.map fun q =>
        let (rep, eff) := dispatch cfg sh q
        replyTok rep ++ " " ++ natListToString eff
      " | ".intercalate (head :: parts)

def main : IO Unit := runDriver step
