/-
  Driver for the Batch model (C11).

    batch <oneway 0|1> <pre 0|1> <q0> <gate> <bad> <rows> <calls>
        → q=<q> log=<n.a,…|-> seen=<submit:E<id> | stream:<v,…|->:<E<id>|-> | nothing>
    prog <pre 0|1> <q0> <gate> <bad> <rows> <ops>     ops: r.<i>.<n>.<a> record on BatchProxy i | c.<i> copy.copy | s.<i>.<0|1> submit
        → q=<q> log=<…> outs=<seen>|<seen>|…   (one per submit; "-" = no submit)
    seq <q0> <gate> <bad> <rows> <calls>
        → q=<q> log=<n.a,…|-> vals=<v,…|-> fail=<E<id>|->

  The remote object is the harness's table-driven reference object (harness/props/c11.py, class Ref):
    state  = (automaton state q, log of executed calls)
    gate   = list of q.n.c   (c = 0: `_get_attribute` returns the method; otherwise the id of the AttributeError it
             raises; a (q, n) that is not listed is a missing attribute = exception 102)
    name 12 = `acc`: appends its argument id to an internal list and returns that list (value 1000 + accCode), see tabObj
    bad    = argument ids whose (args, kwargs) do not fit the method signature: TypeError (exception 100) is
             raised by the call itself, before the body runs — nothing is logged, the state is unchanged
    rows   = list of q.n.a.q2.k.v : in state q, method n with argument a moves to q2 and returns value v (k = o)
             or raises exception v (k = e); the call is logged first.  No row: KeyError (exception 0), state kept.
  pre = 1: the serializer's dumpsCall raises on the client (exception 109).
  `batch` also evaluates the transcription of the source (PyroModel/BatchSrc.lean over Gen/C11.lean) on the same request and
  appends ` TRANSCRIPTION-DIFFERS …` to the line when it disagrees with the hand-written model (never on a proved tree).
  All lists are comma separated, "-" = empty.
-/
import PyroModel.Batch
import PyroModel.BatchSrc
import Driver.Util

open Pyro Pyro.Batch Driver

structure Tab where
  gate : List (Nat × Nat × Nat)
  bad : List Nat
  rows : List (Nat × Nat × Nat × Nat × Bool × Nat)

abbrev RefSt := Nat × List (Nat × Nat)

/-- name id of the reference object's `acc` method (returns a live reference to its internal list) -/
def accName : Nat := 12

/-- a list of argument ids as one number (little endian, base 7, digits a+1) -/
def accCode : List Nat → Nat
  | [] => 0
  | a :: rest => (a + 1) + 7 * accCode rest

def tabObj (t : Tab) : Obj RefSt Nat Nat Nat Nat where
  gate := fun s n =>
    match t.gate.find? (fun g => g.1 == s.1 && g.2.1 == n) with
    | some (_, _, 0) => none
    | some (_, _, c) => some c
    | none => some 102
  apply := fun s n a =>
    if t.bad.contains a then (s, .exc 100)
    else if n == accName then
      -- Ref.acc: `self.items.append(marker a); return self.items` — the items are the arguments of the logged acc calls;
      -- one by one the caller gets the list AS IT IS AT CALL TIME (value 1000 + accCode of it); q is untouched
      let log := s.2 ++ [(n, a)]
      ((s.1, log), .ok (1000 + accCode ((log.filter (fun p => p.1 == accName)).map (·.2))))
    else
      let log := s.2 ++ [(n, a)]
      match t.rows.find? (fun r => r.1 == s.1 && r.2.1 == n && r.2.2.1 == a) with
      | none => ((s.1, log), .exc 0)
      | some (_, _, _, q2, isExc, v) => ((q2, log), if isExc then .exc v else .ok v)

def splitList (s : String) : List String :=
  if s == "-" then [] else s.splitOn ","

def parseDots (s : String) : Option (List Nat) := (s.splitOn ".").mapM String.toNat?

def parseGate (s : String) : Option (List (Nat × Nat × Nat)) :=
  (splitList s).mapM fun e =>
    match parseDots e with
    | some [q, n, c] => some (q, n, c)
    | _ => none

def parseRows (s : String) : Option (List (Nat × Nat × Nat × Nat × Bool × Nat)) :=
  (splitList s).mapM fun e =>
    match e.splitOn "." with
    | [q, n, a, q2, k, v] =>
      match q.toNat?, n.toNat?, a.toNat?, q2.toNat?, v.toNat? with
      | some q, some n, some a, some q2, some v =>
        if k == "o" then some (q, n, a, q2, false, v)
        else if k == "e" then some (q, n, a, q2, true, v)
        else none
      | _, _, _, _, _ => none
    | _ => none

def parseCalls (s : String) : Option (List (Nat × Nat)) :=
  (splitList s).mapM fun e =>
    match parseDots e with
    | some [n, a] => some (n, a)
    | _ => none

def showList (l : List String) : String := if l.isEmpty then "-" else ",".intercalate l

def showLog (l : List (Nat × Nat)) : String := showList (l.map fun p => s!"{p.1}.{p.2}")

def showVals (l : List Nat) : String := showList (l.map toString)

def showExc : Option Nat → String
  | none => "-"
  | some e => s!"E{e}"

def showSeen : Seen Nat Nat → String
  | .submitRaised e => s!"submit:E{e}"
  | .stream vs r => s!"stream:{showVals vs}:{showExc r}"
  | .nothing => "nothing"

def parseOps (s : String) : Option (List (BOp Nat Nat)) :=
  (splitList s).mapM fun e =>
    match e.splitOn "." with
    | ["r", i, n, a] =>
      match i.toNat?, n.toNat?, a.toNat? with
      | some i, some n, some a => some (.record i (n, a))
      | _, _, _ => none
    | ["c", i] => i.toNat?.map .copy
    | ["s", i, ow] => i.toNat?.map (fun i => .submit i (ow == "1"))
    | _ => none

def step : List String → String
  | ["batch", ow, pre, q0, gate, bad, rows, calls] =>
    match q0.toNat?, parseGate gate, parseNatList bad, parseRows rows, parseCalls calls with
    | some q0, some g, some b, some r, some cs =>
      let o := tabObj ⟨g, b, r⟩
      let p : Option Nat := if pre == "1" then some 109 else none
      let (s, seen) := clientBatch p o (ow == "1") (q0, []) cs
      -- the same request through the TRANSCRIPTION of the source (Gen/C11.lean: BatchProxy.__call__, _pyroInvokeBatch, the
      -- batch branch of handleRequest, the results generator); shown only when it differs from the hand-written model
      let items := cs.map (fun c => PV.triple true true c.1 c.2)
      let (s2, kept, seen2) := clientBatchSrc pvOps ⟨100, 110, 111, 112⟩ id p (pvObj o 102) (ow == "1") (q0, []) items
      let same := s2 == s && decide (seen2 = seen) && kept == keptCalls items seen
      let src := if same then "" else s!" TRANSCRIPTION-DIFFERS q={s2.1} log={showLog s2.2} seen={showSeen seen2} kept={kept.length}"
      s!"q={s.1} log={showLog s.2} seen={showSeen seen}{src}"
    | _, _, _, _, _ => "bad-op"
  | ["prog", pre, q0, gate, bad, rows, ops] =>
    match q0.toNat?, parseGate gate, parseNatList bad, parseRows rows, parseOps ops with
    | some q0, some g, some b, some r, some os =>
      let o := tabObj ⟨g, b, r⟩
      let p : Option Nat := if pre == "1" then some 109 else none
      let (s, seens) := runProg p o (q0, []) [[]] os
      s!"q={s.1} log={showLog s.2} outs={if seens.isEmpty then "-" else "|".intercalate (seens.map showSeen)}"
    | _, _, _, _, _ => "bad-op"
  | ["seq", q0, gate, bad, rows, calls] =>
    match q0.toNat?, parseGate gate, parseNatList bad, parseRows rows, parseCalls calls with
    | some q0, some g, some b, some r, some cs =>
      let o := tabObj ⟨g, b, r⟩
      let (s, vs, f) := sequential o (q0, []) cs
      s!"q={s.1} log={showLog s.2} vals={showVals vs} fail={showExc (f.map Fail.exc)}"
    | _, _, _, _, _ => "bad-op"
  | _ => "bad-op"

def main : IO Unit := runDriver step
