-- placeholder driver (model for C11 not built yet)
def main : IO Unit := pure ()
