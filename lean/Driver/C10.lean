/-
  Driver for the stream-table model (C10).
    hist <streaming 0|1> <lifetime> <linger> <hook fails 0|1> <t0> <nprox> <seq0> <mask> <nops> {op}*
        op = call <p> <data> | inext <i> | inextlost <i> | iclose <i> | pcall <p> | prel <p>
           | open <conn> <data> | next <id> <conn> | close <id> | disc <conn> | hk | tick <dt>
        data = P (not an iterator) | I:<item,...>   item = v<n> (yield n) | r<n> (raise n)
      → r1;r2;... | <table> | <proxies> | <iters> | <server log length> | src:ok|src:DIFF (the server history through the transcription of server.py agrees with the model)
        table   = id:owner:created:linger:rest,...  (dict order; owner `n` = None)
        proxies = conn/seq,...      iters = proxy/pyroseq/sid,...
    race <modes: 4 letters s|t for next,close,disconnect,housekeeping> <lifetime> <linger> <now> <table> <heap> {prog}*   prog = call+call+..  call = N.sid.conn | C.sid | D.conn | H
        (see PyroModel/StreamsRace.lean)  → sorted set of outcomes of ALL interleavings
-/
import PyroModel.Streams
import PyroModel.StreamsRace
import PyroModel.StreamsSrcRun
import Driver.Util

open Pyro Pyro.Streams Driver

def parseItem (s : String) : Option Item :=
  if s.startsWith "v" then (s.drop 1).toNat?.map .val
  else if s.startsWith "r" then (s.drop 1).toNat?.map .raises
  else none

def parseItems (s : String) : Option (List Item) :=
  if s == "" ∨ s == "-" then some [] else (s.splitOn ",").mapM parseItem

def parseData (s : String) : Option Data :=
  if s == "P" then some .plain
  else if s.startsWith "I:" then (parseItems (s.drop 2).toString).map .iter
  else none

def parseCOps : Nat → List String → Option (List COp)
  | 0, [] => some []
  | n + 1, "call" :: p :: d :: rest => do
    let r ← parseCOps n rest
    pure (.call (← p.toNat?) (← parseData d) :: r)
  | n + 1, "inext" :: i :: rest => do
    let r ← parseCOps n rest
    pure (.inext (← i.toNat?) :: r)
  | n + 1, "inextlost" :: i :: rest => do
    let r ← parseCOps n rest
    pure (.inextLost (← i.toNat?) :: r)
  | n + 1, "iclose" :: i :: rest => do
    let r ← parseCOps n rest
    pure (.iclose (← i.toNat?) :: r)
  | n + 1, "pcall" :: p :: rest => do
    let r ← parseCOps n rest
    pure (.pcall (← p.toNat?) :: r)
  | n + 1, "prel" :: p :: rest => do
    let r ← parseCOps n rest
    pure (.prelease (← p.toNat?) :: r)
  | n + 1, "open" :: c :: d :: rest => do
    let r ← parseCOps n rest
    pure (.srv (.open (← c.toNat?) (← parseData d)) :: r)
  | n + 1, "next" :: id :: c :: rest => do
    let r ← parseCOps n rest
    pure (.srv (.next (← id.toNat?) (← c.toNat?)) :: r)
  | n + 1, "close" :: id :: rest => do
    let r ← parseCOps n rest
    pure (.srv (.close (← id.toNat?)) :: r)
  | n + 1, "disc" :: c :: rest => do
    let r ← parseCOps n rest
    pure (.srv (.disconnect (← c.toNat?)) :: r)
  | n + 1, "hk" :: rest => do
    let r ← parseCOps n rest
    pure (.srv .housekeeping :: r)
  | n + 1, "tick" :: dt :: rest => do
    let r ← parseCOps n rest
    pure (.srv (.tick (← dt.toNat?)) :: r)
  | _, _ => none

def itemStr : Item → String
  | .val v => s!"v{v}"
  | .raises e => s!"r{e}"

def itemsStr (l : List Item) : String := if l.isEmpty then "-" else ",".intercalate (l.map itemStr)

def resStr : Res → String
  | .stream id => s!"stream{id}"
  | .noStream => "nostream"
  | .notIter => "notiter"
  | .item v => s!"item{v}"
  | .stop => "stop"
  | .raised e => s!"raised{e}"
  | .terminated => "term"
  | .ok => "ok"
  | .hookError => "hookerr"

def cresStr : CRes → String
  | .iter i => s!"iter{i}"
  | .protoErr => "protoerr"
  | .plain => "plain"
  | .srv r => resStr r
  | .connClosed => "connclosed"
  | .none => "none"
  | .bad => "bad"

def optStr : Option Nat → String
  | none => "n"
  | some c => toString c

def tableStr (t : Table) : String :=
  if t.isEmpty then "-" else
  ";".intercalate (t.map fun (id, e) => s!"{id}:{optStr e.owner}:{e.created}:{e.linger}:{itemsStr e.rest}")

def listStr (l : List String) : String := if l.isEmpty then "-" else ",".intercalate l

def stepLine : List String → String
  | "hist" :: streaming :: lifetime :: linger :: hook :: t0 :: nprox :: seq0 :: mask :: nops :: rest =>
    match lifetime.toInt?, linger.toInt?, t0.toNat?, nprox.toNat?, seq0.toNat?, mask.toNat?,
          nops.toNat?.bind (fun k => parseCOps k rest) with
    | some lt, some lg, some t, some np, some s0, some m, some ops =>
      let cfg : Settings := { streaming := streaming == "1", lifetime := lt, linger := lg, hookFails := hook == "1" }
      let (s, rs) := crun cfg m (Sys.init t np s0) ops
      ";".intercalate (rs.map cresStr) ++ " | " ++ tableStr s.srv.table ++ " | " ++
        listStr (s.proxies.map fun p => s!"{optStr p.conn}/{p.seq}") ++ " | " ++
        listStr (s.iters.map fun it => s!"{optStr it.proxy}/{it.pyroseq}/{it.sid}") ++ " | " ++
        toString s.log.length ++
        -- the same server history through the functions TRANSCRIBED from server.py (Gen/C10.lean): replies and final table
        (if srcAgrees cfg (State.init t) (s.log.map (·.1)) then " | src:ok" else " | src:DIFF")
    | _, _, _, _, _, _, _ => "bad-op"
  | "race" :: rest => Pyro.StreamsRace.raceLine rest
  | _ => "bad-op"

def main : IO Unit := runDriver stepLine
