-- placeholder driver (model for C10 not built yet)
def main : IO Unit := pure ()
