-- placeholder driver (model for C13 not built yet)
def main : IO Unit := pure ()
