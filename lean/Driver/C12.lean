/-
  Driver for the context / response-annotation model (C12).
    hist <nev> {ev}*
      ev = Q <worker> <rid> <conn> <seq> <flags> <ser> <anns> <corr> <kind>   kind = H <ok> | P | R | C <keys> <a|m> <raises> | O <keys> <a|m>
         | W <rid>
    → replies  rid:conn:keys;...  |  snapshots  rid:conn:seq:flags:ser:anns:corr;...
-/
import PyroModel.Context
import Driver.Util

open Pyro.Context Driver

def parseMode (s : String) : AnnMode := if s == "m" then .mutate else .assign

def parseKind : List String → Option (Kind × List String)
  | "H" :: ok :: r => some (.handshake (ok == "1"), r)
  | "P" :: r => some (.ping, r)
  | "R" :: r => some (.refused, r)
  | "C" :: keys :: m :: raises :: r => do
    let ks ← parseNatList keys
    some (.call ks (parseMode m) (raises == "1"), r)
  | "O" :: keys :: m :: r => do
    let ks ← parseNatList keys
    some (.oneway ks (parseMode m), r)
  | _ => none

def parseEvs : Nat → List String → Option (List Event)
  | 0, [] => some []
  | n + 1, "W" :: rid :: r => do
    let rid ← rid.toNat?
    let rest ← parseEvs n r
    some (.onewayRun rid :: rest)
  | n + 1, "Q" :: w :: rid :: conn :: seq :: flags :: ser :: anns :: corr :: r => do
    let w ← w.toNat?
    let rid ← rid.toNat?
    let conn ← conn.toNat?
    let seq ← seq.toNat?
    let flags ← flags.toNat?
    let ser ← ser.toNat?
    let anns ← parseNatList anns
    let corr ← corr.toNat?
    let (k, r') ← parseKind r
    let rest ← parseEvs n r'
    some (.request w rid ⟨conn, seq, flags, ser, anns, corr⟩ k :: rest)
  | _, _ => none

def insertSorted (x : Nat) : List Nat → List Nat
  | [] => [x]
  | y :: ys => if x ≤ y then x :: y :: ys else y :: insertSorted x ys

def dedupSorted : List Nat → List Nat
  | a :: b :: r => if a = b then dedupSorted (b :: r) else a :: dedupSorted (b :: r)
  | l => l

def canonKeys (ks : List (Nat × Nat)) : String :=
  natListToString (dedupSorted ((ks.map (·.1)).foldr insertSorted []))

def step' : List String → String
  | "hist" :: n :: rest =>
    match n.toNat?.bind (fun k => parseEvs k rest) with
    | some evs =>
      let s := run {} evs
      ";".intercalate (s.replies.map fun r => s!"{r.rid}:{r.conn}:{canonKeys r.keys}") ++ " | " ++
      ";".intercalate (s.snaps.map fun sn =>
        s!"{sn.rid}:{sn.seen.conn}:{sn.seen.seq}:{sn.seen.flags}:{sn.seen.serId}:{natListToString sn.seen.anns}:{sn.seen.corr}")
    | none => "bad-op"
  | "client" :: n :: rest =>
    -- client <n> {<connects> <handshake-anns> <reply-anns|none>}*   →  observed annotations after each call
    let rec go : Nat → List String → Option (List ClientCall)
      | 0, [] => some []
      | k + 1, c :: h :: r :: more => do
        let h ← parseNatList h
        let rep ← if r == "none" then some none else (parseNatList r).map some
        let tl ← go k more
        some (⟨c == "1", h, rep⟩ :: tl)
      | _, _ => none
    match n.toNat?.bind (fun k => go k rest) with
    | some cs => ";".intercalate ((clientRun [999] cs).map natListToString)
    | none => "bad-op"
  | _ => "bad-op"

def main : IO Unit := runDriver step'
