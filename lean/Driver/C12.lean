-- placeholder driver (model for C12 not built yet)
def main : IO Unit := pure ()
