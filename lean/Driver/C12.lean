/-
  Driver for the context / response-annotation model (C12).
    hist <nev> {ev}*
      ev = Q <worker> <rid> <conn> <seq> <flags> <ser> <anns> <corr> <kind>   kind = H <ok> | P | R | C <keys> <a|m> <raises> | O <keys> <a|m>
         | W <rid>
    → replies  rid:conn:keys;...  |  snapshots  rid:conn:seq:flags:ser:anns:corr;...
-/
import PyroModel.Context
import PyroModel.Gen.C12Src
import Driver.Util

open Pyro.Context Driver

def parseMode (s : String) : AnnMode := if s == "m" then .mutate else .assign

def parseKind : List String → Option (Kind × List String)
  | "H" :: ok :: r => some (.handshake (ok == "1"), r)
  | "P" :: r => some (.ping, r)
  | "R" :: r => some (.refused, r)
  | "C" :: keys :: m :: raises :: r => do
    let ks ← parseNatList keys
    some (.call ks (parseMode m) (raises == "1"), r)
  | "O" :: keys :: m :: r => do
    let ks ← parseNatList keys
    some (.oneway ks (parseMode m), r)
  | _ => none

def parseEvs : Nat → List String → Option (List Event)
  | 0, [] => some []
  | n + 1, "W" :: rid :: r => do
    let rid ← rid.toNat?
    let rest ← parseEvs n r
    some (.onewayRun rid :: rest)
  | n + 1, "Q" :: w :: rid :: conn :: seq :: flags :: ser :: anns :: corr :: r => do
    let w ← w.toNat?
    let rid ← rid.toNat?
    let conn ← conn.toNat?
    let seq ← seq.toNat?
    let flags ← flags.toNat?
    let ser ← ser.toNat?
    let anns ← parseNatList anns
    let corr ← corr.toNat?
    let (k, r') ← parseKind r
    let rest ← parseEvs n r'
    some (.request w rid ⟨conn, seq, flags, ser, anns, corr⟩ k :: rest)
  | _, _ => none

def insertSorted (x : Nat) : List Nat → List Nat
  | [] => [x]
  | y :: ys => if x ≤ y then x :: y :: ys else y :: insertSorted x ys

def dedupSorted : List Nat → List Nat
  | a :: b :: r => if a = b then dedupSorted (b :: r) else a :: dedupSorted (b :: r)
  | l => l

def canonKeys (ks : List (Nat × Nat)) : String :=
  natListToString (dedupSorted ((ks.map (·.1)).foldr insertSorted []))

def b01 (s : String) : Bool := s == "1"

/-- wire <n> {<rel> <hsOk> <hsAnns> <oneway> <raw> <intr> (N | P <delta> <typeOk> <serOk> <anns> <stream> <noid> <exc> <exccomm>)}* -/
def parseWire : Nat → List String → Option (List WCall)
  | 0, [] => some []
  | k + 1, rel :: hs :: ha :: ow :: raw :: intr :: "N" :: more => do
    let ha ← parseNatList ha
    let tl ← parseWire k more
    some (⟨b01 rel, b01 hs, ha, b01 ow, b01 raw, none, b01 intr⟩ :: tl)
  | k + 1, rel :: hs :: ha :: ow :: raw :: intr :: "P" :: d :: t :: se :: an :: st :: ni :: ex :: ec :: more => do
    let ha ← parseNatList ha
    let d ← d.toNat?
    let an ← parseNatList an
    let tl ← parseWire k more
    some (⟨b01 rel, b01 hs, ha, b01 ow, b01 raw, some ⟨d, b01 t, b01 se, an, b01 st, b01 ni, b01 ex, b01 ec⟩, b01 intr⟩ :: tl)
  | _, _ => none

def showC (s : CState) : String := s!"{if s.connected then 1 else 0}:{natListToString s.ra}"

def step' : List String → String
  | "wire" :: n :: rest =>
    match n.toNat?.bind (fun k => parseWire k rest) with
    | some cs =>
      -- the proxy is bound (connected, metadata known) before the first call
      let m := wrun { connected := true } cs
      let src := Pyro.Gen.C12Src.wrunSrc { connected := true } cs
      if m == src then ";".intercalate (m.map showC)
      else "SRC-DIFF model=" ++ ";".intercalate (m.map showC) ++ " source=" ++ ";".intercalate (src.map showC)
    | none => "bad-op"
  | "hist" :: n :: rest =>
    match n.toNat?.bind (fun k => parseEvs k rest) with
    | some evs =>
      let s := run {} evs
      ";".intercalate (s.replies.map fun r => s!"{r.rid}:{r.conn}:{canonKeys r.keys}") ++ " | " ++
      ";".intercalate (s.snaps.map fun sn =>
        s!"{sn.rid}:{sn.seen.conn}:{sn.seen.seq}:{sn.seen.flags}:{sn.seen.serId}:{natListToString sn.seen.anns}:{sn.seen.corr}")
    | none => "bad-op"
  | "client" :: n :: rest =>
    -- client <n> {<connects> <handshake-anns> <reply-anns|none>}*   →  observed annotations after each call
    let rec go : Nat → List String → Option (List ClientCall)
      | 0, [] => some []
      | k + 1, c :: h :: r :: more => do
        let h ← parseNatList h
        let rep ← if r == "none" then some none else (parseNatList r).map some
        let tl ← go k more
        some (⟨c == "1", h, rep⟩ :: tl)
      | _, _ => none
    match n.toNat?.bind (fun k => go k rest) with
    | some cs => ";".intercalate ((clientRun [999] cs).map natListToString)
    | none => "bad-op"
  | _ => "bad-op"

def main : IO Unit := runDriver step'
