-- placeholder driver (model for C15 not built yet)
def main : IO Unit := pure ()
