/-
  Driver for the name-server operation model (C15).
    seq <n> {op}*      op = R <name> <uri> <safe> <tags> | M <name> <tags> | D <name> | P <prefix> | L <name> | C | S <prefix>
      → r1;r2;... | name=uri:tags;...         (results of the sequential run, then the final map in dict order;
        prefixed with TRANSCRIPTION-DIFFERS when the transcribed source methods answer otherwise)
-/
import PyroModel.NsOps
import PyroModel.NsOpsEmb
import Driver.Util

open Pyro Pyro.NsOps Driver

def parseOps : Nat → List String → Option (List Call)
  | 0, [] => some []
  | n + 1, "R" :: name :: uri :: safe :: tags :: rest => do
    let nm ← parseNatList name
    let u ← uri.toNat?
    let t ← parseNatList tags
    let r ← parseOps n rest
    pure (.register nm u (safe == "1") t :: r)
  | n + 1, "M" :: name :: tags :: rest => do
    let nm ← parseNatList name
    let t ← parseNatList tags
    let r ← parseOps n rest
    pure (.setMeta nm t :: r)
  | n + 1, "D" :: name :: rest => do
    let nm ← parseNatList name
    let r ← parseOps n rest
    pure (.remove nm :: r)
  | n + 1, "P" :: name :: rest => do
    let nm ← parseNatList name
    let r ← parseOps n rest
    pure (.removePrefix nm :: r)
  | n + 1, "L" :: name :: rest => do
    let nm ← parseNatList name
    let r ← parseOps n rest
    pure (.lookup nm :: r)
  | n + 1, "S" :: name :: rest => do
    let nm ← parseNatList name
    let r ← parseOps n rest
    pure (.list nm :: r)
  | n + 1, "C" :: rest => do
    let r ← parseOps n rest
    pure (.count :: r)
  | _, _ => none

def resStr : Res → String
  | .none => "none"
  | .namingError => "nerr"
  | .removed k => s!"rm{k}"
  | .uri u t => s!"uri{u}:{natListToString t}"
  | .count k => s!"cnt{k}"
  | .names l => "names<" ++ ",".intercalate (l.map fun (n, u) => s!"{natListToString n}={u}") ++ ">"

def step : List String → String
  | "seq" :: n :: rest =>
    match n.toNat?.bind (fun k => parseOps k rest) with
    | some calls =>
      let (s, rs) := Lock.seqRun (calls.map toOp) ([] : Store)
      -- the methods as transcribed from nameserver.py (Gen/C15Src.lean) are run on the same line: a disagreement with the
      -- model is a mismatch of the line
      (if Pyro.C15.srcAgrees calls [] then "" else "TRANSCRIPTION-DIFFERS ") ++
      ";".intercalate (rs.map resStr) ++ " | " ++
        ";".intercalate (s.map fun (n, u, t) => s!"{natListToString n}={u}:{natListToString t}")
    | none => "bad-op"
  | _ => "bad-op"

def main : IO Unit := runDriver step
