/-
  Driver for the transcription of SocketConnection.close (C13): runs the PyIR interpreter on Gen.C13.closeSrc.
    close <keepopen 0|1> <tracked ids csv|-> <ninst> <raising ids csv|-> <shutdownRaises 0|1> <closeRaises 0|1>
      →  <outcome> | <log csv> | <tracked left> | <instances left>
  outcome: normal | returned | raised | stuck | fuel ; log: S = sock.shutdown, C = sock.close, number = resource.close()
-/
import PyroModel.PyIR
import PyroModel.Gen.C13
import Driver.Util

open Pyro Pyro.PyIR Driver

def parseIds (s : String) : Option (List Nat) :=
  if s == "-" then some [] else (s.splitOn ",").mapM (·.toNat?)

def showLog (l : List Nat) : String :=
  if l.isEmpty then "-" else
  ",".intercalate (l.map fun n => if n == sockShutdownMark then "S" else if n == sockCloseMark then "C" else toString n)

def leftOf (env : Env) : String :=
  let t := match env.lookup "self.tracked_resources" with
    | some (.resources r) => toString r.length
    | _ => "?"
  let i := match env.lookup "self.pyroInstances" with
    | some (.dict d) => toString d.length
    | _ => "?"
  t ++ " | " ++ i

def step : List String → String
  | ["close", keep, tracked, ninst, raising, sr, cr] =>
    match parseIds tracked, ninst.toNat?, parseIds raising with
    | some tr, some ni, some ra =>
      let cfg : Cfg := { useWaitall := false, peercert := false, blocking := true, isSub := fun a b => decide (a = b),
                         closeRaises := fun r => if r == sockShutdownMark then sr == "1" else if r == sockCloseMark then cr == "1"
                                                 else ra.contains r }
      let inst : List (List Nat × Bytes) := (List.range ni).map fun k => ([k], [])
      let env0 : Env := [("self.keep_open", .bool (keep == "1")), ("self.tracked_resources", .resources tr),
                         ("self.pyroInstances", .dict inst)]
      match exec cfg Pyro.Gen.C13.closeSrc (tr.length + 2) none env0 ⟨[], [], [], []⟩ with
      | .normal env w => "normal | " ++ showLog w.log ++ " | " ++ leftOf env
      | .ret _ w => "returned | " ++ showLog w.log ++ " | " ++ leftOf env0
      | .raise _ env w => "raised | " ++ showLog w.log ++ " | " ++ leftOf env
      | .outOfFuel => "fuel"
      | _ => "stuck"
    | _, _, _ => "bad-op"
  | _ => "bad-op"

def main : IO Unit := runDriver step
