/-
  Driver for the wire codec model (C06).
    enc <comp> <max> <type> <ser> <flags> <seq> <payload> <zpayload> <corr|none> <nann> {<key> <val>}*
        → ok <hex> | err <kind>
    dec <max> <accepted|-> <stream> <zin> <zout|!>
        → ok <type> <ser> <flags> <seq> <data> <corr> <nann> {<key> <val>}* <requested> <unread>
        | err <kind> <requested> <unread>
  zlib is a table supplied with the request: enc: compress(payload) = zpayload;
  dec: decompress(zin) = zout ("!" = raises); any other argument → the driver answers "err ztable".
-/
import PyroModel.Wire
import Driver.Util
import PyroModel.PyIR
import PyroModel.Gen.C06
import PyroModel.C06AstRun
import PyroModel.C06Glue

open Pyro Pyro.Wire Driver

def parseAnns : Nat → List String → Option (List Ann)
  | 0, [] => some []
  | n + 1, k :: v :: rest => do
    let k ← parseNatList k
    let v ← hexToBytes v
    let r ← parseAnns n rest
    pure ((k, v) :: r)
  | _, _ => none

def encErr : EncErr → String
  | .tooLarge => "tooLarge" | .structRange => "structRange" | .badKeyLen => "badKeyLen"
  | .nonAscii => "nonAscii" | .badCorr => "badCorr"

def decErr : DecErr → String
  | .closed => "closed" | .protocol => "protocol" | .badType => "badType" | .assertion => "assertion"
  | .nonAsciiId => "nonAsciiId" | .zlib => "zlib" | .fuel => "fuel"

def annsToString (anns : List Ann) : String :=
  " ".intercalate (anns.map fun (k, v) => natListToString k ++ " " ++ bytesToHex v)

def step : List String → String
  | "enc" :: comp :: max :: type :: ser :: flags :: seq :: payload :: zpayload :: corr :: nann :: rest =>
    match max.toNat?, type.toNat?, ser.toNat?, flags.toNat?, seq.toNat?, hexToBytes payload,
          hexToBytes zpayload, nann.toNat? with
    | some max, some type, some ser, some flags, some seq, some payload, some zpayload, some nann =>
      match parseAnns nann rest, (if corr == "none" then some none else (hexToBytes corr).map some) with
      | some anns, some corr =>
        let z : Zlib := { compress := fun p => if p = payload then zpayload else [0xde, 0xad],
                          decompress := fun _ => none }
        let m : Msg := { type, serId := ser, flags, seq, payload, anns, corr }
        -- the transcription of today's SendingMessage.__init__, run by the PyIR interpreter on the same message
        -- (PyroProps/C06EncAst.lean proves it equals the model for correlation ids of 16 bytes; a difference shows as " IS!")
        let isTag : String :=
          if (match corr with | some c => c.length != 16 | none => false) then "" else
          let ir := Pyro.C06AstRun.toEncoded (Pyro.C06AstRun.runSendInit
            (Pyro.C06AstRun.sendCfg { compression := comp == "1", maxSize := max } z corr) Pyro.Gen.C06.sendInitSrc m)
          match ir, Pyro.C06AstRun.encExpected (encode { compression := comp == "1", maxSize := max } z m) with
          | some (.ok a), .ok b => if a == b then "" else " IS!"
          | some (.error a), .error b => if a == b then "" else " IS!"
          | _, _ => " IS!"
        (fun (t : String) => t ++ isTag) <|
        match encode { compression := comp == "1", maxSize := max } z m with
        | .ok bs => "ok " ++ bytesToHex bs
        | .error e => "err " ++ encErr e
      | _, _ => "bad-op"
    | _, _, _, _, _, _, _, _ => "bad-op"
  | ["dec", max, accepted, stream, zin, zout] =>
    match max.toNat?, parseNatList accepted, hexToBytes stream, hexToBytes zin with
    | some max, some accepted, some stream, some zin =>
      let zres : Option (Option Bytes) := if zout == "!" then some none else (hexToBytes zout).map some
      match zres with
      | none => "bad-op"
      | some zr =>
        -- an argument outside the supplied table is answered by a marker no real run can produce
        let z : Zlib := { compress := fun p => p,
                          decompress := fun d => if d = zin then zr else some [0x7a, 0x3f] }
        let r := recvStub { compression := false, maxSize := max } z accepted stream
        -- the transcription of today's add_payload, run by the PyIR interpreter on the same header and body
        -- (PyroProps/C06Ast.lean proves it equals the model; a difference shows as " IR!" and is a disagreement)
        let cfgH : Pyro.PyIR.Cfg := { useWaitall := false, peercert := false, blocking := true,
                                      isSub := fun a b => decide (a = b), maxSize := max }
        -- same for ReceivingMessage.__init__ on the 40 header bytes (suffix " IH!" on a difference)
        let ihTag : String :=
          if stream.length < 40 || stream.take 6 != headerPrefix then "" else
          let ir := Pyro.C06AstRun.toHeader (Pyro.C06AstRun.runInit cfgH Pyro.Gen.C06.initSrc (stream.take 40))
          let md := parseHeader { compression := false, maxSize := max } (stream.take 40)
          match ir, md with
          | some (.ok a), .ok b => if a == b then "" else " IH!"
          | some (.error a), .error b => if a == b then "" else " IH!"
          | _, _ => " IH!"
        let irTag : String :=
          if stream.length < 40 then "" else
          match parseHeader { compression := false, maxSize := max } (stream.take 40) with
          | .error _ => ""
          | .ok hdr =>
            if !accepted.isEmpty && !accepted.contains hdr.type then "" else
            match recvN (hdr.annSize + hdr.dataSize) (stream.drop 40) with
            | none => ""
            | some (body, _) =>
              let cfgIR : Pyro.PyIR.Cfg := { useWaitall := false, peercert := false, blocking := true,
                                             isSub := fun a b => decide (a = b), unzip := z.decompress }
              let ir := Pyro.C06AstRun.toDecoded hdr (Pyro.C06AstRun.runAddPayload cfgIR Pyro.Gen.C06.addPayloadSrc hdr body)
              if Pyro.C06AstRun.sameOutcome ir (addPayload z hdr body) then "" else " IR!"
        -- the shallow transcription of today's recv_stub itself (harness/props/c06_tr.py), run on the same stream with the model's
        -- collaborators (PyroProps/C06Src.lean proves it equals recvStub; a difference shows as " IG!")
        let igTag : String :=
          match Pyro.C06Glue.run (Pyro.Gen.C06.recvStubGlueSrc (Pyro.C06Glue.modelOps { compression := false, maxSize := max } z) accepted) stream with
          | none => " IG!"
          | some g =>
            let sameOut : Bool := match g.out, r.out with
              | .ok a, .ok b => a == b
              | .error a, .error b => a == b
              | _, _ => false
            if sameOut && g.requested == r.requested && g.rest == r.rest then "" else " IG!"
        (fun (t : String) => t ++ irTag ++ ihTag ++ igTag) <|
        match r.out with
        | .ok d =>
          s!"ok {d.type} {d.serId} {d.flags} {d.seq} {bytesToHex d.data} {bytesToHex d.corr} {d.anns.length} " ++
            (if d.anns.isEmpty then "" else annsToString d.anns ++ " ") ++ s!"{r.requested} {r.rest.length}"
        | .error e => s!"err {decErr e} {r.requested} {r.rest.length}"
    | _, _, _, _ => "bad-op"
  | _ => "bad-op"

def main : IO Unit := runDriver step
