-- placeholder driver (model for C08 not built yet)
def main : IO Unit := pure ()
