/-
  Driver for the server model (C08, C13).
    hist <nconn> <nev> {<conn> <item>}*
    hs <item>     → the first item of a connection through the TRANSCRIPTION of Daemon._handshake (Gen/C08Src.lean) on the
                    world the item stands for:  <type>:<seq>:<ser>|<returned>   or  -|<returned>   (! = the exception left the function)
      item = G | X | T | M <type> <ser> <seq> <oneway> <body>
      body = U | US | H <wf> <ok> <a|r|u> | C X | C R | C M <token> <r|bs|bo|x> <g|s|c|o|y> <ser> <cb> <ann-list> <track-list> <untrack-list> <session>
    → per connection:  phase|type:seq:ser:exc,...|execs|hook|close|resClosed|tracked|slot|session   joined by " ; "
-/
import PyroModel.Server
import PyroModel.Gen.C08Src
import Driver.Util

open Pyro.Server Driver

def parseBody : List String → Option (Body × List String)
  | "U" :: r => some (.undecodable false, r)
  | "US" :: r => some (.undecodable true, r)
  | "H" :: wf :: ok :: v :: r =>
    let val := if v == "a" then Validator.accept else if v == "r" then Validator.raises else Validator.unserialisableReply
    some (.handshake (wf == "1") (ok == "1") val, r)
  | "C" :: "X" :: r => some (.call .unknownObject, r)
  | "C" :: "R" :: r => some (.call .refused, r)
  | "C" :: "M" :: tok :: out :: exc :: ser :: cb :: ann :: tr :: un :: sess :: r => do
    let token ← tok.toNat?
    let e := if exc == "g" then Exc.generic else if exc == "s" then Exc.serialize else if exc == "c" then Exc.connClosed
             else if exc == "o" then Exc.commOther else Exc.security
    let outcome := if out == "st" then Outcome.returnsStream else if out == "r" then Outcome.returns .ok else if out == "bs" then Outcome.returns .serializeErr
                   else if out == "bo" then Outcome.returns .otherErr else Outcome.raises e (ser == "1")
    let ann ← parseNatList ann
    let tr ← parseNatList tr
    let un ← parseNatList un
    some (.call (.method { token, outcome, isCallback := cb == "1", setsAnn := ann, tracks := tr, untracks := un, session := sess == "1" }), r)
  | _ => none

def parseItem : List String → Option (Item × List String)
  | "G" :: r => some (.garbage, r)
  | "X" :: r => some (.cut, r)
  | "T" :: r => some (.timeout, r)
  | "M" :: ty :: ser :: seq :: ow :: r => do
    let ty ← ty.toNat?
    let ser ← ser.toNat?
    let seq ← seq.toNat?
    let (b, r') ← parseBody r
    some (.msg { type := ty, serId := ser, seq := seq, oneway := ow == "1", body := b }, r')
  | _ => none

def parseEvents : Nat → List String → Option (List (Nat × Item))
  | 0, [] => some []
  | n + 1, c :: r => do
    let c ← c.toNat?
    let (it, r') ← parseItem r
    let rest ← parseEvents n r'
    some ((c, it) :: rest)
  | _, _ => none

def showConn (c : Conn) : String :=
  let ph := match c.phase with | .fresh => "fresh" | .active => "active" | .closed => "closed"
  let reps := ",".intercalate (c.outbox.map fun r => s!"{r.type}:{r.seq}:{r.serId}:{if r.isExc then 1 else 0}")
  s!"{ph}|{reps}|{natListToString c.execs}|{c.hookCalls}|{c.closeCalls}|{natListToString c.resClosed}|{natListToString c.tracked}|{if c.slot then 1 else 0}|{if c.sessionInst then 1 else 0}"

def step' : List String → String
  | "hist" :: nc :: ne :: rest =>
    match nc.toNat?, ne.toNat? with
    | some nc, some ne =>
      match parseEvents ne rest with
      | some evs => " ; ".intercalate ((run (List.replicate nc {}) evs).map showConn)
      | none => "bad-op"
    | _, _ => "bad-op"
  | "hs" :: rest =>
    match parseItem rest with
    | some (it, []) =>
      match Pyro.Handshake.abstract (Pyro.Gen.C08Src.handshakeSrc (Pyro.Handshake.worldOf it) none) with
      | some (some r, ok) => s!"{r.type}:{r.seq}:{r.serId}|{if ok then 1 else 0}"
      | some (none, ok) => s!"-|{if ok then 1 else 0}"
      | none => "!"
    | _ => "bad-op"
  | _ => "bad-op"

def main : IO Unit := runDriver step'
