/-
  Driver for the transport-loop model (C05), instantiated with the except-ladders extracted from the
  current source (`Pyro.Gen.C05.cfg`).
    loop <t|m> <mn> <mx> <nconn> <nev> {<ev>}*
      ev   = K <conn>                               (connect)
           | I <conn> <gone 0|1> <raw> <item>       (item; raw = cc|pt|pr|se|sc|os|st|ot|ki|bo)
      item = G | X | T | M <type> <ser> <seq> <oneway> <body>          (as in Driver/C08.lean)
      body = U | H <wf> <ok> <a|r|u> | C X | C R
           | C M <token> <r|bs|bo|x> <g|s|c|o|y> <ser> <cb> <ann-list> <track-list> <untrack-list> <session>
    → <running 0|1>|<len busy>|<idle>|<busy ids>|<registered ids>|<zombie ids>
        then per connection " ; " phase|type:seq:ser:exc,...|execs|hook
-/
import PyroModel.ServerLoop
import PyroModel.Gen.C05
import Driver.Util

open Pyro.Server Pyro.ServerLoop Driver

def parseBody : List String → Option (Body × List String)
  | "U" :: r => some (.undecodable false, r)
  | "US" :: r => some (.undecodable true, r)
  | "H" :: wf :: ok :: v :: r =>
    let val := if v == "a" then Validator.accept else if v == "r" then Validator.raises else Validator.unserialisableReply
    some (.handshake (wf == "1") (ok == "1") val, r)
  | "C" :: "X" :: r => some (.call .unknownObject, r)
  | "C" :: "R" :: r => some (.call .refused, r)
  | "C" :: "M" :: tok :: out :: exc :: ser :: cb :: ann :: tr :: un :: sess :: r => do
    let token ← tok.toNat?
    let e := if exc == "g" then Exc.generic else if exc == "s" then Exc.serialize else if exc == "c" then Exc.connClosed
             else if exc == "o" then Exc.commOther else Exc.security
    let outcome := if out == "st" then Outcome.returnsStream else if out == "r" then Outcome.returns .ok else if out == "bs" then Outcome.returns .serializeErr
                   else if out == "bo" then Outcome.returns .otherErr else Outcome.raises e (ser == "1")
    let ann ← parseNatList ann
    let tr ← parseNatList tr
    let un ← parseNatList un
    some (.call (.method { token, outcome, isCallback := cb == "1", setsAnn := ann, tracks := tr, untracks := un, session := sess == "1" }), r)
  | _ => none

def parseItem : List String → Option (Item × List String)
  | "G" :: r => some (.garbage, r)
  | "X" :: r => some (.cut, r)
  | "T" :: r => some (.timeout, r)
  | "M" :: ty :: ser :: seq :: ow :: r => do
    let ty ← ty.toNat?
    let ser ← ser.toNat?
    let seq ← seq.toNat?
    let (b, r') ← parseBody r
    some (.msg { type := ty, serId := ser, seq := seq, oneway := ow == "1", body := b }, r')
  | _ => none

def parseCls : String → Option Cls
  | "cc" => some .connClosed | "pt" => some .pyroTimeout | "pr" => some .protocol | "se" => some .serialize
  | "sc" => some .security | "os" => some .osError | "st" => some .sockTimeout | "ot" => some .other
  | "ki" => some .keyboardInterrupt | "bo" => some .baseOther
  | _ => none

def parseEvs : Nat → List String → Option (List Ev)
  | 0, [] => some []
  | n + 1, "K" :: c :: r => do
    let c ← c.toNat?
    let rest ← parseEvs n r
    some (.connect c :: rest)
  | n + 1, "I" :: c :: gone :: raw :: r => do
    let c ← c.toNat?
    let raw ← parseCls raw
    let (it, r') ← parseItem r
    let rest ← parseEvs n r'
    some (.item c it (gone == "1") raw :: rest)
  | _, _ => none

def showConn (c : Conn) : String :=
  let ph := match c.phase with | .fresh => "fresh" | .active => "active" | .closed => "closed"
  let reps := ",".intercalate (c.outbox.map fun r => s!"{r.type}:{r.seq}:{r.serId}:{if r.isExc then 1 else 0}")
  s!"{ph}|{reps}|{natListToString c.execs}|{c.hookCalls}"

def showLoop (l : Loop) : String :=
  s!"{if l.running then 1 else 0}|{l.busy.length}|{l.idle}|{natListToString l.busy}|{natListToString l.registered}|{natListToString l.zombie}"
    ++ String.join (l.conns.map fun c => " ; " ++ showConn c)

def step' : List String → String
  | "loop" :: k :: mn :: mx :: nc :: ne :: rest =>
    match mn.toNat?, mx.toNat?, nc.toNat?, ne.toNat? with
    | some mn, some mx, some nc, some ne =>
      match parseEvs ne rest with
      | some evs =>
        let p : Params := { kind := if k == "t" then .thread else .multiplex, mn, mx, cfg := Pyro.Gen.C05.cfg }
        showLoop (Pyro.ServerLoop.run p (init p nc []) evs)
      | none => "bad-op"
    | _, _, _, _ => "bad-op"
  | _ => "bad-op"

def main : IO Unit := runDriver step'
