-- placeholder driver (model for C05 not built yet)
def main : IO Unit := pure ()
