-- placeholder driver (model for C03 not built yet)
def main : IO Unit := pure ()
