/-
  Driver for the call model (C03).
    hist <retries> <seq0> <calls> <script>
      calls  : comma separated  <kind><token>   kind = n normal | x raises | s stream | o oneway | b batch |
               B batch-oneway | g getattr | t setattr | f fetch | m missing method | M missing oneway method            ("-" = none)
      script : comma separated  ok | lo | la | cu | rb | ra | st<a> | sh | sq<d> | du | in   ("-" = empty)
    → per call, joined by ";" :  <outcome> <execs of the token during the call> <F|I|L|D> <seq> <connects> <events consumed> <unread>
      outcome = ret:<kind>:<token> | none | fail:closed|timeout|protocol|intr | stuck | end     (stops after `end`)
      a trailing  SRC[...]  = what the transcription of the source (Gen/C03Src.lean) computes, when it differs
-/
import PyroModel.Call
import PyroModel.CallOps
import PyroModel.Gen.C03Src
import Driver.Util

open Pyro.Call Driver

def parseKind (c : Char) : Option Kind :=
  match c with
  | 'n' => some .normal | 'x' => some .raises | 's' => some .stream | 'o' => some .oneway
  | 'b' => some .batch | 'B' => some .batchOneway | 'g' => some .getattr | 't' => some .setattr
  | 'f' => some .fetch | 'm' => some .missing | 'M' => some .onewayMissing | _ => none

def kindChar : Kind → String
  | .normal => "n" | .raises => "x" | .stream => "s" | .oneway => "o" | .batch => "b"
  | .batchOneway => "B" | .getattr => "g" | .setattr => "t" | .fetch => "f" | .missing => "m" | .onewayMissing => "M"

def parseCall (s : String) : Option (Kind × Nat) :=
  match s.toList with
  | c :: rest => do
    let k ← parseKind c
    let t ← (String.ofList rest).toNat?
    some (k, t)
  | [] => none

def parseEv (s : String) : Option Ev :=
  if s == "ok" then some .ok
  else if s == "lo" then some .lost
  else if s == "la" then some .late
  else if s == "cu" then some .cut
  else if s == "rb" then some .resetBefore
  else if s == "ra" then some .resetAfter
  else if s == "sh" then some .staleHs
  else if s == "du" then some .dup
  else if s == "in" then some .intr
  else if s.startsWith "st" then (s.drop 2).toNat?.map .stale
  else if s.startsWith "sq" then (s.drop 2).toNat?.map .seqAlt
  else none

def parseList {α} (f : String → Option α) (s : String) : Option (List α) :=
  if s == "-" then some [] else (s.splitOn ",").mapM f

def showOutcome : Outcome → String
  | .returned k t => s!"ret:{kindChar k}:{t}"
  | .none_ => "none"
  | .failed .connClosed => "fail:closed"
  | .failed .timeout => "fail:timeout"
  | .failed .protocol => "fail:protocol"
  | .failed .interrupt => "fail:intr"
  | .stuck => "stuck"
  | .scriptEnd => "end"

def showPc : PConn → String × Nat
  | .fresh => ("F", 0)
  | .idle => ("I", 0)
  | .live c => (if c.dead then "D" else "L", c.queue.length)

/-- One call consumes at most 2 events per attempt (CONNECT + INVOKE).  The driver hands the model a window of
    the script that is longer than that, so that the length arithmetic stays O(1) on scripts of 10^5 events
    (the model only ever inspects the head of the script). -/
def window (retries : Nat) : Nat := 2 * (retries + 1) + 2

def runCalls (retries : Nat) : List (Kind × Nat) → World → List Ev → List String → List String
  | [], _, _, acc => acc.reverse
  | (k, tok) :: rest, W, s, acc =>
    -- the server log is write-only for the model (C03_exec_bound: log' = replicate n tok ++ log); it is emptied
    -- before each call so that counting stays O(1) on histories of 10^5 calls
    let w := s.take (window retries)
    let (o, W', w') := call real retries k tok { W with log := [] } w
    let used := w.length - w'.length
    let (pc, ql) := showPc W'.pc
    let line := s!"{showOutcome o} {execs tok W'} {pc} {W'.seq} {W'.connects} {used} {ql}"
    -- the TRANSCRIPTION of the source (Gen/C03Src.lean) is evaluated on the same call; any difference from the hand model
    -- (proved impossible by C03_call_translated while that proof builds) is flagged in the line, which the real side never has
    let (o2, W2, w2) := Pyro.Gen.C03Src.callSrc false false retries k tok { W with log := [] } w
    let (pc2, ql2) := showPc W2.pc
    let line2 := s!"{showOutcome o2} {execs tok W2} {pc2} {W2.seq} {W2.connects} {w.length - w2.length} {ql2}"
    let line := if line2 == line || o == .scriptEnd then line else s!"{line} SRC[{line2}]"
    match o with
    | .scriptEnd => (("end" :: acc)).reverse
    | _ => runCalls retries rest W' (s.drop used) (line :: acc)

def step : List String → String
  | ["hist", r, seq0, calls, script] =>
    match r.toNat?, seq0.toNat?, parseList parseCall calls, parseList parseEv script with
    | some r, some q, some cs, some sc => ";".intercalate (runCalls r cs (init q) sc [])
    | _, _, _, _ => "bad-op"
  | _ => "bad-op"

def main : IO Unit := runDriver step
