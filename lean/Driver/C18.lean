/-
  Driver for the thread-pool model (C18).
    seq <min> <max> <n> {op}*        op = S <worker|-> | F <job> | C
        after every op all workers are run to rest; prints one snapshot per op, separated by " ; "
        (`S w`: the real pool's set.pop() chose worker w; the model is told the same choice)
        the same ops are also executed with the pool methods TRANSCRIBED from the source (Gen/C18Src.lean,
        `PoolSrc.stepSrc`); if that gives other snapshots the line is prefixed with "SRC-DIFF" (cannot happen
        while `C18_source_run` is proved; gives a broken proof a concrete failing input)
    outs <min> <max> <progA> <progB>  prog = comma separated S | F<job> | C   ("-" = empty)
        every interleaving of the two client threads and all workers (coarse semantics); prints the
        sorted set of snapshots of the states in which nothing can move any more, separated by " ; "
    job <hs 0|1|2> <hook raises 0|1> {req 0..5}*   effects of ClientConnectionJob.__call__ + " still" | " done"
    deny <raises 0|1>                              effects of denyConnection
    accept <commtimeout 0|1> <pool full 0|1> <raises 0|1>   effects of one accept step
        effects as comma separated codes (PoolConn.Eff.code), "-" = none
  snapshot:  c<closed> i<|idle|> b<|busy|> J <job>* W <worker>*
        job = a<worker>|n|x  r<times started> e<ended>      worker = X exited | I waiting for a job | R<job> | P (can move)
-/
import PyroModel.Pool
import PyroModel.PoolConn
import PyroModel.PoolSrc
import PyroModel.Gen.C18Src
import Driver.Util
import Std.Data.HashSet

open Pyro Pyro.Pool Driver

def jobStr (s : St) (j : Nat) : String :=
  let st := match s.accepted.find? (·.1 == j) with
    | some (_, w) => s!"a{w}"
    | none => if s.refusedFull.contains j then "n" else if s.refusedClosed.contains j then "x" else "?"
  let r := (s.started.filter (·.1 == j)).length
  let e := (s.ended.filter (· == j)).length
  s!"{st}r{r}e{e}"

def workerStr (s : St) (x : Worker) : String :=
  match x.phase with
  | .exited => "X"
  | .waiting => if x.ev then "P" else "I"
  | .running j => if s.fin.contains j then "P" else s!"R{j}"
  | _ => "P"

def snap (s : St) : String :=
  let c := if s.closed then 1 else 0
  s!"c{c} i{s.idle.length} b{s.busy.length} J " ++ " ".intercalate ((List.range s.nextJob).map (jobStr s)) ++
    " W " ++ " ".intercalate (s.ws.map (workerStr s))

inductive Op where
  | S (w : Option Nat)
  | F (j : Nat)
  | C
  deriving Repr, Hashable, DecidableEq

def pickFor (s : St) (w : Option Nat) : Nat :=
  match w with
  | none => 0
  | some w => s.idle.findIdx (· == w)

def applyOp (mn mx : Nat) (s : St) : Op → St
  | .S w => step mn mx s (.submit (pickFor s w))
  | .F j => step mn mx s (.finish j)
  | .C => step mn mx s .close

def parseSeq : Nat → List String → Option (List Op)
  | 0, [] => some []
  | n + 1, "S" :: w :: rest => do
    let r ← parseSeq n rest
    pure (.S (if w == "-" then none else w.toNat?) :: r)
  | n + 1, "F" :: j :: rest => do
    let k ← j.toNat?
    let r ← parseSeq n rest
    pure (.F k :: r)
  | n + 1, "C" :: rest => do
    let r ← parseSeq n rest
    pure (.C :: r)
  | _, _ => none

def parseProg (s : String) : Option (List Op) :=
  if s == "-" then some [] else
  (s.splitOn ",").mapM fun t =>
    if t == "S" then some (.S none)
    else if t == "C" then some .C
    else if t.startsWith "F" then (t.drop 1).toString.toNat?.map .F
    else none

def runSeq (mn mx : Nat) (ops : List Op) : List String :=
  let rec go (s : St) : List Op → List String
    | [] => []
    | op :: rest =>
      let s1 := settle mn mx 14 (applyOp mn mx s op)
      snap s1 :: go s1 rest
  snap (settle mn mx 14 (init mn)) :: go (init mn) ops

def applyOpSrc (mn mx : Nat) (s : St) : Op → St
  | .S w => PoolSrc.stepSrc Gen.C18Src.impl mn mx s (.submit (pickFor s w))
  | .F j => PoolSrc.stepSrc Gen.C18Src.impl mn mx s (.finish j)
  | .C => PoolSrc.stepSrc Gen.C18Src.impl mn mx s .close

/-- the same, with the pool methods as transcribed from the source -/
def runSeqSrc (mn mx : Nat) (ops : List Op) : List String :=
  let rec go (s : St) : List Op → List String
    | [] => []
    | op :: rest =>
      let s1 := PoolSrc.settleSrc Gen.C18Src.impl mn mx 14 (applyOpSrc mn mx s op)
      snap s1 :: go s1 rest
  snap (PoolSrc.settleSrc Gen.C18Src.impl mn mx 14 (init mn)) :: go (init mn) ops

structure Node where
  st : St
  a : List Op
  b : List Op
  deriving Hashable, DecidableEq

def opSuccs (mn mx : Nat) (s : St) : Op → List St
  | .S _ =>
    if s.idle.isEmpty then [step mn mx s (.submit 0)]
    else (List.range s.idle.length).map fun k => step mn mx s (.submit k)
  | .F j => [step mn mx s (.finish j)]
  | .C => [step mn mx s .close]

def succs (mn mx : Nat) (n : Node) : List Node :=
  let pa := match n.a with
    | [] => []
    | op :: rest => (opSuccs mn mx n.st op).map fun s => { n with st := s, a := rest }
  let pb := match n.b with
    | [] => []
    | op :: rest => (opSuccs mn mx n.st op).map fun s => { n with st := s, b := rest }
  let pw := (List.range n.st.ws.length).filterMap fun w =>
    let s := wstep mn mx n.st w
    if s == n.st then none else some { n with st := s }
  pa ++ pb ++ pw

/-- worklist exploration with a visited set; `fuel` bounds the number of expansions -/
def explore (mn mx : Nat) : Nat → List Node → Std.HashSet Node → List String → Option (List String)
  | 0, [], _, outs => some outs
  | 0, _ :: _, _, _ => none
  | _ + 1, [], _, outs => some outs
  | fuel + 1, n :: todo, seen, outs =>
    if seen.contains n then explore mn mx fuel todo seen outs
    else
      let seen := seen.insert n
      let nx := succs mn mx n
      if nx.isEmpty then explore mn mx fuel todo seen (snap n.st :: outs)
      else explore mn mx fuel (nx ++ todo) seen outs

def dedupSorted (l : List String) : List String :=
  let a := l.toArray.qsort (· < ·)
  a.toList.eraseDups

def hsOfTok : String → Option PoolConn.Hs
  | "0" => some .ok | "1" => some .refused | "2" => some .raises | _ => none

def reqOfTok : String → Option PoolConn.Req
  | "0" => some .served | "1" => some .connClosed | "2" => some .sockError | "3" => some .security
  | "4" => some .timeout | "5" => some .otherError | _ => none

def effStr (l : List PoolConn.Eff) : String := natListToString (l.map PoolConn.Eff.code)

def step' : List String → String
  | "job" :: hs :: hook :: reqs =>
    match hsOfTok hs, reqs.mapM reqOfTok with
    | some h, some rs =>
      let p := PoolConn.jobCall h rs (hook == "1")
      effStr p.1 ++ (if p.2 then " still" else " done")
    | _, _ => "bad-op"
  | ["deny", r] => effStr (PoolConn.deny (r == "1"))
  | ["accept", ct, full, r] => effStr (PoolConn.acceptStep (ct == "1") (full == "1") (r == "1"))
  | "seq" :: mn :: mx :: n :: rest =>
    match mn.toNat?, mx.toNat?, n.toNat?.bind (fun k => parseSeq k rest) with
    | some mn, some mx, some ops =>
      let a := runSeq mn mx ops
      let b := runSeqSrc mn mx ops
      if a == b then " ; ".intercalate a else "SRC-DIFF " ++ " ; ".intercalate b
    | _, _, _ => "bad-op"
  | ["outs", mn, mx, pa, pb] =>
    match mn.toNat?, mx.toNat?, parseProg pa, parseProg pb with
    | some mn, some mx, some a, some b =>
      match explore mn mx 400000 [{ st := init mn, a := a, b := b }] {} [] with
      | some outs => " ; ".intercalate (dedupSorted outs)
      | none => "fuel"
    | _, _, _, _ => "bad-op"
  | _ => "bad-op"

def main : IO Unit := runDriver step'
