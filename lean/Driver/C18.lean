-- placeholder driver (model for C18 not built yet)
def main : IO Unit := pure ()
