/-
  Driver for the HTTP gateway model (C20).  One request per line, 21 tokens:

    req <key> <pattern> <method> <path> <query> <keyhdr> <options> <corr>
        <rmatch> <nsget> <nslist> <lookup> <connect> <pyroerrs> <bind> <meta> <result>
        <preSer> <preTmo> <appTmo>

  Str = comma separated code points ("-" = empty string); List Str = Strs joined by ";" ("~" = empty list)
    key      none | <hex>                 pattern  none | <Str>
    query    ~ | k:v;v;..|k:v..           (parse_qs result, dict order)
    corr     a | i | v
    rmatch   ~ | name:0/1|...             re.match(pattern, name) for every name the harness computed
    nsget    ok | n<cls> (NamingError) | e<cls>
    nslist   e<cls> | <List Str>
    lookup   <default cls>/~ | <default cls>/name:u<uri>|name:e<cls>|...
    connect  ~ | uri:<cls>|...            (listed uris raise)        bind: same
    pyroerrs ~ | <cls>;<cls>..            classes that are PyroError subclasses
    meta     e<cls> | <methods>/<attrs>/<oneway>   (List Str each)
    result   none | ret:<hex> | exc:<hex> | raised:<cls>   (what a non-oneway invocation gives back)
    cls      assertion | attribute | value | type | o<id>

    preSer   Pyro5.config.SERIALIZER before the request (json|serpent|marshal|msgpack), preTmo its COMMTIMEOUT (ms),
    appTmo   pyro_app.comm_timeout (ms)

  Answer:  <status> <ctype> <corr 0/1> <body> # <action>* cfg:<ser>:<tmo>   |   escaped <cls> # <action>* cfg:..
           (cfg = the configuration in force while and after the request)
  Next to the model the driver evaluates the transcription of the source (`appSrc`, `configWriteSrc` of
  PyroModel/Gen/C20Src.lean); if it answers differently the line ends with SOURCE-TRANSCRIPTION-DIFFERS: <its answer>.
  If the model asked `rmatch` for a name outside the table the answer is "bad-table" (the model is
  run with both defaults and the answers compared).
-/
import PyroModel.Gateway
import PyroModel.Gen.C20Src
import Driver.Util

open Pyro Pyro.Gateway Driver

def pStr (s : String) : Option Str := parseNatList s

def pStrList (s : String) : Option (List Str) :=
  if s == "~" then some [] else (s.splitOn ";").mapM pStr

def pCls (s : String) : Option ErrCls :=
  if s == "assertion" then some .assertion
  else if s == "attribute" then some .attribute
  else if s == "value" then some .value
  else if s == "type" then some .type
  else if s.startsWith "o" then (s.drop 1).toNat?.map .other
  else none

/-- "~" or entries joined by "|" -/
def pEntries (s : String) : List String := if s == "~" then [] else s.splitOn "|"

def pPair (s : String) : Option (String × String) :=
  match s.splitOn ":" with
  | [a, b] => some (a, b)
  | _ => none

def pQuery (s : String) : Option (List (Str × List Str)) :=
  (pEntries s).mapM fun e => do
    let (k, v) ← pPair e
    pure (← pStr k, ← pStrList v)

def pBoolTable (s : String) : Option (List (Str × Bool)) :=
  (pEntries s).mapM fun e => do
    let (k, v) ← pPair e
    pure (← pStr k, v == "1")

def pClsTable (s : String) : Option (List (Str × ErrCls)) :=
  (pEntries s).mapM fun e => do
    let (k, v) ← pPair e
    pure (← pStr k, ← pCls v)

def pLookupTable (s : String) : Option (ErrCls × List (Str × Except ErrCls Str)) :=
  match s.splitOn "/" with
  | [d, t] => do
    let d ← pCls d
    let t ← (pEntries t).mapM fun e => do
      let (k, v) ← pPair e
      let k ← pStr k
      if v.startsWith "u" then pure (k, Except.ok (← pStr (v.drop 1).toString))
      else if v.startsWith "e" then pure (k, Except.error (← pCls (v.drop 1).toString))
      else none
    pure (d, t)
  | _ => none

def assoc {β : Type} (k : Str) : List (Str × β) → Option β
  | [] => none
  | (k', v) :: rest => if k' = k then some v else assoc k rest

def pMeta (s : String) : Option (Except ErrCls Meta) :=
  if s.startsWith "e" then (pCls (s.drop 1).toString).map Except.error
  else match s.splitOn "/" with
    | [m, a, o] => do pure (Except.ok { methods := ← pStrList m, attrs := ← pStrList a, oneway := ← pStrList o })
    | _ => none

def pResult (s : String) : Option CallResult :=
  if s == "none" then some .none
  else match s.splitOn ":" with
    | ["ret", h] => (hexToBytes h).map .ret
    | ["exc", h] => (hexToBytes h).map .exc
    | ["raised", c] => (pCls c).map .raised
    | _ => none

/-! printing -/

def sStr (s : Str) : String := natListToString s
def sStrList (l : List Str) : String := if l.isEmpty then "~" else ";".intercalate (l.map sStr)
def sCls : ErrCls → String
  | .assertion => "assertion" | .attribute => "attribute" | .value => "value" | .type => "type"
  | .other n => s!"o{n}"
def sLit : Lit → String
  | .notAllowed => "notAllowed" | .optionsOk => "optionsOk" | .notFound => "notFound"
  | .badKey => "badKey" | .denied => "denied" | .nsDown => "nsDown"
def sCType : CType → String
  | .none => "none" | .plain => "plain" | .html => "html" | .json => "json"
def sBody : Body → String
  | .empty => "empty"
  | .lit t => "lit:" ++ sLit t
  | .raw d => "raw:" ++ bytesToHex d
  | .metaInfo m a => "meta:" ++ sStrList m ++ "/" ++ sStrList a
  | .error c => "error:" ++ sCls c
  | .homepage rows =>
    "home:" ++ (if rows.isEmpty then "~" else ";".intercalate (rows.map fun (n, b) => sStr n ++ "+" ++ (if b then "1" else "0")))
def sPVal : PVal → String
  | .one v => "s" ++ sStr v
  | .many vs => "l" ++ sStrList vs
def sParams (ps : Params) : String :=
  if ps.isEmpty then "~" else "&".intercalate (ps.map fun (k, v) => sStr k ++ "=" ++ sPVal v)
def sAction : Action → String
  | .getNameServer => "gns"
  | .nsList r => "nslist:" ++ (match r with | none => "none" | some p => sStr p)
  | .lookup n => "lookup:" ++ sStr n
  | .batchLookup ns => "batch:" ++ sStrList ns
  | .connect u => "connect:" ++ sStr u
  | .bind u => "bind:" ++ sStr u
  | .getMetadata u => "getmeta:" ++ sStr u
  | .call u m ps ow => s!"call:{sStr u}:{sStr m}:{if ow then 1 else 0}:{sParams ps}"
  | .getattr u m => s!"getattr:{sStr u}:{sStr m}"
  | .release u => "release:" ++ sStr u
def sOut (r : Reply × List Action) : String :=
  let acts := " ".intercalate (r.2.map sAction)
  let tail := if r.2.isEmpty then " #" else " # " ++ acts
  match r.1 with
  | .http x => s!"{x.status} {sCType x.ctype} {if x.corrId then 1 else 0} {sBody x.body}" ++ tail
  | .escaped c => "escaped " ++ sCls c ++ tail

def pSer (s : String) : Option Ser :=
  if s == "json" then some .json else if s == "serpent" then some .serpent
  else if s == "marshal" then some .marshal else if s == "msgpack" then some .msgpack else none

def sSer : Ser → String
  | .json => "json" | .serpent => "serpent" | .marshal => "marshal" | .msgpack => "msgpack"

def step : List String → String
  | ["req", key, pattern, method, path, query, keyhdr, options, corr,
     rmatch, nsget, nslist, lookup, connect, pyroerrs, bind, metaTok, result, preSer, preTmo, appTmo] =>
    let r : Option String := do
      let key : Option Bytes ← if key == "none" then some none else (hexToBytes key).map some
      let pattern : Option Str ← if pattern == "none" then some none else (pStr pattern).map some
      let corr ← if corr == "a" then some Corr.absent else if corr == "i" then some Corr.invalid
                 else if corr == "v" then some Corr.valid else none
      let req : Req := { method := ← pStr method, path := ← pStr path, query := ← pQuery query,
                         keyHeader := ← pStr keyhdr, options := ← pStr options, corr }
      let rtab ← pBoolTable rmatch
      let (nsGet, naming) : Option ErrCls × Bool ←
        if nsget == "ok" then some (none, false)
        else if nsget.startsWith "n" then (pCls (nsget.drop 1).toString).map fun c => (some c, true)
        else if nsget.startsWith "e" then (pCls (nsget.drop 1).toString).map fun c => (some c, false)
        else none
      let nsl : Except ErrCls (List Str) ←
        if nslist.startsWith "e" then (pCls (nslist.drop 1).toString).map Except.error
        else (pStrList nslist).map Except.ok
      let (ldef, ltab) ← pLookupTable lookup
      let ctab ← pClsTable connect
      let btab ← pClsTable bind
      let perr ← if pyroerrs == "~" then some [] else (pyroerrs.splitOn ";").mapM pCls
      let m ← pMeta metaTok
      let res ← pResult result
      let be (dflt : Bool) : Backend := {
        rmatch := fun p n => if some p = pattern then (match assoc n rtab with | some b => b | none => dflt) else dflt
        nsGet := nsGet
        nsGetIsNaming := naming
        nsList := fun _ => nsl
        lookup := fun n => match assoc n ltab with | some r => r | none => .error ldef
        connect := fun u => assoc u ctab
        isPyroError := fun c => perr.contains c
        bind := fun u => assoc u btab
        getMeta := fun _ => m
        call := fun _ _ _ ow => if ow then .none else res
        getattr := fun _ _ => res }
      let cfg : Cfg := { key, pattern }
      let before : PyroConfig := { serializer := ← pSer preSer, commTimeout := ← preTmo.toNat? }
      let tmo ← appTmo.toNat?
      let out (dflt : Bool) : String :=
        let o := appC cfg tmo (be dflt) before req
        -- the transcription of the source (Gen/C20Src.lean) is evaluated next to the hand-written model
        let src := Pyro.Gen.C20Src.appSrc cfg (be dflt) req
        let srcCfg := Pyro.Gen.C20Src.configWriteSrc tmo before
        let base := sOut (o.reply, o.actions) ++ s!" cfg:{sSer o.config.serializer}:{o.config.commTimeout}"
        if sOut src == sOut (o.reply, o.actions) && srcCfg == o.config then base
        else base ++ " SOURCE-TRANSCRIPTION-DIFFERS: " ++ sOut src ++ s!" cfg:{sSer srcCfg.serializer}:{srcCfg.commTimeout}"
      let o1 := out false
      let o2 := out true
      pure (if o1 == o2 then o1 else "bad-table")
    r.getD "bad-op"
  | _ => "bad-op"

def main : IO Unit := runDriver step
