-- placeholder driver (model for C20 not built yet)
def main : IO Unit := pure ()
