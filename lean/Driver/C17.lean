/-
  Driver for the SockIO model (C17).
    recv <waitall 0|1> <size> <streamhex> <script>   →  ok <hex> <unread> <scriptleft> | closed <hex|none> <unread> <left> | timeout .. | scriptend ..
    send <blocking 0|1> <datahex> <script>           →  ok|closed|timeout|scriptend <acceptedhex> <scriptleft>
  script: comma separated events  d<k> | r | f | t | pr<k> | pf<k>   ("-" = empty)
-/
import PyroModel.SockIO
import Driver.Util

open Pyro Pyro.SockIO Driver

def parseEv (s : String) : Option Ev :=
  if s == "r" then some .retryable
  else if s == "f" then some .fatal
  else if s == "t" then some .timeout
  else if s.startsWith "pr" then (s.drop 2).toNat?.map (fun k => .partialFail k true)
  else if s.startsWith "pf" then (s.drop 2).toNat?.map (fun k => .partialFail k false)
  else if s.startsWith "d" then (s.drop 1).toNat?.map .deliver
  else none

def parseScript (s : String) : Option (List Ev) :=
  if s == "-" then some [] else (s.splitOn ",").mapM parseEv

def step : List String → String
  | ["recv", w, size, stream, script] =>
    match size.toNat?, hexToBytes stream, parseScript script with
    | some n, some st, some sc =>
      let (r, rest, left) := receive (w == "1") n st sc
      let tail := s!" {rest.length} {left.length}"
      match r with
      | .ok d => "ok " ++ bytesToHex d ++ tail
      | .closed (some p) => "closed " ++ bytesToHex p ++ tail
      | .closed none => "closed none" ++ tail
      | .timeout => "timeout -" ++ tail
      | .scriptEnd => "scriptend -" ++ tail
    | _, _, _ => "bad-op"
  | ["send", b, data, script] =>
    match hexToBytes data, parseScript script with
    | some d, some sc =>
      let (r, acc, left) := send (b == "1") d sc
      let tag := match r with
        | .ok => "ok" | .closed => "closed" | .timeout => "timeout" | .scriptEnd => "scriptend"
      s!"{tag} {bytesToHex acc} {left.length}"
    | _, _ => "bad-op"
  | _ => "bad-op"

def main : IO Unit := runDriver step
