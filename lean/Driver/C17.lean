/-
  Driver for the SockIO model (C17).
    recv <waitall 0|1> <size> <streamhex> <script>   →  ok <hex> <unread> <scriptleft> | closed <hex|none> <unread> <left> | timeout .. | scriptend ..
    send <blocking 0|1> <datahex> <script>           →  ok|closed|timeout|scriptend <acceptedhex> <scriptleft>
  script: comma separated events  d<k> | r | f | t | pr<k> | pf<k>   ("-" = empty)
  every recv / send answer ends in  s<n>  = number of time.sleep(next(delays)) the call performed (PyroModel/SockIODelays.lean)
    delays <n>   →  <den> <v0,v1,…>   the first n values of the back-off generator as transcribed from the source
                    (Gen.C17.Src, units of 1/den s); suffix " MODEL:<…>" when the hand model `retryDelay` says otherwise
-/
import PyroModel.SockIO
import PyroModel.SockIODelays
import PyroModel.PyIR
import PyroModel.Gen.C17
import Driver.Util

open Pyro Pyro.SockIO Driver

/- Besides the hand-written model, every line is also run through the PyIR interpreter on the transcription of the
   current source (Gen/C17.lean).  PyroProps/C17Ast.lean proves the two agree for all inputs; printing a disagreement
   here (suffix " IR:<outcome>") is what lets the harness find a concrete input when that proof no longer checks, and
   comparing the line with the real code's behaviour is what validates the interpreter and the transcription. -/

def parseEv (s : String) : Option Ev :=
  if s == "r" then some .retryable
  else if s == "f" then some .fatal
  else if s == "t" then some .timeout
  else if s.startsWith "pr" then (s.drop 2).toNat?.map (fun k => .partialFail k true)
  else if s.startsWith "pf" then (s.drop 2).toNat?.map (fun k => .partialFail k false)
  else if s.startsWith "d" then (s.drop 1).toNat?.map .deliver
  else none

def parseScript (s : String) : Option (List Ev) :=
  if s == "-" then some [] else (s.splitOn ",").mapM parseEv

def showRecv (x : RecvResult × Bytes × List Ev) : String :=
  let (r, rest, left) := x
  let tail := s!" {rest.length} {left.length}"
  match r with
  | .ok d => "ok " ++ bytesToHex d ++ tail
  | .closed (some p) => "closed " ++ bytesToHex p ++ tail
  | .closed none => "closed none" ++ tail
  | .timeout => "timeout -" ++ tail
  | .scriptEnd => "scriptend -" ++ tail

def showSend (x : SendResult × Bytes × List Ev) : String :=
  let (r, acc, left) := x
  let tag := match r with
    | .ok => "ok" | .closed => "closed" | .timeout => "timeout" | .scriptEnd => "scriptend"
  s!"{tag} {bytesToHex acc} {left.length}"

def showRes : PyIR.Res → String
  | .normal _ _ => "fell-off-the-end"
  | .brk _ _ => "break-outside-loop"
  | .cont _ _ => "continue-outside-loop"
  | .ret v _ => "returned " ++ reprStr v
  | .raise e _ _ => "raised " ++ reprStr e
  | .outOfFuel => "out-of-fuel"
  | .scriptEnd _ => "scriptend"
  | .stuck => "stuck"

def withIR (model : String) (ir : Option String) (raw : PyIR.Res) : String :=
  match ir with
  | some s => if s == model then model else model ++ " IR:" ++ s
  | none => model ++ " IR:" ++ showRes raw

def step : List String → String
  | ["recv", w, size, stream, script] =>
    match size.toNat?, hexToBytes stream, parseScript script with
    | some n, some st, some sc =>
      let model := showRecv (receive (w == "1") n st sc)
      let raw := PyIR.runRecv { useWaitall := w == "1", peercert := false, blocking := true, isSub := Pyro.Gen.C17.isSub } Pyro.Gen.C17.receiveData n st sc
      withIR model ((PyIR.toRecv raw).map showRecv) raw ++ s!" s{(receiveS (w == "1") n st sc).2}"
    | _, _, _ => "bad-op"
  | ["send", b, data, script] =>
    match hexToBytes data, parseScript script with
    | some d, some sc =>
      let model := showSend (send (b == "1") d sc)
      let raw := PyIR.runSend { useWaitall := false, peercert := false, blocking := b == "1", isSub := Pyro.Gen.C17.isSub } Pyro.Gen.C17.sendData d sc
      withIR model ((PyIR.toSend raw).map showSend) raw ++ s!" s{(sendS (b == "1") d sc).2}"
    | _, _ => "bad-op"
  | ["delays", n] =>
    match n.toNat? with
    | some n =>
      let showL (l : List (Option Nat)) : String :=
        if l.isEmpty then "-" else ",".intercalate (l.map fun | some v => toString v | none => "stop")
      let src := (List.range n).map (genNth Pyro.Gen.C17.Src.retryDelaysPre Pyro.Gen.C17.Src.retryDelaysInit
        Pyro.Gen.C17.Src.retryDelaysBody Pyro.Gen.C17.Src.retryDelaysLoops)
      let mdl := (List.range n).map (fun k => some (retryDelay k))
      s!"{Pyro.Gen.C17.Src.delayDen} {showL src}" ++ (if src == mdl then "" else " MODEL:" ++ showL mdl)
    | none => "bad-op"
  | _ => "bad-op"

def main : IO Unit := runDriver step
