/-
  Driver for the value-mapping model (C01).  A value is a sequence of tokens in prefix notation:
    N | T | F | I<int> | D<bits> | S<cps> | B<hex> | Y<hex> | L<n> v*n | U<n> v*n | E<n> v*n | Z<n> v*n
    | M<n> (k v)*n | C<re>/<im> | G<cps> | Q<cps> | A<ordinal> | X<code>/<hex> | O<cps>/<n> (k v)*n
  (none, True, False, int, float bits, str, bytes, bytearray, list, tuple, set, frozenset, dict, complex,
   uuid text, decimal text, date ordinal, msgpack ExtType, instance "module.Class" with vars()).
  Requests (the configuration is the one extracted from the source, PyroModel/Gen/C01.lean, unless given):
    res  <ser> <value>             → ok <value> | err <kind>        loads(dumps(v))
    call <ser> <vargs> <kwargs>    → ok <vargs> <kwargs> | err <kind>   loadsCall(dumpsCall("o","m",vargs,kwargs))
    arg  <ser> <value>             → ok <value> | err <kind>        argPath
    kw   <ser> <value>             → ok <value> | err <kind>        kwPath
    lib  <ser> <value>             → ok <value> | err <kind>        the bare library (no Pyro hooks)
    spec <ser> <value>             → spec nf=<0|1> lossless=<0|1> pyval=<0|1>   the specification predicates
    cfg                            → the extracted configuration
-/
import PyroModel.Values
import PyroModel.Gen.C01Src
import Driver.Util

open Pyro Pyro.Values Driver

def parseCps (s : String) : Option (List Nat) := parseNatList s

def splitSlash (s : String) : Option (String × String) :=
  match s.splitOn "/" with
  | [a, b] => some (a, b)
  | _ => none

mutual
def parseVal : Nat → List String → Option (Val × List String)
  | 0, _ => none
  | _ + 1, [] => none
  | fuel + 1, tok :: rest =>
    let tag := tok.take 1 |>.toString
    let body := tok.drop 1 |>.toString
    if tag == "N" then some (.none, rest)
    else if tag == "T" then some (.bool true, rest)
    else if tag == "F" then some (.bool false, rest)
    else if tag == "I" then body.toInt?.map fun z => (.int z, rest)
    else if tag == "D" then body.toNat?.map fun n => (.float n, rest)
    else if tag == "S" then (parseCps body).map fun s => (.str s, rest)
    else if tag == "B" then (hexToBytes body).map fun b => (.bytes b, rest)
    else if tag == "Y" then (hexToBytes body).map fun b => (.bytearray b, rest)
    else if tag == "L" then do let n ← body.toNat?; let (xs, r) ← parseVals fuel n rest; some (.list xs, r)
    else if tag == "U" then do let n ← body.toNat?; let (xs, r) ← parseVals fuel n rest; some (.tuple xs, r)
    else if tag == "E" then do let n ← body.toNat?; let (xs, r) ← parseVals fuel n rest; some (.set xs, r)
    else if tag == "Z" then do let n ← body.toNat?; let (xs, r) ← parseVals fuel n rest; some (.frozenset xs, r)
    else if tag == "M" then do let n ← body.toNat?; let (xs, r) ← parsePairs fuel n rest; some (.dict xs, r)
    else if tag == "C" then do
      let (a, b) ← splitSlash body
      let re ← a.toNat?; let im ← b.toNat?
      some (.complex re im, rest)
    else if tag == "G" then (parseCps body).map fun s => (.uuid s, rest)
    else if tag == "Q" then (parseCps body).map fun s => (.decimal s, rest)
    else if tag == "A" then body.toNat?.map fun n => (.date n, rest)
    else if tag == "X" then do
      let (a, b) ← splitSlash body
      let code ← a.toNat?; let data ← hexToBytes b
      some (.ext code data, rest)
    else if tag == "O" then do
      let (a, b) ← splitSlash body
      let cls ← parseCps a; let n ← b.toNat?
      let (xs, r) ← parsePairs fuel n rest
      some (.inst cls xs, r)
    else none
def parseVals : Nat → Nat → List String → Option (Vals × List String)
  | 0, _, _ => none
  | _ + 1, 0, rest => some (.nil, rest)
  | fuel + 1, n + 1, rest => do
    let (x, r) ← parseVal fuel rest
    let (xs, r) ← parseVals fuel n r
    some (.cons x xs, r)
def parsePairs : Nat → Nat → List String → Option (Pairs × List String)
  | 0, _, _ => none
  | _ + 1, 0, rest => some (.nil, rest)
  | fuel + 1, n + 1, rest => do
    let (k, r) ← parseVal fuel rest
    let (v, r) ← parseVal fuel r
    let (xs, r) ← parsePairs fuel n r
    some (.cons k v xs, r)
end

def valsLen : Vals → Nat
  | .nil => 0
  | .cons _ xs => valsLen xs + 1
def pairsLen : Pairs → Nat
  | .nil => 0
  | .cons _ _ xs => pairsLen xs + 1

mutual
def showVal : Val → List String
  | .none => ["N"]
  | .bool true => ["T"]
  | .bool false => ["F"]
  | .int z => [s!"I{z}"]
  | .float n => [s!"D{n}"]
  | .str s => ["S" ++ natListToString s]
  | .bytes b => ["B" ++ bytesToHex b]
  | .bytearray b => ["Y" ++ bytesToHex b]
  | .list xs => s!"L{valsLen xs}" :: showVals xs
  | .tuple xs => s!"U{valsLen xs}" :: showVals xs
  | .set xs => s!"E{valsLen xs}" :: showVals xs
  | .frozenset xs => s!"Z{valsLen xs}" :: showVals xs
  | .dict kvs => s!"M{pairsLen kvs}" :: showPairs kvs
  | .complex re im => [s!"C{re}/{im}"]
  | .uuid s => ["G" ++ natListToString s]
  | .decimal s => ["Q" ++ natListToString s]
  | .date n => [s!"A{n}"]
  | .ext code data => [s!"X{code}/" ++ bytesToHex data]
  | .inst cls kvs => ("O" ++ natListToString cls ++ s!"/{pairsLen kvs}") :: showPairs kvs
def showVals : Vals → List String
  | .nil => []
  | .cons x xs => showVal x ++ showVals xs
def showPairs : Pairs → List String
  | .nil => []
  | .cons k v xs => showVal k ++ showVal v ++ showPairs xs
end

def parseSer : String → Option Ser
  | "serpent" => some .serpent | "marshal" => some .marshal | "json" => some .json | "msgpack" => some .msgpack
  | _ => none

def errName : Err → String
  | .type => "type" | .value => "value" | .overflow => "overflow" | .serialize => "serialize"
  | .security => "security" | .attribute => "attribute" | .oom => "oom"

def b01 (b : Bool) : String := if b then "1" else "0"

def showRes : Except Err Val → String
  | .ok v => "ok " ++ " ".intercalate (showVal v)
  | .error e => "err " ++ errName e


def step : List String → String
  | ["cfg"] =>
    let c := srcCfg
    s!"cfg callExtHook={b01 c.callExtHook} resExtHook={b01 c.resExtHook} callObjHook={b01 c.callObjHook} " ++
    s!"resObjHook={b01 c.resObjHook} callRecreate={b01 c.callRecreate} resRecreate={b01 c.resRecreate} " ++
    s!"kwNoneSafe={b01 c.kwNoneSafe} good={b01 c.good}"
  | op :: ser :: toks =>
    match parseSer ser with
    | none => "bad-op"
    | some s =>
      let fuel := 2 * toks.length + 2
      match parseVal fuel toks with
      | none => "bad-op"
      | some (v, rest) =>
        if op == "res" ∧ rest.isEmpty then showRes (resRT srcCfg s v)
        else if op == "ressrc" ∧ rest.isEmpty then showRes (Pyro.Gen.C01Src.resSrc srcCfg s v)   -- recreate_classes as transcribed from the source
        else if op == "arg" ∧ rest.isEmpty then showRes (argPath srcCfg s v)
        else if op == "kw" ∧ rest.isEmpty then showRes (kwPath srcCfg s v)
        else if op == "lib" ∧ rest.isEmpty then showRes (libMap s v)
        else if op == "spec" ∧ rest.isEmpty then
          s!"spec nf={b01 (nf s v)} lossless={b01 (lossless v)} pyval={b01 (pyval v)}"
        else if op == "call" then
          match parseVal fuel rest with
          | some (k, []) =>
            match callRT srcCfg s v k with
            | .ok (a, k') => "ok " ++ " ".intercalate (showVal a ++ showVal k')
            | .error e => "err " ++ errName e
          | _ => "bad-op"
        else "bad-op"
  | _ => "bad-op"

def main : IO Unit := runDriver step
