-- placeholder driver (model for C01 not built yet)
def main : IO Unit := pure ()
