/-
  Driver for the URI model (C19).  Text = comma separated code points ("-" = empty).
    p <nsPort> <text> <perm>      parse with the extracted guards (Gen.C19); <perm> = comma separated indices
                                  into the ascending tag list giving the iteration order used by str() ("-" = ascending)
      →  ok proto=<text> obj=s:<text>|m:<text>;<text>;… sock=<text|N> host=<text|N> port=<int|N> loc=<text|N> str=<text>
       | err <kind>
       each answer of `p` is followed by " ## " and the same line computed by the SOURCE-DERIVED functions
       (UriSrc.parseSrc / strSrc around the transcribed _parseLocation / location; "exc <Class>" for a non-PyroError)
    l <port|N> <text|N>           transcribed URI._parseLocation(location, defaultPort) on a blank instance
      →  ok sock=<text|N> host=<text|N> port=<int|N|s:text> | err <kind> | exc <Class>
    e <nsPort> <text> <text>      parse both, compare   →  eq 0|1 | err
    i <text>                      int(text)              →  ok <int> | err
    h <nsPort> <text> <op>…       proxy history from Proxy(URI(<text>)): ops  s (send) | c (copy) | u:<text> (uri replaced)
                                  →  ok <str of delivered uri, ascending tags>|…   one entry per s/c
-/
import PyroModel.Uri
import PyroModel.Gen.C19
import PyroModel.UriPy
import PyroModel.UriSrc
import Driver.Util

open Pyro Pyro.Uri Pyro.UriPy Pyro.UriSrc Driver

def guards : Guards := ⟨Pyro.Gen.C19.guardHost, Pyro.Gen.C19.guardTags⟩

def showText (t : Text) : String := natListToString t

def showOpt (t : Option Text) : String :=
  match t with
  | none => "N"
  | some x => showText x

def showErr : Err → String
  | .invalid => "invalid" | .protocol => "protocol" | .location => "location" | .brackets => "brackets"
  | .ipv6 => "ipv6" | .port => "port" | .metadata => "metadata"

def showObj : ObjVal → String
  | .str t => "s:" ++ showText t
  | .set ts => "m:" ++ ";".intercalate (ts.map showText)

def applyPerm (tags : List Text) (perm : List Nat) : List Text :=
  if perm.isEmpty then tags
  else perm.filterMap (fun i => tags[i]?)

def showExc : Exc → String
  | .pyro e => "err " ++ showErr e
  | .valueError => "exc ValueError"
  | .typeError => "exc TypeError"

def showPortVal : PortVal → String
  | .none => "N"
  | .int p => toString p
  | .str t => "s:" ++ showText t

/-- the `p` line computed by the source-derived functions -/
def srcLine (np : Nat) (s : Text) (pm : List Nat) : String :=
  match parseSrc np s with
  | .error e => showExc e
  | .ok σ =>
    let tags := match σ.object with | .set ts => ts | .str _ => []
    let order := applyPerm tags pm
    let loc := match Pyro.Gen.C19.locationSrc σ with | .ok l => showOpt l | .error e => showExc e
    let str := match strSrc σ order with | .ok t => showText t | .error e => showExc e
    s!"ok proto={showText σ.protocol} obj={showObj σ.object} sock={showOpt σ.sockname} host={showOpt σ.host} port={showPortVal σ.port} loc={loc} str={str}"

def parseOptText (t : String) : Option (Option Text) :=
  if t == "N" then some none else (parseNatList t).map some

/-- `s` = send, `c` = copy, `u:<text>` = the proxy's uri is replaced by URI(<text>) -/
def parseProxyOp (np : Nat) (t : String) : Option ProxyOp :=
  if t == "s" then some .send
  else if t == "c" then some .copy
  else match t.toList with
    | 'u' :: ':' :: rest =>
      match parseNatList (String.ofList rest) with
      | some txt => match parse guards np txt with
        | .ok v => some (.setUri v)
        | .error _ => none
      | none => none
    | _ => none

def step : List String → String
  | ["p", port, txt, perm] =>
    match port.toNat?, parseNatList txt, parseNatList perm with
    | some np, some s, some pm =>
      (match parse guards np s with
      | .error e => "err " ++ showErr e
      | .ok u =>
        let st := getstate u
        let order := applyPerm u.tagOrder pm
        let portS := match st.port with | none => "N" | some p => toString p
        s!"ok proto={showText st.protocol} obj={showObj st.object} sock={showOpt st.sockname} host={showOpt st.host} port={portS} loc={showOpt (renderLoc u.loc)} str={showText (render u order)}")
      ++ " ## " ++ srcLine np s pm
    | _, _, _ => "bad-op"
  | ["l", port, loc] =>
    let dp : Option PortVal := if port == "N" then some .none else port.toInt?.map PortVal.int
    match dp, parseOptText loc with
    | some d, some l =>
      (match Pyro.Gen.C19.parseLocationSrc (blank [] (.str [])) l d with
      | .error e => showExc e
      | .ok σ => s!"ok sock={showOpt σ.sockname} host={showOpt σ.host} port={showPortVal σ.port}")
    | _, _ => "bad-op"
  | ["e", port, a, b] =>
    match port.toNat?, parseNatList a, parseNatList b with
    | some np, some s1, some s2 =>
      match parse guards np s1, parse guards np s2 with
      | .ok u, .ok v => if eqUri u v then "eq 1" else "eq 0"
      | _, _ => "err"
    | _, _, _ => "bad-op"
  | "h" :: port :: init :: ops =>
    match port.toNat?, parseNatList init with
    | some np, some s =>
      match parse guards np s, ops.mapM (parseProxyOp np) with
      | .ok u, some l =>
        let outs := proxyRun guards np Uri.tagOrder u l
        "ok " ++ "|".intercalate (outs.map fun r => match r with
          | .ok v => showText (render v v.tagOrder)
          | .error _ => "err")
      | _, _ => "bad-op"
    | _, _ => "bad-op"
  | ["i", txt] =>
    match parseNatList txt with
    | some s => match pyInt s with
      | some n => s!"ok {n}"
      | none => "err"
    | none => "bad-op"
  | _ => "bad-op"

def main : IO Unit := runDriver step
