-- placeholder driver (model for C19 not built yet)
def main : IO Unit := pure ()
