/-
  Driver for the instance-mode model (C09).  The operators of the two table tests come from the
  generated facts (Pyro.Gen.C09.singleTest / sessionTest), i.e. from the current source.

    hist <ncls> {<mode> <creator>}* <nconn> <nev> {ev}*
        mode = single|session|percall|invalid    creator = none|callable|falsy
        ev   = O <c> <keep 0|1>  |  C <c> <cls> <outcome>  |  X <c>
        outcome = ok <t 0|1> <eqc>  |  wt <t 0|1> <eqc>  |  rs
      → r1;r2;... | n=<instances created> s<cls>=<idx> ... c<conn>.<cls>=<idx> ...
        r = S<idx>:<t>:<eqc>:<created>:<creatorCalled> | TE | RS<creatorCalled> | DE | -
        The same history is also run through the TRANSCRIPTION of the current source of `_getInstance`
        (Pyro.Gen.C09Src.getInstanceSrc, user exceptions both as `Exception` and as `BaseException`); if its output
        differs from the model's, ` !src<ub> <output | stuck>` is appended (so the line no longer equals the real code's).
    beh <isClass 0|1> <single|session|percall|invalid|notstr> <none|callable|falsycallable|notcallable|falsynotcallable>
      → stored:<mode>:<creator> | TypeError | ValueError | SyntaxError
    reg <0 | 1 mode creator>
      → <mode>:<creator>
-/
import PyroModel.Instances
import PyroModel.Gen.C09
import PyroModel.InstancesSrc
import PyroModel.Gen.C09Src
import Driver.Util

open Pyro Pyro.Inst Driver

def parseMode : String → Option Mode
  | "single" => some .single
  | "session" => some .session
  | "percall" => some .percall
  | "invalid" => some .invalid
  | _ => none

def parseCreator : String → Option Creator
  | "none" => some .none
  | "callable" => some .callable
  | "falsy" => some .falsy
  | _ => none

def modeStr : Mode → String
  | .single => "single" | .session => "session" | .percall => "percall" | .invalid => "invalid"

def creatorStr : Creator → String
  | .none => "none" | .callable => "callable" | .falsy => "falsy"

def parseSpecs : Nat → List String → Option (List ClassSpec × List String)
  | 0, rest => some ([], rest)
  | n + 1, m :: c :: rest => do
    let md ← parseMode m
    let cr ← parseCreator c
    let (l, r) ← parseSpecs n rest
    pure (⟨md, cr⟩ :: l, r)
  | _, _ => none

def parseBool : String → Option Bool
  | "0" => some false
  | "1" => some true
  | _ => none

def parseEvents : Nat → List String → Option (List Event)
  | 0, [] => some []
  | n + 1, "O" :: c :: k :: rest => do
    let c ← c.toNat?
    let k ← parseBool k
    let r ← parseEvents n rest
    pure (.openConn c k :: r)
  | n + 1, "X" :: c :: rest => do
    let c ← c.toNat?
    let r ← parseEvents n rest
    pure (.close c :: r)
  | n + 1, "C" :: c :: k :: "ok" :: t :: e :: rest => do
    let c ← c.toNat?
    let k ← k.toNat?
    let t ← parseBool t
    let e ← e.toNat?
    let r ← parseEvents n rest
    pure (.call c k (.ok t e) :: r)
  | n + 1, "C" :: c :: k :: "wt" :: t :: e :: rest => do
    let c ← c.toNat?
    let k ← k.toNat?
    let t ← parseBool t
    let e ← e.toNat?
    let r ← parseEvents n rest
    pure (.call c k (.wrongType t e) :: r)
  | n + 1, "C" :: c :: k :: "rs" :: rest => do
    let c ← c.toNat?
    let k ← k.toNat?
    let r ← parseEvents n rest
    pure (.call c k .raises :: r)
  | _, _ => none

def b01 (b : Bool) : String := if b then "1" else "0"

def resStr : Res → String
  | .served i cr cc => s!"S{i.idx}:{b01 i.truthy}:{i.eqc}:{b01 cr}:{b01 cc}"
  | .typeError => "TE"
  | .raised cc => s!"RS{b01 cc}"
  | .daemonError => "DE"
  | .done => "-"

def srcTests : Option Tests :=
  match Test.ofString Pyro.Gen.C09.singleTest, Test.ofString Pyro.Gen.C09.sessionTest with
  | some a, some b => some ⟨a, b⟩
  | _, _ => none

def dumpState (s : State) (ncls nconn : Nat) : String :=
  let singles := (List.range ncls).filterMap fun k =>
    (s.tab (.single k)).map fun i => s!"s{k}={i.idx}"
  let sess := (List.range nconn).flatMap fun c => (List.range ncls).filterMap fun k =>
    (s.tab (.sess c k)).map fun i => s!"c{c}.{k}={i.idx}"
  " ".intercalate ([s!"n={s.next}"] ++ singles ++ sess)

def parseModeArg : String → Option ModeArg
  | "notstr" => some .notStr
  | m => (parseMode m).map .str

def parseCreatorArg : String → Option CreatorArg
  | "none" => some .none
  | "callable" => some .callable
  | "falsycallable" => some .falsyCallable
  | "notcallable" => some .notCallable
  | "falsynotcallable" => some .falsyNotCallable
  | _ => none

def specStr (s : ClassSpec) : String := s!"{modeStr s.mode}:{creatorStr s.creator}"

def step : List String → String
  | "hist" :: n :: rest =>
    match srcTests with
    | none => "unknown-test"
    | some ts =>
      match n.toNat?.bind (fun k => (parseSpecs k rest).map fun p => (k, p)) with
      | some (ncls, specs, nconn :: nev :: evs) =>
        match nconn.toNat?, nev.toNat?.bind (fun k => parseEvents k evs) with
        | some nconn, some h =>
          let spec : Nat → ClassSpec := fun k => (specs[k]?).getD ⟨.invalid, .none⟩
          let (s, tr) := runHist ts spec State.init h
          let out := ";".intercalate (tr.map resStr) ++ " | " ++ dumpState s ncls nconn
          let viaSrc (ub : Bool) : String :=
            if !Pyro.Gen.C09Src.translated then ""
            else
              let o := match Pyro.Inst.Src.runHistSrc Pyro.Gen.C09Src.getInstanceSrc spec ub State.init h with
                | some (s', tr') => ";".intercalate (tr'.map resStr) ++ " | " ++ dumpState s' ncls nconn
                | none => "stuck"
              if o == out then "" else s!" !src{b01 ub} {o}"
          out ++ viaSrc false ++ viaSrc true
        | _, _ => "bad-events"
      | _ => "bad-specs"
  | ["beh", isClass, m, c] =>
    match parseBool isClass, parseModeArg m, parseCreatorArg c with
    | some ic, some m, some c =>
      match behaviorCheck ic m c with
      | .stored s => "stored:" ++ specStr s
      | .typeError => "TypeError"
      | .valueError => "ValueError"
      | .syntaxError => "SyntaxError"
    | _, _, _ => "bad-args"
  | ["reg", "0"] => specStr (registerSpec none)
  | ["reg", "1", m, c] =>
    match parseMode m, parseCreator c with
    | some m, some c => specStr (registerSpec (some ⟨m, c⟩))
    | _, _ => "bad-args"
  | _ => "bad-op"

def main : IO Unit := runDriver step
