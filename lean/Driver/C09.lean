-- placeholder driver (model for C09 not built yet)
def main : IO Unit := pure ()
