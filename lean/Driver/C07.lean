-- placeholder driver (model for C07 not built yet)
def main : IO Unit := pure ()
