/-
  Driver for the exception model (C07).  One request per line:

    single <maxRetries> <seqOut 0|1> <unserErr exc> <ctor> <kind p|c|g|s|i> <tb val> <step>     (reply ends with tries=<n>)
    batch  <seqOut 0|1> <unserErr exc> <ctor> <batchFallback 0|1> <tb val> <step>*
    decode <ctor> <val>                      (recreate_classes of a literal: exercises dict_to_class)

  Values (no spaces):  N | T | F | I<int> | S<cp.cp…> (code points, hex) | A<0|1><cps> (opaque leaf, truthy bit)
                       | O<cps> (unserialisable object of that class) | L(v,…) | U(v,…) | D(<cps>:v,…)
  exc  = X(<cps of class>;L(args…);D(attrs…))        step = R<val> | E<exc>
  ctor = -  (constructors return an instance of the class with their arguments)
         |  =<cps>=<cps'>=L(…)  (class <cps> returns an instance of <cps'> with these args)
         |  !<cps>=<cps>  (class <cps>'s constructor raises an exception of the second class)

  Reply:  <outcome> y=<L(…)> rel=<0|1> conn=<a|d>     outcome = value:<val> | raised:<exc> | connlost | codecfailed | unmodelled
  Dicts are printed sorted by key.  The class relations and name tables come from PyroModel/Gen/C07.lean.
-/
import PyroModel.Exceptions
import Driver.Util

open Pyro Pyro.Exceptions Driver

abbrev P (α : Type) := List Char → Option (α × List Char)

def hexVal (c : Char) : Option Nat := hexDigit c

partial def pHexNum : Nat → Bool → P Nat
  | acc, seen, c :: rest =>
    match hexVal c with
    | some d => pHexNum (acc * 16 + d) true rest
    | none => if seen then some (acc, c :: rest) else none
  | acc, seen, [] => if seen then some (acc, []) else none

/-- code points in hex separated by '.', possibly empty -/
partial def pCps (acc : List Char) : P (List Char)
  | inp =>
    match pHexNum 0 false inp with
    | none => some (acc.reverse, inp)
    | some (n, rest) =>
      match rest with
      | '.' :: rest' => pCps (Char.ofNat n :: acc) rest'
      | _ => some ((Char.ofNat n :: acc).reverse, rest)

partial def pInt : P Int
  | '-' :: rest =>
    let ds := rest.takeWhile Char.isDigit
    if ds.isEmpty then none else some (-(Int.ofNat (String.ofList ds).toNat!), rest.dropWhile Char.isDigit)
  | inp =>
    let ds := inp.takeWhile Char.isDigit
    if ds.isEmpty then none else some (Int.ofNat (String.ofList ds).toNat!, inp.dropWhile Char.isDigit)

mutual
partial def pVal : P Val
  | 'N' :: r => some (.none, r)
  | 'T' :: r => some (.bool true, r)
  | 'F' :: r => some (.bool false, r)
  | 'I' :: r => (pInt r).map fun (i, r') => (.int i, r')
  | 'S' :: r => (pCps [] r).map fun (s, r') => (.str s, r')
  | 'A' :: '0' :: r => (pCps [] r).map fun (s, r') => (.atom false s, r')
  | 'A' :: '1' :: r => (pCps [] r).map fun (s, r') => (.atom true s, r')
  | 'O' :: r => (pCps [] r).map fun (s, r') => (.obj s, r')
  | 'L' :: '(' :: r => (pSeq [] r).map fun (xs, r') => (.list xs, r')
  | 'U' :: '(' :: r => (pSeq [] r).map fun (xs, r') => (.tuple xs, r')
  | 'D' :: '(' :: r => (pPairs [] r).map fun (kv, r') => (.dict kv, r')
  | _ => none
partial def pSeq (acc : List Val) : P (List Val)
  | ')' :: r => some (acc.reverse, r)
  | ',' :: r => pSeq acc r
  | inp =>
    match pVal inp with
    | some (v, r) => pSeq (v :: acc) r
    | none => none
partial def pPairs (acc : List (Str × Val)) : P (List (Str × Val))
  | ')' :: r => some (acc.reverse, r)
  | ',' :: r => pPairs acc r
  | inp =>
    match pCps [] inp with
    | some (k, ':' :: r) =>
      match pVal r with
      | some (v, r') => pPairs ((k, v) :: acc) r'
      | none => none
    | _ => none
end

def pExc : P Exc
  | 'X' :: '(' :: r =>
    match pCps [] r with
    | some (q, ';' :: r1) =>
      match pVal r1 with
      | some (.list args, ';' :: r2) =>
        match pVal r2 with
        | some (.dict attrs, ')' :: r3) => some (⟨q, args, attrs⟩, r3)
        | _ => none
      | _ => none
    | _ => none
  | _ => none

def full {α : Type} (p : P α) (s : String) : Option α :=
  match p s.toList with
  | some (a, []) => some a
  | _ => none

def pStep : P Step
  | 'R' :: r => (pVal r).map fun (v, r') => (.ret v, r')
  | 'E' :: r => (pExc r).map fun (e, r') => (.raise e, r')
  | _ => none

def eqStr (a b : Str) : Bool := a == b

def parseCtor (s : String) : Option (Str → List Val → Except Exc (Str × List Val)) :=
  match s.toList with
  | ['-'] => some (fun c a => .ok (c, a))
  | '=' :: r =>
    match pCps [] r with
    | some (q, '=' :: r1) =>
      match pCps [] r1 with
      | some (q', '=' :: r2) =>
        match pVal r2 with
        | some (.list out, []) => some (fun c a => if eqStr c q then .ok (q', out) else .ok (c, a))
        | _ => none
      | _ => none
    | _ => none
  | '!' :: r =>
    match pCps [] r with
    | some (q, '=' :: r1) =>
      match pCps [] r1 with
      | some (x, []) => some (fun c a => if eqStr c q then .error (pyErr x) else .ok (c, a))
      | _ => none
    | _ => none
  | _ => none

/-! printing -/

def hexOf (n : Nat) : String := String.ofList (Nat.toDigits 16 n)

def showCps (s : Str) : String := ".".intercalate (s.map fun c => hexOf c.toNat)

def strLt (a b : Str) : Bool := compare a b == .lt

def insertSorted (p : Str × Val) : List (Str × Val) → List (Str × Val)
  | [] => [p]
  | q :: rest => if strLt p.1 q.1 then p :: q :: rest else q :: insertSorted p rest

def sortPairs (kv : List (Str × Val)) : List (Str × Val) := kv.foldr insertSorted []

mutual
partial def showVal : Val → String
  | .none => "N"
  | .bool true => "T"
  | .bool false => "F"
  | .int i => "I" ++ toString i
  | .str s => "S" ++ showCps s
  | .atom t s => (if t then "A1" else "A0") ++ showCps s
  | .obj s => "O" ++ showCps s
  | .list xs => "L(" ++ ",".intercalate (xs.map showVal) ++ ")"
  | .tuple xs => "U(" ++ ",".intercalate (xs.map showVal) ++ ")"
  | .dict kv => "D(" ++ ",".intercalate ((sortPairs kv).map fun (k, v) => showCps k ++ ":" ++ showVal v) ++ ")"
end

def showExc (e : Exc) : String :=
  "X(" ++ showCps e.cls ++ ";" ++ showVal (.list e.args) ++ ";" ++ showVal (.dict e.attrs) ++ ")"

def showOutcome : Outcome → String
  | .value v => "value:" ++ showVal v
  | .raised e => "raised:" ++ showExc e
  | .connLost => "connlost"
  | .codecFailed => "codecfailed"
  | .unmodelled => "unmodelled"

def showResult (r : ClientOut × ConnFate) : String :=
  showOutcome r.1.outcome ++ " y=" ++ showVal (.list r.1.yielded) ++ " rel=" ++ (if r.1.released then "1" else "0")
    ++ " conn=" ++ (match r.2 with | .active => "a" | .dropped => "d")

def showPy : PyObj → String
  | .data v => "data:" ++ showVal v
  | .exc e => "exc:" ++ showExc e
  | .wrapper e => "wrapper:" ++ showExc e
  | .foreign q => "foreign:" ++ showCps q

/-- `str(e)` and `str(type(e))` as the harness writes them into the expected fallback text -/
def drvRender : Render :=
  { strOf := fun e => cs "{" ++ e.cls ++ cs "}"
    typeRepr := fun q =>
      let b := cs "builtins."
      cs "<class '" ++ (if b.isPrefixOf q then q.drop b.length else q) ++ cs "'>" }

def parseKind (s : String) : Option CallKind :=
  match s with
  | "p" => some (.plain false)
  | "c" => some (.plain true)
  | "g" => some .getattr
  | "s" => some .setattr
  | "i" => some .streamItem
  | _ => none

def step : List String → String
  | ["single", retries, seq, unser, ctor, kind, tb, st] =>
    let hk : Option (Nat × Nat × Nat) :=      -- kind h<age>:<lifetime>:<linger> = stream item after a housekeeping run (ms)
      if kind.startsWith "h" then
        match ((kind.drop 1).toString.splitOn ":").map String.toNat? with
        | [some a, some l, some g] => some (a, l, g)
        | _ => none
      else none
    let kind := if kind.startsWith "h" then "i" else kind
    match retries.toNat?, full pExc unser, parseCtor ctor, parseKind kind, full pVal tb, full pStep st with
    | some m, some ue, some ct, some k, some t, some s =>
      let K := genClientEnv ct
      let one := clientCall genServerEnv K (treeCodec (seq == "1") ue) drvRender k s t
      match k with
      | .streamItem =>
        match hk with
        | some (age, lifetime, linger) =>
          showResult (streamItemCall genServerEnv K (treeCodec (seq == "1") ue) drvRender lifetime linger ⟨age, none⟩ s t)
            ++ " tries=1"
        | none => showResult one ++ " tries=1"
      | .plain _ =>     -- a method call: through _RemoteMethod.__call__ with _pyroMaxRetries = m
        match remoteMethod K (retryBound m) m (fun _ => one) with
        | (some r, n) => showResult r ++ s!" tries={n}"
        | (none, n) => s!"returned-none tries={n}"
      | _ => showResult one ++ " tries=1"
    | _, _, _, _, _, _ => "bad-op"
  | "batch" :: seq :: unser :: ctor :: bf :: tb :: steps =>
    match full pExc unser, parseCtor ctor, full pVal tb, steps.mapM (full pStep) with
    | some ue, some ct, some t, some ss =>
      showResult (clientBatch genServerEnv (genClientEnv ct) (treeCodec (seq == "1") ue) drvRender (bf == "1") ss t)
    | _, _, _, _ => "bad-op"
  | ["decode", ctor, v] =>
    match parseCtor ctor, full pVal v with
    | some ct, some lit =>
      match recreate (genClientEnv ct) lit with
      | .ok (.one o) => "one:" ++ showPy o
      | .ok (.many os) => "many:[" ++ " ".intercalate (os.map showPy) ++ "]"
      | .error (.raised e) => "err:" ++ showExc e
      | .error .unmodelled => "unmodelled"
      | .error .fuel => "fuel"
    | _, _ => "bad-op"
  | _ => "bad-op"

def main : IO Unit := runDriver step
