-- placeholder driver (model for C16 not built yet)
def main : IO Unit := pure ()
