/-
  Driver for the daemon registry model (C16).
    h <cfg> <nobj> <ncls> <n> {op}*n
        cfg  = 5 chars 0/1: autoProxyChecksEntry identityUnpacksWeak refuseDaemonName unregChecksOwner finalizerChecksOwner
        op   = R <ent> <idarg> <force 0|1> <weak 0|1> | U <target> | G <k> | F <target> | P <target> | C <id> | V <k> <ser> | L
        ent  = o<k> | c<c>          id = D | n<k> | g<k> | r<k>   (r<k>: the (k mod #generated)-th generated id; n0 if none yet)
        idarg = N | E | X | <id>    target = <ent> | <id> | N | X        ser = s | j | m
      → r1;r2;…;rn | id=ref/w,… | o0:<pid>/<pdm> … c0:<pid>/<pdm> … | src=ok   (or src=diff@<step>: the source transcription
        Pyro.Gen.C16Src, evaluated next to the model on every register/unregister/uriFor/registered/return/gc step, disagreed)
        results: uri:<id> ok err:T|V|D|A proxy:<id>><call result> byvalue reached:D|o<k> inst:c<c> unknown deadweak ids:<id>,… collected kept dead
-/
import PyroModel.Registry
import PyroModel.Gen.C16
import Driver.Util

open Pyro Pyro.Registry Driver

def idStr : Id → String
  | .daemon => "D"
  | .name n => s!"n{n}"
  | .gen n => s!"g{n}"

def entStr : Ent → String
  | .obj k => s!"o{k}"
  | .cls c => s!"c{c}"

def refStr : Ref → String
  | .daemonObj => "D"
  | .ent e => entStr e

def parseEnt (t : String) : Option Ent :=
  if t.startsWith "o" then (t.drop 1).toNat?.map .obj
  else if t.startsWith "c" then (t.drop 1).toNat?.map .cls
  else none

/-- ids are resolved against the number of ids generated so far (the harness does the same) -/
def parseId (s : State) (t : String) : Option Id :=
  if t == "D" then some .daemon
  else if t.startsWith "n" then (t.drop 1).toNat?.map .name
  else if t.startsWith "g" then (t.drop 1).toNat?.map .gen
  else if t.startsWith "r" then
    (t.drop 1).toNat?.map fun k => if s.next = 0 then .name 0 else .gen (k % s.next)
  else none

def parseIdArg (s : State) (t : String) : Option IdArg :=
  if t == "N" then some .none else if t == "E" then some .empty else if t == "X" then some .nonStr
  else (parseId s t).map .str

def parseTarget (s : State) (t : String) : Option Target :=
  if t == "N" then some .noneArg else if t == "X" then some .plain else if t == "B" then some .daemonObj
  else match parseEnt t with
    | some e => some (.byObj e)
    | none => (parseId s t).map .byId

def parseSer (t : String) : Option Ser :=
  -- upper case = the object is returned nested in a container (same model step)
  if t == "s" || t == "S" then some .serpent else if t == "j" || t == "J" then some .json
  else if t == "m" || t == "M" then some .msgpack else none

def parseCfg (t : String) : Option Cfg :=
  match t.toList with
  | [a, b, c, d, e] => some ⟨a == '1', b == '1', c == '1', d == '1', e == '1'⟩
  | _ => none

/-- one op from the token stream (needs the state for `r<k>` ids) -/
def parseOp (s : State) : List String → Option (Op × List String)
  | "R" :: e :: ia :: f :: w :: rest => do
    let e ← parseEnt e
    let ia ← parseIdArg s ia
    pure (.register e ia (f == "1") (w == "1"), rest)
  | "U" :: t :: rest => do pure (.unregister (← parseTarget s t), rest)
  | "G" :: k :: rest => do pure (.gc (← k.toNat?), rest)
  | "F" :: t :: rest => do pure (.uriFor (← parseTarget s t), rest)
  | "P" :: t :: rest => do pure (.proxyFor (← parseTarget s t), rest)
  | "C" :: i :: rest => do pure (.call (← parseId s i), rest)
  | "V" :: k :: sr :: rest => do pure (.returnObj (← k.toNat?) (← parseSer sr), rest)
  | "L" :: rest => some (.registered, rest)
  | _ => none

def errStr : Err → String
  | .typeError => "T" | .valueError => "V" | .daemonError => "D" | .attributeError => "A"

def resStr (s' : State) (viaWire : Bool) : Res → String
  | .uri i => "uri:" ++ idStr i
  | .ok => "ok"
  | .err e => "err:" ++ errStr e
  | .proxy i => if !viaWire then "proxy:" ++ idStr i else "proxy:" ++ idStr i ++ ">" ++ (match call s' i with
      | .reached r => "reached:" ++ refStr r
      | .inst c => s!"inst:c{c}"
      | .unknownObject => "unknown"
      | .deadWeak => "deadweak"
      | _ => "?")
  | .byValue => "byvalue"
  | .reached r => "reached:" ++ refStr r
  | .inst c => s!"inst:c{c}"
  | .unknownObject => "unknown"
  | .deadWeak => "deadweak"
  | .ids l => "ids:" ++ ",".intercalate (l.map idStr)
  | .collected => "collected"
  | .kept => "kept"
  | .dead => "dead"

/-! the transcription of the source (Pyro.Gen.C16Src) next to the model, step by step -/
section Transcription
open Pyro.Registry.Src Pyro.Gen.C16Src

def stEq (nobj ncls : Nat) (a b : State) : Bool :=
  a.objs == b.objs && a.fins == b.fins && a.next == b.next &&
  (List.range nobj).all (fun k => a.pid (.obj k) == b.pid (.obj k) && a.pdm (.obj k) == b.pdm (.obj k) && a.dead k == b.dead k) &&
  (List.range ncls).all (fun c => a.pid (.cls c) == b.pid (.cls c) && a.pdm (.cls c) == b.pdm (.cls c))

def outEq (nobj ncls : Nat) (o : Out) (m : State × Res) : Bool := stEq nobj ncls o.1 m.1 && o.2 == resR m.2

/-- does the transcription agree with the model's step?  (steps outside the python calls - dead objects, an explicit id
    that `uuid4` has not produced yet - are not compared) -/
def srcAgrees (nobj ncls : Nat) (s : State) (op : Op) (m : State × Res) : Bool :=
  match op with
  | .register e ia f w =>
    if isDead s e then true else
    (match ia with | .str (.gen n) => decide (s.next ≤ n) | _ => false) ||
    outEq nobj ncls (registerSrc s (.ent e) (IdArg.val ia) f w) m
  | .unregister t =>
    (match t with | .byObj e => isDead s e | _ => false) || outEq nobj ncls (unregisterSrc s (Target.val t)) m
  | .uriFor t =>
    (match t with | .byObj e => isDead s e | _ => false) || outEq nobj ncls (uriForSrc s (Target.val t) true) m
  | .registered => outEq nobj ncls (registeredIdsSrc s) m
  | .returnObj k _ =>
    if s.dead k then true else
    let o := autoProxySrc s (.ent (.obj k))
    (match m.2 with
     | .byValue => o.2 == .ret (.ent (.obj k))
     | r => o.2 == resR r) && stEq nobj ncls o.1 s
  | .gc k =>
    (match m.2 with
     | .collected =>
       let ids := (s.fins.filter (fun p => p.1 = k)).map (·.2)
       let s1 := { s with dead := upd s.dead k true }
       (ids.foldl (fun st i => (finalizerSrc st (.str i) (.wref (.ent (.obj k)))).1) s1).objs == m.1.objs
     | _ => true)
  | _ => true

end Transcription

def runOps (cfg : Cfg) (nobj ncls : Nat) : Nat → Nat → State → List String → List String → Option Nat → Option (State × List String × Option Nat)
  | 0, _, s, [], acc, bad => some (s, acc.reverse, bad)
  | 0, _, _, _ :: _, _, _ => none
  | n + 1, ix, s, toks, acc, bad =>
    match parseOp s toks with
    | none => none
    | some (op, rest) =>
      let (s', r) := step cfg s op
      -- a proxy that arrived at the client (returned object) is followed by a call through it
      let viaWire := match op with | .returnObj _ _ => true | _ => false
      let bad' := match bad with
        | some b => some b
        | none => if srcAgrees nobj ncls s op (s', r) then none else some ix
      runOps cfg nobj ncls n (ix + 1) s' rest (resStr s' viaWire r :: acc) bad'

def dmStr : DAttr → String
  | .absent => "-" | .none => "none" | .this => "this"

def attrStr (s : State) (e : Ent) : String :=
  if isDead s e then entStr e ++ ":dead"
  else entStr e ++ ":" ++ (match s.pid e with | some i => idStr i | none => "-") ++ "/" ++ dmStr (s.pdm e)

def step' : List String → String
  | "h" :: cfg :: nobj :: ncls :: n :: rest =>
    match parseCfg cfg, nobj.toNat?, ncls.toNat?, n.toNat? with
    | some cfg, some nobj, some ncls, some n =>
      match runOps cfg nobj ncls n 0 init rest [] none with
      | some (s, rs, bad) =>
        ";".intercalate rs ++ " | " ++
        ",".intercalate (s.objs.map fun (i, en) => idStr i ++ "=" ++
          (match deref s en with | some r => refStr r | none => "?deadref") ++ (if en.weak then "/w" else "/s")) ++ " | " ++
        " ".intercalate ((List.range nobj).map (fun k => attrStr s (.obj k)) ++ (List.range ncls).map (fun c => attrStr s (.cls c))) ++
        " | src=" ++ (match bad with | none => "ok" | some ix => s!"diff@{ix}")
      | none => "bad-op"
    | _, _, _, _ => "bad-op"
  | _ => "bad-op"

def main : IO Unit := runDriver step'
