/-
  C17 — Socket reads and writes are exact under fragmentation and transient errors.
  Property theorems about `PyroModel.SockIO` (model of socketutil.receive_data / send_data).
  Quantifiers: every request size, every stream, every script of socket behaviours (no bound).
-/
import PyroModel.SockIO
import PyroModel.Gen.C17

namespace Pyro.C17

open Pyro Pyro.SockIO

/-- What a receive outcome is allowed to look like, relative to the bytes `got` taken off the stream. -/
def RecvOutcomeOK (size : Nat) (got : Bytes) : RecvResult → Prop
  | .ok d => d = got ∧ got.length = size
  | .closed (some p) => p = got ∧ got.length < size
  | .closed none => True
  | .timeout => True
  | .scriptEnd => True

theorem recvLoop_spec (size : Nat) (script : List Ev) :
    ∀ (data stream : Bytes), data.length ≤ size →
      ∃ got, data ++ stream = got ++ (recvLoop size data stream script).2.1 ∧
        RecvOutcomeOK size got (recvLoop size data stream script).1 := by
  induction script with
  | nil =>
    intro data stream hle
    unfold recvLoop
    by_cases h : data.length < size
    · rw [if_pos h]; exact ⟨data, rfl, trivial⟩
    · rw [if_neg h]
      have : data.length = size := by omega
      simp only [recvFinish, this, if_true]; exact ⟨data, rfl, rfl, this⟩
  | cons ev rest ih =>
    intro data stream hle
    unfold recvLoop
    by_cases h : data.length < size
    · rw [if_pos h]
      cases ev with
      | deliver k =>
        simp only
        by_cases hc : (List.take (min k (min recvCap (size - data.length))) stream).isEmpty = true
        · rw [if_pos hc]; exact ⟨data, rfl, rfl, h⟩
        · rw [if_neg hc]
          have hlen : (data ++ List.take (min k (min recvCap (size - data.length))) stream).length ≤ size := by
            simp only [List.length_append, List.length_take]; omega
          obtain ⟨got, hgot, hout⟩ := ih _ (List.drop (min k (min recvCap (size - data.length))) stream) hlen
          refine ⟨got, ?_, hout⟩
          rw [← hgot, List.append_assoc, List.take_append_drop]
      | retryable => exact ih data stream hle
      | fatal => exact ⟨data, rfl, trivial⟩
      | timeout => exact ⟨data, rfl, trivial⟩
      | partialFail k r => cases r with
        | true => exact ih data stream hle
        | false => exact ⟨data, rfl, trivial⟩
    · rw [if_neg h]
      have : data.length = size := by omega
      simp only [recvFinish, this, if_true]; exact ⟨data, rfl, rfl, this⟩

theorem recvWaitall_spec (size : Nat) (script : List Ev) :
    ∀ (stream : Bytes),
      ∃ got, stream = got ++ (recvWaitall size stream script).2.1 ∧
        RecvOutcomeOK size got (recvWaitall size stream script).1 := by
  induction script with
  | nil => intro stream; exact ⟨[], rfl, trivial⟩
  | cons ev rest ih =>
    intro stream
    cases ev with
    | deliver k =>
      simp only [recvWaitall]
      by_cases hc : (List.take (min k size) stream).length = size
      · rw [if_pos hc]
        exact ⟨List.take (min k size) stream, (List.take_append_drop _ _).symm, rfl, hc⟩
      · rw [if_neg hc]
        have hlen : (List.take (min k size) stream).length ≤ size := by
          simp only [List.length_take]; omega
        obtain ⟨got, hgot, hout⟩ := recvLoop_spec size rest _ (List.drop (min k size) stream) hlen
        refine ⟨got, ?_, hout⟩
        rw [← hgot, List.take_append_drop]
    | retryable => exact ih stream
    | fatal => exact ⟨[], rfl, trivial⟩
    | timeout => exact ⟨[], rfl, trivial⟩
    | partialFail k r => cases r with
      | true => exact ih stream
      | false => exact ⟨[], rfl, trivial⟩

theorem receive_spec (waitall : Bool) (size : Nat) (stream : Bytes) (script : List Ev) :
    ∃ got, stream = got ++ (receive waitall size stream script).2.1 ∧
      RecvOutcomeOK size got (receive waitall size stream script).1 := by
  unfold receive
  cases waitall with
  | true => simpa using recvWaitall_spec size script stream
  | false =>
    have := recvLoop_spec size script [] stream (Nat.zero_le _)
    simpa using this

/-- **C17_recv_exact.**  If `receive_data` returns, it returns exactly the next `size` bytes of the
    stream, in order, and leaves exactly the rest of the stream unread — whatever the script of
    fragmentations and retryable errors was, with and without MSG_WAITALL. -/
theorem C17_recv_exact (waitall : Bool) (size : Nat) (stream : Bytes) (script : List Ev)
    (d rest : Bytes) (script' : List Ev)
    (h : receive waitall size stream script = (.ok d, rest, script')) :
    d = stream.take size ∧ rest = stream.drop size ∧ d.length = size := by
  obtain ⟨got, hs, hout⟩ := receive_spec waitall size stream script
  rw [h] at hs hout
  simp only [RecvOutcomeOK] at hout
  obtain ⟨hd, hl⟩ := hout
  subst hd
  simp only at hs
  subst hs
  refine ⟨?_, ?_, hl⟩
  · rw [← hl, List.take_left']; rfl
  · rw [← hl, List.drop_left']; rfl

/-- **C17_recv_fail.**  A connection-closed error that carries `partialData` carries exactly the
    bytes consumed so far — a strict prefix of the request — and the unread stream is what follows
    them; no outcome consumes bytes out of order (the stream is always `got ++ unread`). -/
theorem C17_recv_fail (waitall : Bool) (size : Nat) (stream : Bytes) (script : List Ev)
    (p rest : Bytes) (script' : List Ev)
    (h : receive waitall size stream script = (.closed (some p), rest, script')) :
    p.length < size ∧ stream = p ++ rest := by
  obtain ⟨got, hs, hout⟩ := receive_spec waitall size stream script
  rw [h] at hs hout
  simp only [RecvOutcomeOK] at hout
  obtain ⟨hd, hl⟩ := hout
  subst hd
  exact ⟨hl, hs⟩

/-- Every outcome leaves the stream split into a consumed prefix and the unread rest. -/
theorem C17_recv_no_reorder (waitall : Bool) (size : Nat) (stream : Bytes) (script : List Ev) :
    ∃ got, stream = got ++ (receive waitall size stream script).2.1 :=
  let ⟨got, hs, _⟩ := receive_spec waitall size stream script; ⟨got, hs⟩

/-- A script is benign when every event either delivers at least one byte or is a retryable error. -/
def Benign : List Ev → Prop
  | [] => True
  | .deliver k :: rest => 0 < k ∧ Benign rest
  | .retryable :: rest => Benign rest
  | .partialFail _ true :: rest => Benign rest
  | _ :: _ => False

def deliveries : List Ev → Nat
  | [] => 0
  | .deliver _ :: rest => 1 + deliveries rest
  | _ :: rest => deliveries rest

theorem recvLoop_total (size : Nat) (script : List Ev) :
    ∀ (data stream : Bytes), Benign script → data.length ≤ size →
      size ≤ data.length + stream.length → size ≤ data.length + deliveries script →
      ∃ d, (recvLoop size data stream script).1 = .ok d := by
  induction script with
  | nil =>
    intro data stream _ hle _ hd
    simp only [deliveries] at hd
    have : data.length = size := by omega
    unfold recvLoop
    rw [if_neg (by omega)]
    simp only [recvFinish, this, if_true]; exact ⟨data, rfl⟩
  | cons ev rest ih =>
    intro data stream hb hle hs hd
    unfold recvLoop
    by_cases h : data.length < size
    · rw [if_pos h]
      cases ev with
      | deliver k =>
        simp only [Benign] at hb
        simp only [deliveries] at hd
        simp only
        have hn : 0 < min k (min recvCap (size - data.length)) := by
          simp only [recvCap]; omega
        have hne : ¬ (List.take (min k (min recvCap (size - data.length))) stream).isEmpty = true := by
          rw [List.isEmpty_iff]
          intro hnil
          have := congrArg List.length hnil
          simp only [List.length_take, List.length_nil] at this
          omega
        rw [if_neg hne]
        apply ih _ _ hb.2
        · simp only [List.length_append, List.length_take]; omega
        · simp only [List.length_append, List.length_take, List.length_drop]; omega
        · simp only [List.length_append, List.length_take]; omega
      | retryable =>
        simp only [Benign] at hb
        simp only [deliveries] at hd
        exact ih data stream hb hle hs hd
      | fatal => simp [Benign] at hb
      | timeout => simp [Benign] at hb
      | partialFail k r => cases r with
        | true =>
          simp only [Benign] at hb
          simp only [deliveries] at hd
          exact ih data stream hb hle hs hd
        | false => simp [Benign] at hb
    · rw [if_neg h]
      have : data.length = size := by omega
      simp only [recvFinish, this, if_true]; exact ⟨data, rfl⟩

/-- **C17_recv_total.**  If the peer has `size` bytes to give and the script contains only
    deliveries of ≥ 1 byte and retryable errors, with at least `size` deliveries (enough for the
    worst fragmentation, one byte at a time), the read succeeds — retryable errors never turn
    into a failure.  (Non-waitall path; the waitall path falls into it after its first chunk.) -/
theorem C17_recv_total (size : Nat) (stream : Bytes) (script : List Ev)
    (hb : Benign script) (hs : size ≤ stream.length) (hd : size ≤ deliveries script) :
    (receive false size stream script).1 = .ok (stream.take size) := by
  have ⟨d, hd'⟩ := recvLoop_total size script [] stream hb (Nat.zero_le _) (by simpa using hs) (by simpa using hd)
  have e : receive false size stream script
      = (.ok d, (receive false size stream script).2.1, (receive false size stream script).2.2) := by
    have : (receive false size stream script).1 = .ok d := by simpa [receive] using hd'
    rw [← this]
  have := C17_recv_exact false size stream script d _ _ e
  rw [← this.1]
  simpa [receive] using hd'

/-! ### sending -/

theorem sendLoop_spec (script : List Ev) :
    ∀ (data acc : Bytes),
      ∃ sent, (sendLoop data acc script).2.1 = acc ++ sent ∧ sent <+: data ∧
        ((sendLoop data acc script).1 = .ok → sent = data) := by
  induction script with
  | nil =>
    intro data acc
    unfold sendLoop
    by_cases h : data.isEmpty = true
    · rw [if_pos h]
      have : data = [] := List.isEmpty_iff.mp h
      subst this; exact ⟨[], by simp, List.prefix_refl _, fun _ => rfl⟩
    · rw [if_neg h]; exact ⟨[], by simp, List.nil_prefix, fun h => by cases h⟩
  | cons ev rest ih =>
    intro data acc
    unfold sendLoop
    by_cases h : data.isEmpty = true
    · rw [if_pos h]
      have : data = [] := List.isEmpty_iff.mp h
      subst this; exact ⟨[], by simp, List.prefix_refl _, fun _ => rfl⟩
    · rw [if_neg h]
      cases ev with
      | deliver k =>
        simp only
        obtain ⟨sent, h1, h2, h3⟩ := ih (List.drop (min k data.length) data) (acc ++ List.take (min k data.length) data)
        refine ⟨List.take (min k data.length) data ++ sent, ?_, ?_, ?_⟩
        · rw [h1, List.append_assoc]
        · obtain ⟨t, ht⟩ := h2
          refine ⟨t, ?_⟩
          rw [List.append_assoc, ht, List.take_append_drop]
        · intro hok
          rw [h3 hok, List.take_append_drop]
      | retryable => exact ih data acc
      | fatal => exact ⟨[], by simp, List.nil_prefix, fun h => by cases h⟩
      | timeout => exact ⟨[], by simp, List.nil_prefix, fun h => by cases h⟩
      | partialFail k r => cases r with
        | true => exact ih data acc
        | false => exact ⟨[], by simp, List.nil_prefix, fun h => by cases h⟩

/-- **C17_send_exact / C17_send_prefix.**  Whatever the script of partial writes and retryable
    errors, the bytes accepted by the peer are a prefix of the buffer, in order, each byte at most
    once; and if `send_data` returns normally the peer accepted exactly the whole buffer. -/
theorem C17_send (blocking : Bool) (data : Bytes) (script : List Ev) :
    (send blocking data script).2.1 <+: data ∧
      ((send blocking data script).1 = .ok → (send blocking data script).2.1 = data) := by
  unfold send
  cases blocking with
  | true =>
    simp only [if_true]
    cases script with
    | nil => exact ⟨List.nil_prefix, fun h => by cases h⟩
    | cons ev rest =>
      cases ev with
      | deliver k => exact ⟨List.prefix_refl _, fun _ => rfl⟩
      | retryable => exact ⟨List.nil_prefix, fun h => by cases h⟩
      | fatal => exact ⟨List.nil_prefix, fun h => by cases h⟩
      | timeout => exact ⟨List.nil_prefix, fun h => by cases h⟩
      | partialFail k r => exact ⟨List.take_prefix _ _, fun h => by cases h⟩
  | false =>
    simp only [Bool.false_eq_true, if_false]
    obtain ⟨sent, h1, h2, h3⟩ := sendLoop_spec script data []
    simp only [List.nil_append] at h1
    rw [h1]
    exact ⟨h2, h3⟩

/-- Retryable errors alone never make a send fail: with only deliveries ≥ 1 byte and retryable
    errors, and at least `len data` deliveries, the whole buffer is transmitted. -/
theorem C17_send_total (script : List Ev) :
    ∀ (data acc : Bytes), Benign script → data.length ≤ deliveries script →
      (sendLoop data acc script).1 = .ok := by
  induction script with
  | nil =>
    intro data acc _ hd
    simp only [deliveries, Nat.le_zero, List.length_eq_zero_iff] at hd
    subst hd; simp [sendLoop]
  | cons ev rest ih =>
    intro data acc hb hd
    unfold sendLoop
    by_cases h : data.isEmpty = true
    · rw [if_pos h]
    · rw [if_neg h]
      have hpos : 0 < data.length := by
        cases data with
        | nil => simp at h
        | cons _ _ => simp
      cases ev with
      | deliver k =>
        simp only [Benign] at hb
        simp only [deliveries] at hd
        simp only
        apply ih _ _ hb.2
        simp only [List.length_drop]; omega
      | retryable =>
        simp only [Benign] at hb
        simp only [deliveries] at hd
        exact ih data acc hb hd
      | fatal => simp [Benign] at hb
      | timeout => simp [Benign] at hb
      | partialFail k r => cases r with
        | true =>
          simp only [Benign] at hb
          simp only [deliveries] at hd
          exact ih data acc hb hd
        | false => simp [Benign] at hb

/-! ### obligations about facts extracted from the current source (PyroModel/Gen/C17.lean) -/

/-- The retryable errno set of the source is exactly {EINTR, EAGAIN, EWOULDBLOCK, EINPROGRESS}:
    the model's `retryable` event stands for exactly these, every other errno is `fatal`. -/
theorem C17_gen_retry_set : Pyro.Gen.C17.errnoRetries = Pyro.Gen.C17.expectedRetries := by decide

/-- The receive loop's per-call cap in the source is the model's `recvCap`, and the only
    exceptions `receive_data` / `send_data` raise are the timeout and connection-closed errors. -/
theorem C17_gen_cap :
    Pyro.Gen.C17.recvCaps = [recvCap] ∧
    (∀ n ∈ Pyro.Gen.C17.recvRaises, n = "TimeoutError" ∨ n = "ConnectionClosedError" ∨ n = "err") ∧
    (∀ n ∈ Pyro.Gen.C17.sendRaises, n = "TimeoutError" ∨ n = "ConnectionClosedError") := by decide

/-! ### non-vacuity: concrete scripts meeting the hypotheses -/

-- 5 bytes requested, delivered as 2 + (EINTR) + 1 + 2, non-waitall path
example : receive false 5 [1,2,3,4,5,6,7] [.deliver 2, .retryable, .deliver 1, .deliver 9]
    = (.ok [1,2,3,4,5], [6,7], []) := by decide
-- waitall path: short first chunk then the rest
example : receive true 5 [1,2,3,4,5,6,7] [.retryable, .deliver 3, .deliver 2, .deliver 1]
    = (.ok [1,2,3,4,5], [6,7], [.deliver 1]) := by decide
-- peer closes early: partialData = the 3 bytes received
example : receive true 5 [1,2,3] [.deliver 3, .deliver 0]
    = (.closed (some [1,2,3]), [], []) := by decide
example : Benign [.deliver 2, .retryable, .deliver 1, .deliver 9, .deliver 1, .deliver 1] ∧
    5 ≤ deliveries [.deliver 2, .retryable, .deliver 1, .deliver 9, .deliver 1, .deliver 1] := by
  simp [Benign, deliveries]
example : send false [1,2,3,4] [.deliver 1, .retryable, .deliver 0, .deliver 7]
    = (.ok, [1,2,3,4], []) := by decide
example : send false [1,2,3,4] [.deliver 1, .fatal] = (.closed, [1], []) := by decide
-- blocking sendall that transmitted 2 bytes and then failed: an error, and the peer holds a prefix
example : send true [1,2,3,4] [.partialFail 2 true] = (.closed, [1,2], []) := by decide

end Pyro.C17
