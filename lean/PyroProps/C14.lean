/-
  C14 — The name server is a faithful map, identical on both storage back-ends.

  Model: PyroModel/NameServer.lean (abstract map `specStep`, `NameServer` methods `nsStep` over the storage
  interface, `memStore`) and PyroModel/Sql.lean (`sqlStore`: two row tables, every method a program of SQL
  statements with their relational meaning, run in a transaction under a statement-failure counter).
  Helper lemmas: PyroProofs/NSLists, NSRefine (generic refinement), NSMem, NSSql.

  Quantifiers: every environment (`core.URI` validity, `re` compile/match as arbitrary functions), every
  history of operations of any length over arbitrary names / tags (lists of code points — no alphabet
  bound), reopen points anywhere, every failure counter (= every statement index as failure point).
  Results that come from a dict are compared up to order (`Res.Equiv`), maps up to permutation.

  The theorems are about the source WITH the two C14 fixes (literal prefix query, de-duplicated
  `metadata_all`); the obligations `C14_gen_sql` / `C14_gen_params` fail to build on a source that still
  has `LIKE` / the raw tag list.  The old statements are kept in the model (`sqlStoreOld`) for the two
  negative theorems, whose witnesses the harness replays on the real code.
-/
import PyroModel.NameServer
import PyroModel.Sql
import PyroModel.Gen.C14
import PyroProofs.NSRefine
import PyroProofs.NSMem
import PyroProofs.NSSql

namespace Pyro.C14

open Pyro.NS Pyro.NS.Sql

/-- result lists agree position by position (listings up to order) -/
def ResListEquiv : List Res → List Res → Prop
  | [], [] => True
  | a :: as, b :: bs => Res.Equiv a b ∧ ResListEquiv as bs
  | _, _ => False

theorem ResListEquiv.symm : ∀ {a b : List Res}, ResListEquiv a b → ResListEquiv b a
  | [], [], _ => trivial
  | _ :: _, _ :: _, h => ⟨h.1.symm, ResListEquiv.symm h.2⟩
  | [], _ :: _, h => h.elim
  | _ :: _, [], h => h.elim

theorem ResListEquiv.trans : ∀ {a b c : List Res}, ResListEquiv a b → ResListEquiv b c → ResListEquiv a c
  | [], [], [], _, _ => trivial
  | _ :: _, _ :: _, _ :: _, h1, h2 => ⟨h1.1.trans h2.1, ResListEquiv.trans h1.2 h2.2⟩
  | [], _ :: _, _, h, _ => h.elim
  | _ :: _, [], _, h, _ => h.elim
  | [], [], _ :: _, _, h => h.elim
  | _ :: _, _ :: _, [], _, h => h.elim

/-- One operation on a back-end that meets the storage contract and cannot fail, started in a state that
    represents the map `spec`: same answer as the map, and the new state represents the new map. -/
theorem step_refines {σ : Type} {abs : σ → List Entry} {inv : σ → Prop} {S : Store σ}
    (ok : StoreOK abs inv False S) (env : Env) (op : Op) (s : σ) (spec : Spec)
    (hi : inv s) (hs : SpecInv spec) (hp : (abs s).Perm spec) :
    inv (nsStep S env op s).2 ∧ Res.Equiv (nsStep S env op s).1 (specStep env op spec).1 ∧
      (abs (nsStep S env op s).2).Perm (specStep env op spec).2 ∧ SpecInv (specStep env op spec).2 := by
  have hs' : SpecInv (abs s) := hs.perm hp.symm
  obtain ⟨h1, h2⟩ := ns_step_refines ok env op s hi hs'
  obtain ⟨c1, c2⟩ := specStep_congr env op hp hs'
  rcases h2 with ⟨hF, _⟩ | ⟨e, p⟩
  · exact hF.elim
  · exact ⟨h1, e.trans c1, p.trans c2, specStep_inv env op hs⟩

theorem hist_refines {σ : Type} {abs : σ → List Entry} {inv : σ → Prop} {S : Store σ}
    (ok : StoreOK abs inv False S) (env : Env) :
    ∀ (ops : List Op) (s : σ) (spec : Spec), inv s → SpecInv spec → (abs s).Perm spec →
      ResListEquiv (runHist (nsStep S env) ops s).1 (runHist (specStep env) ops spec).1 ∧
      (abs (runHist (nsStep S env) ops s).2).Perm (runHist (specStep env) ops spec).2
  | [], s, spec, _, _, hp => ⟨trivial, hp⟩
  | op :: ops, s, spec, hi, hs, hp => by
    obtain ⟨h1, h2, h3, h4⟩ := step_refines ok env op s spec hi hs hp
    obtain ⟨r1, r2⟩ := hist_refines ok env ops _ _ h1 h4 h3
    exact ⟨⟨h2, r1⟩, r2⟩

theorem specInv_nil : SpecInv ([] : Spec) := ⟨List.Pairwise.nil, fun _ h => nomatch h⟩

/-- **C14_mem_refines.**  For every environment and every history, `NameServer(MemoryStorage())` started
    empty gives, operation by operation, the answers of the plain map (dict listings up to order), and
    ends holding exactly the map's entries. -/
theorem C14_mem_refines (env : Env) (ops : List Op) :
    ResListEquiv (runHist (nsStep memStore env) ops []).1 (runHist (specStep env) ops []).1 ∧
    (runHist (nsStep memStore env) ops []).2.Perm (runHist (specStep env) ops []).2 :=
  hist_refines mem_storeOK env ops [] [] trivial specInv_nil (.refl _)

/-! ### the sqlite back-end, with reopen points -/

inductive Cmd where
  | op (o : Op)
  | reopen          -- the process restarts: a new `SqlStorage(dbfile)` on the same file
  deriving Repr

/-- the operations of a command list (what the map, and the in-memory back-end, see) -/
def opsOf : List Cmd → List Op
  | [] => []
  | .op o :: cs => o :: opsOf cs
  | .reopen :: cs => opsOf cs

/-- run a command list on the sqlite back-end; a reopen produces no result -/
def sqlRun (env : Env) : List Cmd → SqlState → List Res × SqlState
  | [], s => ([], s)
  | .op o :: cs, s =>
    let (r, s1) := nsStep sqlStore env o s
    let (rs, s2) := sqlRun env cs s1
    (r :: rs, s2)
  | .reopen :: cs, s => sqlRun env cs (reopen s)

def sqlInit : SqlState := ⟨Db.empty, none⟩

theorem sqlInv_empty : SqlInv Db.empty := ⟨List.Pairwise.nil, fun _ h => nomatch h⟩

theorem sql_hist_refines (env : Env) :
    ∀ (cs : List Cmd) (s : SqlState) (spec : Spec), invS False s → SpecInv spec → s.db.abs.Perm spec →
      ResListEquiv (sqlRun env cs s).1 (runHist (specStep env) (opsOf cs) spec).1 ∧
      (sqlRun env cs s).2.db.abs.Perm (runHist (specStep env) (opsOf cs) spec).2
  | [], s, spec, _, _, hp => ⟨trivial, hp⟩
  | .op o :: cs, s, spec, hi, hs, hp => by
    obtain ⟨h1, h2, h3, h4⟩ := step_refines (sql_storeOK False) env o s spec hi hs hp
    obtain ⟨r1, r2⟩ := sql_hist_refines env cs _ _ h1 h4 h3
    exact ⟨⟨h2, r1⟩, r2⟩
  | .reopen :: cs, s, spec, hi, hs, hp =>
    sql_hist_refines env cs (reopen s) spec ⟨hi.1, fun _ => rfl⟩ hs hp

/-- **C14_sql_refines.**  For every environment and every history with reopen points anywhere,
    `NameServer(SqlStorage(file))` started on an empty database (no statement failing) gives, operation by
    operation, the answers of the plain map, and its tables end up standing for exactly the map's entries. -/
theorem C14_sql_refines (env : Env) (cs : List Cmd) :
    ResListEquiv (sqlRun env cs sqlInit).1 (runHist (specStep env) (opsOf cs) []).1 ∧
    (sqlRun env cs sqlInit).2.db.abs.Perm (runHist (specStep env) (opsOf cs) []).2 :=
  sql_hist_refines env cs sqlInit [] ⟨sqlInv_empty, fun _ => rfl⟩ specInv_nil (.refl _)

/-- **C14_backends_equal.**  The two back-ends are observationally indistinguishable: on every history
    (the sqlite one additionally reopened at arbitrary points) they return the same answers and hold the
    same map. -/
theorem C14_backends_equal (env : Env) (cs : List Cmd) :
    ResListEquiv (sqlRun env cs sqlInit).1 (runHist (nsStep memStore env) (opsOf cs) []).1 ∧
    (sqlRun env cs sqlInit).2.db.abs.Perm (runHist (nsStep memStore env) (opsOf cs) []).2 := by
  obtain ⟨a1, a2⟩ := C14_sql_refines env cs
  obtain ⟨b1, b2⟩ := C14_mem_refines env (opsOf cs)
  exact ⟨a1.trans b1.symm, a2.trans b2.symm⟩

/-- **C14_reopen.**  Reopening the database file changes neither the map the tables stand for nor the
    invariant, and schedules no failure: the state *is* the tables. -/
theorem C14_reopen (s : SqlState) (h : SqlInv s.db) :
    (reopen s).db.abs = s.db.abs ∧ invS False (reopen s) :=
  ⟨rfl, h, fun _ => rfl⟩

/-! ### statement failures -/

/-- **C14_atomic.**  Let any storage statement (or explicit commit) of an operation fail — `fuel` is an
    arbitrary failure counter, so this covers every statement index of every operation, mutating or
    not.  Then either the operation raises the storage error and the tables stand for exactly the map
    they stood for before (the operation had no effect), or no failure was hit and the operation answered
    and acted as the plain map does. -/
theorem C14_atomic (env : Env) (op : Op) (db : Db) (fuel : Fuel) (hi : SqlInv db) (hs : SpecInv db.abs) :
    ((nsStep sqlStore env op ⟨db, fuel⟩).1 = .err .storage ∧ (nsStep sqlStore env op ⟨db, fuel⟩).2.db.abs = db.abs) ∨
    (Res.Equiv (nsStep sqlStore env op ⟨db, fuel⟩).1 (specStep env op db.abs).1 ∧
      (nsStep sqlStore env op ⟨db, fuel⟩).2.db.abs.Perm (specStep env op db.abs).2) := by
  obtain ⟨_, h⟩ := ns_step_refines (sql_storeOK True) env op ⟨db, fuel⟩ ⟨hi, fun h => (h trivial).elim⟩ hs
  rcases h with ⟨_, h1, h2⟩ | h
  · exact .inl ⟨h1, h2⟩
  · exact .inr h

/-- …and the invariants survive either way, so the statement applies again to the next operation. -/
theorem C14_atomic_inv (env : Env) (op : Op) (db : Db) (fuel : Fuel) (hi : SqlInv db) (hs : SpecInv db.abs) :
    SqlInv (nsStep sqlStore env op ⟨db, fuel⟩).2.db ∧ SpecInv (nsStep sqlStore env op ⟨db, fuel⟩).2.db.abs := by
  obtain ⟨h0, h⟩ := ns_step_refines (sql_storeOK True) env op ⟨db, fuel⟩ ⟨hi, fun h => (h trivial).elim⟩ hs
  refine ⟨h0.1, ?_⟩
  rcases h with ⟨_, _, h2⟩ | ⟨_, h2⟩
  · have : (nsStep sqlStore env op ⟨db, fuel⟩).2.db.abs = db.abs := h2
    rw [this]; exact hs
  · exact (specStep_inv env op hs).perm h2.symm

/-! ### a new name server; two clients -/

/-- **C14_fresh_empty.**  Every name server starts as the empty map, on both back-ends (and nothing in the model
    is shared between two instances: each history is run from its own initial state).  The harness holds the
    real code to this with default-constructed `NameServer()` instances: a second instance created after a
    history is empty, and using it leaves the first untouched. -/
theorem C14_fresh_empty (env : Env) :
    (nsStep memStore env .count []).1 = .num 0 ∧
    (nsStep memStore env (.list none none true) []).1 = .listing [] ∧
    (nsStep sqlStore env .count sqlInit).1 = .num 0 ∧
    (nsStep sqlStore env (.list none none true) sqlInit).1 = .listing [] ∧
    sqlInit.db.abs = [] := by
  refine ⟨rfl, rfl, rfl, rfl, rfl⟩

/-- **C14_overlap_serial.**  Two calls `a`, `b` of two clients that overlap in time take effect in one of the
    two orders — that is C15's theorem (every storage access of an operation happens while holding the name
    server's lock).  What C14 adds: in *either* order, on any back-end meeting the storage contract, the two
    answers and the resulting map are the plain map's for that order.  The overlap suite of the harness
    therefore accepts exactly the two outcomes computed on the plain map. -/
theorem C14_overlap_serial {σ : Type} {abs : σ → List Entry} {inv : σ → Prop} {S : Store σ}
    (ok : StoreOK abs inv False S) (env : Env) (a b : Op) (s : σ) (hi : inv s) (hs : SpecInv (abs s)) :
    (ResListEquiv (runHist (nsStep S env) [a, b] s).1 (runHist (specStep env) [a, b] (abs s)).1 ∧
      (abs (runHist (nsStep S env) [a, b] s).2).Perm (runHist (specStep env) [a, b] (abs s)).2) ∧
    (ResListEquiv (runHist (nsStep S env) [b, a] s).1 (runHist (specStep env) [b, a] (abs s)).1 ∧
      (abs (runHist (nsStep S env) [b, a] s).2).Perm (runHist (specStep env) [b, a] (abs s)).2) :=
  ⟨hist_refines ok env [a, b] s (abs s) hi hs (.refl _), hist_refines ok env [b, a] s (abs s) hi hs (.refl _)⟩

/-! ### removal: counts and the name server's own entry -/

theorem length_filter_add (l : List Entry) (p : Entry → Bool) :
    (l.filter p).length + (l.filter fun e => !p e).length = l.length := by
  induction l with
  | nil => rfl
  | cons a l ih =>
    cases h : p a <;> simp [h] <;> omega

theorem length_filter_ne_one : ∀ {s : List Entry}, NodupKeys s → ∀ {n : Str}, s.any (·.name == n) = true →
    (s.filter (fun e => !(e.name == n))).length + 1 = s.length
  | [], _, _, hn => by cases hn
  | a :: s, h, n, hn => by
    rw [NodupKeys, List.pairwise_cons] at h
    by_cases ha : (a.name == n) = true
    · have hn' : a.name = n := by simpa using ha
      have hnone : s.any (·.name == n) = false := by
        rw [Bool.eq_false_iff]
        intro hc
        obtain ⟨b, hb, hbn⟩ := any_name_iff.mp hc
        exact h.1 b hb (hn'.trans hbn.symm)
      simp only [List.filter_cons, ha, Bool.not_true, Bool.false_eq_true, if_false, List.length_cons,
        filter_ne_of_not_any hnone]
    · have ha' : (a.name == n) = false := by simpa using ha
      have hs : s.any (·.name == n) = true := by simpa [List.any_cons, ha'] using hn
      have ih := length_filter_ne_one h.2 hs
      simp only [List.filter_cons, ha', Bool.not_false, if_true, List.length_cons]
      omega

theorem length_drop_one {s : Spec} (h : NodupKeys s) {n : Str} (hn : s.has n = true) :
    (s.drop (· == n)).length + 1 = s.length := length_filter_ne_one h hn

/-- what the `name=` branch of `remove` selects -/
theorem sel_name {s : Spec} {name : Option Str} {n : Str}
    (h : s.nameVictim name = some n) : s.has n = true ∧ (n != nsName) = true := by
  unfold Spec.nameVictim at h
  cases ht : truthy? name with
  | none => rw [ht] at h; cases h
  | some m =>
    rw [ht] at h
    simp only at h
    split at h
    · cases h; rename_i hc; exact (Bool.and_eq_true _ _).mp hc
    · cases h

/-- on the plain map, `remove` returns the number of entries that disappear, and removes nothing else -/
theorem spec_remove_count (env : Env) (name pfx regex : Option Str) {s : Spec} (hs : SpecInv s) {k : Nat}
    (h : (specStep env (.remove name pfx regex) s).1 = .num k) :
    (specStep env (.remove name pfx regex) s).2.length + k = s.length ∧
    ∃ keep : Entry → Bool, (specStep env (.remove name pfx regex) s).2 = s.filter keep := by
  have hw : ∀ (m : Str → Bool), (specRemoveWhere m s).1 = .num k →
      (specRemoveWhere m s).2.length + k = s.length ∧ ∃ keep : Entry → Bool, (specRemoveWhere m s).2 = s.filter keep := by
    intro m hm
    unfold specRemoveWhere at hm ⊢
    simp only [Res.num.injEq] at hm
    refine ⟨?_, _, rfl⟩
    unfold Spec.drop
    simp only
    rw [← hm, Nat.add_comm]
    exact length_filter_add s _
  simp only [specStep] at h ⊢
  cases hsel : s.nameVictim name with
  | some n =>
    rw [hsel] at h
    simp only [Res.num.injEq] at h ⊢
    obtain ⟨h1, _⟩ := sel_name hsel
    exact ⟨by rw [← h]; exact length_drop_one hs.1 h1, _, rfl⟩
  | none =>
    rw [hsel] at h
    simp only at h ⊢
    cases hp : truthy? pfx with
    | some p => rw [hp] at h; exact hw _ h
    | none =>
      rw [hp] at h
      simp only at h ⊢
      cases hr : truthy? regex with
      | some r =>
        rw [hr] at h
        simp only at h ⊢
        by_cases hok : env.reOk r = true
        · rw [if_pos hok] at h ⊢; exact hw _ h
        · rw [if_neg hok] at h; cases h
      | none =>
        rw [hr] at h
        simp only [Res.num.injEq] at h ⊢
        exact ⟨by omega, fun _ => true, (List.filter_eq_self.mpr fun _ _ => rfl).symm⟩

theorem Res.Equiv.num_right {r : Res} {k : Nat} (h : Res.Equiv r (.num k)) : r = .num k := by
  rcases h with rfl | ⟨a, b, _, hb, _⟩
  · rfl
  · cases hb

theorem Res.Equiv.num_left {r : Res} {k : Nat} (h : Res.Equiv (.num k) r) : r = .num k :=
  (Res.Equiv.num_right h.symm)

/-- **C14_counts.**  On either back-end (any back-end meeting the storage contract, no statement failing):
    when `remove(name, prefix, regex)` returns `k`, the represented map lost exactly `k` entries. -/
theorem C14_counts {σ : Type} {abs : σ → List Entry} {inv : σ → Prop} {S : Store σ}
    (ok : StoreOK abs inv False S) (env : Env) (name pfx regex : Option Str) (s : σ)
    (hi : inv s) (hs : SpecInv (abs s)) {k : Nat}
    (h : (nsStep S env (.remove name pfx regex) s).1 = .num k) :
    (abs (nsStep S env (.remove name pfx regex) s).2).length + k = (abs s).length := by
  obtain ⟨_, h2, h3, _⟩ := step_refines ok env (.remove name pfx regex) s (abs s) hi hs (.refl _)
  rw [h] at h2
  have := (spec_remove_count env name pfx regex hs (Res.Equiv.num_left h2)).1
  rw [h3.length_eq]; exact this

/-- the two back-ends meet the hypotheses of `C14_counts` -/
theorem C14_counts_mem (env : Env) (name pfx regex : Option Str) (s : MemDb) (hs : SpecInv s) {k : Nat}
    (h : (nsStep memStore env (.remove name pfx regex) s).1 = .num k) :
    (nsStep memStore env (.remove name pfx regex) s).2.length + k = s.length :=
  C14_counts mem_storeOK env name pfx regex s trivial hs h

theorem C14_counts_sql (env : Env) (name pfx regex : Option Str) (db : Db) (hi : SqlInv db) (hs : SpecInv db.abs)
    {k : Nat} (h : (nsStep sqlStore env (.remove name pfx regex) ⟨db, none⟩).1 = .num k) :
    (nsStep sqlStore env (.remove name pfx regex) ⟨db, none⟩).2.db.abs.length + k = db.abs.length :=
  C14_counts (sql_storeOK False) env name pfx regex ⟨db, none⟩ ⟨hi, fun _ => rfl⟩ hs h

theorem spec_ns_protected (env : Env) (name pfx regex : Option Str) (s : Spec) {e : Entry}
    (he : e ∈ s) (hn : e.name = nsName) : e ∈ (specStep env (.remove name pfx regex) s).2 := by
  have hw : ∀ m : Str → Bool, e ∈ (specRemoveWhere m s).2 := by
    intro m
    unfold specRemoveWhere Spec.drop
    simp only [List.mem_filter]
    refine ⟨he, ?_⟩
    rw [hn]; simp
  simp only [specStep]
  cases hsel : s.nameVictim name with
  | some n =>
    obtain ⟨_, h2⟩ := sel_name hsel
    simp only
    unfold Spec.drop
    rw [List.mem_filter]
    refine ⟨he, ?_⟩
    have h3 : n ≠ nsName := by simpa using h2
    have h4 : (nsName == n) = false := by rw [beq_eq_false_iff_ne]; exact fun hc => h3 hc.symm
    show (!(e.name == n)) = true
    rw [hn, h4]; rfl
  | none =>
    simp only
    cases truthy? pfx with
    | some p => exact hw _
    | none =>
      simp only
      cases truthy? regex with
      | some r =>
        simp only
        split
        · exact hw _
        · exact he
      | none => exact he

/-- **C14_ns_protected.**  On any back-end meeting the storage contract — statements failing or not —
    no `remove`, whatever its arguments, removes or alters an entry named `Pyro.NameServer`. -/
theorem C14_ns_protected {σ : Type} {abs : σ → List Entry} {inv : σ → Prop} {F : Prop} {S : Store σ}
    (ok : StoreOK abs inv F S) (env : Env) (name pfx regex : Option Str) (s : σ)
    (hi : inv s) (hs : SpecInv (abs s)) {e : Entry} (he : e ∈ abs s) (hn : e.name = nsName) :
    e ∈ abs (nsStep S env (.remove name pfx regex) s).2 := by
  obtain ⟨_, h⟩ := ns_step_refines ok env (.remove name pfx regex) s hi hs
  rcases h with ⟨_, _, h2⟩ | ⟨_, h2⟩
  · rw [h2]; exact he
  · exact h2.mem_iff.mpr (spec_ns_protected env name pfx regex (abs s) he hn)

/-! ### names and prefixes are literal -/

/-- **C14_literal_names.**  What "faithful" means for matching, spelled out on the map that both back-ends
    refine: `lookup(n)` answers from the entry whose name is exactly `n` (code point by code point);
    `list(prefix=p)` returns exactly the entries whose name has `p` as a literal prefix. -/
theorem C14_literal_names (env : Env) {s : Spec} (hs : SpecInv s) :
    (∀ e ∈ s, env.uriOk e.uri = true → (specStep env (.lookup e.name true) s).1 = .uriMeta e.uri e.tags) ∧
    (∀ n, (∀ e ∈ s, e.name ≠ n) → (specStep env (.lookup n true) s).1 = .err .naming) ∧
    (∀ (a : Nat) (p : Str) (wm : Bool), ∃ l, (specStep env (.list (some (a :: p)) none wm) s).1 = .listing l ∧
        ∀ e', e' ∈ l ↔ ∃ e ∈ s, (a :: p) <+: e.name ∧ e' = e.strip wm) := by
  refine ⟨?_, ?_, ?_⟩
  · intro e he hu
    simp only [specStep, Spec.get, find?_of_mem hs.1 he, hu, if_true]
  · intro n hn
    have : s.find? (·.name == n) = none := by
      rw [List.find?_eq_none]
      intro x hx hc
      exact hn x hx (by simpa using hc)
    simp only [specStep, Spec.get, this]
  · intro a p wm
    refine ⟨_, rfl, ?_⟩
    intro e'
    simp only [Spec.select, List.mem_map, List.mem_filter, List.isPrefixOf_iff_prefix]
    constructor
    · rintro ⟨e, ⟨h1, h2⟩, rfl⟩; exact ⟨e, h1, h2, rfl⟩
    · rintro ⟨e, h1, h2, rfl⟩; exact ⟨e, ⟨h1, h2⟩, rfl⟩

/-! ### the statements before the fixes do NOT refine the map (findings F14a, F14b) -/

/-- the environment of the witnesses: every URI text valid, no regex used -/
def env0 : Env := ⟨fun _ => true, fun _ => false, fun _ _ => false⟩

def uri0 : Str := [80, 89, 82, 79, 58, 111, 64, 104, 58, 49]   -- "PYRO:o@h:1"

/-- register "a_", "ab", "AB"; list(prefix="a_") -/
def witnessLike : List Op :=
  [.register [97, 95] uri0 false .none, .register [97, 98] uri0 false .none, .register [65, 66] uri0 false .none,
   .list (some [97, 95]) none false]

/-- register "x" with tags {"t"}; yplookup(meta_all=["t","t"]) -/
def witnessMetaAll : List Op :=
  [.register [120] uri0 false (.list [[116]]), .yplookup (.list [[116], [116]]) .none false]

theorem equiv_listing_length {a b : List Entry} (h : Res.Equiv (.listing a) (.listing b)) : a.length = b.length := by
  rcases h with h | ⟨x, y, hx, hy, p⟩
  · cases h; rfl
  · cases hx; cases hy; exact p.length_eq

/-- The full statement of sqlite refinement for the source as it was before the fixes. -/
def C14_sql_refines_old_Statement : Prop :=
  ∀ (env : Env) (ops : List Op),
    ResListEquiv (runHist (nsStep sqlStoreOld env) ops sqlInit).1 (runHist (specStep env) ops []).1

/-- **C14_like_not_literal** (finding F14a).  With the prefix query written as `name LIKE prefix||'%'`
    (sqlite: `_` and `%` are wildcards, ASCII letters compare case-insensitively) the sqlite back-end does
    not refine the map: after registering "a_", "ab", "AB", `list(prefix="a_")` returns three names, the
    map (and the in-memory back-end) one. -/
theorem C14_like_not_literal : ¬ C14_sql_refines_old_Statement := by
  intro h
  have := h env0 witnessLike
  have e1 : (runHist (nsStep sqlStoreOld env0) witnessLike sqlInit).1 =
      [.none, .none, .none, .listing [⟨[97, 95], uri0, []⟩, ⟨[97, 98], uri0, []⟩, ⟨[65, 66], uri0, []⟩]] := by decide
  have e2 : (runHist (specStep env0) witnessLike []).1 =
      [.none, .none, .none, .listing [⟨[97, 95], uri0, []⟩]] := by decide
  rw [e1, e2] at this
  have := equiv_listing_length this.2.2.2.1
  simp at this

/-- **C14_meta_all_raw_differs** (finding F14b).  With `metadata_all` passed to the query as given
    (`HAVING COUNT(metadata) = len(metadata_all)`), a tag listed twice makes the sqlite back-end miss an
    entry the map (and the in-memory back-end) returns. -/
theorem C14_meta_all_raw_differs : ¬ C14_sql_refines_old_Statement := by
  intro h
  have := h env0 witnessMetaAll
  have e1 : (runHist (nsStep sqlStoreOld env0) witnessMetaAll sqlInit).1 = [.none, .listing []] := by decide
  have e2 : (runHist (specStep env0) witnessMetaAll []).1 = [.none, .listing [⟨[120], uri0, []⟩]] := by decide
  rw [e1, e2] at this
  have := equiv_listing_length this.2.1
  simp at this

/-! ### obligations about facts obtained from the current source (PyroModel/Gen/C14.lean)

  The facts are *probed*, not read off the syntax: the extractor calls the real `SqlStorage` methods on a fixed
  table of inputs against a tracing sqlite3 connection and records what was executed.  Here the same calls are
  made on the model and the statement traces are compared.  How the source spells the calls (helpers, local
  names, where a text constant lives) does not matter; what is executed does. -/

def removeBy {α : Type} (eq : α → α → Bool) (a : α) : List α → Option (List α)
  | [] => none
  | b :: l => if eq a b then some l else (removeBy eq a l).map (b :: ·)

/-- same members with the same multiplicities, members compared by `eq` -/
def permBy {α : Type} (eq : α → α → Bool) : List α → List α → Bool
  | [], l => l.isEmpty
  | a :: as, l =>
    match removeBy eq a l with
    | some l' => permBy eq as l'
    | none => false

def argOf : Nat ⊕ List Nat → Arg
  | .inl n => .int n
  | .inr s => .str s

def decodeCall : String → List Str → Bool → Bool → Option Call
  | "getItem", [n], _, _ => some (.getItem n)
  | "setItem", n :: u :: t, _, _ => some (.setItem n u t)
  | "len", [], _, _ => some .len
  | "contains", [n], _, _ => some (.contains n)
  | "delItem", [n], _, _ => some (.delItem n)
  | "iter", [], _, _ => some .iter
  | "optPrefix", [p], wm, _ => some (.optPrefix p wm)
  | "optRegex", [r], wm, _ => some (.optRegex r wm)
  | "optMeta", ts, wm, all => some (.optMeta all ts wm)
  | "removeItems", l, _, _ => some (.removeItems l)
  | "everything", [], wm, _ => some (.everything wm)
  | _, _, _, _ => none

/-- one connection per call, used as a context manager; the statements in between -/
def expectedEvents (t : List (Stmt × List Arg)) : List (String × List Arg) :=
  ("CONNECT", []) :: t.map (fun x => (x.1.text, x.2)) ++ [("EXIT", [])]

/-- Texts agree in order; (text, parameters) agree as multisets with each parameter tuple compared as a
    multiset — the order in which Python iterates a `set` of tags is not fixed. -/
def eventsAgree (model : List (String × List Arg)) (real : List (String × List Arg)) : Bool :=
  model.map (·.1) == real.map (·.1) &&
  permBy (fun a b => a.1 == b.1 && permBy (· == ·) a.2 b.2) model real

/-- replay the recorded calls on the model, threading the tables -/
def probesOK : List (String × List (List Nat) × Bool × Bool × Option (List (String × List (Nat ⊕ List Nat)))) → Db → Bool
  | [], _ => true
  | (kind, strs, wm, all, real) :: rest, db =>
    match decodeCall kind strs wm all with
    | none => false
    | some c =>
      (match (c.probe db).1, real with
       | none, none => true
       | some t, some r => eventsAgree (expectedEvents t) (r.map fun e => (e.1, e.2.map argOf))
       | _, _ => false) && probesOK rest (c.probe db).2

/-- **Statements really executed = statements of the model.**  For every probed call of every `SqlStorage`
    method `NameServer` uses (each branch of each method taken), the real code opened exactly one connection,
    used it as a context manager, and executed exactly the model's statements for that call on the model's
    tables: same SQL text in the same order, same parameter values (in particular `(len(prefix), prefix)` for
    the literal prefix query, the *distinct* tags followed by their number for `metadata_all`, row ids
    allocated as largest+1), explicit commits in the same places; `optimized_regex_list` touches no connection. -/
theorem C14_gen_sql : probesOK Pyro.Gen.C14.probes Db.empty = true := by decide

set_option maxRecDepth 10000 in
/-- the probe table exercises every statement of the model at least once -/
theorem C14_gen_cover :
    allStmts.all (fun st => Pyro.Gen.C14.probes.any fun p =>
      match p.2.2.2.2 with
      | some ev => ev.any (fun e => e.1 == st.text)
      | none => false) = true := by decide

/-- SQL texts that occur in nameserver.py outside the modelled methods (`__init__`, `_create_schema`, `clear`) -/
def otherTexts : List String :=
  ["ALTER TABLE pyro_names RENAME TO pyro_names_old",
   "CREATE TABLE pyro_metadata ( object integer NOT NULL, metadata nvarchar NOT NULL, FOREIGN KEY(object) REFERENCES pyro_names(id) );",
   "CREATE TABLE pyro_names ( id integer PRIMARY KEY, name nvarchar NOT NULL UNIQUE, uri nvarchar NOT NULL );",
   "DELETE FROM pyro_metadata", "DELETE FROM pyro_names", "DROP TABLE pyro_names_old",
   "INSERT INTO pyro_names(name, uri) SELECT name, uri FROM pyro_names_old",
   "SELECT COUNT(*) FROM pyro_metadata", "SELECT COUNT(*) FROM pyro_names", "VACUUM"]

set_option maxRecDepth 10000 in
/-- (lexical) The SQL texts occurring as string constants anywhere in the module are, as a set, the model's
    statement texts plus the ten of schema creation / migration / `clear`: no other SQL exists that a path
    not taken by the probes could execute. -/
theorem C14_gen_texts :
    Pyro.Gen.C14.sqlTexts.all (fun t => (allStmts.map Stmt.text ++ otherTexts).contains t) = true ∧
    ((allStmts.filter (· != .commit)).map Stmt.text ++ otherTexts).all (fun t => Pyro.Gen.C14.sqlTexts.contains t) = true := by
  decide

set_option maxRecDepth 10000 in
/-- The schema sqlite reports for a database created by `SqlStorage` is the one the model's constraints stand
    for (integer primary key, UNIQUE name, FOREIGN KEY object → id); reopening an existing database executes
    only the pragma, the two existence probes and a commit, and leaves the rows as they were. -/
theorem C14_gen_schema :
    Pyro.Gen.C14.schema =
      ["CREATE TABLE pyro_metadata ( object integer NOT NULL, metadata nvarchar NOT NULL, FOREIGN KEY(object) REFERENCES pyro_names(id) )",
       "CREATE TABLE pyro_names ( id integer PRIMARY KEY, name nvarchar NOT NULL UNIQUE, uri nvarchar NOT NULL )"] ∧
    Pyro.Gen.C14.reopenTrace = ["CONNECT", "PRAGMA foreign_keys=ON", "SELECT COUNT(*) FROM pyro_names",
      "SELECT COUNT(*) FROM pyro_metadata", "COMMIT", "EXIT"] ∧
    Pyro.Gen.C14.reopenKeepsRows = true := by
  decide

/-- `core.NAMESERVER_NAME` is the name the model protects. -/
theorem C14_gen_nsname : Pyro.Gen.C14.nsName = nsName := by decide

/-! ### non-vacuity -/

def uriNS : Str := [80, 89, 82, 79, 58, 110, 115, 64, 104, 58, 57]

/-- a history with a protected entry, confusable names, duplicate tags, a prefix removal and a reopen -/
def demo : List Cmd :=
  [.op (.register nsName uriNS false (.list [[99]])), .op (.register [97, 95] uri0 true (.list [[116], [116], [117]])),
   .op (.register [97, 98] uri0 false .none), .op (.register [65, 66] uri0 false (.list [[116]])), .reopen,
   .op (.yplookup (.list [[116], [116]]) .none false), .op (.list (some [97, 95]) none true),
   .op (.remove none (some [97]) none), .op .count, .reopen, .op (.remove (some nsName) (some [80]) none), .op .count]

example : (sqlRun env0 demo sqlInit).1 =
    [.none, .none, .none, .none,
     .listing [⟨[97, 95], uri0, []⟩, ⟨[65, 66], uri0, []⟩],
     .listing [⟨[97, 95], uri0, [[116], [117]]⟩],
     .num 2, .num 2, .num 0, .num 2] := by decide

example : (runHist (nsStep memStore env0) (opsOf demo) []).1 = (sqlRun env0 demo sqlInit).1 := by decide

-- a failure at the 5th statement (index 4: the INSERT into pyro_names) of a re-registration: storage error, tables unchanged
example :
    let s := (sqlRun env0 [.op (.register [97] uri0 false (.list [[116]]))] sqlInit).2
    let out := nsStep sqlStore env0 (.register [97] uriNS false (.list [[117], [118]])) ⟨s.db, some 4⟩
    out.1 = .err .storage ∧ out.2.db = s.db := by decide

-- the same operation with the failure scheduled beyond its last statement runs through
example :
    let s := (sqlRun env0 [.op (.register [97] uri0 false (.list [[116]]))] sqlInit).2
    let out := nsStep sqlStore env0 (.register [97] uriNS false (.list [[117], [118]])) ⟨s.db, some 8⟩
    out.1 = .none ∧ out.2.db.abs = [⟨[97], uriNS, [[117], [118]]⟩] ∧ out.2.fuel = some 0 := by decide

example : SqlInv (sqlRun env0 demo sqlInit).2.db ∧ (sqlRun env0 demo sqlInit).2.db.abs.length = 2 := by
  refine ⟨⟨by decide, by decide⟩, by decide⟩

end Pyro.C14
