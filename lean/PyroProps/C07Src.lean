/-
C07 — the transcriptions of the source (PyroModel/Gen/C07Src.lean, regenerated on every run by
harness/props/c07_tr.py) compute exactly what the hand-written model functions compute, for all inputs; and the
content statements of the property restated about the transcriptions.
-/
import PyroProofs.Exceptions
import PyroModel.Gen.C07Src

namespace Pyro.C07

open Pyro.Exceptions
open Pyro.Gen.C07Src

/-- the attribute the sender's conversion resets (`if hasattr(obj, "_pyroDaemon"): obj._pyroDaemon = None`) -/
def kPyroDaemon : Str := cs "_pyroDaemon"

theorem foldl_setattr (kv : Dict) (e : Exc) :
    kv.foldl (fun acc p => Src.setattr acc p.1 p.2) e = { e with attrs := setAttrs e.attrs kv } := by
  induction kv generalizing e with
  | nil => rfl
  | cons p rest ih =>
    obtain ⟨k, v⟩ := p
    simp only [List.foldl_cons, setAttrs]
    rw [ih]
    rfl

/-- **`make_exception` as written in the source = the model's `makeException`**, for every class name and every data
    dict (missing `args`, args that are no sequence, a constructor that raises or answers with another class,
    missing / non-dict `attributes` included). -/
theorem C07_make_exception_translated (K : ClientEnv) (q : Str) (data : Dict) :
    makeExceptionSrc K q (.dict data) = makeException K q data := by
  have hk1 : cs "args" = kArgs := by decide
  have hk2 : cs "attributes" = kAttributes := by decide
  unfold makeExceptionSrc makeException
  simp only [hk1, hk2, Src.getitem, Src.contains]
  cases h1 : lookup kArgs data with
  | none => rfl
  | some a =>
    cases a with
    | list xs =>
      cases h3 : K.ctor q xs with
      | error x => simp [Src.construct, h3, bind, Except.bind]
      | ok p =>
        obtain ⟨q', args'⟩ := p
        cases h2 : lookup kAttributes data with
        | none => simp [Src.construct, h3, bind, Except.bind, pure, Except.pure]
        | some at' =>
          cases at' <;>
            simp [Src.construct, h3, Src.items, foldl_setattr, bind, Except.bind, pure, Except.pure]
    | tuple xs =>
      cases h3 : K.ctor q xs with
      | error x => simp [Src.construct, h3, bind, Except.bind]
      | ok p =>
        obtain ⟨q', args'⟩ := p
        cases h2 : lookup kAttributes data with
        | none => simp [Src.construct, h3, bind, Except.bind, pure, Except.pure]
        | some at' =>
          cases at' <;>
            simp [Src.construct, h3, Src.items, foldl_setattr, bind, Except.bind, pure, Except.pure]
    | _ => simp [Src.construct, bind, Except.bind]

/-- **the exception branch of `class_to_dict` as written in the source = the model's `excToDict`**, for every exception
    the application registered no converter for and that carries no `_pyroDaemon` attribute. -/
theorem C07_class_to_dict_translated (reg : Str → Bool) (e : Exc) (hreg : reg e.cls = false)
    (hd : lookup kPyroDaemon e.attrs = none) :
    classToDictSrc reg e = .ok (excToDict e) := by
  have hk : cs "_pyroDaemon" = kPyroDaemon := rfl
  have h1 : cs "__class__" = kClass := by decide
  have h2 : cs "__exception__" = kException := by decide
  have h3 : cs "args" = kArgs := by decide
  have h4 : cs "attributes" = kAttributes := by decide
  simp [classToDictSrc, Src.qualname, Src.hasattr, Src.argsOf, Src.varsOf, hreg, hk, hd, h1, h2, h3, h4, excToDict,
    pure, Except.pure]

/-- the branch of `class_to_dict` the hand model does not have: an exception that carries a `_pyroDaemon` attribute is
    sent with that attribute reset to `None` (everything else as `excToDict`). -/
theorem C07_class_to_dict_daemon_attr (reg : Str → Bool) (e : Exc) (hreg : reg e.cls = false) (v : Val)
    (hd : lookup kPyroDaemon e.attrs = some v) :
    classToDictSrc reg e = .ok (excToDict { e with attrs := setKey kPyroDaemon .none e.attrs }) := by
  have hk : cs "_pyroDaemon" = kPyroDaemon := rfl
  have h1 : cs "__class__" = kClass := by decide
  have h2 : cs "__exception__" = kException := by decide
  have h3 : cs "args" = kArgs := by decide
  have h4 : cs "attributes" = kAttributes := by decide
  simp [classToDictSrc, Src.qualname, Src.hasattr, Src.argsOf, Src.varsOf, Src.setattr, hreg, hk, hd, h1, h2, h3, h4,
    excToDict, pure, Except.pure]

/-- an application converter registered for the class: the source hands the object to it — outside the model, never
    silently the built-in dict. -/
theorem C07_class_to_dict_registered (reg : Str → Bool) (e : Exc) (hreg : reg e.cls = true) :
    classToDictSrc reg e = .error .unmodelled := by
  simp [classToDictSrc, Src.qualname, hreg, bind, Except.bind, throw, throwThe, MonadExceptOf.throw]

/-- **`_ExceptionWrapper.__serialized_dict__` as written = `wrapperToDict`** -/
theorem C07_wrapper_to_dict_translated (reg : Str → Bool) (e : Exc) (hreg : reg e.cls = false)
    (hd : lookup kPyroDaemon e.attrs = none) :
    wrapperToDictSrc reg e = .ok (wrapperToDict e) := by
  have h1 : cs "__class__" = kClass := by decide
  have h2 : cs "exception" = kWrapped := by decide
  have h3 : cs "Pyro5.core._ExceptionWrapper" = wrapperTag := rfl
  simp [wrapperToDictSrc, C07_class_to_dict_translated reg e hreg hd, wrapperToDict, h1, h2, h3, pure, Except.pure, bind,
    Except.bind]

/-- **`_ExceptionWrapper.raiseIt` as written raises exactly the wrapped exception** (never returns) -/
theorem C07_raiseIt_translated (e : Exc) : raiseItSrc e = .error e := rfl

/-- `raiseIt` is what the model's batch result generator does with a wrapper: the outcome of `batchResults` on a
    wrapper at the head is the exception the transcription raises (StopIteration aside, PEP 479). -/
theorem C07_source_raiseIt_batch (K : ClientEnv) (e : Exc) (rest : List PyObj) (hs : (K.info e.cls).isStopIter = false) :
    ∃ x, raiseItSrc e = .error x ∧ (batchResults K (.wrapper e :: rest)).outcome = .raised x := by
  refine ⟨e, rfl, ?_⟩
  simp [batchResults, hs]

/-- **content of the round trip, stated about the source's own functions**: what the transcribed `class_to_dict`
    builds for `e`, after the library turned the argument tuple into `A` (a list or still a tuple), is rebuilt by the
    transcribed `make_exception` into exactly `e` — same class, equal args, equal attributes — whenever the receiver's
    constructor is lawful on these arguments. -/
theorem C07_source_roundtrip_content (K : ClientEnv) (reg : Str → Bool) (e : Exc) (A : Val)
    (hreg : reg e.cls = false) (hd : lookup kPyroDaemon e.attrs = none)
    (hA : A = .list e.args ∨ A = .tuple e.args) (hctor : K.ctor e.cls e.args = .ok (e.cls, e.args))
    (hnd : (keys e.attrs).Nodup) :
    classToDictSrc reg e = .ok (excToDict e) ∧
    makeExceptionSrc K e.cls (.dict (arrivedDict e.cls A e.attrs)) = .ok (.exc e) := by
  refine ⟨C07_class_to_dict_translated reg e hreg hd, ?_⟩
  rw [C07_make_exception_translated]
  exact makeException_arrived K e.cls e.cls A e.args e.attrs hA hctor hnd

/-- "exactly that exception", converse direction: whatever the transcribed `make_exception` returns is an exception
    object (never data, never a wrapper) whose class and args are what the constructor answered. -/
theorem C07_source_make_exception_only_exc (K : ClientEnv) (q : Str) (data : Dict) (o : PyObj)
    (h : makeExceptionSrc K q (.dict data) = .ok o) :
    ∃ xs q' args' attrs, (lookup kArgs data = some (.list xs) ∨ lookup kArgs data = some (.tuple xs)) ∧
      K.ctor q xs = .ok (q', args') ∧ o = .exc ⟨q', args', attrs⟩ := by
  rw [C07_make_exception_translated] at h
  unfold makeException at h
  cases h1 : lookup kArgs data with
  | none => simp [h1] at h
  | some a =>
    cases a <;> simp [h1] at h
    all_goals
      rename_i xs
      cases h2 : K.ctor q xs with
      | error x => simp [h2] at h
      | ok p =>
        obtain ⟨q', args'⟩ := p
        simp [h2] at h
        split at h <;> try (simp at h)
        all_goals first
          | exact ⟨xs, q', args', _, Or.inl rfl, h2, h.symm⟩
          | exact ⟨xs, q', args', _, Or.inr rfl, h2, h.symm⟩

/-- non-vacuity: a ValueError with two arguments and one attribute goes through both transcriptions -/
example :
    let e : Exc := ⟨cs "builtins.ValueError", [.int 3, .str (cs "bad")], [(cs "detail", .list [.int 1])]⟩
    let K : ClientEnv := ⟨⟨[], [], [], [], []⟩, fun q xs => .ok (q, xs), fun _ => defaultFlags⟩
    classToDictSrc (fun _ => false) e = .ok (excToDict e) ∧
    makeExceptionSrc K e.cls (.dict (arrivedDict e.cls (.list e.args) e.attrs)) = .ok (.exc e) := by
  intro e K
  exact ⟨rfl, rfl⟩

end Pyro.C07
