/-
  C15 — Name server operations are atomic under concurrent clients.
  The name server operations (PyroModel/NsOps.lean) instantiate the generic atomicity theorem
  (PyroProofs/Lock.lean).  The premise — every access of `self.storage` in every NameServer method is
  inside `with self.lock:` — is `C15_source_every_access_locked`, over the lock skeletons (PyroModel/LockSkeleton.lean)
  that the extractor regenerates from nameserver.py on every run.
-/
import PyroModel.NsOps
import PyroProofs.Lock
import PyroModel.Gen.C15
import PyroModel.LockRelease

namespace Pyro.C15

open Pyro Pyro.Lock Pyro.NsOps

/-- **C15_gen_locked.**  The lock skeleton of every public method of `NameServer`, extracted from the current source on every
    run (calls of the class's own helpers inlined; a storage access inside a lambda / generator that is not consumed on the
    spot counts as unlocked), passes the check `allLocked`; the methods the model covers all exist; the lock is re-entrant
    (`remove` calls `list` while holding it). -/
theorem C15_gen_locked :
    (∀ p ∈ Pyro.Gen.C15.nsSkeletons, Pyro.LockSkeleton.allLocked p.2 0 = true) ∧
    (∀ n ∈ ["count", "lookup", "register", "set_metadata", "remove", "list", "yplookup"],
        n ∈ Pyro.Gen.C15.nsSkeletons.map (·.1)) ∧
    Pyro.Gen.C15.lockKind = "RLock" := by decide

/-- **C15_source_every_access_locked.**  Hence, in the source as it is written now: in every possible execution of every
    public NameServer method (any branch taken, any number of loop rounds, cut short anywhere by an exception) every use of
    `self.storage` happens while `self.lock` is held.  This is the premise under which the operations of NsOps are
    atomic steps (`C15_linearizable`). -/
theorem C15_source_every_access_locked (p : String × Pyro.LockSkeleton.Sk) (hp : p ∈ Pyro.Gen.C15.nsSkeletons)
    (t : Pyro.LockSkeleton.Trace) (ht : Pyro.LockSkeleton.Exec p.2 0 t) : ∀ e ∈ t, 0 < e :=
  Pyro.LockSkeleton.allLocked_sound ht (C15_gen_locked.1 p hp)

/-- **C15_gen_released.**  The release skeleton of every public method of `NameServer` (extracted on every run: acquire /
    release of `self.lock`, every point where an exception may leave, every `return`, the try / finally / except structure,
    context-manager helpers of the class inlined at their `yield`) passes the check `releasedOnAllPaths`. -/
theorem C15_gen_released :
    (∀ p ∈ Pyro.Gen.C15.nsRelease, Pyro.LockRelease.releasedOnAllPaths p.2 = true) ∧
    (∀ n ∈ ["count", "lookup", "register", "set_metadata", "remove", "list", "yplookup"],
        n ∈ Pyro.Gen.C15.nsRelease.map (·.1)) := by decide

/-- **C15_source_lock_released_on_all_paths.**  Hence, in the source as it is written now: every possible execution of every
    public NameServer method — whichever branch it takes, however many loop rounds, whether it ends normally, by `return` or by
    an exception raised at any point — leaves `self.lock` at the depth it found it: every acquire is released on every path.
    With the re-entrant lock and `C15_source_every_access_locked` this is the deadlock-freedom half of the lock discipline:
    no operation can leave the lock held and block every later client (the waiting threads of `Lock.step` always get their
    turn once the holder's finitely many steps are done). -/
theorem C15_source_lock_released_on_all_paths (p : String × Pyro.LockRelease.Rk) (hp : p ∈ Pyro.Gen.C15.nsRelease)
    (d : Nat) (o : Pyro.LockRelease.Outcome) (d' : Nat) (h : Pyro.LockRelease.Exec p.2 d o d') : d' = d :=
  Pyro.LockRelease.released_sound h (C15_gen_released.1 p hp)

/-- **C15_linearizable.**  For every initial map, every multiset of concurrent calls and every
    schedule (any number of clients, any length, any preemption pattern): the completed calls took
    effect one at a time in lock-release order — the logged results are exactly the results of
    executing the logged calls sequentially in that order, and when no call is in progress the
    map is exactly the result of that sequential execution.  An operation's log entry is appended
    by its own release step, which lies between its call and its return, so the order respects
    real time. -/
theorem C15_linearizable (s0 : Store) (calls : List Call) (schedule : List Nat) :
    let c := run (Config.init s0 (calls.map toOp)) schedule
    Inv s0 c ∧ Book (calls.map toOp) c :=
  ⟨atomic s0 _ schedule, book s0 _ schedule⟩

/-- Every completed call (a thread that returned `r`) sits at some position of the release-order
    log, and `r` is what sequential execution of the log returns at that position: lookups, lists and
    counts are explained by a sequential order of the completed operations. -/
theorem C15_results_explained (s0 : Store) (calls : List Call) (schedule : List Nat) (t : Nat) (r : Res)
    (hdone : (run (Config.init s0 (calls.map toOp)) schedule).threads[t]? = some (TState.done r)) :
    let c := run (Config.init s0 (calls.map toOp)) schedule
    ∃ (i : Nat) (op : Op Store Local Res), c.log[i]? = some (t, op, r) ∧ (calls.map toOp)[t]? = some op ∧
      (seqRun (c.log.map (·.2.1)) s0).2[i]? = some r := by
  intro c
  have hb := book s0 (calls.map toOp) schedule
  have hi := atomic s0 (calls.map toOp) schedule
  obtain ⟨op, hm⟩ := hb.done_logged t r hdone
  obtain ⟨i, hi1, hi2⟩ := List.getElem_of_mem hm
  refine ⟨i, op, ?_, (hb.logged _ hm).1, ?_⟩
  · rw [List.getElem?_eq_getElem hi1, hi2]
  · rw [← hi.results, List.getElem?_map, List.getElem?_eq_getElem hi1, hi2]; rfl

/-! ### safe registration: exactly one of any number of concurrent safe registrations succeeds -/

theorem has_set (s : Store) (n : Name) (v : Nat × List Nat) : (Store.set s n v).has n = true := by
  induction s with
  | nil => simp [Store.set, Store.has]
  | cons e r ih =>
    obtain ⟨k, w⟩ := e
    simp only [Store.set]
    by_cases h : k = n
    · rw [if_pos h]; simp [Store.has]
    · rw [if_neg h]; simp only [Store.has, List.any_cons] at ih ⊢; rw [ih]; simp

theorem apply_regsafe (n : Name) (u : Nat) (t : List Nat) (s : Store) :
    apply (.register n u true t) s =
      if s.has n then (s, .namingError) else (Store.set s n (u, t), .none) := by
  simp only [apply, toOp, Op.run, runSteps, body, List.foldl_cons, List.foldl_nil, Bool.true_and]
  cases h : s.has n <;> simp

/-- Sequentially, a run of safe registrations of one name: all fail once the name is present. -/
theorem seq_regsafe_present (n : Name) (calls : List Call)
    (hall : ∀ c ∈ calls, ∃ u t, c = .register n u true t) (s : Store) (hs : s.has n = true) :
    (seqRun (calls.map toOp) s).2 = calls.map (fun _ => Res.namingError) ∧
    (seqRun (calls.map toOp) s).1 = s := by
  induction calls generalizing s with
  | nil => simp [seqRun]
  | cons c cs ih =>
    obtain ⟨u, t, rfl⟩ := hall _ List.mem_cons_self
    have ha : (toOp (.register n u true t)).run s = (s, .namingError) := by
      have := apply_regsafe n u t s; rw [hs] at this; simpa [apply] using this
    simp only [List.map_cons, seqRun, ha]
    obtain ⟨h1, h2⟩ := ih (fun c hc => hall c (List.mem_cons_of_mem _ hc)) s hs
    rw [h1, h2]; exact ⟨rfl, rfl⟩

/-- results of a sequential run of safe registrations of a fresh name: the first succeeds -/
def regPattern : List Call → List Res
  | [] => []
  | _ :: cs => Res.none :: cs.map (fun _ => Res.namingError)

theorem seq_regsafe_absent (n : Name) (calls : List Call)
    (hall : ∀ c ∈ calls, ∃ u t, c = .register n u true t) (s : Store) (hs : s.has n = false) :
    (seqRun (calls.map toOp) s).2 = regPattern calls := by
  cases calls with
  | nil => simp [seqRun, regPattern]
  | cons c cs =>
    obtain ⟨u, t, rfl⟩ := hall _ List.mem_cons_self
    have ha : (toOp (.register n u true t)).run s = (Store.set s n (u, t), .none) := by
      have := apply_regsafe n u t s; rw [hs] at this; simpa [apply] using this
    simp only [List.map_cons, seqRun, ha, regPattern]
    obtain ⟨h1, _⟩ := seq_regsafe_present n cs (fun c hc => hall c (List.mem_cons_of_mem _ hc))
      (Store.set s n (u, t)) (has_set s n (u, t))
    rw [h1]

/-- **C15_safe_register_once.**  Any number of clients concurrently registering the same, not yet
    registered name with `safe=True`, under any schedule: at most one of the calls that have
    returned returned success, every other one got the naming error — and the first to release the
    lock is the one that succeeded. -/
theorem C15_safe_register_once (s0 : Store) (n : Name) (calls : List Call) (schedule : List Nat)
    (hall : ∀ c ∈ calls, ∃ u t, c = .register n u true t) (hs : s0.has n = false) :
    let c := run (Config.init s0 (calls.map toOp)) schedule
    (∀ (t : Nat) (r : Res), c.threads[t]? = some (TState.done r) → r = Res.none ∨ r = Res.namingError) ∧
    (∀ (t t' : Nat), c.threads[t]? = some (TState.done Res.none) → c.threads[t']? = some (TState.done Res.none) → t = t') ∧
    (∀ e, c.log[0]? = some e → e.2.2 = Res.none) := by
  intro c
  have hb := book s0 (calls.map toOp) schedule
  have hi := atomic s0 (calls.map toOp) schedule
  -- the logged operations are again safe registrations of n
  have hlogcalls : ∃ lc : List Call, c.log.map (·.2.1) = lc.map toOp ∧
      ∀ x ∈ lc, ∃ u t, x = .register n u true t := by
    have : ∀ (lg : List (Nat × Op Store Local Res × Res)),
        (∀ e ∈ lg, (calls.map toOp)[e.1]? = some e.2.1) →
        ∃ lc : List Call, lg.map (·.2.1) = lc.map toOp ∧ ∀ x ∈ lc, ∃ u t, x = .register n u true t := by
      intro lg
      induction lg with
      | nil => intro _; exact ⟨[], rfl, by simp⟩
      | cons e es ih =>
        intro hl
        obtain ⟨lc, h1, h2⟩ := ih (fun e' he' => hl e' (List.mem_cons_of_mem _ he'))
        have he := hl e List.mem_cons_self
        rw [List.getElem?_map] at he
        cases hc : calls[e.1]? with
        | none => rw [hc] at he; cases he
        | some cl =>
          rw [hc] at he
          simp only [Option.map_some, Option.some.injEq] at he
          have hmem : cl ∈ calls := List.mem_of_getElem? hc
          refine ⟨cl :: lc, by simp [h1, he], ?_⟩
          intro x hx
          simp only [List.mem_cons] at hx
          rcases hx with rfl | hx
          · exact hall _ hmem
          · exact h2 x hx
    exact this c.log (fun e he => (hb.logged e he).1)
  obtain ⟨lc, hlc1, hlc2⟩ := hlogcalls
  have hres : c.log.map (·.2.2) = regPattern lc := by
    rw [hi.results, hlc1]; exact seq_regsafe_absent n lc hlc2 s0 hs
  -- position-wise reading of the results
  have hpos : ∀ i e, c.log[i]? = some e → (i = 0 ∧ e.2.2 = .none) ∨ (0 < i ∧ e.2.2 = .namingError) := by
    intro i e he
    have h1 : (c.log.map (·.2.2))[i]? = some e.2.2 := by rw [List.getElem?_map, he]; rfl
    rw [hres] at h1
    cases lc with
    | nil => simp [regPattern] at h1
    | cons x xs =>
      simp only [regPattern] at h1
      cases i with
      | zero => simp at h1; exact Or.inl ⟨rfl, h1.symm⟩
      | succ j =>
        simp only [List.getElem?_cons_succ, List.getElem?_map] at h1
        cases hx : xs[j]? with
        | none => rw [hx] at h1; cases h1
        | some _ => rw [hx] at h1; simp at h1; exact Or.inr ⟨Nat.succ_pos _, h1.symm⟩
  refine ⟨?_, ?_, ?_⟩
  · intro t r hd
    obtain ⟨op, hm⟩ := hb.done_logged t r hd
    obtain ⟨i, hi1, hi2⟩ := List.getElem_of_mem hm
    have := hpos i _ (by rw [List.getElem?_eq_getElem hi1, hi2])
    rcases this with ⟨_, h⟩ | ⟨_, h⟩
    · exact Or.inl h
    · exact Or.inr h
  · intro t t' hd hd'
    obtain ⟨op, hm⟩ := hb.done_logged t _ hd
    obtain ⟨op', hm'⟩ := hb.done_logged t' _ hd'
    obtain ⟨i, hi1, hi2⟩ := List.getElem_of_mem hm
    obtain ⟨j, hj1, hj2⟩ := List.getElem_of_mem hm'
    have hi0 : i = 0 := by
      rcases hpos i _ (by rw [List.getElem?_eq_getElem hi1, hi2]) with ⟨h, _⟩ | ⟨_, h⟩
      · exact h
      · cases h
    have hj0 : j = 0 := by
      rcases hpos j _ (by rw [List.getElem?_eq_getElem hj1, hj2]) with ⟨h, _⟩ | ⟨_, h⟩
      · exact h
      · cases h
    subst hi0; subst hj0
    rw [hi2] at hj2
    exact (Prod.mk.inj hj2).1
  · intro e he
    rcases hpos 0 e he with ⟨_, h⟩ | ⟨h, _⟩
    · exact h
    · omega

/-! ### removal by name: concurrent removals of one name report exactly one removed entry in total -/

theorem has_del (s : Store) (n : Name) : (Store.del s n).has n = false := by
  simp [Store.del, Store.has, List.any_filter]

theorem apply_remove (n : Name) (s : Store) (hne : n.isEmpty = false) (hns : (n != nsName) = true) :
    apply (.remove n) s = if s.has n then (Store.del s n, .removed 1) else (s, .removed 0) := by
  simp only [apply, toOp, Op.run, runSteps, body, List.foldl_cons, List.foldl_nil, hne, hns,
    Bool.not_false, Bool.true_and, Bool.and_true]
  cases h : s.has n <;> simp

theorem seq_remove_absent (n : Name) (k : Nat) (s : Store) (hne : n.isEmpty = false)
    (hns : (n != nsName) = true) (hs : s.has n = false) :
    (seqRun ((List.replicate k (Call.remove n)).map toOp) s).2 = List.replicate k (Res.removed 0) := by
  induction k with
  | zero => simp [seqRun]
  | succ k ih =>
    have ha : (toOp (.remove n)).run s = (s, .removed 0) := by
      have := apply_remove n s hne hns; rw [hs] at this; simpa [apply] using this
    simp only [List.replicate_succ, List.map_cons, seqRun, ha, ih]

/-- **C15_remove_once (sequential core).**  `k+1` removals of a registered name, in any order of
    execution, report `[1, 0, 0, …]`: a total of exactly one removed entry and never an error. -/
theorem seq_remove_present (n : Name) (k : Nat) (s : Store) (hne : n.isEmpty = false)
    (hns : (n != nsName) = true) (hs : s.has n = true) :
    (seqRun ((List.replicate (k + 1) (Call.remove n)).map toOp) s).2
      = Res.removed 1 :: List.replicate k (Res.removed 0) := by
  have ha : (toOp (.remove n)).run s = (Store.del s n, .removed 1) := by
    have := apply_remove n s hne hns; rw [hs] at this; simpa [apply] using this
  simp only [List.replicate_succ, List.map_cons, seqRun, ha]
  rw [seq_remove_absent n k _ hne hns (has_del s n)]

/-- **C15_remove_once.**  Concurrent `remove(name)` calls of one registered name under any
    schedule: the results of the calls completed so far, in release order, are `1, 0, 0, …` — the
    total number of reported removals never exceeds one, it is exactly one as soon as any call has
    completed, and no call fails. -/
theorem C15_remove_once (s0 : Store) (n : Name) (k : Nat) (schedule : List Nat)
    (hne : n.isEmpty = false) (hns : (n != nsName) = true) (hs : s0.has n = true) :
    let c := run (Config.init s0 ((List.replicate k (Call.remove n)).map toOp)) schedule
    c.log.map (·.2.2) = match c.log.length with
      | 0 => []
      | j + 1 => Res.removed 1 :: List.replicate j (Res.removed 0) := by
  intro c
  have hb := book s0 ((List.replicate k (Call.remove n)).map toOp) schedule
  have hi := atomic s0 ((List.replicate k (Call.remove n)).map toOp) schedule
  have hops : c.log.map (·.2.1) = (List.replicate c.log.length (Call.remove n)).map toOp := by
    apply List.ext_getElem
    · simp
    · intro i h1 h2
      simp only [List.getElem_map, List.getElem_replicate]
      have hm : c.log[i]'(by simpa using h1) ∈ c.log := List.getElem_mem _
      have := (hb.logged _ hm).1
      rw [List.getElem?_map] at this
      cases hc : (List.replicate k (Call.remove n))[(c.log[i]'(by simpa using h1)).1]? with
      | none => rw [hc] at this; cases this
      | some cl =>
        rw [hc] at this
        have hcl : cl = Call.remove n := by
          have := List.mem_of_getElem? hc
          exact (List.mem_replicate.mp this).2
        simp only [Option.map_some, Option.some.injEq] at this
        rw [← this, hcl]
  rw [hi.results, hops]
  cases hlen : c.log.length with
  | zero => simp [seqRun]
  | succ j => exact seq_remove_present n j s0 hne hns hs

/-- **an operation that fails has no effect**: whichever call answers with a naming error leaves the map exactly as it was
    (all-or-nothing; the harness checks this on both storage back-ends, including registrations the storage refuses half way) -/
theorem C15_failed_no_effect (c : Call) (s : Store) (h : (apply c s).2 = .namingError) : (apply c s).1 = s := by
  cases c with
  | register n u safe tags =>
    simp only [apply, toOp, Op.run, runSteps, body, List.foldl] at h ⊢
    by_cases hf : (safe && s.has n) = true
    · simp [hf]
    · simp [hf] at h
  | setMeta n tags =>
    simp only [apply, toOp, Op.run, runSteps, body, List.foldl] at h ⊢
    cases hg : s.get n with
    | none => simp [hg]
    | some v => obtain ⟨u, t⟩ := v; simp [hg] at h
  | remove n =>
    simp only [apply, toOp, Op.run, runSteps, body, List.foldl] at h ⊢
    by_cases hf : (!n.isEmpty && s.has n && n != nsName) = true
    · simp [hf] at h
    · simp [hf] at h
  | removePrefix p =>
    simp only [apply, toOp, Op.run, runSteps, body] at h ⊢
    by_cases hp : p.isEmpty = true
    · simp [hp, List.foldl] at h
    · simp [hp, List.foldl, listStep] at h
  | lookup n =>
    simp only [apply, toOp, Op.run, runSteps, body, List.foldl] at h ⊢
    cases hg : s.get n with
    | none => simp [hg]
    | some v => obtain ⟨u, t⟩ := v; simp [hg]
  | count => simp [apply, toOp, Op.run, runSteps, body, List.foldl]
  | list p => simp [apply, toOp, Op.run, runSteps, body, List.foldl, listStep]

/-! ### non-vacuity -/

private def sA : Store := [([97], 1, []), ([98], 2, [7])]
example : sA.has [99] = false ∧ sA.has [97] = true ∧ ([97] != nsName) = true := by decide
-- two racing safe registrations, schedule 0,1,0,0,1,1,0,1: thread 0 wins, thread 1 gets the naming error
example : ((run (Config.init sA ([Call.register [99] 5 true [], Call.register [99] 6 true []].map toOp))
    [0, 1, 0, 0, 0, 1, 1, 1, 1]).log.map (·.2.2)) = [Res.none, Res.namingError] := by decide
example : ((run (Config.init sA ([Call.remove [97], Call.remove [97], Call.lookup [97]].map toOp))
    [1, 1, 0, 2, 1, 1, 0, 0, 0, 0, 2, 2, 2]).log.map (fun e => (e.1, e.2.2)))
    = [(1, Res.removed 1), (0, Res.removed 0), (2, Res.namingError)] := by decide

end Pyro.C15
