/-
  C17Src.lean — round 5.
  (1) the back-off generator `__retrydelays`, translated from the source on every run (harness/props/c17_tr.py →
      `Pyro.Gen.C17.Src`), yields exactly the documented sequence, for every k, and is never exhausted;
  (2) the transfer loops with the sleeps counted (`PyroModel/SockIODelays.lean`) are the loops of `SockIO.lean` (erasure),
      and sleep exactly once per retryable error they consume;
  (3) statements the property implies that were not theorems yet: a non-blocking `send_data` over partial writes and
      retryable errors transmits the whole buffer (model and transcription of the source).
-/
import PyroModel.SockIODelays
import PyroModel.Gen.C17
import PyroProps.C17
import PyroProps.C17Ast

namespace Pyro.C17Src

open Pyro Pyro.SockIO
open Pyro.Gen.C17.Src

/-! ### (1) `__retrydelays` -/

/-- the literals of the generator are multiples of 0.1 ms and one of them is not a multiple of anything coarser -/
theorem C17_gen_delay_unit : delayDen = 10000 := by decide

/-- the loop of the generator as written now: started with `d`, its n-th value is `d + n * 0.1 s` -/
theorem loopNth_succ {σ : Type} (body : σ → List Nat × σ) (f : Nat) (s : σ) (k : Nat) :
    loopNth body (f + 1) s k
      = if k < (body s).1.length then (body s).1[k]? else loopNth body f (body s).2 (k - (body s).1.length) := rfl

/-- one pass through the loop body as written now: yields `d`, goes on with `d + 0.1 s` -/
theorem body_eq (d : Nat) : retryDelaysBody { v0 := d } = ([d], { v0 := d + 1000 }) := rfl

theorem loop_nth : ∀ (n d : Nat), loopNth retryDelaysBody (n + 1) { v0 := d } n = some (d + 1000 * n) := by
  intro n
  induction n with
  | zero => intro d; rw [loopNth_succ, body_eq]; rfl
  | succ n ih =>
    intro d
    rw [loopNth_succ, body_eq]
    simp only [List.length_singleton]
    rw [if_neg (by omega), Nat.add_sub_cancel, ih]
    congr 1
    omega

theorem retryDelay_pos : ∀ k, 0 < retryDelay k
  | 0 => by decide
  | 1 => by decide
  | 2 => by decide
  | k + 3 => by unfold retryDelay; rw [if_neg (by omega)]; omega

/-- **`__retrydelays`, as written now, is the documented back-off sequence**: for every k the k-th `next(delays)` yields a
    value (the generator is never exhausted, so a retry never dies of StopIteration) and that value is `retryDelay k` -/
theorem C17_retrydelays_translated (k : Nat) :
    genNth retryDelaysPre retryDelaysInit retryDelaysBody retryDelaysLoops k = some (retryDelay k) := by
  match k with
  | 0 => decide
  | 1 => decide
  | 2 => decide
  | k + 3 =>
    have hp : retryDelaysPre.length = 3 := by decide
    have hl : retryDelaysLoops = true := by decide
    have hi : retryDelaysInit = { v0 := 1000 } := by decide
    unfold genNth
    rw [hp, if_neg (by omega), hl, if_pos rfl, hi]
    have : k + 3 - 3 = k := by omega
    rw [this, loop_nth k 1000]
    unfold retryDelay
    rw [if_neg (by omega)]
    congr 1
    omega

/-- the back-off of the source never gives up: every `next(delays)` yields -/
theorem C17_source_backoff_never_exhausted (k : Nat) :
    (genNth retryDelaysPre retryDelaysInit retryDelaysBody retryDelaysLoops k).isSome := by
  rw [C17_retrydelays_translated]; rfl

/-- the k-th delay of the source: 0.1 ms, 1 ms, 10 ms, then (k-2)·100 ms — positive and never shorter than the one before -/
theorem C17_source_backoff_sequence (k : Nat) :
    ∃ d d', genNth retryDelaysPre retryDelaysInit retryDelaysBody retryDelaysLoops k = some d ∧
      genNth retryDelaysPre retryDelaysInit retryDelaysBody retryDelaysLoops (k + 1) = some d' ∧
      0 < d ∧ d ≤ d' ∧ (3 ≤ k → d = 1000 * (k - 2)) := by
  refine ⟨_, _, C17_retrydelays_translated k, C17_retrydelays_translated (k + 1), ?_, ?_, ?_⟩
  · exact retryDelay_pos k
  · match k with
    | 0 => decide
    | 1 => decide
    | 2 => decide
    | k + 3 =>
      unfold retryDelay
      rw [if_neg (by omega), if_neg (by omega)]
      omega
  · intro h
    unfold retryDelay
    rw [if_neg (by omega)]

/-! ### (2) the loops with their sleeps -/

theorem recvLoopS_fst (size : Nat) (script : List Ev) :
    ∀ (data stream : Bytes) (n : Nat), (recvLoopS size data stream n script).1 = recvLoop size data stream script := by
  induction script with
  | nil => intro data stream n; simp [recvLoopS, recvLoop]
  | cons ev rest ih =>
    intro data stream n
    unfold recvLoopS recvLoop
    by_cases h : data.length < size
    · rw [if_pos h, if_pos h]
      cases ev with
      | deliver k =>
        simp only
        split
        · rfl
        · exact ih _ _ _
      | retryable => exact ih _ _ _
      | fatal => rfl
      | timeout => rfl
      | partialFail k r => cases r with
        | true => exact ih _ _ _
        | false => rfl
    · rw [if_neg h, if_neg h]

theorem recvWaitallS_fst (size : Nat) (stream : Bytes) (script : List Ev) :
    ∀ (n : Nat), (recvWaitallS size stream n script).1 = recvWaitall size stream script := by
  induction script with
  | nil => intro n; simp [recvWaitallS, recvWaitall]
  | cons ev rest ih =>
    intro n
    cases ev with
    | deliver k =>
      simp only [recvWaitallS, recvWaitall]
      split
      · rfl
      · exact recvLoopS_fst size rest _ _ _
    | retryable => simp only [recvWaitallS, recvWaitall]; exact ih _
    | fatal => rfl
    | timeout => rfl
    | partialFail k r => cases r with
      | true => simp only [recvWaitallS, recvWaitall]; exact ih _
      | false => rfl

theorem sendLoopS_fst (script : List Ev) :
    ∀ (data acc : Bytes) (n : Nat), (sendLoopS data acc n script).1 = sendLoop data acc script := by
  induction script with
  | nil => intro data acc n; simp [sendLoopS, sendLoop]
  | cons ev rest ih =>
    intro data acc n
    unfold sendLoopS sendLoop
    by_cases h : data.isEmpty = true
    · rw [if_pos h, if_pos h]
    · rw [if_neg h, if_neg h]
      cases ev with
      | deliver k => exact ih _ _ _
      | retryable => exact ih _ _ _
      | fatal => rfl
      | timeout => rfl
      | partialFail k r => cases r with
        | true => exact ih _ _ _
        | false => rfl

/-- **erasure**: counting the sleeps changes nothing — the instrumented functions compute what `receive` / `send` compute -/
theorem C17_sleeps_erase_recv (waitall : Bool) (size : Nat) (stream : Bytes) (script : List Ev) :
    (receiveS waitall size stream script).1 = receive waitall size stream script := by
  unfold receiveS receive
  cases waitall with
  | true => simp only [if_true]; exact recvWaitallS_fst size stream script 0
  | false => simp only [Bool.false_eq_true, if_false]; exact recvLoopS_fst size script [] stream 0

theorem C17_sleeps_erase_send (blocking : Bool) (data : Bytes) (script : List Ev) :
    (sendS blocking data script).1 = send blocking data script := by
  unfold sendS send
  cases blocking with
  | true => simp
  | false => simp only [Bool.false_eq_true, if_false]; exact sendLoopS_fst script data [] 0

/-- what "sleeps exactly once per retryable error it consumed" means for an instrumented run that started with `n` sleeps -/
def SleepsExact (script : List Ev) (n : Nat) (left : List Ev) (n' : Nat) : Prop :=
  ∃ used, script = used ++ left ∧ n' = n + used.countP Ev.isRetry

theorem SleepsExact.cons {ev : Ev} {rest left : List Ev} {n n' : Nat} (b : Nat)
    (hb : b = if ev.isRetry then 1 else 0) (h : SleepsExact rest (n + b) left n') : SleepsExact (ev :: rest) n left n' := by
  obtain ⟨used, h1, h2⟩ := h
  refine ⟨ev :: used, by rw [h1]; rfl, ?_⟩
  rw [h2, hb, List.countP_cons]
  cases ev.isRetry <;> simp <;> omega

theorem SleepsExact.here (ev : Ev) (rest : List Ev) (n : Nat) (h : ev.isRetry = false) :
    SleepsExact (ev :: rest) n rest n :=
  ⟨[ev], rfl, by simp [h]⟩

theorem SleepsExact.none (script : List Ev) (n : Nat) : SleepsExact script n script n := ⟨[], rfl, by simp⟩

theorem recvLoopS_sleeps (size : Nat) (script : List Ev) :
    ∀ (data stream : Bytes) (n : Nat),
      SleepsExact script n (recvLoopS size data stream n script).1.2.2 (recvLoopS size data stream n script).2 := by
  induction script with
  | nil =>
    intro data stream n
    unfold recvLoopS
    split <;> simp only [recvFinish] <;> (try split) <;> exact SleepsExact.none _ _
  | cons ev rest ih =>
    intro data stream n
    unfold recvLoopS
    by_cases h : data.length < size
    · rw [if_pos h]
      cases ev with
      | deliver k =>
        simp only
        split
        · exact SleepsExact.here _ _ _ rfl
        · exact SleepsExact.cons 0 rfl (ih _ _ _)
      | retryable => exact SleepsExact.cons 1 rfl (ih _ _ _)
      | fatal => exact SleepsExact.here _ _ _ rfl
      | timeout => exact SleepsExact.here _ _ _ rfl
      | partialFail k r => cases r with
        | true => exact SleepsExact.cons 1 rfl (ih _ _ _)
        | false => exact SleepsExact.here _ _ _ rfl
    · rw [if_neg h]
      simp only [recvFinish]
      split <;> exact SleepsExact.none _ _

theorem recvWaitallS_sleeps (size : Nat) (stream : Bytes) (script : List Ev) :
    ∀ (n : Nat), SleepsExact script n (recvWaitallS size stream n script).1.2.2 (recvWaitallS size stream n script).2 := by
  induction script with
  | nil => intro n; exact SleepsExact.none _ _
  | cons ev rest ih =>
    intro n
    cases ev with
    | deliver k =>
      simp only [recvWaitallS]
      split
      · exact SleepsExact.here _ _ _ rfl
      · exact SleepsExact.cons 0 rfl (recvLoopS_sleeps size rest _ _ _)
    | retryable => simp only [recvWaitallS]; exact SleepsExact.cons 1 rfl (ih _)
    | fatal => exact SleepsExact.here _ _ _ rfl
    | timeout => exact SleepsExact.here _ _ _ rfl
    | partialFail k r => cases r with
      | true => simp only [recvWaitallS]; exact SleepsExact.cons 1 rfl (ih _)
      | false => exact SleepsExact.here _ _ _ rfl

theorem sendLoopS_sleeps (script : List Ev) :
    ∀ (data acc : Bytes) (n : Nat),
      SleepsExact script n (sendLoopS data acc n script).1.2.2 (sendLoopS data acc n script).2 := by
  induction script with
  | nil => intro data acc n; unfold sendLoopS; split <;> exact SleepsExact.none _ _
  | cons ev rest ih =>
    intro data acc n
    unfold sendLoopS
    by_cases h : data.isEmpty = true
    · rw [if_pos h]; exact SleepsExact.none _ _
    · rw [if_neg h]
      cases ev with
      | deliver k => exact SleepsExact.cons 0 rfl (ih _ _ _)
      | retryable => exact SleepsExact.cons 1 rfl (ih _ _ _)
      | fatal => exact SleepsExact.here _ _ _ rfl
      | timeout => exact SleepsExact.here _ _ _ rfl
      | partialFail k r => cases r with
        | true => exact SleepsExact.cons 1 rfl (ih _ _ _)
        | false => exact SleepsExact.here _ _ _ rfl

/-- **C17_recv_sleeps_exact.**  `receive_data` sleeps exactly once for every retryable error it meets, and never otherwise:
    the script splits into the events the call consumed and the ones it left, and the number of
    `time.sleep(next(delays))` is the number of retryable events among the consumed ones (all histories, both paths) -/
theorem C17_recv_sleeps_exact (waitall : Bool) (size : Nat) (stream : Bytes) (script : List Ev) :
    ∃ used, script = used ++ (receive waitall size stream script).2.2 ∧
      (receiveS waitall size stream script).2 = used.countP Ev.isRetry := by
  have e := C17_sleeps_erase_recv waitall size stream script
  rw [← e]
  unfold receiveS
  cases waitall with
  | true =>
    simp only [if_true]
    obtain ⟨u, h1, h2⟩ := recvWaitallS_sleeps size stream script 0
    exact ⟨u, h1, by simpa using h2⟩
  | false =>
    simp only [Bool.false_eq_true, if_false]
    obtain ⟨u, h1, h2⟩ := recvLoopS_sleeps size script [] stream 0
    exact ⟨u, h1, by simpa using h2⟩

/-- **C17_send_sleeps_exact.**  The send loop of a non-blocking socket sleeps exactly once per retryable error it consumes -/
theorem C17_send_sleeps_exact (data : Bytes) (script : List Ev) :
    ∃ used, script = used ++ (send false data script).2.2 ∧
      (sendS false data script).2 = used.countP Ev.isRetry := by
  have e := C17_sleeps_erase_send false data script
  rw [← e]
  unfold sendS
  simp only [Bool.false_eq_true, if_false]
  obtain ⟨u, h1, h2⟩ := sendLoopS_sleeps script data [] 0
  exact ⟨u, h1, by simpa using h2⟩

/-- the delays slept by a call that slept n times, read off the source's generator: the i-th is the i-th documented delay -/
theorem C17_source_sleeps (n i : Nat) (h : i < n) :
    (sleepsOf n)[i]? = genNth retryDelaysPre retryDelaysInit retryDelaysBody retryDelaysLoops i := by
  rw [C17_retrydelays_translated]
  simp [sleepsOf, h]

/-! ### (3) implied by the statement, not a theorem before -/

/-- **C17_send_nonblocking_complete.**  On a socket that is not in blocking mode (`gettimeout()` is not None — 0.0 included),
    a script of partial writes (≥ 1 byte each) and retryable errors with enough writes gets the WHOLE buffer to the peer,
    exactly once and in order, and `send_data` returns: would-block / try-again never turn into a failure or a short send -/
theorem C17_send_nonblocking_complete (data : Bytes) (script : List Ev)
    (hb : Pyro.C17.Benign script) (hd : data.length ≤ Pyro.C17.deliveries script) :
    (send false data script).1 = .ok ∧ (send false data script).2.1 = data := by
  have h1 : (send false data script).1 = .ok := by
    simp only [send, Bool.false_eq_true, if_false]
    exact Pyro.C17.C17_send_total script data [] hb hd
  exact ⟨h1, (Pyro.C17.C17_send false data script).2 h1⟩

/-- the same about `send_data` as it is written now (through `send_translated`) -/
theorem C17_source_send_nonblocking_complete (cfg : PyIR.Cfg) (hsub : cfg.isSub = Gen.C17.isSub) (hnb : cfg.blocking = false)
    (data : Bytes) (script : List Ev) (hb : Pyro.C17.Benign script) (hd : data.length ≤ Pyro.C17.deliveries script) :
    ∃ out, PyIR.toSend (PyIR.runSend cfg Gen.C17.sendData data script) = some out ∧ out.1 = .ok ∧ out.2.1 = data := by
  refine ⟨_, Pyro.C17Ast.send_translated cfg hsub data script, ?_⟩
  rw [hnb]
  exact C17_send_nonblocking_complete data script hb hd

/-- blocking mode: one `sendall`; whatever happens, nothing is sent twice and an error after a partial write raises -/
theorem C17_send_blocking_one_call (data : Bytes) (script : List Ev) :
    (send true data script).2.2 = script.drop 1 := by
  unfold send
  simp only [if_true]
  cases script with
  | nil => rfl
  | cons ev rest => cases ev <;> rfl

/-! ### non-vacuity -/

example : (List.range 6).map (genNth retryDelaysPre retryDelaysInit retryDelaysBody retryDelaysLoops)
    = [some 1, some 10, some 100, some 1000, some 2000, some 3000] := by decide
example : receiveS true 5 [1,2,3,4,5,6,7] [.retryable, .deliver 3, .partialFail 0 true, .retryable, .deliver 2, .deliver 1]
    = ((.ok [1,2,3,4,5], [6,7], [.deliver 1]), 3) := by decide
example : sendS false [1,2,3,4] [.deliver 1, .retryable, .deliver 0, .retryable, .deliver 7, .retryable]
    = ((.ok, [1,2,3,4], [.retryable]), 2) := by decide
example : Pyro.C17.Benign [.deliver 1, .retryable, .deliver 2, .partialFail 3 true, .deliver 9] ∧
    ([1,2,3] : Bytes).length ≤ Pyro.C17.deliveries [.deliver 1, .retryable, .deliver 2, .partialFail 3 true, .deliver 9] := by
  simp [Pyro.C17.Benign, Pyro.C17.deliveries]

end Pyro.C17Src
