/-
  C11 — theorems about the TRANSCRIPTION of the source (round 5).

  `PyroModel/Gen/C11.lean` holds, next to the probes, four definitions written on every run by harness/props/c11_tr.py
  from the AST of the tree under check:
    batchLoopSrc    the batch branch of Daemon.handleRequest (server.py)
    resultsGenSrc   the generator BatchProxy.__call__ returns, with _ExceptionWrapper.raiseIt inlined (client.py, core.py)
    batchCallSrc    BatchProxy.__call__
    invokeBatchSrc  Proxy._pyroInvokeBatch
  Here: each computes, FOR ALL inputs, what the hand-written model function computes (`C11_…_translated`), and the property
  theorems restated about the composition of the transcriptions (`C11_source_…`).
-/
import PyroModel.Batch
import PyroModel.Gen.C11
import PyroModel.BatchSrc
import PyroProofs.Batch
import PyroProps.C11

namespace Pyro.C11

open Pyro.Batch Pyro.Gen.C11

variable {St W Val Exc : Type}

@[simp] theorem sentObj_gate {Name Arg : Type} (sent : Exc → Exc) (o : Obj St Name Arg Val Exc) (s : St) (n : Name) :
    (sentObj sent o).gate s n = o.gate s n := rfl

theorem sentObj_apply {Name Arg : Type} (sent : Exc → Exc) (o : Obj St Name Arg Val Exc) (s : St) (n : Name) (a : Arg) :
    (sentObj sent o).apply s n a =
      match o.apply s n a with
      | (s', .exc e) => (s', .exc (sent e))
      | (s', .ok v) => (s', .ok v) := rfl

/-- the transcribed item check is the negation of `wellFormed` -/
theorem guard_eq (w : WireOps W) (c : W) :
    ((!(w.isSeq c)) || ((w.len c) != 3) || (!(w.isSeq (w.item c 1))) || (!(w.isDict (w.item c 2)))) = !wellFormed w c := by
  unfold wellFormed
  simp only [bne]
  generalize (w.len c == 3) = b3
  cases w.isSeq c <;> cases b3 <;> cases w.isSeq (w.item c 1) <;> cases w.isDict (w.item c 2) <;> rfl

theorem unpack3 (w : WireOps W) (c : W) (h : wellFormed w c = true) :
    w.unpack c 3 = some [w.item c 0, w.item c 1, w.item c 2] := by
  unfold wellFormed at h
  simp only [Bool.and_eq_true, beq_iff_eq] at h
  have := w.unpack_seq c 3 h.1.1.1 h.1.1.2
  simpa [List.range, List.range.loop] using this

/-- **The transcribed server loop is the model's loop**, for every wire-value interface, object, `sent`, state, item
    list (any items, well-formed or not) and collected data: same final state, same `data` / escaping exception.
    The unpack-failure branch of the transcription is dead (the item check established length 3). -/
theorem C11_batchLoop_translated (w : WireOps W) (errs : SrcErrs Exc) (sent : Exc → Exc) (o : Obj St W (W × W) Val Exc) :
    ∀ (items : List W) (s : St) (d : List (Item Val Exc)),
      batchLoopSrc w errs sent o s items d = batchLoopW w errs.typeError (sentObj sent o) s items d := by
  intro items
  induction items with
  | nil => intro s d; simp [batchLoopSrc, batchLoopW]
  | cons c rest ih =>
    intro s d
    unfold batchLoopSrc batchLoopW
    rw [guard_eq]
    cases hw : wellFormed w c with
    | false => simp
    | true =>
      simp only [Bool.not_true, Bool.false_eq_true, if_false, if_true, unpack3 w c hw, sentObj_gate, sentObj_apply]
      cases o.gate s (w.item c 0) with
      | some e => rfl
      | none =>
        simp only
        cases o.apply s (w.item c 0) (w.item c 1, w.item c 2) with
        | mk s' r =>
          cases r with
          | exc e => rfl
          | ok v => simp only; exact ih s' _

/-- On well-formed items the wire-level loop is `batchLoop` on the decoded calls. -/
theorem batchLoopW_wellFormed (w : WireOps W) (t : Exc) (o : Obj St W (W × W) Val Exc) :
    ∀ (items : List W) (s : St) (d : List (Item Val Exc)), (∀ c ∈ items, wellFormed w c = true) →
      batchLoopW w t o s items d = batchLoop o s (items.map (decodeCall w)) d := by
  intro items
  induction items with
  | nil => intro s d _; simp [batchLoopW, batchLoop]
  | cons c rest ih =>
    intro s d h
    have hc : wellFormed w c = true := h c (by simp)
    have hr : ∀ c ∈ rest, wellFormed w c = true := fun c hc => h c (by simp [hc])
    simp only [List.map_cons, decodeCall]
    unfold batchLoopW batchLoop
    simp only [hc, if_true]
    cases o.gate s (w.item c 0) with
    | some e => rfl
    | none =>
      simp only
      cases o.apply s (w.item c 0) (w.item c 1, w.item c 2) with
      | mk s' r =>
        cases r with
        | exc e => rfl
        | ok v => simp only; exact ih s' _ hr

/-- **A malformed item** (not a (name, args, kwargs) triple — a real BatchProxy never sends one) behaves exactly like a
    refused name: the well-formed items before it run one by one; if they all succeed the request ends with the
    TypeError of the check (results collected so far are dropped, nothing behind the item runs). -/
theorem C11_malformed_item (w : WireOps W) (t : Exc) (o : Obj St W (W × W) Val Exc) :
    ∀ (pre : List W) (s : St) (d : List (Item Val Exc)) (bad : W) (post : List W) (s1 : St) (vs : List Val),
      (∀ c ∈ pre, wellFormed w c = true) → wellFormed w bad = false →
      sequential o s (pre.map (decodeCall w)) = (s1, vs, none) →
      batchLoopW w t o s (pre ++ bad :: post) d = (s1, .escaped t) := by
  intro pre
  induction pre with
  | nil =>
    intro s d bad post s1 vs _ hb hs
    simp only [List.map_nil, sequential, Prod.mk.injEq] at hs
    obtain ⟨rfl, -, -⟩ := hs
    simp [batchLoopW, hb]
  | cons c rest ih =>
    intro s d bad post s1 vs h hb hs
    have hc : wellFormed w c = true := h c (by simp)
    have hr : ∀ c ∈ rest, wellFormed w c = true := fun c hc => h c (by simp [hc])
    simp only [List.map_cons, decodeCall] at hs
    rw [sequential_cons] at hs
    unfold serverCall at hs
    simp only [List.cons_append]
    unfold batchLoopW
    simp only [hc, if_true]
    cases hg : o.gate s (w.item c 0) with
    | some e => rw [hg] at hs; simp at hs
    | none =>
      rw [hg] at hs
      simp only at hs ⊢
      cases ha : o.apply s (w.item c 0) (w.item c 1, w.item c 2) with
      | mk s' r =>
        rw [ha] at hs
        cases r with
        | exc e => simp at hs
        | ok v =>
          simp only at hs ⊢
          generalize hq : sequential o s' (rest.map (decodeCall w)) = q at hs
          obtain ⟨s2, vs2, f2⟩ := q
          simp only [Prod.mk.injEq] at hs
          obtain ⟨rfl, rfl, rfl⟩ := hs
          exact ih s' _ bad post s2 vs2 hr hb hq

/-- **The transcribed results generator is the model's `resultsGen`.** -/
theorem C11_resultsGen_translated : ∀ (items : List (Item Val Exc)), resultsGenSrc items = resultsGen items := by
  intro items
  induction items with
  | nil => simp [resultsGenSrc, resultsGen]
  | cons r rest ih =>
    cases r with
    | val v => simp [resultsGenSrc, resultsGen, ih]
    | wrapped e => simp [resultsGenSrc, resultsGen]

/-- **The transcribed `_pyroInvokeBatch`** sends one request named `<batch>` with the calls as they are, `kwargs=None`, and
    flags = FLAGS_BATCH, plus FLAGS_ONEWAY exactly when `oneway`. -/
theorem C11_invokeBatch_translated {C R : Type} (f : String → C → Bool → Nat → R) (calls : C) (oneway : Bool) :
    invokeBatchSrc f calls oneway = f "<batch>" calls true (flagsBatch ||| (if oneway then flagsOneway else 0)) := by
  cases oneway <;> simp [invokeBatchSrc, flagsBatch, flagsOneway]

/-- **The composed transcription is the model's `clientBatch`** (on the object whose exceptions are `sent`), for every
    list of well-formed items, both modes, every `pre`; and the BatchProxy's list afterwards is `keptCalls`. -/
theorem C11_clientBatch_translated (w : WireOps W) (errs : SrcErrs Exc) (sent : Exc → Exc) (pre : Option Exc)
    (o : Obj St W (W × W) Val Exc) (oneway : Bool) (s : St) (items : List W) (h : ∀ c ∈ items, wellFormed w c = true) :
    clientBatchSrc w errs sent pre o oneway s items =
      ((clientBatch pre (sentObj sent o) oneway s (items.map (decodeCall w))).1,
       keptCalls items (clientBatch pre (sentObj sent o) oneway s (items.map (decodeCall w))).2,
       (clientBatch pre (sentObj sent o) oneway s (items.map (decodeCall w))).2) := by
  unfold clientBatchSrc batchCallSrc clientBatch serverBatch
  simp only [C11_invokeBatch_translated, pyroInvokeW, C11_batchLoop_translated, batchLoopW_wellFormed w _ _ items _ _ h,
    C11_resultsGen_translated, invokedOf]
  generalize batchLoop (sentObj sent o) s (items.map (decodeCall w)) [] = q
  obtain ⟨s', r⟩ := q
  cases oneway <;> cases pre <;> cases r <;>
    simp [flagsBatch, flagsOneway, invokedOf, replyOf, iterReply, keptCalls]

/-- **C11 about the transcription, normal mode.**  For every object, `sent`, start state and list of well-formed items:
    the composed transcribed code leaves the object in the state of the one-by-one run of the decoded calls and shows the
    caller exactly what the sequential outcome prescribes; the BatchProxy keeps its calls iff the submission raised. -/
theorem C11_source_refines (w : WireOps W) (errs : SrcErrs Exc) (sent : Exc → Exc) (o : Obj St W (W × W) Val Exc)
    (s : St) (items : List W) (h : ∀ c ∈ items, wellFormed w c = true) :
    clientBatchSrc w errs sent none o false s items =
      ((sequential (sentObj sent o) s (items.map (decodeCall w))).1,
       keptCalls items (expected (sequential (sentObj sent o) s (items.map (decodeCall w))).2),
       expected (sequential (sentObj sent o) s (items.map (decodeCall w))).2) := by
  rw [C11_clientBatch_translated w errs sent none o false s items h, C11_refines]

/-- **C11 about the transcription, oneway mode**: same final state as the one-by-one run, nothing returned, list cleared. -/
theorem C11_source_oneway (w : WireOps W) (errs : SrcErrs Exc) (sent : Exc → Exc) (o : Obj St W (W × W) Val Exc)
    (s : St) (items : List W) (h : ∀ c ∈ items, wellFormed w c = true) :
    clientBatchSrc w errs sent none o true s items =
      ((sequential (sentObj sent o) s (items.map (decodeCall w))).1, [], Seen.nothing) := by
  rw [C11_clientBatch_translated w errs sent none o true s items h, C11_oneway]
  rfl

/-! ### Non-vacuity (the counter object of PyroProps/C11.lean seen through the concrete universe `PV`) -/

/-- hypotheses of `C11_malformed_item` are satisfiable: one good item runs, a 2-sequence ends the request with the
    TypeError (55), the result collected so far is dropped, the third item never runs -/
example : batchLoopW pvOps 55 (pvObj counter 9) 0 [.triple true true 0 1, .short 3, .triple true true 0 1] [] =
    (1, .escaped 55) := by decide
/-- a triple whose 3rd member is not a dict is refused as well -/
example : batchLoopW pvOps 55 (pvObj counter 9) 0 [.triple true false 0 1] [] = (0, .escaped 55) := by decide
example : wellFormed pvOps (.triple true true 0 1) = true ∧ wellFormed pvOps (.short 3) = false := by decide
/-- the composed transcription on concrete requests: results then the method's exception; a refused name at submission
    (the BatchProxy keeps its calls); oneway -/
example : clientBatchSrc pvOps ⟨55, 56, 57, 58⟩ id none (pvObj counter 9) false 0
    [.triple true true 0 1, .triple true true 1 0, .triple true true 0 1] = (2, [], .stream [1] (some 8)) := by decide
example : clientBatchSrc pvOps ⟨55, 56, 57, 58⟩ id none (pvObj counter 9) false 0
    [.triple true true 0 1, .triple true true 5 0] =
    (1, [.triple true true 0 1, .triple true true 5 0], .submitRaised 9) := by decide
example : clientBatchSrc pvOps ⟨55, 56, 57, 58⟩ id none (pvObj counter 9) true 0
    [.triple true true 0 1, .triple true true 1 0, .triple true true 0 1] = (2, [], .nothing) := by decide

end Pyro.C11
