/-
  C11 — A batch behaves like the same calls made one after another.

  Property theorems about `PyroModel.Batch` (model of server.py:439-453, core.py:145-162,
  client.py:437-441 and 571-628).  Quantifiers: EVERY remote object (`o : Obj …` is an arbitrary
  deterministic state machine with an arbitrary, possibly state dependent, exposure gate), every start
  state, every list of calls (no length bound), normal and oneway mode.  The serializer enters through
  `pre` (does `dumpsCall(…, kwargs=None)` succeed on the client); the obligations `C11_gen_…` re-prove,
  from facts extracted from the current source, that it does for all four serializers and that the code
  still has the shape the model was written against.
-/
import PyroModel.Batch
import PyroModel.Gen.C11
import PyroProofs.Batch

namespace Pyro.C11

open Pyro.Batch

variable {St Name Arg Val Exc : Type}

/-- **Refinement.**  For every object, start state and call list: submitting the calls as one batch leaves
    the remote object in exactly the state the one-by-one run leaves it in, and the caller sees exactly what
    the sequential outcome prescribes (`expected`): the same values in the same order; if a method raised,
    that exception right after the values of the calls before it; if the exposure gate refused a name, that
    AttributeError when the batch is submitted. -/
theorem C11_refines (o : Obj St Name Arg Val Exc) (s : St) (cs : List (Name × Arg)) :
    clientBatch none o false s cs = ((sequential o s cs).1, expected (sequential o s cs).2) := by
  unfold clientBatch serverBatch
  simp only [batchLoop_sequential]
  generalize sequential o s cs = q
  obtain ⟨s', vs, f⟩ := q
  cases f with
  | none =>
    have h := resultsGen_vals (Exc := Exc) vs []
    simp only [List.append_nil] at h
    simp [loopOf, expected, h, resultsGen]
  | some f =>
    cases f with
    | gate e => simp [loopOf, expected]
    | raised e =>
      have h := resultsGen_vals vs [Item.wrapped e]
      simp [loopOf, expected, h, resultsGen]

/-- **Oneway.**  A oneway batch executes exactly the same prefix of calls (same final state as the
    sequential run, which stops at the first failure) and the caller gets nothing back — no result,
    no exception. -/
theorem C11_oneway (o : Obj St Name Arg Val Exc) (s : St) (cs : List (Name × Arg)) :
    clientBatch none o true s cs = ((sequential o s cs).1, Seen.nothing) := by
  unfold clientBatch serverBatch
  simp only [batchLoop_sequential]
  generalize loopOf [] (sequential o s cs).2 = r
  cases r <;> simp

/-- **Results agree position by position.**  Whenever the batch caller gets a result stream, the values
    yielded are exactly the sequential values (so the i-th yielded value is the i-th call's value), and
    the stream ends in an exception iff the sequential run ended in a method's exception — the same one,
    at the same position (after `vs.length` values). -/
theorem C11_positions (o : Obj St Name Arg Val Exc) (s : St) (cs : List (Name × Arg))
    (ys : List Val) (r : Option Exc)
    (h : (clientBatch none o false s cs).2 = Seen.stream ys r) :
    ys = (sequential o s cs).2.1 ∧
    ((r = none ∧ (sequential o s cs).2.2 = none ∧ ys.length = cs.length) ∨
     (∃ e, r = some e ∧ (sequential o s cs).2.2 = some (Fail.raised e) ∧ ys.length < cs.length)) := by
  rw [C11_refines] at h
  have hl := sequential_length o cs s
  generalize sequential o s cs = q at h hl
  obtain ⟨s', vs, f⟩ := q
  cases f with
  | none =>
    simp only [expected, Seen.stream.injEq] at h
    obtain ⟨rfl, rfl⟩ := h
    exact ⟨rfl, Or.inl ⟨rfl, rfl, hl.2.1 rfl⟩⟩
  | some f =>
    cases f with
    | gate e => simp [expected] at h
    | raised e =>
      simp only [expected, Seen.stream.injEq] at h
      obtain ⟨rfl, rfl⟩ := h
      exact ⟨rfl, Or.inr ⟨e, rfl, rfl, hl.2.2 (by simp)⟩⟩

/-- **A submission failure is the gate's exception of the first refused call.**  If `batch()` itself raises,
    the sequential run ended with exactly that exception, raised by the exposure gate for the call at
    position `vs.length` — the calls before it were executed (state as in the sequential run). -/
theorem C11_submit_failure (o : Obj St Name Arg Val Exc) (s : St) (cs : List (Name × Arg)) (e : Exc)
    (h : (clientBatch none o false s cs).2 = Seen.submitRaised e) :
    (sequential o s cs).2.2 = some (Fail.gate e) ∧
    (clientBatch none o false s cs).1 = (sequential o s cs).1 := by
  rw [C11_refines] at h ⊢
  generalize sequential o s cs = q at h
  obtain ⟨s', vs, f⟩ := q
  cases f with
  | none => simp [expected] at h
  | some f =>
    cases f with
    | gate e' => simp only [expected, Seen.submitRaised.injEq] at h; subst h; exact ⟨rfl, rfl⟩
    | raised e' => simp [expected] at h

/-- **Nothing after the first failure executes.**  If the calls `pre` all succeed one by one and the next
    call `c` fails (gate or method), then whatever follows `c` in the batch is irrelevant: state of the
    object and everything the caller sees are those of the batch cut off after `c`.  (Holds for every
    object, in particular for one that records every call — see `C11_executed_prefix`.) -/
theorem C11_stops (o : Obj St Name Arg Val Exc) (oneway : Bool) (s s1 : St) (vs : List Val)
    (pre post : List (Name × Arg)) (c : Name × Arg)
    (hpre : sequential o s pre = (s1, vs, none))
    (hc : ∀ v, (serverCall o s1 c).2 ≠ CallOut.ok v) :
    clientBatch none o oneway s (pre ++ c :: post) = clientBatch none o oneway s (pre ++ [c]) := by
  have hseq : sequential o s (pre ++ c :: post) = sequential o s (pre ++ [c]) := by
    rw [sequential_append o pre (c :: post) s s1 vs hpre, sequential_append o pre [c] s s1 vs hpre,
      sequential_stops o s1 c post hc]
  cases oneway with
  | false => rw [C11_refines, C11_refines, hseq]
  | true => rw [C11_oneway, C11_oneway, hseq]

/-- **Executed calls form the sequential prefix.**  Run the batch against the same object instrumented with
    a log of every call that reached its method.  The log grows by `cs.take k` where `k` is: all calls if
    none failed; the calls before the failing one plus the failing one if its method raised; only the calls
    before it if the gate refused it.  In both modes. -/
theorem C11_executed_prefix (o : Obj St Name Arg Val Exc) (oneway : Bool) (s : St)
    (l cs : List (Name × Arg)) :
    (clientBatch none (withLog o) oneway (s, l) cs).1 =
      ((sequential o s cs).1, l ++ cs.take (ranCount cs.length (sequential o s cs).2)) := by
  cases oneway with
  | false => rw [C11_refines, sequential_withLog]
  | true => rw [C11_oneway, sequential_withLog]

/-- **The sequential reference is what it claims to be.**  A failing sequential run splits the call list
    into calls that all returned (`vs` are their values), the call that failed from the state reached, and
    an unexecuted rest.  (Guards against a vacuous reference.) -/
theorem C11_sequential_spec (o : Obj St Name Arg Val Exc) :
    ∀ (cs : List (Name × Arg)) (s s' : St) (vs : List Val) (f : Fail Exc),
      sequential o s cs = (s', vs, some f) →
      ∃ pre c post s1, cs = pre ++ c :: post ∧ pre.length = vs.length ∧
        sequential o s pre = (s1, vs, none) ∧
        serverCall o s1 c = (s', match f with | .gate e => CallOut.gateErr e | .raised e => CallOut.raised e) := by
  intro cs
  induction cs with
  | nil => intro s s' vs f h; simp [sequential] at h
  | cons c rest ih =>
    intro s s' vs f h
    rw [sequential_cons] at h
    cases hc : serverCall o s c with
    | mk s1 r =>
      rw [hc] at h
      cases r with
      | gateErr e =>
        simp only [Prod.mk.injEq, Option.some.injEq] at h
        obtain ⟨rfl, rfl, rfl⟩ := h
        exact ⟨[], c, rest, s, rfl, rfl, rfl, hc⟩
      | raised e =>
        simp only [Prod.mk.injEq, Option.some.injEq] at h
        obtain ⟨rfl, rfl, rfl⟩ := h
        exact ⟨[], c, rest, s, rfl, rfl, rfl, hc⟩
      | ok v =>
        simp only at h
        generalize hq : sequential o s1 rest = q at h
        obtain ⟨s2, vs2, f2⟩ := q
        simp only [Prod.mk.injEq] at h
        obtain ⟨rfl, rfl, rfl⟩ := h
        obtain ⟨pre, c', post, s3, hcs, hlen, hp, hcall⟩ := ih s1 s2 vs2 f hq
        refine ⟨c :: pre, c', post, s3, by rw [hcs]; rfl, by simp [hlen], ?_, hcall⟩
        rw [sequential_cons, hc]
        simp only [hp]

/-- **Client-side serialisation failure** (the shape of finding F11, marshal with `kwargs=None`): if
    `dumpsCall` raises, the batch fails at submission with that exception and the remote object is not
    touched — for a call list whose sequential run changes the state or returns values this is NOT what
    C11 demands, which is why `C11_gen_dumpsCall_accepts_no_kwargs` below is an obligation. -/
theorem C11_pre_failure (o : Obj St Name Arg Val Exc) (oneway : Bool) (s : St) (cs : List (Name × Arg)) (e : Exc) :
    clientBatch (some e) o oneway s cs = (s, Seen.submitRaised e) := rfl

/-- The full statement of C11 for a serializer whose client-side step is `pre`. -/
def C11_Statement (pre : Option Exc) : Prop :=
  ∀ (St Name Arg Val : Type) (o : Obj St Name Arg Val Exc) (s : St) (cs : List (Name × Arg)),
    clientBatch pre o false s cs = ((sequential o s cs).1, expected (sequential o s cs).2) ∧
    clientBatch pre o true s cs = ((sequential o s cs).1, Seen.nothing)

/-- C11 holds for every serializer whose `dumpsCall` accepts the batch request. -/
theorem C11_statement_holds : C11_Statement (Exc := Exc) none :=
  fun _ _ _ _ o s cs => ⟨C11_refines o s cs, C11_oneway o s cs⟩

/-- …and fails for a serializer whose `dumpsCall` raises (witness: the empty batch on a one-state object:
    sequentially nothing happens and nothing is raised, the batch raises). -/
theorem C11_statement_fails_when_pre_raises (e : Exc) : ¬ C11_Statement (some e) := by
  intro h
  have := (h Unit Unit Unit Unit ⟨fun _ _ => none, fun _ _ _ => ((), .ok ())⟩ () []).1
  simp [clientBatch, sequential, expected] at this

/-! ### Obligations about facts extracted from the current source (`PyroModel/Gen/C11.lean`) -/

open Pyro.Gen.C11 in
/-- every serializer's `dumpsCall(obj, "<batch>", calls, None)` succeeds (so `pre = none` for all of them;
    on the tree before the F11 fix this fails for marshal) -/
theorem C11_gen_dumpsCall_accepts_no_kwargs :
    dumpsCallNoKwargs.map (·.1) = ["json", "marshal", "msgpack", "serpent"] ∧
    ∀ p ∈ dumpsCallNoKwargs, p.2 = true := by decide

open Pyro.Gen.C11 in
/-- every serializer transports the reply list of a batch with the exception wrapper in it (the model's
    `Reply.results items` reaches `resultsGen` unchanged; on the tree before the marshal fix of
    `convert_obj_into_marshallable` this fails for marshal: `ValueError: unmarshallable object`) -/
theorem C11_gen_wrapper_transportable :
    wrapperInReplyList.map (·.1) = ["json", "marshal", "msgpack", "serpent"] ∧
    ∀ p ∈ wrapperInReplyList, p.2 = true := by decide

open Pyro.Gen.C11 in
/-- server.py batch loop: gate (the same `_get_attribute` as the single call) outside the `try`, the call
    inside it, `except Exception` appends a wrapper and breaks, `else` appends the result; oneway returns
    before the reply is built.  `sameSerializeOrFallback`: the failed batch member and the failed plain call
    both hand the raised exception to the one function `Daemon._serializeException` (the exception itself, or
    the describing PyroError when the instance cannot be serialised) — that is why `Obj.apply`'s `exc e` may be
    read as "the exception as sent": the same pure function of the raised exception on both paths. -/
theorem C11_gen_server_shape :
    batchLoopShape = ["gate:_get_attribute", "try[", "call", "]", "except:Exception[", "hook", "format-traceback",
                      "serialize-or-fallback", "append:wrapper", "break", "]", "else[", "append:result", "]"] ∧
    singleCallGate = "_get_attribute" ∧ onewayReturnsBeforeReply = true ∧ batchedFlagAfterLoop = true ∧
    sameSerializeOrFallback = true := by decide

open Pyro.Gen.C11 in
/-- client.py: results generator (wrapper → raiseIt, else yield), raiseIt raises the wrapped exception,
    `_pyroInvokeBatch` sends one `<batch>` request with kwargs None and FLAGS_BATCH (| FLAGS_ONEWAY),
    `BatchProxy.__call__` submits once, clears the list, returns the generator unless oneway;
    `_BatchedRemoteMethod.__call__` appends `(name, args, kwargs)`. -/
theorem C11_gen_client_shape :
    resultsGenShape = ["for", "if-isinstance:_ExceptionWrapper[", "raiseIt", "]", "else[", "yield", "]"] ∧
    raiseItShape = ["raise:self.exception"] ∧
    invokeBatchShape = ["flags=FLAGS_BATCH", "if:oneway[", "flags|=FLAGS_ONEWAY", "]",
                        "return:_pyroInvoke(<batch>,calls,None,flags)"] ∧
    batchCallShape = ["claim", "results=_pyroInvokeBatch(calls,oneway)", "calls=[]", "if-not:oneway[", "return:generator", "]"] ∧
    batchedMethodShape = ["append:(name,args,kwargs)"] := by decide

/-! ### Non-vacuity: a concrete stateful object (a counter that refuses to go above 2) -/

/-- names: 0 = `inc` (returns the new count, raises exception 7 at 2 — after nothing changed),
    1 = `boom` (increments and THEN raises exception 8), anything else is refused by the gate (exception 9). -/
def counter : Obj Nat Nat Nat Nat Nat where
  gate := fun _ n => if n ≤ 1 then none else some 9
  apply := fun s n a =>
    if n = 0 then (if s + a ≤ 2 then (s + a, .ok (s + a)) else (s, .exc 7))
    else (s + 1, .exc 8)

example : clientBatch none counter false 0 [(0, 1), (0, 1), (0, 1), (0, 1)] = (2, .stream [1, 2] (some 7)) := by decide
example : sequential counter 0 [(0, 1), (0, 1), (0, 1), (0, 1)] = (2, [1, 2], some (.raised 7)) := by decide
example : clientBatch none counter false 0 [(0, 1), (1, 0), (0, 1)] = (2, .stream [1] (some 8)) := by decide
example : clientBatch none counter false 0 [(0, 1), (5, 0), (0, 1)] = (1, .submitRaised 9) := by decide
example : clientBatch none counter true 0 [(0, 1), (1, 0), (0, 1)] = (2, .nothing) := by decide
example : clientBatch none counter false 0 [(0, 1), (0, 1)] = (2, .stream [1, 2] none) := by decide
example : (clientBatch none (withLog counter) false (0, []) [(0, 1), (1, 0), (0, 1)]).1 = (2, [(0, 1), (1, 0)]) := by decide
/-- hypotheses of `C11_stops` are satisfiable with a non-empty prefix and a non-empty rest -/
example : sequential counter 0 [(0, 1)] = (1, [1], none) ∧ (∀ v, (serverCall counter 1 (1, 0)).2 ≠ CallOut.ok v) := by
  refine ⟨by decide, ?_⟩
  intro v
  rw [show (serverCall counter 1 (1, 0)).2 = CallOut.raised 8 by decide]
  intro h; cases h

end Pyro.C11
