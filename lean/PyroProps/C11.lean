/-
  C11 — A batch behaves like the same calls made one after another.

  Property theorems about `PyroModel.Batch` (model of server.py:439-453, core.py:145-162,
  client.py:437-441 and 571-628).  Quantifiers: EVERY remote object (`o : Obj …` is an arbitrary
  deterministic state machine with an arbitrary, possibly state dependent, exposure gate), every start
  state, every list of calls (no length bound), normal and oneway mode.  The serializer enters through
  `pre` (does `dumpsCall(…, kwargs=None)` succeed on the client); the obligations `C11_gen_…` re-prove,
  from facts extracted from the current source, that it does for all four serializers and that the real code,
  probed on a fixed table of requests and result lists, does what the model says.
-/
import PyroModel.Batch
import PyroModel.Gen.C11
import PyroProofs.Batch

namespace Pyro.C11

open Pyro.Batch

variable {St Name Arg Val Exc : Type}

/-- **Refinement.**  For every object, start state and call list: submitting the calls as one batch leaves
    the remote object in exactly the state the one-by-one run leaves it in, and the caller sees exactly what
    the sequential outcome prescribes (`expected`): the same values in the same order; if a method raised,
    that exception right after the values of the calls before it; if the exposure gate refused a name, that
    AttributeError when the batch is submitted. -/
theorem C11_refines (o : Obj St Name Arg Val Exc) (s : St) (cs : List (Name × Arg)) :
    clientBatch none o false s cs = ((sequential o s cs).1, expected (sequential o s cs).2) := by
  unfold clientBatch serverBatch
  simp only [batchLoop_sequential]
  generalize sequential o s cs = q
  obtain ⟨s', vs, f⟩ := q
  cases f with
  | none =>
    have h := resultsGen_vals (Exc := Exc) vs []
    simp only [List.append_nil] at h
    simp [loopOf, expected, h, resultsGen]
  | some f =>
    cases f with
    | gate e => simp [loopOf, expected]
    | raised e =>
      have h := resultsGen_vals vs [Item.wrapped e]
      simp [loopOf, expected, h, resultsGen]

/-- **Oneway.**  A oneway batch executes exactly the same prefix of calls (same final state as the
    sequential run, which stops at the first failure) and the caller gets nothing back — no result,
    no exception. -/
theorem C11_oneway (o : Obj St Name Arg Val Exc) (s : St) (cs : List (Name × Arg)) :
    clientBatch none o true s cs = ((sequential o s cs).1, Seen.nothing) := by
  unfold clientBatch serverBatch
  simp only [batchLoop_sequential]
  generalize loopOf [] (sequential o s cs).2 = r
  cases r <;> simp

/-- **Results agree position by position.**  Whenever the batch caller gets a result stream, the values
    yielded are exactly the sequential values (so the i-th yielded value is the i-th call's value), and
    the stream ends in an exception iff the sequential run ended in a method's exception — the same one,
    at the same position (after `vs.length` values). -/
theorem C11_positions (o : Obj St Name Arg Val Exc) (s : St) (cs : List (Name × Arg))
    (ys : List Val) (r : Option Exc)
    (h : (clientBatch none o false s cs).2 = Seen.stream ys r) :
    ys = (sequential o s cs).2.1 ∧
    ((r = none ∧ (sequential o s cs).2.2 = none ∧ ys.length = cs.length) ∨
     (∃ e, r = some e ∧ (sequential o s cs).2.2 = some (Fail.raised e) ∧ ys.length < cs.length)) := by
  rw [C11_refines] at h
  have hl := sequential_length o cs s
  generalize sequential o s cs = q at h hl
  obtain ⟨s', vs, f⟩ := q
  cases f with
  | none =>
    simp only [expected, Seen.stream.injEq] at h
    obtain ⟨rfl, rfl⟩ := h
    exact ⟨rfl, Or.inl ⟨rfl, rfl, hl.2.1 rfl⟩⟩
  | some f =>
    cases f with
    | gate e => simp [expected] at h
    | raised e =>
      simp only [expected, Seen.stream.injEq] at h
      obtain ⟨rfl, rfl⟩ := h
      exact ⟨rfl, Or.inr ⟨e, rfl, rfl, hl.2.2 (by simp)⟩⟩

/-- **A submission failure is the gate's exception of the first refused call.**  If `batch()` itself raises,
    the sequential run ended with exactly that exception, raised by the exposure gate for the call at
    position `vs.length` — the calls before it were executed (state as in the sequential run). -/
theorem C11_submit_failure (o : Obj St Name Arg Val Exc) (s : St) (cs : List (Name × Arg)) (e : Exc)
    (h : (clientBatch none o false s cs).2 = Seen.submitRaised e) :
    (sequential o s cs).2.2 = some (Fail.gate e) ∧
    (clientBatch none o false s cs).1 = (sequential o s cs).1 := by
  rw [C11_refines] at h ⊢
  generalize sequential o s cs = q at h
  obtain ⟨s', vs, f⟩ := q
  cases f with
  | none => simp [expected] at h
  | some f =>
    cases f with
    | gate e' => simp only [expected, Seen.submitRaised.injEq] at h; subst h; exact ⟨rfl, rfl⟩
    | raised e' => simp [expected] at h

/-- **Nothing after the first failure executes.**  If the calls `pre` all succeed one by one and the next
    call `c` fails (gate or method), then whatever follows `c` in the batch is irrelevant: state of the
    object and everything the caller sees are those of the batch cut off after `c`.  (Holds for every
    object, in particular for one that records every call — see `C11_executed_prefix`.) -/
theorem C11_stops (o : Obj St Name Arg Val Exc) (oneway : Bool) (s s1 : St) (vs : List Val)
    (pre post : List (Name × Arg)) (c : Name × Arg)
    (hpre : sequential o s pre = (s1, vs, none))
    (hc : ∀ v, (serverCall o s1 c).2 ≠ CallOut.ok v) :
    clientBatch none o oneway s (pre ++ c :: post) = clientBatch none o oneway s (pre ++ [c]) := by
  have hseq : sequential o s (pre ++ c :: post) = sequential o s (pre ++ [c]) := by
    rw [sequential_append o pre (c :: post) s s1 vs hpre, sequential_append o pre [c] s s1 vs hpre,
      sequential_stops o s1 c post hc]
  cases oneway with
  | false => rw [C11_refines, C11_refines, hseq]
  | true => rw [C11_oneway, C11_oneway, hseq]

/-- **Executed calls form the sequential prefix.**  Run the batch against the same object instrumented with
    a log of every call that reached its method.  The log grows by `cs.take k` where `k` is: all calls if
    none failed; the calls before the failing one plus the failing one if its method raised; only the calls
    before it if the gate refused it.  In both modes. -/
theorem C11_executed_prefix (o : Obj St Name Arg Val Exc) (oneway : Bool) (s : St)
    (l cs : List (Name × Arg)) :
    (clientBatch none (withLog o) oneway (s, l) cs).1 =
      ((sequential o s cs).1, l ++ cs.take (ranCount cs.length (sequential o s cs).2)) := by
  cases oneway with
  | false => rw [C11_refines, sequential_withLog]
  | true => rw [C11_oneway, sequential_withLog]

/-- **Programs over several BatchProxy objects (record / copy / submit).**  For every object, start state, initial
    call lists and program: running the program with real batches equals running it with every `submit` replaced
    by the one-by-one run of exactly the calls recorded on that BatchProxy since its creation (by copy: the calls its
    original held at that moment) or its last submit — state of the object and everything seen at every submit.
    In particular a call recorded on a copy never runs when the original is submitted, and nothing runs twice. -/
theorem C11_program (o : Obj St Name Arg Val Exc) :
    ∀ (ops : List (BOp Name Arg)) (s : St) (lists : List (List (Name × Arg))),
      runProg none o s lists ops = specProg o s lists ops := by
  intro ops
  induction ops with
  | nil => intro s lists; simp [runProg, specProg]
  | cons op ops ih =>
    intro s lists
    cases op with
    | record i c => simp only [runProg, specProg]; exact ih _ _
    | copy i => simp only [runProg, specProg]; exact ih _ _
    | submit i ow =>
      simp only [runProg, specProg]
      cases ow with
      | false => rw [C11_refines, ih]; simp
      | true => rw [C11_oneway, ih]; simp

/-- **The sequential reference is what it claims to be.**  A failing sequential run splits the call list
    into calls that all returned (`vs` are their values), the call that failed from the state reached, and
    an unexecuted rest.  (Guards against a vacuous reference.) -/
theorem C11_sequential_spec (o : Obj St Name Arg Val Exc) :
    ∀ (cs : List (Name × Arg)) (s s' : St) (vs : List Val) (f : Fail Exc),
      sequential o s cs = (s', vs, some f) →
      ∃ pre c post s1, cs = pre ++ c :: post ∧ pre.length = vs.length ∧
        sequential o s pre = (s1, vs, none) ∧
        serverCall o s1 c = (s', match f with | .gate e => CallOut.gateErr e | .raised e => CallOut.raised e) := by
  intro cs
  induction cs with
  | nil => intro s s' vs f h; simp [sequential] at h
  | cons c rest ih =>
    intro s s' vs f h
    rw [sequential_cons] at h
    cases hc : serverCall o s c with
    | mk s1 r =>
      rw [hc] at h
      cases r with
      | gateErr e =>
        simp only [Prod.mk.injEq, Option.some.injEq] at h
        obtain ⟨rfl, rfl, rfl⟩ := h
        exact ⟨[], c, rest, s, rfl, rfl, rfl, hc⟩
      | raised e =>
        simp only [Prod.mk.injEq, Option.some.injEq] at h
        obtain ⟨rfl, rfl, rfl⟩ := h
        exact ⟨[], c, rest, s, rfl, rfl, rfl, hc⟩
      | ok v =>
        simp only at h
        generalize hq : sequential o s1 rest = q at h
        obtain ⟨s2, vs2, f2⟩ := q
        simp only [Prod.mk.injEq] at h
        obtain ⟨rfl, rfl, rfl⟩ := h
        obtain ⟨pre, c', post, s3, hcs, hlen, hp, hcall⟩ := ih s1 s2 vs2 f hq
        refine ⟨c :: pre, c', post, s3, by rw [hcs]; rfl, by simp [hlen], ?_, hcall⟩
        rw [sequential_cons, hc]
        simp only [hp]

/-- **Client-side serialisation failure** (the shape of finding F11, marshal with `kwargs=None`): if
    `dumpsCall` raises, the batch fails at submission with that exception and the remote object is not
    touched — for a call list whose sequential run changes the state or returns values this is NOT what
    C11 demands, which is why `C11_gen_dumpsCall_accepts_no_kwargs` below is an obligation. -/
theorem C11_pre_failure (o : Obj St Name Arg Val Exc) (oneway : Bool) (s : St) (cs : List (Name × Arg)) (e : Exc) :
    clientBatch (some e) o oneway s cs = (s, Seen.submitRaised e) := rfl

/-- The full statement of C11 for a serializer whose client-side step is `pre`. -/
def C11_Statement (pre : Option Exc) : Prop :=
  ∀ (St Name Arg Val : Type) (o : Obj St Name Arg Val Exc) (s : St) (cs : List (Name × Arg)),
    clientBatch pre o false s cs = ((sequential o s cs).1, expected (sequential o s cs).2) ∧
    clientBatch pre o true s cs = ((sequential o s cs).1, Seen.nothing)

/-- C11 holds for every serializer whose `dumpsCall` accepts the batch request. -/
theorem C11_statement_holds : C11_Statement (Exc := Exc) none :=
  fun _ _ _ _ o s cs => ⟨C11_refines o s cs, C11_oneway o s cs⟩

/-- …and fails for a serializer whose `dumpsCall` raises (witness: the empty batch on a one-state object:
    sequentially nothing happens and nothing is raised, the batch raises). -/
theorem C11_statement_fails_when_pre_raises (e : Exc) : ¬ C11_Statement (some e) := by
  intro h
  have := (h Unit Unit Unit Unit ⟨fun _ _ => none, fun _ _ _ => ((), .ok ())⟩ () []).1
  simp [clientBatch, sequential, expected] at this

/-! ### Obligations about facts extracted from the current source (`PyroModel/Gen/C11.lean`) -/

open Pyro.Gen.C11 in
/-- every serializer's `dumpsCall(obj, "<batch>", calls, None)` succeeds (so `pre = none` for all of them;
    on the tree before the F11 fix this fails for marshal) -/
theorem C11_gen_dumpsCall_accepts_no_kwargs :
    dumpsCallNoKwargs.map (·.1) = ["json", "marshal", "msgpack", "serpent"] ∧
    ∀ p ∈ dumpsCallNoKwargs, p.2 = true := by decide

open Pyro.Gen.C11 in
/-- every serializer transports the reply list of a batch with the exception wrapper in it (the model's
    `Reply.results items` reaches `resultsGen` unchanged; on the tree before the marshal fix of
    `convert_obj_into_marshallable` this fails for marshal: `ValueError: unmarshallable object`) -/
theorem C11_gen_wrapper_transportable :
    wrapperInReplyList.map (·.1) = ["json", "marshal", "msgpack", "serpent"] ∧
    ∀ p ∈ wrapperInReplyList, p.2 = true := by decide

/-! #### Behavioural probes of the real code (taken by the extractor on every run) against the model

`probeObj` is the model of the extractor's probe object (harness/props/c11_extract.py, class Probe): the state is the
number of calls executed; name 0 `ok` returns its argument, 1 `boom` raises exception `a` (ValueError(a)), 2 `unsend`
raises an exception whose instance cannot be serialised (as sent: 900, the describing PyroError); the gate refuses
3 (unexposed, 103), 4 (private, 101) and everything else (missing, 102).  All of them count the execution first. -/

def probeObj : Obj Nat Nat Nat Nat Nat where
  gate := fun _ n => if n ≤ 2 then none else if n = 3 then some 103 else if n = 4 then some 101 else some 102
  apply := fun s n a => if n = 0 then (s + 1, .ok a) else if n = 1 then (s + 1, .exc a) else (s + 1, .exc 900)

def encItem : Item Nat Nat → Nat
  | .val v => 2 * v
  | .wrapped e => 2 * e + 1

def decItem (t : Nat) : Item Nat Nat := if t % 2 = 0 then .val (t / 2) else .wrapped (t / 2)

/-- wire form of a reply as the extractor prints it: nothing | exception response | result list with FLAGS_BATCH -/
def encReply : Option (Reply Nat Nat) → List Nat
  | none => []
  | some (.error e) => [0, e]
  | some (.results items) => 1 :: items.map encItem

def encCallOut : CallOut Nat Nat → List Nat
  | .ok v => [2, v]
  | .gateErr e => [0, e]
  | .raised e => [0, e]

open Pyro.Gen.C11 in
/-- The real `Daemon.handleRequest`, driven with real batch requests (normal and oneway) for the fixed scenario
    table, did exactly what `serverBatch` says for `probeObj`: same number of executed calls at the moment
    handleRequest returned (stop at the first failure; a oneway batch runs in-line), same reply on the wire
    (result list in call order with the wrapper last and FLAGS_BATCH set; the gate's AttributeError as an
    exception response with the collected results dropped; nothing at all for oneway; the describing PyroError
    for an exception instance that cannot be serialised). -/
theorem C11_gen_server_probes :
    serverProbes.map (fun p => (p.1, p.2.1)) =
      [(false, []), (false, [(0, 1), (0, 2), (0, 3)]), (false, [(0, 1), (1, 7), (0, 3)]), (false, [(1, 7), (0, 1)]),
       (false, [(0, 1), (3, 0), (0, 3)]), (false, [(0, 1), (0, 2), (4, 0), (0, 3)]), (false, [(5, 0), (0, 1)]),
       (false, [(0, 1), (2, 0), (0, 2)]),
       (true, []), (true, [(0, 1), (0, 2), (0, 3)]), (true, [(0, 1), (1, 7), (0, 3)]), (true, [(0, 1), (3, 0), (0, 3)])] ∧
    serverProbes.all (fun p =>
      ((serverBatch probeObj p.1 0 p.2.1).1, encReply (serverBatch probeObj p.1 0 p.2.1).2) == (p.2.2.1, p.2.2.2)) = true := by
  decide

open Pyro.Gen.C11 in
/-- Plain single calls on the real `handleRequest` answer as `serverCall` says: the same gate exceptions as inside a
    batch, a raised exception as an exception response, and the same describing PyroError (900) for the
    unserialisable instance as the batch member got — the "exception as sent" is one function on both paths. -/
theorem C11_gen_single_probes :
    singleProbes.map (·.1) = [(0, 5), (1, 7), (2, 0), (3, 0), (4, 0), (5, 0)] ∧
    singleProbes.all (fun p =>
      ((serverCall probeObj 0 p.1).1, encCallOut (serverCall probeObj 0 p.1).2) == (p.2.1, p.2.2)) = true := by
  decide

open Pyro.Gen.C11 in
/-- What a caller got out of a real `BatchProxy` (over a scripted proxy) for the fixed table of result lists is what
    `resultsGen` says: values in order up to the first wrapper, then that wrapper's exception; an exception OBJECT
    that is a plain value (ids 50, 51) is yielded like any other value. -/
theorem C11_gen_generator_probes :
    generatorProbes.map (·.1) =
      [[], [2, 4, 6], [2, 15, 6], [15], [2, 4, 19], [2, 100, 4], [102, 15], [104, 106, 2]] ∧
    generatorProbes.all (fun p => resultsGen (p.1.map decItem) == (p.2.1, p.2.2)) = true := by
  decide

open Pyro.Gen.C11 in
/-- Observed from outside on the real classes: `_BatchedRemoteMethod`/`BatchProxy` forward the collected calls in call
    order with their arguments (a dotted name as one name), submit once per `batch()` and start over with an empty
    list, `oneway=True` is forwarded and returns `None`; `Proxy._pyroInvokeBatch` sends one `<batch>` request with
    the calls and FLAGS_BATCH (| FLAGS_ONEWAY iff oneway); `_ExceptionWrapper.raiseIt` raises the wrapped object. -/
theorem C11_gen_client_facts :
    clientFacts.map (·.1) =
      ["calls-forwarded-in-call-order-with-args-and-kwargs", "dotted-name-forwarded-as-one-name",
       "normal-submit-is-not-oneway-and-returns-the-results", "one-submit-per-call-and-list-cleared-after-submit",
       "oneway-forwarded-and-returns-None",
       "invokeBatch-sends-one-<batch>-request-with-the-calls-and-hands-back-the-reply",
       "invokeBatch-flags-batch-and-oneway-iff-oneway", "raiseIt-raises-the-wrapped-exception-object"] ∧
    ∀ p ∈ clientFacts, p.2 = true := by decide

/-! ### Non-vacuity: a concrete stateful object (a counter that refuses to go above 2) -/

/-- names: 0 = `inc` (returns the new count, raises exception 7 at 2 — after nothing changed),
    1 = `boom` (increments and THEN raises exception 8), anything else is refused by the gate (exception 9). -/
def counter : Obj Nat Nat Nat Nat Nat where
  gate := fun _ n => if n ≤ 1 then none else some 9
  apply := fun s n a =>
    if n = 0 then (if s + a ≤ 2 then (s + a, .ok (s + a)) else (s, .exc 7))
    else (s + 1, .exc 8)

example : clientBatch none counter false 0 [(0, 1), (0, 1), (0, 1), (0, 1)] = (2, .stream [1, 2] (some 7)) := by decide
example : sequential counter 0 [(0, 1), (0, 1), (0, 1), (0, 1)] = (2, [1, 2], some (.raised 7)) := by decide
example : clientBatch none counter false 0 [(0, 1), (1, 0), (0, 1)] = (2, .stream [1] (some 8)) := by decide
example : clientBatch none counter false 0 [(0, 1), (5, 0), (0, 1)] = (1, .submitRaised 9) := by decide
example : clientBatch none counter true 0 [(0, 1), (1, 0), (0, 1)] = (2, .nothing) := by decide
example : clientBatch none counter false 0 [(0, 1), (0, 1)] = (2, .stream [1, 2] none) := by decide
example : (clientBatch none (withLog counter) false (0, []) [(0, 1), (1, 0), (0, 1)]).1 = (2, [(0, 1), (1, 0)]) := by decide
/-- a program: record on 0, copy it, record on the copy, submit the original (runs only its own call), submit the copy -/
example : runProg none counter 0 [[]] [.record 0 (0, 1), .copy 0, .record 1 (0, 1), .submit 0 false, .submit 1 false] =
    (2, [.stream [1] none, .stream [2] (some 7)]) := by decide
/-- hypotheses of `C11_stops` are satisfiable with a non-empty prefix and a non-empty rest -/
example : sequential counter 0 [(0, 1)] = (1, [1], none) ∧ (∀ v, (serverCall counter 1 (1, 0)).2 ≠ CallOut.ok v) := by
  refine ⟨by decide, ?_⟩
  intro v
  rw [show (serverCall counter 1 (1, 0)).2 = CallOut.raised 8 by decide]
  intro h; cases h

end Pyro.C11
