/-
  C19 — URIs have one canonical text form that parses back to the same URI.
  Property theorems about `PyroModel.Uri` (model of Pyro5/core.py:29-142, with the two parse-time guards of
  fixes/C19-reparse.patch present: `Guards.on`).
  Quantifiers: every input string (any code points), every NS_PORT at the sender and at the receiver,
  every iteration order of the PYROMETA tag set (any permutation), every tuple hash.
-/
import PyroModel.Uri
import PyroProofs.UriLemmas
import PyroProofs.UriParse
import PyroModel.Gen.C19

namespace Pyro.C19

open Pyro Pyro.Uri

/-- decidable equality of parse results (for the `decide`d examples and witnesses only) -/
instance : DecidableEq (Except Err Uri) := fun a b =>
  match a, b with
  | .ok x, .ok y => if h : x = y then isTrue (by rw [h]) else isFalse (fun e => h (Except.ok.inj e))
  | .error x, .error y => if h : x = y then isTrue (by rw [h]) else isFalse (fun e => h (Except.error.inj e))
  | .ok _, .error _ => isFalse (fun e => by cases e)
  | .error _, .ok _ => isFalse (fun e => by cases e)

/-- **C19_parse_valid.**  Every URI the parser builds satisfies the invariant `Valid`
    (non-empty white-space-free object whose `@`s cannot be mistaken for the location separator;
    non-empty LF-free host / socket name; a host with `:` is a bracketable IPv6 literal with a
    non-negative port; a host without `:` is neither empty, `./u`, nor starts with `[`; a tag set is
    non-empty, not `{""}`, its tags free of white space, `,` and `@`; PYRO always has a location). -/
theorem C19_parse_valid (nsPort : Nat) (s : Text) (u : Uri)
    (h : parse Guards.on nsPort s = .ok u) : Valid u :=
  parse_valid nsPort s u h

/-- **C19_reparse.**  The text form of a valid URI — with the tag set printed in ANY order — is accepted
    again and parses to the same state, whatever default port the receiver is configured with. -/
theorem C19_reparse (u : Uri) (hv : Valid u) (order : List Text) (ho : OrderOK u order) (nsPort' : Nat) :
    parse Guards.on nsPort' (render u order) = .ok u :=
  parse_render nsPort' u order hv ho

/-- **C19_roundtrip.**  Every string the parser accepts yields a URI whose text form is accepted again
    and parses to an equal URI (the first sentence of the property). -/
theorem C19_roundtrip (nsPort nsPort' : Nat) (s : Text) (u : Uri) (order : List Text)
    (h : parse Guards.on nsPort s = .ok u) (ho : OrderOK u order) :
    parse Guards.on nsPort' (render u order) = .ok u :=
  C19_reparse u (C19_parse_valid nsPort s u h) order ho nsPort'

/-- **C19_fixpoint.**  The text form is a fixed point: whatever the re-parse of `str(u)` yields prints
    (for the same iteration order) as `str(u)` again. -/
theorem C19_fixpoint (nsPort nsPort' : Nat) (s : Text) (u v : Uri) (order : List Text)
    (h : parse Guards.on nsPort s = .ok u) (ho : OrderOK u order)
    (hv : parse Guards.on nsPort' (render u order) = .ok v) :
    v = u ∧ render v order = render u order := by
  have := C19_roundtrip nsPort nsPort' s u order h ho
  rw [this] at hv
  simp only [Except.ok.injEq] at hv
  subst hv
  exact ⟨rfl, rfl⟩

/-- **C19_text_injective.**  One canonical text form: two valid URIs that print alike (each in some
    order of its tags) are the same URI. -/
theorem C19_text_injective (u v : Uri) (hu : Valid u) (hv : Valid v) (ou ov : List Text)
    (hou : OrderOK u ou) (hov : OrderOK v ov) (h : render u ou = render v ov) : u = v := by
  have a := C19_reparse u hu ou hou 0
  have b := C19_reparse v hv ov hov 0
  rw [h, b] at a
  simp only [Except.ok.injEq] at a
  exact a.symm

theorem getstate_injective (u v : Uri) (h : getstate u = getstate v) : u = v := by
  obtain ⟨ku, lu⟩ := u
  obtain ⟨kv, lv⟩ := v
  have h1 := congrArg State.protocol h
  have h2 := congrArg State.object h
  have h3 := congrArg State.sockname h
  have h4 := congrArg State.host h
  have h5 := congrArg State.port h
  have hk : ku = kv := by
    cases ku <;> cases kv <;> first
      | (simp only [getstate, Kind.protoText] at h1; exact absurd h1 (by decide))
      | (simp only [getstate, ObjVal.str.injEq, ObjVal.set.injEq] at h2; rw [h2])
  have hl : lu = lv := by
    cases lu <;> cases lv <;> simp only [getstate] at h3 h4 h5
    all_goals first
      | rfl
      | (cases h3; done)
      | (cases h4; done)
      | (cases h3; rfl)
      | (cases h4; cases h5; rfl)
  rw [hk, hl]

/-- **C19_eq_hash.**  `==` is equality of the visible state (protocol, object, socket name, host, port);
    equal URIs have equal hashes (for any hash of the state tuple; both are "unhashable" for PYROMETA,
    whose state holds a set). -/
theorem C19_eq_hash (h : State → Nat) (u v : Uri) :
    (eqUri u v = true ↔ u = v) ∧ (eqUri u v = true → hashUri h u = hashUri h v) := by
  have key : eqUri u v = true ↔ u = v := by
    simp only [eqUri, decide_eq_true_eq]
    exact ⟨getstate_injective u v, fun e => by rw [e]⟩
  exact ⟨key, fun e => by rw [key.1 e]⟩

/-- **C19_unequal_locations.**  URIs whose `location` texts differ never compare equal; and for valid
    locations the `location` text determines socket name / host / port. -/
theorem C19_unequal_locations (u v : Uri) :
    (renderLoc u.loc ≠ renderLoc v.loc → eqUri u v = false) ∧
    (LocOK u.loc → LocOK v.loc → renderLoc u.loc = renderLoc v.loc → u.loc = v.loc) := by
  constructor
  · intro hne
    cases he : eqUri u v with
    | false => rfl
    | true =>
      have := (C19_eq_hash (fun _ => 0) u v).1.1 he
      rw [this] at hne
      exact absurd rfl hne
  · intro hu hv he
    have a := (parseLocation_render Guards.on none u.loc hu).1
    have b := (parseLocation_render Guards.on none v.loc hv).1
    rw [he, b] at a
    simp only [Except.ok.injEq] at a
    exact a.symm

/-- **C19_transport.**  A URI, or a proxy state (which carries `str(uri)`, client.py:128-134), that travels
    through any channel delivering text unchanged — a serializer (C01 on `str`), or the name server, which
    stores the text and re-parses it on lookup (nameserver.py:287-318) — designates the same state at a
    receiver with any NS_PORT. -/
theorem C19_transport (nsPort nsPort' : Nat) (s : Text) (u : Uri) (order : List Text)
    (channel : Text → Text) (hch : channel (render u order) = render u order)
    (h : parse Guards.on nsPort s = .ok u) (ho : OrderOK u order) :
    parse Guards.on nsPort' (channel (render u order)) = .ok u := by
  rw [hch]; exact C19_roundtrip nsPort nsPort' s u order h ho

/-- **C19_state_transport.**  A URI object travels as its state tuple (serializers.py: `"state": obj.__getstate__()`,
    rebuilt by `__setstate__`).  Through any channel that delivers the state tuple unchanged, the rebuilt URI is
    the one sent: equal, `==` true, and hashed alike (both unhashable for PYROMETA). -/
theorem C19_state_transport (h : State → Nat) (channel : State → State) (u v : Uri)
    (hch : channel (getstate u) = getstate u) (hv : getstate v = channel (getstate u)) :
    v = u ∧ eqUri v u = true ∧ hashUri h v = hashUri h u := by
  have e : v = u := getstate_injective v u (by rw [hv, hch])
  subst e
  exact ⟨rfl, (C19_eq_hash h v v).1.2 rfl, rfl⟩

/-- the uris a history assigns are valid (each came out of the parser / of `resolve`) -/
def OpsValid : List ProxyOp → Prop
  | [] => True
  | .setUri v :: r => Valid v ∧ OpsValid r
  | _ :: r => OpsValid r

/-- **C19_proxy_history.**  Along every history of a proxy — sent through a serializer, copied, its uri
    replaced (bind), in any order and number — each delivered proxy holds exactly the uri that was current
    when it was sent/copied (never an earlier one), for every tag iteration order and receiver NS_PORT. -/
theorem C19_proxy_history (nsPort' : Nat) (orderOf : Uri → List Text) (ho : ∀ w, OrderOK w (orderOf w)) :
    ∀ (ops : List ProxyOp) (u : Uri), Valid u → OpsValid ops →
      proxyRun Guards.on nsPort' orderOf u ops = (proxyExpect u ops).map Except.ok := by
  intro ops
  induction ops with
  | nil => intro u _ _; rfl
  | cons op r ih =>
    intro u hu hv
    cases op with
    | send =>
      simp only [proxyRun, proxyExpect, List.map_cons, proxyFromState, proxyStateText]
      rw [C19_reparse u hu (orderOf u) (ho u) nsPort', ih u hu hv]
    | copy =>
      simp only [proxyRun, proxyExpect, List.map_cons, proxyFromState, proxyStateText]
      rw [C19_reparse u hu (orderOf u) (ho u) nsPort', ih u hu hv]
    | setUri v =>
      simp only [proxyRun, proxyExpect]
      exact ih v hv.1 hv.2

/-- **C19_int_roundtrip.**  The modelled `int()` reads back every port that `"%d"` prints
    (the law of the external `int`/`%d` pair used by the theorems above, proved for the model). -/
theorem C19_int_roundtrip (p : Int) : pyInt (renderInt p) = some p := pyInt_renderInt p

/-! ### the unguarded parser (the tree before fixes/C19-reparse.patch): the full statement is false -/

/-- the round-trip statement for a given set of guards -/
def RoundTripStatement (g : Guards) : Prop :=
  ∀ (nsPort : Nat) (s : Text) (u : Uri) (order : List Text),
    parse g nsPort s = .ok u → OrderOK u order → parse g nsPort (render u order) = .ok u

theorem C19_roundtrip_guarded : RoundTripStatement Guards.on :=
  fun nsPort s u order h ho => C19_roundtrip nsPort nsPort s u order h ho

/-- "PYRO:o@:55" -/          def w1 : Text := [80, 89, 82, 79, 58, 111, 64, 58, 53, 53]
/-- "PYRONAME:o@:9090" -/    def w2 : Text := [80, 89, 82, 79, 78, 65, 77, 69, 58, 111, 64, 58, 57, 48, 57, 48]
/-- "PYROMETA:," -/          def w3 : Text := [80, 89, 82, 79, 77, 69, 84, 65, 58, 44]
/-- "PYRONAME:x@./u" -/      def w4 : Text := [80, 89, 82, 79, 78, 65, 77, 69, 58, 120, 64, 46, 47, 117]
/-- "PYROMETA:b,a@" -/       def w5 : Text := [80, 89, 82, 79, 77, 69, 84, 65, 58, 98, 44, 97, 64]

/-- **C19_unguarded_fails.**  Without the guards each witness is accepted and prints to a text that is
    rejected or parses to a different URI (findings F19, replayed on the real code by the oracle):
    empty host, all-empty tag set, host `./u`, a tag holding `@`; with the guards all five are rejected. -/
theorem C19_unguarded_fails :
    (parse Guards.off 9090 w1 = .ok ⟨.pyro [111], .tcp [] 55⟩ ∧
      parse Guards.off 9090 (render ⟨.pyro [111], .tcp [] 55⟩ []) = .error .invalid) ∧
    (parse Guards.off 9090 w2 = .ok ⟨.pyroname [111], .tcp [] 9090⟩ ∧
      parse Guards.off 9090 (render ⟨.pyroname [111], .tcp [] 9090⟩ []) = .ok ⟨.pyroname [111], .none⟩) ∧
    (parse Guards.off 9090 w3 = .ok ⟨.pyrometa [[]], .none⟩ ∧
      parse Guards.off 9090 (render ⟨.pyrometa [[]], .none⟩ [[]]) = .error .invalid) ∧
    (parse Guards.off 9090 w4 = .ok ⟨.pyroname [120], .tcp [46, 47, 117] 9090⟩ ∧
      parse Guards.off 9090 (render ⟨.pyroname [120], .tcp [46, 47, 117] 9090⟩ []) =
        .ok ⟨.pyroname [120], .sock [57, 48, 57, 48]⟩) ∧
    (parse Guards.off 9090 w5 = .ok ⟨.pyrometa [[97, 64], [98]], .none⟩ ∧
      parse Guards.off 9090 (render ⟨.pyrometa [[97, 64], [98]], .none⟩ [[97, 64], [98]]) =
        .ok ⟨.pyrometa [[97]], .tcp [44, 98] 9090⟩) ∧
    (∀ w ∈ [w1, w2, w3, w4, w5], (parse Guards.on 9090 w).toBool = false) := by
  decide

theorem C19_roundtrip_unguarded_false : ¬ RoundTripStatement Guards.off := by
  intro h
  have h1 := h 9090 w1 ⟨.pyro [111], .tcp [] 55⟩ [] C19_unguarded_fails.1.1 trivial
  rw [C19_unguarded_fails.1.2] at h1
  cases h1

/-! ### obligations about the extracted facts (PyroModel/Gen/C19.lean, regenerated from /repo on every run)
    The facts are behaviour tables PROBED on the imported classes (not the spelling of the source): the
    obligations say that the model reproduces every probed outcome. -/

/-- the model parses the probe input to the probed result, prints it to the probed text and location -/
def parseProbeOK (nsPort : Nat) (t : Text × Except Err Uri × Text × Option Text) : Bool :=
  decide (parse Guards.on nsPort t.1 = t.2.1) &&
  (match t.2.1 with
   | .ok u => decide (render u u.tagOrder = t.2.2.1) && decide (renderLoc u.loc = t.2.2.2)
   | .error _ => true)

/-- the model's `==` on the two parsed probe inputs is the probed `URI(a) == URI(b)` -/
def eqProbeOK (nsPort : Nat) (t : Text × Text × Bool) : Bool :=
  match parse Guards.on nsPort t.1, parse Guards.on nsPort t.2.1 with
  | .ok u, .ok v => eqUri u v == t.2.2
  | _, _ => false

/-- the model's hash is defined exactly when the probed `hash(URI(a))` is -/
def hashProbeOK (nsPort : Nat) (t : Text × Bool) : Bool :=
  match parse Guards.on nsPort t.1 with
  | .ok u => (hashUri (fun _ => 0) u).isSome == t.2
  | .error _ => false

/-- the model's proxy state path delivers what the real Proxy delivered along the probed history -/
def proxyProbeOK (nsPort : Nat) (t : Uri × List ProxyOp × List (Except Err Uri)) : Bool :=
  decide (proxyRun Guards.on nsPort Uri.tagOrder t.1 t.2.1 = t.2.2)

/-- **C19_gen_facts.**  The real classes still behave the way the model was written: the main regular
    expression (pattern, no flags) and — when the extractor can resolve it — the bracketed-location pattern;
    both parse-time guards are in force; on every probe string `URI(s)` does (accept with this state / refuse
    with this kind of error), prints and reports `location` exactly as `parse`/`render`/`renderLoc` do with the
    default NS_PORT; `==` and hashability on the probe pairs are the model's; equal probe URIs hashed alike;
    `Proxy.__getstate__()[0]` is the text `str(uri)`, and along the probed proxy histories (state pair,
    `copy.copy`, uri replaced) the delivered uris are the model's `proxyRun`; a URI object sent through each
    installed serializer arrives equal (tags in the codec's list type where the codec has no set type). -/
theorem C19_gen_facts :
    Pyro.Gen.C19.uriRegex = "(?P<protocol>[Pp][Yy][Rr][Oo][a-zA-Z]*):(?P<object>\\S+?)(@(?P<location>.+))?$" ∧
    Pyro.Gen.C19.uriRegexFlags = 32 ∧
    ((Pyro.Gen.C19.ipv6Regex = "\\[([0-9a-fA-F:%]+)](:(\\d+))?" ∧ Pyro.Gen.C19.ipv6RegexFlags = 32) ∨
      Pyro.Gen.C19.ipv6Regex = "<unresolved>") ∧
    (⟨Pyro.Gen.C19.guardHost, Pyro.Gen.C19.guardTags⟩ : Guards) = Guards.on ∧
    40 ≤ Pyro.Gen.C19.parseProbes.length ∧
    Pyro.Gen.C19.parseProbes.all (parseProbeOK Pyro.Gen.C19.nsPortDefault) = true ∧
    10 ≤ Pyro.Gen.C19.eqProbes.length ∧
    Pyro.Gen.C19.eqProbes.all (eqProbeOK Pyro.Gen.C19.nsPortDefault) = true ∧
    Pyro.Gen.C19.hashProbes.all (hashProbeOK Pyro.Gen.C19.nsPortDefault) = true ∧
    Pyro.Gen.C19.equalHashesAgree = true ∧
    Pyro.Gen.C19.proxyStateIsText = true ∧
    Pyro.Gen.C19.uriStateTravels = true ∧
    3 ≤ Pyro.Gen.C19.proxyProbes.length ∧
    Pyro.Gen.C19.proxyProbes.all (proxyProbeOK Pyro.Gen.C19.nsPortDefault) = true := by
  decide

/-! ### non-vacuity: concrete, non-trivial values meet the hypotheses -/

/-- "PYRO:obj@localhost:55" -/
example : parse Guards.on 9090 [80, 89, 82, 79, 58, 111, 98, 106, 64, 108, 111, 99, 97, 108, 104, 111, 115, 116, 58, 53, 53]
    = .ok ⟨.pyro [111, 98, 106], .tcp [108, 111, 99, 97, 108, 104, 111, 115, 116] 55⟩ := by decide

/-- "pyrometa:b,a,,b@[::1]:007\n" → tags {"", "a", "b"}, host "::1", port 7 -/
def exMeta : Text := [112, 121, 114, 111, 109, 101, 116, 97, 58, 98, 44, 97, 44, 44, 98, 64, 91, 58, 58, 49, 93, 58, 48, 48, 55, 10]
def exMetaUri : Uri := ⟨.pyrometa [[], [97], [98]], .tcp [58, 58, 49] 7⟩

example : parse Guards.on 9090 exMeta = .ok exMetaUri := by decide

example : Valid exMetaUri := C19_parse_valid 9090 exMeta exMetaUri (by decide)

/-- a non-identity iteration order ("b", "", "a") is allowed, prints "PYROMETA:b,,a@[::1]:7", and comes back -/
example : OrderOK exMetaUri [[98], [], [97]] :=
  (List.Perm.swap [] [98] [[97]]).trans ((List.Perm.swap [97] [98] []).cons [])

example : render exMetaUri [[98], [], [97]] =
    [80, 89, 82, 79, 77, 69, 84, 65, 58, 98, 44, 44, 97, 64, 91, 58, 58, 49, 93, 58, 55] := by decide

example : parse Guards.on 1 (render exMetaUri [[98], [], [97]]) = .ok exMetaUri := by decide

/-- "PYRONAME:ns@./u:/tmp/s" : a unix socket location; "PYRO:a@h: +5_0 " : port 50 -/
example : parse Guards.on 9090 [80, 89, 82, 79, 78, 65, 77, 69, 58, 110, 115, 64, 46, 47, 117, 58, 47, 116, 109, 112, 47, 115]
    = .ok ⟨.pyroname [110, 115], .sock [47, 116, 109, 112, 47, 115]⟩ := by decide
example : parse Guards.on 9090 [80, 89, 82, 79, 58, 97, 64, 104, 58, 32, 43, 53, 95, 48, 32]
    = .ok ⟨.pyro [97], .tcp [104] 50⟩ := by decide

/-- a history: send, bind to "PYRO:obj@localhost:55", copy, send — the PYROMETA uri is delivered once, the PYRO uri twice -/
example : proxyRun Guards.on 1 Uri.tagOrder exMetaUri
      [.send, .setUri ⟨.pyro [111, 98, 106], .tcp [108, 111, 99, 97, 108, 104, 111, 115, 116] 55⟩, .copy, .send]
    = [.ok exMetaUri, .ok ⟨.pyro [111, 98, 106], .tcp [108, 111, 99, 97, 108, 104, 111, 115, 116] 55⟩,
       .ok ⟨.pyro [111, 98, 106], .tcp [108, 111, 99, 97, 108, 104, 111, 115, 116] 55⟩] := by decide

/-- equal / unequal, hashable / unhashable -/
example : eqUri ⟨.pyro [97], .tcp [104] 50⟩ ⟨.pyro [97], .tcp [104] 51⟩ = false := by decide
example : hashUri (fun _ => 7) exMetaUri = none := rfl
example : hashUri (fun _ => 7) ⟨.pyro [97], .tcp [104] 50⟩ = some 7 := rfl

end Pyro.C19
