/-
  C10Src.lean — the stream functions of Pyro5/server.py AS WRITTEN NOW (transcribed into Lean by
  harness/props/c10_tr.py on every run: `Pyro.Gen.C10.Src.*` in PyroModel/Gen/C10.lean) compute, for every table,
  id, connection, clock and setting, exactly what the hand-written model functions of PyroModel/Streams.lean compute
  (`C10_*_translated`); hence the history theorems of C10.lean hold of the transcription (`C10_source_*`).
-/
import PyroModel.Streams
import PyroModel.StreamsSrc
import PyroModel.StreamsSrcRun
import PyroModel.Gen.C10
import PyroProofs.Streams
import PyroProofs.StreamsSrc
import PyroProps.C10

set_option linter.unusedSimpArgs false
set_option linter.unusedVariables false

namespace Pyro.C10

open Pyro Pyro.Streams Pyro.Gen.C10.Src

/-- a loop whose body is, for every table and key, the per-entry update `u` -/
theorem foldl_body (f : Table → Nat → Table) (u : Entry → Upd) (h : ∀ tb k, f tb k = applyUpd u tb k)
    (t : Table) (hnd : t.keys.Nodup) : List.foldl f t (Src.keys t) = updAll u t := by
  have : f = applyUpd u := by funext tb k; exact h tb k
  rw [this]; exact foldl_applyUpd u t hnd

/-- **get_next_stream_item, as written now** = `doNext`: same table afterwards, same reply (the item, StopIteration,
    the iterator's exception, PyroError for an unknown id; never KeyError), for every table, id and connection. -/
theorem C10_getNext_translated (st : State) (id conn : Nat) :
    (getNextStreamItemSrc st.table id conn).1 = (doNext st id conn).1.table ∧
    Src.toRes (getNextStreamItemSrc st.table id conn).2 = some (doNext st id conn).2 := by
  unfold getNextStreamItemSrc doNext Src.contains
  cases hg : st.table.get id with
  | none => simp [Src.toRes]
  | some e =>
    by_cases ho : e.owner.isNone = true
    · cases hr : e.rest with
      | nil => simp [ho, hr, Src.toRes, erase_set]
      | cons a tl =>
        cases a with
        | val v => simp [ho, hr, Src.toRes, Src.setRest, get_set_self, set_set]
        | raises x => simp [ho, hr, Src.toRes, erase_set]
    · cases hr : e.rest with
      | nil => simp [ho, hr, Src.toRes]
      | cons a tl =>
        cases a with
        | val v => simp [ho, hr, Src.toRes, Src.setRest, hg]
        | raises x => simp [ho, hr, Src.toRes]

/-- **close_stream, as written now** = `doClose` (with or without the membership test in front of the removal) -/
theorem C10_closeStream_translated (st : State) (id : Nat) :
    closeStreamSrc st.table id = ((doClose st id).table, .ok .none) := by
  unfold closeStreamSrc doClose
  cases hg : st.table.get id <;> simp [Src.contains, hg, erase_of_get_none]

/-- **_streamResponse, as written now** = `doOpen`: an iterator / generator is registered under the fresh id with
    (caller, now, 0, data) when streaming is enabled, `(True, None)` when not, `(False, data)` for anything else.
    (`dIsView`: `type(data)` is a dict view type — never together with `isinstance(data, Iterator)`.) -/
theorem C10_streamResponse_translated (cfg : Settings) (st : State) (conn : Nat) (isIter isGen : Bool) (items : List Item) :
    let d : Data := if isIter || isGen then .iter items else .plain
    (streamResponseSrc cfg st.table st.now st.nextId conn isIter isGen false items).1 = (doOpen cfg st conn d).1.table ∧
    Src.toRes (streamResponseSrc cfg st.table st.now st.nextId conn isIter isGen false items).2 = some (doOpen cfg st conn d).2 := by
  unfold streamResponseSrc
  cases isIter <;> cases isGen <;> cases hs : cfg.streaming <;> simp [doOpen, hs, Src.toRes]

/-- **_clientDisconnect, as written now** = `doDisconnect` on every duplicate-free table: with linger every stream of
    the ending connection becomes (None, created, now, stream), without linger it is removed; others untouched; the
    user hook comes last. -/
theorem C10_clientDisconnect_translated (cfg : Settings) (st : State) (conn : Nat) (hnd : st.table.keys.Nodup) :
    (clientDisconnectSrc cfg st.table st.now conn).1 = (doDisconnect cfg st conn).table ∧
    Src.toRes (clientDisconnectSrc cfg st.table st.now conn).2 = some (if cfg.hookFails then .hookError else .ok) := by
  unfold clientDisconnectSrc doDisconnect
  by_cases hl : (0 : Int) < cfg.linger
  · simp only [hl, if_true]
    rw [foldl_body _ (fun e => if decide (e.owner = some conn) = true then
          .put { owner := none, created := e.created, linger := st.now, rest := e.rest } else .keep)
        (by intro tb k; unfold applyUpd; cases Table.get tb k with
            | none => rfl
            | some e => by_cases h : e.owner = some conn <;> simp [h]) _ hnd]
    rw [updAll_map]
    cases hh : cfg.hookFails <;> simp [Src.toRes, Entry.lingerIf]
  · simp only [hl, if_false]
    rw [foldl_body _ (fun e => if decide (e.owner = some conn) = true then .drop else .keep)
        (by intro tb k; unfold applyUpd; cases Table.get tb k with
            | none => rfl
            | some e => by_cases h : e.owner = some conn <;> simp [h]) _ hnd]
    rw [updAll_filter]
    cases hh : cfg.hookFails <;> simp [Src.toRes]

/-- **_housekeeping, as written now** = `doHousekeeping` on every duplicate-free table (lifetime pass, then linger
    pass, each with exactly the model's expiry condition), and does nothing while the daemon is shutting down. -/
theorem C10_housekeeping_translated (cfg : Settings) (st : State) (hnd : st.table.keys.Nodup) :
    housekeepingSrc cfg false st.table st.now = ((doHousekeeping cfg st).table, .ok .none) ∧
    housekeepingSrc cfg true st.table st.now = (st.table, .ok .none) := by
  refine ⟨?_, by simp [housekeepingSrc]⟩
  unfold housekeepingSrc doHousekeeping
  by_cases he : st.table.isEmpty = true
  · simp [he]
  · by_cases h1 : (0 : Int) < cfg.lifetime
    · by_cases h2 : (0 : Int) < cfg.linger
      · simp only [he, h1, h2, if_true, if_false, Bool.false_eq_true]
        rw [foldl_body _ (fun e => if decide (cfg.lifetime < ((st.now : Int) - (e.created : Int))) = true then .drop else .keep)
            (by intro tb k; unfold applyUpd; cases Table.get tb k with
                | none => rfl
                | some e => by_cases h : cfg.lifetime < ((st.now : Int) - (e.created : Int)) <;> simp [h]) _ hnd, updAll_filter]
        rw [foldl_body _ (fun e => if decide (e.linger ≠ 0 ∧ cfg.linger < ((st.now : Int) - (e.linger : Int))) = true then .drop else .keep)
            (by intro tb k; unfold applyUpd; cases Table.get tb k with
                | none => rfl
                | some e =>
                  by_cases h1 : e.linger = 0
                  · simp [h1]
                  · by_cases h2 : cfg.linger < ((st.now : Int) - (e.linger : Int)) <;> simp [h1, h2]) _ (nodup_filter _ _ hnd), updAll_filter]
        simp [lifeExpired, lingerExpired, h1]
      · simp only [he, h1, h2, if_true, if_false, Bool.false_eq_true]
        rw [foldl_body _ (fun e => if decide (cfg.lifetime < ((st.now : Int) - (e.created : Int))) = true then .drop else .keep)
            (by intro tb k; unfold applyUpd; cases Table.get tb k with
                | none => rfl
                | some e => by_cases h : cfg.lifetime < ((st.now : Int) - (e.created : Int)) <;> simp [h]) _ hnd, updAll_filter]
        simp [lifeExpired, h1]
    · by_cases h2 : (0 : Int) < cfg.linger
      · simp only [he, h1, h2, if_true, if_false, Bool.false_eq_true]
        rw [foldl_body _ (fun e => if decide (e.linger ≠ 0 ∧ cfg.linger < ((st.now : Int) - (e.linger : Int))) = true then .drop else .keep)
            (by intro tb k; unfold applyUpd; cases Table.get tb k with
                | none => rfl
                | some e =>
                  by_cases h1 : e.linger = 0
                  · simp [h1]
                  · by_cases h2 : cfg.linger < ((st.now : Int) - (e.linger : Int)) <;> simp [h1, h2]) _ hnd, updAll_filter]
        simp [lingerExpired]
      · simp [he, h1, h2]

/-! ## the step function and whole histories through the transcription -/

theorem state_ext (a b : State) (h1 : a.table = b.table) (h2 : a.now = b.now) (h3 : a.nextId = b.nextId) : a = b := by
  cases a; cases b; simp_all

theorem doNext_frame (st : State) (id conn : Nat) : (doNext st id conn).1.now = st.now ∧ (doNext st id conn).1.nextId = st.nextId := by
  unfold doNext
  cases st.table.get id with
  | none => exact ⟨rfl, rfl⟩
  | some e =>
    simp only []
    split <;> exact ⟨rfl, rfl⟩

theorem doClose_frame (st : State) (id : Nat) : (doClose st id).now = st.now ∧ (doClose st id).nextId = st.nextId := by
  unfold doClose
  split <;> exact ⟨rfl, rfl⟩

theorem doDisconnect_frame (cfg : Settings) (st : State) (conn : Nat) :
    (doDisconnect cfg st conn).now = st.now ∧ (doDisconnect cfg st conn).nextId = st.nextId := by
  unfold doDisconnect
  split <;> exact ⟨rfl, rfl⟩

theorem doHousekeeping_frame (cfg : Settings) (st : State) :
    (doHousekeeping cfg st).now = st.now ∧ (doHousekeeping cfg st).nextId = st.nextId := by
  unfold doHousekeeping
  split <;> exact ⟨rfl, rfl⟩

/-- **one operation through the transcription = one operation of the model**, on every duplicate-free table: same
    state afterwards, and the transcription's outcome is the model's reply. -/
theorem C10_stepSrc_translated (cfg : Settings) (st : State) (op : Op) (hnd : st.table.keys.Nodup) :
    (stepSrc cfg st op).1 = (step cfg st op).1 ∧ Src.toRes (stepSrc cfg st op).2 = some (step cfg st op).2 := by
  cases op with
  | «open» conn d =>
    cases d with
    | iter items =>
      cases hs : cfg.streaming <;>
        simp [stepSrc, srcOut, step, doOpen, streamResponseSrc, hs, Src.toRes]
    | plain => simp [stepSrc, srcOut, step, doOpen, streamResponseSrc, Src.toRes]
  | next id conn =>
    obtain ⟨h1, h2⟩ := C10_getNext_translated st id conn
    obtain ⟨f1, f2⟩ := doNext_frame st id conn
    refine ⟨state_ext _ _ ?_ ?_ ?_, ?_⟩
    · simpa [stepSrc, srcOut, step] using h1
    · simp [stepSrc, step, f1]
    · simp [stepSrc, step, f2]
    · simpa [stepSrc, srcOut, step] using h2
  | close id =>
    have h := C10_closeStream_translated st id
    obtain ⟨f1, f2⟩ := doClose_frame st id
    refine ⟨state_ext _ _ ?_ ?_ ?_, ?_⟩
    · simp [stepSrc, srcOut, step, h]
    · simp [stepSrc, step, f1]
    · simp [stepSrc, step, f2]
    · simp [stepSrc, srcOut, step, h, Src.toRes]
  | disconnect conn =>
    obtain ⟨h1, h2⟩ := C10_clientDisconnect_translated cfg st conn hnd
    obtain ⟨f1, f2⟩ := doDisconnect_frame cfg st conn
    refine ⟨state_ext _ _ ?_ ?_ ?_, ?_⟩
    · simpa [stepSrc, srcOut, step] using h1
    · simp [stepSrc, step, f1]
    · simp [stepSrc, step, f2]
    · simpa [stepSrc, srcOut, step] using h2
  | housekeeping =>
    have h := (C10_housekeeping_translated cfg st hnd).1
    obtain ⟨f1, f2⟩ := doHousekeeping_frame cfg st
    refine ⟨state_ext _ _ ?_ ?_ ?_, ?_⟩
    · simp [stepSrc, srcOut, step, h]
    · simp [stepSrc, step, f1]
    · simp [stepSrc, step, f2]
    · simp [stepSrc, srcOut, step, h, Src.toRes]
  | tick dt => simp [stepSrc, srcOut, step, Src.toRes]

theorem execSrc_eq (cfg : Settings) (ops : List Op) : ∀ (st : State) (ev : List Event), Streams.Inv st ev →
    execSrc cfg st ops = ((exec cfg st ops).1, (exec cfg st ops).2.map (fun e => (e.1, some e.2))) := by
  induction ops with
  | nil => intro st ev _; simp [execSrc, exec]
  | cons op ops ih =>
    intro st ev h
    obtain ⟨h1, h2⟩ := C10_stepSrc_translated cfg st op h.nodup
    simp only [execSrc, exec, h1, h2]
    rw [ih _ _ (inv_step cfg st ev op h)]
    simp

/-- **C10_source_exec.**  Every history from the empty table, run through the functions of server.py as they are
    written now, ends in the same table and gives the same replies as the model — and every outcome is one of the
    model's replies (never a KeyError, never an exception class the model does not know). -/
theorem C10_source_exec (cfg : Settings) (t0 : Nat) (ops : List Op) :
    execSrc cfg (State.init t0) ops =
      ((exec cfg (State.init t0) ops).1, (exec cfg (State.init t0) ops).2.map (fun e => (e.1, some e.2))) :=
  execSrc_eq cfg ops (State.init t0) [] (inv_init t0)

/-- the events (operation, reply) of a run of the transcription -/
def srcEvents (r : State × List (Op × Option Res)) : List Event := r.2.filterMap (fun p => p.2.map (fun x => (p.1, x)))

theorem srcEvents_exec (cfg : Settings) (t0 : Nat) (ops : List Op) :
    srcEvents (execSrc cfg (State.init t0) ops) = (exec cfg (State.init t0) ops).2 := by
  rw [C10_source_exec]
  simp [srcEvents, List.filterMap_map, Function.comp_def]

/-- **C10_source_prefix** = `C10_prefix` about the source as written now: after every history through the transcribed
    functions, for every remembered stream `delivered ++ still held = source`, and for every id the replies handed
    out are a prefix of its source. -/
theorem C10_source_prefix (cfg : Settings) (t0 : Nat) (ops : List Op) :
    let r := execSrc cfg (State.init t0) ops
    (∀ id e, r.1.table.get id = some e → delivered id (srcEvents r) ++ e.rest = source id (srcEvents r)) ∧
    (∀ id, delivered id (srcEvents r) <+: source id (srcEvents r)) := by
  intro r
  have hev : srcEvents r = (exec cfg (State.init t0) ops).2 := srcEvents_exec cfg t0 ops
  have hst : r.1 = (exec cfg (State.init t0) ops).1 := by
    show (execSrc cfg (State.init t0) ops).1 = _
    rw [C10_source_exec]
  rw [hev, hst]
  exact C10_prefix cfg t0 ops

/-- **C10_source_next_exact** = `C10_next_exact` about the transcribed `get_next_stream_item`: after every history the
    reply is the next undelivered item of the stream's own source / its exception / StopIteration exactly at the end
    when the stream is remembered, else PyroError with the table unchanged. -/
theorem C10_source_next_exact (cfg : Settings) (t0 : Nat) (ops : List Op) (id conn : Nat) :
    let r := execSrc cfg (State.init t0) ops
    (∀ e, r.1.table.get id = some e →
      Src.toRes (getNextStreamItemSrc r.1.table id conn).2 =
        some (expectedReply (source id (srcEvents r)) (delivered id (srcEvents r)).length)) ∧
    (r.1.table.get id = none →
      getNextStreamItemSrc r.1.table id conn = (r.1.table, .error (.cls "Pyro5.errors.PyroError"))) := by
  intro r
  have hev : srcEvents r = (exec cfg (State.init t0) ops).2 := srcEvents_exec cfg t0 ops
  have hst : r.1 = (exec cfg (State.init t0) ops).1 := by
    show (execSrc cfg (State.init t0) ops).1 = _
    rw [C10_source_exec]
  obtain ⟨h1, h2⟩ := C10_next_exact cfg t0 ops id conn
  rw [hev, hst]
  refine ⟨fun e he => ?_, fun hn => ?_⟩
  · rw [(C10_getNext_translated _ id conn).2, h1 e he]
  · unfold getNextStreamItemSrc Src.contains
    simp [hn]

/-- **C10_source_forget_conditions** = `C10_forget_conditions` about the transcription: after every history, one more
    operation of the source as written now forgets a remembered stream exactly under `forgetCond`. -/
theorem C10_source_forget_conditions (cfg : Settings) (t0 : Nat) (ops : List Op) (op : Op) (id : Nat) (e : Entry) :
    let r := execSrc cfg (State.init t0) ops
    r.1.table.get id = some e →
    ((stepSrc cfg r.1 op).1.table.get id = none ↔ forgetCond cfg r.1.now id e op) := by
  intro r hg
  have hst : r.1 = (exec cfg (State.init t0) ops).1 := by
    show (execSrc cfg (State.init t0) ops).1 = _
    rw [C10_source_exec]
  have hinv : Streams.Inv (exec cfg (State.init t0) ops).1 (exec cfg (State.init t0) ops).2 := inv_reach cfg t0 ops
  rw [hst] at hg ⊢
  rw [(C10_stepSrc_translated cfg _ op hinv.nodup).1]
  exact C10_forget_conditions cfg t0 ops op id e hg

/-- the daemon's `_shutting_down` early return (outside the model's alphabet until now): a housekeeping pass of a
    daemon that is shutting down leaves the table alone, whatever lifetime / linger / clock say. -/
theorem C10_source_shutting_down (cfg : Settings) (st : State) :
    housekeepingSrc cfg true st.table st.now = (st.table, .ok .none) := by
  simp [housekeepingSrc]

/-- non-vacuity: the transcription on a concrete history (two streams, reconnect, exhaustion, expiry) -/
example : (execSrc { streaming := true, lifetime := 0, linger := 4 } (State.init 100)
    [.open 0 (.iter [.val 7, .raises 3]), .next 0 0, .disconnect 0, .tick 2, .next 0 1, .next 0 1, .next 0 1]).2.map (·.2) =
    [some (.stream 0), some (.item 7), some .ok, some .ok, some (.raised 3), some .terminated, some .terminated] := by decide

end Pyro.C10
