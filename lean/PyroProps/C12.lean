/-
  C12 — Per-call context never leaks between calls or clients.
  Theorems about `PyroModel.Context`: an explicit heap of response-annotation dict OBJECTS, thread
  local current dict per worker, oneway threads sharing the dict object of the request that spawned
  them and writing at any later time.  Quantifiers: every sequence of requests (handshakes, pings,
  calls that assign or mutate annotations and return or raise, oneway calls, refused calls) from any
  number of connections on any assignment to workers (one worker for all = multiplex; reused
  workers = thread pool), with the oneway writes interleaved anywhere.
-/
import PyroModel.Context
import PyroProofs.Context
import PyroModel.Gen.C12

namespace Pyro.C12

open Pyro.Context

structure Inv (s : State) : Prop where
  heap : HeapOK s.heap
  pending : PendingOK s
  replies : RepliesOK s

theorem pendingOK_kept (s s' : State) (hp : PendingOK s) (hk : OwnersKept s.heap s'.heap)
    (hlen : s.heap.length ≤ s'.heap.length) (hpe : s'.pending = s.pending)
    (hlt : ∀ p ∈ s.pending, p.dict < s.heap.length) : PendingOK s' := by
  intro p hp' dd hdd
  rw [hpe] at hp'
  obtain ⟨dd0, h0, ho⟩ := hk p.dict dd hdd (hlt p hp')
  rw [← ho]; exact hp p hp' dd0 h0

/-- pending oneway threads refer to dict objects that exist -/
def PendingBound (s : State) : Prop := ∀ p ∈ s.pending, p.dict < s.heap.length

theorem step_inv (s : State) (ev : Event) (h : Inv s) (hb : PendingBound s) :
    Inv (step s ev) ∧ PendingBound (step s ev) := by
  cases ev with
  | onewayRun rid =>
    simp only [step]
    cases hf : s.pending.find? (·.rid = rid) with
    | none => exact ⟨h, hb⟩
    | some p =>
      simp only
      have hpm : p ∈ s.pending := List.mem_of_find?_eq_some hf
      have hown : ∀ dd, s.heap[p.dict]? = some dd → dd.owner = p.rid := fun dd hdd => h.pending p hpm dd hdd
      obtain ⟨m1, _, m3, m4, m5, m6, _⟩ := methodWrites_ok
        { s with pending := s.pending.filter (·.rid ≠ rid), snaps := s.snaps ++ [⟨p.rid, p.info⟩] }
        p.rid p.dict p.keys p.mode h.heap hown
      simp only at m3 m4 m5 m6
      have hsub : ∀ q ∈ s.pending.filter (·.rid ≠ rid), q ∈ s.pending := fun q hq => (List.mem_filter.mp hq).1
      refine ⟨⟨m1, ?_, ?_⟩, ?_⟩
      · intro q hq dd hdd
        rw [m6] at hq
        obtain ⟨dd0, h0, ho⟩ := m3 q.dict dd hdd (hb q (hsub q hq))
        rw [← ho]; exact h.pending q (hsub q hq) dd0 h0
      · unfold RepliesOK; rw [m5]; exact h.replies
      · intro q hq
        rw [m6] at hq
        exact Nat.lt_of_lt_of_le (hb q (hsub q hq)) m4
  | request w rid info kind =>
    simp only [step, alloc]
    -- after the fresh allocation
    have h0heap : HeapOK (s.heap ++ [⟨rid, []⟩]) := heapOK_append _ _ _ h.heap (by simp)
    have h0own : ∀ dd, (s.heap ++ [(⟨rid, []⟩ : Dict)])[s.heap.length]? = some dd → dd.owner = rid := by
      intro dd hdd
      simp only [List.getElem?_append_right (Nat.le_refl _), Nat.sub_self, List.getElem?_cons_zero,
        Option.some.injEq] at hdd
      rw [← hdd]
    have h0pend : PendingOK ({ s with heap := s.heap ++ [⟨rid, []⟩], tls := setTls s.tls w s.heap.length } : State) :=
      pendingOK_kept s _ h.pending (ownersKept_append _ _) (by simp) rfl hb
    have h0bound : PendingBound ({ s with heap := s.heap ++ [⟨rid, []⟩], tls := setTls s.tls w s.heap.length } : State) :=
      fun p hp => by
        have := hb p hp; simp only [List.length_append, List.length_singleton]; omega
    have hkeysOK : ∀ (hp : List Dict) (d : Nat), HeapOK hp → (∀ dd, hp[d]? = some dd → dd.owner = rid) →
        ∀ kw ∈ (hp[d]?.map (·.keys)).getD [], kw.2 = rid := by
      intro hp d hok hown kw hk
      cases hd : hp[d]? with
      | none => rw [hd] at hk; simp at hk
      | some dd =>
        rw [hd] at hk
        simp only [Option.map_some, Option.getD_some] at hk
        rw [hok dd (List.mem_of_getElem? hd) kw hk]; exact hown dd hd
    cases kind with
    | handshake ok =>
      refine ⟨⟨h0heap, h0pend, ?_⟩, h0bound⟩
      intro r hr
      simp only [List.mem_append, List.mem_singleton] at hr
      rcases hr with hr | rfl
      · exact h.replies r hr
      · exact hkeysOK _ _ h0heap h0own
    | ping =>
      refine ⟨⟨h0heap, h0pend, ?_⟩, h0bound⟩
      intro r hr
      simp only [List.mem_append, List.mem_singleton] at hr
      rcases hr with hr | rfl
      · exact h.replies r hr
      · exact hkeysOK _ _ h0heap h0own
    | refused =>
      refine ⟨⟨h0heap, h0pend, ?_⟩, h0bound⟩
      intro r hr
      simp only [List.mem_append, List.mem_singleton] at hr
      rcases hr with hr | rfl
      · exact h.replies r hr
      · intro kw hk; simp at hk
    | oneway keys mode =>
      refine ⟨⟨h0heap, ?_, h.replies⟩, ?_⟩
      · intro p hp dd hdd
        simp only [List.mem_append, List.mem_singleton] at hp
        rcases hp with hp | rfl
        · exact h0pend p hp dd hdd
        · exact h0own dd hdd
      · intro p hp
        simp only [List.mem_append, List.mem_singleton] at hp
        rcases hp with hp | rfl
        · exact h0bound p hp
        · simp
    | call keys mode raises =>
      simp only
      obtain ⟨m1, m2, m3, m4, m5, m6, _⟩ := methodWrites_ok
        ({ heap := s.heap ++ [⟨rid, []⟩], tls := setTls s.tls w s.heap.length, replies := s.replies,
           snaps := s.snaps ++ [⟨rid, info⟩], pending := s.pending } : State)
        rid s.heap.length keys mode h0heap h0own
      simp only at m3 m4 m5 m6
      have hpend1 : PendingOK (methodWrites
          ({ heap := s.heap ++ [⟨rid, []⟩], tls := setTls s.tls w s.heap.length, replies := s.replies,
             snaps := s.snaps ++ [⟨rid, info⟩], pending := s.pending } : State) rid s.heap.length keys mode).1 :=
        pendingOK_kept ({ s with heap := s.heap ++ [⟨rid, []⟩], tls := setTls s.tls w s.heap.length } : State) _
          h0pend m3 m4 m6 h0bound
      have hbound1 : PendingBound (methodWrites
          ({ heap := s.heap ++ [⟨rid, []⟩], tls := setTls s.tls w s.heap.length, replies := s.replies,
             snaps := s.snaps ++ [⟨rid, info⟩], pending := s.pending } : State) rid s.heap.length keys mode).1 := by
        intro p hp
        rw [m6] at hp
        exact Nat.lt_of_lt_of_le (h0bound p hp) m4
      cases raises with
      | true =>
        simp only [if_true]
        refine ⟨⟨m1, hpend1, ?_⟩, hbound1⟩
        intro r hr
        simp only [List.mem_append, List.mem_singleton] at hr
        rcases hr with hr | rfl
        · rw [m5] at hr; exact h.replies r hr
        · intro kw hk; simp at hk
      | false =>
        simp only [Bool.false_eq_true, if_false]
        refine ⟨⟨heapOK_append _ _ _ m1 (by simp), ?_, ?_⟩, ?_⟩
        · intro p hp dd hdd
          have hp' : p ∈ s.pending := by rw [m6] at hp; exact hp
          have hlt := hbound1 p hp
          simp only at hdd
          rw [List.getElem?_append_left hlt] at hdd
          exact hpend1 p hp dd hdd
        · intro r hr
          simp only [List.mem_append, List.mem_singleton] at hr
          rcases hr with hr | rfl
          · rw [m5] at hr; exact h.replies r hr
          · exact hkeysOK _ _ m1 m2
        · intro p hp
          have := hbound1 p hp
          simp only [List.length_append, List.length_singleton]; omega

theorem run_inv (evs : List Event) : ∀ (s : State), Inv s → PendingBound s →
    Inv (run s evs) ∧ PendingBound (run s evs) := by
  induction evs with
  | nil => intro s h hb; exact ⟨h, hb⟩
  | cons ev evs ih =>
    intro s h hb
    obtain ⟨h', hb'⟩ := step_inv s ev h hb
    exact ih _ h' hb'

/-- **C12_no_leak.**  In every history — any requests, from any connections, on any workers, with
    the writes of oneway methods happening at any later point — every response annotation sent with a
    reply (or with a handshake / ping answer) was written by the method of that very request.
    (Daemon-level annotations are not per-call and are not tracked as keys.) -/
theorem C12_no_leak (evs : List Event) :
    ∀ r ∈ (run {} evs).replies, ∀ kw ∈ r.keys, kw.2 = r.rid :=
  (run_inv evs {} ⟨fun _ h => by simp at h, fun _ h => by simp at h, fun _ h => by simp at h⟩
    (fun _ h => by simp at h)).1.replies

/-- Answers that no method call produced — handshake answers, pings, error replies, replies to calls
    that raised — carry no method-set annotation at all. -/
theorem C12_no_method_no_annotation (s : State) (w rid : Nat) (info : ReqInfo) (k : Kind)
    (hk : (∃ ok, k = .handshake ok) ∨ k = .ping ∨ k = .refused ∨ (∃ ks m, k = .call ks m true)) :
    ∃ r, (step s (.request w rid info k)).replies = s.replies ++ [r] ∧ r.keys = [] ∧ r.rid = rid := by
  rcases hk with ⟨ok, rfl⟩ | rfl | rfl | ⟨ks, m, rfl⟩
  · exact ⟨⟨rid, info.conn, []⟩, by simp [step, alloc], rfl, rfl⟩
  · exact ⟨⟨rid, info.conn, []⟩, by simp [step, alloc], rfl, rfl⟩
  · exact ⟨⟨rid, info.conn, []⟩, by simp [step, alloc], rfl, rfl⟩
  · refine ⟨⟨rid, info.conn, []⟩, ?_, rfl, rfl⟩
    simp only [step, alloc, if_true]
    cases m <;> simp [methodWrites, alloc]

/-- **C12_read.**  The context a method observes is that of the request being served, also when the
    method runs later in its own oneway thread: every snapshot a method took equals the info of the
    request with the same id. -/
theorem C12_read (evs : List Event) (infoOf : Nat → ReqInfo)
    (hcons : ∀ ev ∈ evs, ∀ w rid info k, ev = .request w rid info k → info = infoOf rid) :
    ∀ sn ∈ (run {} evs).snaps, sn.seen = infoOf sn.rid := by
  have key : ∀ (evs : List Event) (s : State),
      (∀ ev ∈ evs, ∀ w rid info k, ev = .request w rid info k → info = infoOf rid) →
      (∀ sn ∈ s.snaps, sn.seen = infoOf sn.rid) → (∀ p ∈ s.pending, p.info = infoOf p.rid) →
      ∀ sn ∈ (run s evs).snaps, sn.seen = infoOf sn.rid := by
    intro evs
    induction evs with
    | nil => intro s _ hs _; exact hs
    | cons ev evs ih =>
      intro s hc hs hp
      apply ih (step s ev) (fun e he => hc e (List.mem_cons_of_mem _ he))
      · cases ev with
        | onewayRun rid =>
          simp only [step]
          cases hf : s.pending.find? (·.rid = rid) with
          | none => exact hs
          | some p =>
            simp only
            have hpm := List.mem_of_find?_eq_some hf
            cases hm : p.mode <;> simp only [methodWrites, alloc, hm] <;>
              (intro sn hsn
               simp only [List.mem_append, List.mem_singleton] at hsn
               rcases hsn with hsn | rfl
               · exact hs sn hsn
               · exact hp p hpm)
        | request w rid info kind =>
          have hinfo := hc _ List.mem_cons_self w rid info kind rfl
          cases kind with
          | handshake ok => simpa [step, alloc] using hs
          | ping => simpa [step, alloc] using hs
          | refused => simpa [step, alloc] using hs
          | oneway ks m => simpa [step, alloc] using hs
          | call ks m raises =>
            simp only [step, alloc]
            cases m <;> cases raises <;> simp only [methodWrites, alloc, if_true, Bool.false_eq_true, if_false] <;>
              (intro sn hsn
               simp only [List.mem_append, List.mem_singleton] at hsn
               rcases hsn with hsn | rfl
               · exact hs sn hsn
               · exact hinfo)
      · cases ev with
        | onewayRun rid =>
          simp only [step]
          cases hf : s.pending.find? (·.rid = rid) with
          | none => exact hp
          | some p =>
            simp only
            cases hm : p.mode <;> simp only [methodWrites, alloc, hm] <;>
              (intro q hq; exact hp q (List.mem_filter.mp hq).1)
        | request w rid info kind =>
          have hinfo := hc _ List.mem_cons_self w rid info kind rfl
          cases kind with
          | handshake ok => simpa [step, alloc] using hp
          | ping => simpa [step, alloc] using hp
          | refused => simpa [step, alloc] using hp
          | oneway ks m =>
            simp only [step, alloc]
            intro q hq
            simp only [List.mem_append, List.mem_singleton] at hq
            rcases hq with hq | rfl
            · exact hp q hq
            · exact hinfo
          | call ks m raises =>
            simp only [step, alloc]
            cases m <;> cases raises <;> simpa [methodWrites, alloc] using hp
  exact key evs {} hcons (fun _ h => by simp at h) (fun _ h => by simp at h)

/-- **C12_client.**  What a client observes in `response_annotations` after a call is a function of
    that call alone — its own handshake answer (if it had to connect) and its own reply — whatever
    earlier calls left behind; it is the reply's annotations whenever the reply carries any. -/
theorem C12_client (before before' : List Nat) (c : ClientCall) :
    clientAfter before c = clientAfter before' c ∧
    (∀ anns, c.reply = some anns → anns ≠ [] → clientAfter before c = anns) ∧
    (∀ k ∈ clientAfter before c, (c.connects = true ∧ k ∈ c.handshakeAnns) ∨ ∃ anns, c.reply = some anns ∧ k ∈ anns) := by
  refine ⟨rfl, ?_, ?_⟩
  · intro anns hr hne
    simp only [clientAfter, hr]
    cases anns with
    | nil => exact absurd rfl hne
    | cons a as => simp
  · intro k hk
    simp only [clientAfter] at hk
    cases hr : c.reply with
    | none =>
      rw [hr] at hk
      simp only at hk
      by_cases hc : (c.connects && !c.handshakeAnns.isEmpty) = true
      · rw [if_pos hc] at hk
        simp only [Bool.and_eq_true] at hc
        exact Or.inl ⟨hc.1, hk⟩
      · rw [if_neg hc] at hk; simp at hk
    | some anns =>
      rw [hr] at hk
      simp only at hk
      by_cases he : anns.isEmpty = true
      · rw [if_pos he] at hk
        by_cases hc : (c.connects && !c.handshakeAnns.isEmpty) = true
        · rw [if_pos hc] at hk
          simp only [Bool.and_eq_true] at hc
          exact Or.inl ⟨hc.1, hk⟩
        · rw [if_neg hc] at hk; simp at hk
      · rw [if_neg he] at hk
        exact Or.inr ⟨anns, rfl, hk⟩

/-- over a whole sequence of calls: the k-th observation does not depend on what was there initially
    nor (by the above) on earlier calls -/
theorem C12_client_run (before before' : List Nat) (cs : List ClientCall) :
    clientRun before cs = clientRun before' cs := by
  induction cs generalizing before before' with
  | nil => rfl
  | cons c cs ih => simp only [clientRun]; rfl

/-- **C12_gen_facts.**  Source facts: the call context is a `threading.local`; `handleRequest` and
    `_handshake` start from a fresh response-annotation dict; the normal reply resets it afterwards;
    the oneway thread receives a shallow copy of the context. -/
theorem C12_gen_facts :
    Pyro.Gen.C12.contextIsThreadLocal = true ∧
    Pyro.Gen.C12.handleRequestResetsFirst = true ∧
    Pyro.Gen.C12.handshakeResetsFirst = true ∧
    Pyro.Gen.C12.normalReplyResetsAfter = true ∧
    Pyro.Gen.C12.clientResetsPerCall = true ∧
    Pyro.Gen.C12.onewayContextIsSnapshot = true := by decide

/-! ### non-vacuity -/
private def i1 : ReqInfo := ⟨0, 1, 0, 2, [], 0⟩
private def i2 : ReqInfo := ⟨1, 1, 0, 2, [], 0⟩
-- client 0's call raises after setting key 7; client 1 then handshakes on the same worker: nothing of 7 in its answer;
-- a oneway call of client 0 mutates key 8 late, after client 1's next call: still nothing leaks
example : ((run {} [.request 0 1 i1 (.call [7] .mutate true), .request 0 2 i2 (.handshake true),
                    .request 0 3 i1 (.oneway [8] .mutate), .request 0 4 i2 (.call [9] .assign false),
                    .onewayRun 3, .request 0 5 i2 .ping]).replies.map (fun r => (r.rid, r.keys)))
    = [(1, []), (2, []), (4, [(9, 4)]), (5, [])] := by decide

end Pyro.C12
