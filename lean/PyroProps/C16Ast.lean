/-
  C16 — the registry functions of Pyro5/server.py, transcribed from the source on every run
  (PyroModel/Gen/C16.lean, namespace Pyro.Gen.C16Src, translator harness/props/c16_tr.py, vocabulary
  PyroModel/RegistrySrc.lean), compute exactly what the hand-written model (PyroModel/Registry.lean, `Cfg.fixed`)
  computes — for all states and arguments.  (The property theorems restated about the transcription: PyroProps/C16Src.lean.
  This module does not import the probe obligations of PyroProps/C16.lean, so a change of the source breaks these theorems by name.)

  The proofs do not depend on the shape of the generated text: they split on what the *state* looks like (the
  object's attributes, the table entry under the ids involved, whether the referent is alive) and let `simp`
  evaluate both sides; helper functions the translator emits are `@[simp]` definitions.
-/
import PyroProofs.Registry
import PyroModel.Gen.C16

namespace Pyro.C16

open Pyro Pyro.Registry Pyro.Registry.Src Pyro.Gen.C16Src

/-- what `Daemon._registered(i)` is in the model: the entry under `i`, weak references dereferenced, `None` for
    nothing or a dead reference -/
def registeredVal (s : State) (i : Id) : Val :=
  match (lookup i s.objs).bind (deref s) with
  | some r => refVal r
  | none => .none

/-- **C16_registered_translated.** `Daemon._registered` as transcribed = the model's `lookup` + `deref`. -/
theorem C16_registered_translated (s : State) (i : Id) :
    registeredSrc s (.str i) = registeredVal s i := by
  unfold registeredSrc registeredVal
  cases hl : lookup i s.objs with
  | none => simp [tblGet, hl, isWref]
  | some en =>
    obtain ⟨r, w⟩ := en
    cases w <;> cases r with
    | daemonObj => simp [tblGet, hl, isWref, entryVal, refVal, deref, wrefCall]
    | ent e =>
      cases e with
      | cls c => simp [tblGet, hl, isWref, entryVal, refVal, deref, wrefCall]
      | obj k =>
        by_cases hd : s.dead k = true <;>
          simp [tblGet, hl, isWref, entryVal, refVal, deref, wrefCall, hd]

/-- the argument names no pool object that has been collected (the model answers those steps `dead` at harness
    level: there is no such python call) -/
def liveT (s : State) : Target → Prop
  | .byObj e => isDead s e = false
  | _ => True

/-- **C16_finalizer_translated.** The callback that `register(…, weak=True)` hands to `weakref.finalize`
    (`Daemon._unregisterWeak(i, ref)`), as transcribed, with `ref` = the weak reference to object `k`: removes the
    entry exactly as the model's `runFin` does, touches nothing else, returns `None`. -/
theorem C16_finalizer_translated (s : State) (k : Nat) (i : Id) :
    finalizerSrc s (.str i) (.wref (.ent (.obj k))) = ({ s with objs := runFin .fixed k s.objs i }, .ret .none) := by
  unfold finalizerSrc runFin
  cases hl : lookup i s.objs with
  | none => simp [tblGet, hl, Cfg.fixed]
  | some en =>
    obtain ⟨r, w⟩ := en
    cases w
    · cases r <;> simp [tblGet, hl, Cfg.fixed, entryVal, refVal, weakOf]
    · by_cases hr : r = .ent (.obj k)
      · subst hr
        simp [tblGet, hl, Cfg.fixed, entryVal, weakOf, tblDel, Eff.bind]
      · simp [tblGet, hl, Cfg.fixed, entryVal, weakOf, hr]

/-- **C16_uriFor_translated.** `Daemon.uriFor` as transcribed = the model's `uriFor`, for every argument kind
    (id string, pool object or class, `None`, an object without pyro attributes, the daemon's own object). -/
theorem C16_uriFor_translated (s : State) (t : Target) (nat : Bool) (hl : liveT s t) :
    uriForSrc s (Target.val t) nat = (s, resR (uriFor s t)) := by
  unfold uriForSrc
  cases t with
  | byId i => simp [Target.val, isStr, retUri, uriFor, resR]
  | noneArg => simp [Target.val, isStr, idAttr, uriFor, resR]
  | plain => simp [Target.val, isStr, idAttr, uriFor, resR]
  | daemonObj =>
    cases h : lookup .daemon s.objs <;> simp [Target.val, isStr, idAttr, uriFor, resR, tblHas, h, retUri]
  | byObj e =>
    have hd : isDead s e = false := hl
    cases hg : getId s e with
    | none => simp [Target.val, isStr, idAttr, uriFor, resR, hg, hd]
    | some i =>
      cases h : lookup i s.objs <;> simp [Target.val, isStr, idAttr, uriFor, resR, tblHas, h, retUri, hg, hd]

/-- **C16_registeredIds_translated.** `DaemonObject.registered` as transcribed = the key list of the table. -/
theorem C16_registeredIds_translated (cfg : Cfg) (s : State) :
    registeredIdsSrc s = (s, resR (step cfg s .registered).2) := by
  simp [registeredIdsSrc, step, resR, tblKeys]

/-- **C16_autoProxy_translated.** The type-replacement hook `_pyro_obj_to_auto_proxy` as transcribed: the object is
    replaced by `daemon.proxyFor(obj)` exactly when the model's hook condition holds (`_pyroDaemon` is this daemon
    and the object, or its class, owns the table entry under the object's `_pyroId`); otherwise the object itself
    is returned (and serialised by value). -/
theorem C16_autoProxy_translated (s : State) (k : Nat) :
    autoProxySrc s (.ent (.obj k)) =
      if getDm s (.obj k) = .this && ownsEntry s k then (s, resR (proxyFor s (.byObj (.obj k))))
      else (s, .ret (.ent (.obj k))) := by
  have hreg : ∀ v, registeredSrc s v = match v with
      | .str i => registeredVal s i
      | _ => .none := by
    intro v
    cases v with
    | str i => exact C16_registered_translated s i
    | _ => simp [registeredSrc, tblGet, isWref]
  unfold autoProxySrc
  simp only [hreg]
  cases hdm : getDm s (.obj k) <;> simp [dmAttr, hdm, truthy]
  -- `_pyroDaemon` is this daemon
  cases hg : getId s (.obj k) with
  | none => simp [idAttr, hg, ownsEntry, registeredRef, isClassV]
  | some i =>
    simp only [idAttr, hg, ownsEntry, registeredRef, Option.bind_some, registeredVal]
    cases hb : (lookup i s.objs).bind (deref s) with
    | none => simp [isClassV]
    | some r =>
      cases r with
      | daemonObj => simp [refVal, isClassV, retProxyFor]
      | ent e =>
        cases e with
        | obj k' => by_cases hk : k' = k <;> simp [refVal, isClassV, retProxyFor, hk]
        | cls c =>
          by_cases hc : classOf k = c
          · simp [refVal, isClassV, retProxyFor, instOf, hc]
          · have hc' : ¬ c = classOf k := fun h => hc h.symm
            simp [refVal, isClassV, retProxyFor, instOf, hc, hc']

/-- **C16_unregister_translated.** `Daemon.unregister` as transcribed = the model's `unregister` of the repaired
    code: same final state (table and both attributes of the object) and same outcome (`None`, ValueError,
    DaemonError, AttributeError), for every argument kind. -/
theorem C16_unregister_translated (s : State) (t : Target) (hl : liveT s t) :
    unregisterSrc s (Target.val t) = ((unregister .fixed s t).1, resR (unregister .fixed s t).2) := by
  have hreg : ∀ i, registeredSrc s (.str i) = registeredVal s i := C16_registered_translated s
  unfold unregisterSrc
  cases t with
  | noneArg => simp [Target.val, unregister, resR]
  | plain => simp [Target.val, unregister, resR, isStr, idAttr]
  | daemonObj => simp [Target.val, unregister, resR, isStr, idAttr]
  | byId i =>
    by_cases hi : i = .daemon
    · simp [Target.val, unregister, resR, isStr, hi]
    · cases h : lookup i s.objs with
      | none =>
        have : erase i s.objs = s.objs := by
          have hg : ∀ l : Objs, lookup i l = none → erase i l = l := by
            intro l
            induction l with
            | nil => intro _; rfl
            | cons p r ih =>
              intro hl
              simp only [lookup] at hl
              by_cases hp : p.1 = i
              · simp [hp] at hl
              · simp only [hp, if_false] at hl
                have ih' := ih hl
                unfold erase at ih' ⊢
                rw [List.filter_cons]
                simp only [ne_eq, hp, not_false_eq_true, decide_true, if_true]
                rw [ih']
          exact hg _ h
        simp [Target.val, unregister, resR, isStr, hi, tblHas, h, this]
      | some en => simp [Target.val, unregister, resR, isStr, hi, tblHas, h, tblDel, Eff.bind]
  | byObj e =>
    have hd : isDead s e = false := hl
    cases hg : getId s e with
    | none => simp [Target.val, unregister, resR, isStr, idAttr, hg, hd]
    | some i =>
      by_cases hi : i = .daemon
      · simp [Target.val, unregister, resR, isStr, idAttr, hg, hd, hi]
      · cases h : lookup i s.objs with
        | none => simp [Target.val, unregister, resR, isStr, idAttr, hg, hd, hi, tblHas, h]
        | some en =>
          simp only [Target.val, unregister, isStr, idAttr, hg, hd, hi, tblHas, h, hreg, registeredVal,
            Option.bind_some, Cfg.fixed]
          cases hde : deref s en with
          | none => simp [resR]
          | some r =>
            by_cases hr : r = .ent e
            · subst hr
              simp only [refVal, tblDel, h, Eff.bind, delAttrs, delIdAttr, delDmAttr]
              cases hp : s.pid e with
              | none => simp [resR, hi, hp]
              | some j =>
                by_cases ha : s.pdm e = .absent <;> simp [resR, ha, hi, hp]
            · cases r with
              | daemonObj => simp [refVal, resR]
              | ent e' =>
                have : ¬ e' = e := fun h => hr (by rw [h])
                simp [refVal, resR, this]

theorem getId_upd_self (s : State) (e : Ent) (i : Id) (pdm : Ent → DAttr) (objs : Objs) (fins : List (Nat × Id)) (n : Nat) :
    getId { s with pid := upd s.pid e (some i), pdm := pdm, objs := objs, fins := fins, next := n } e = some i := by
  cases e <;> simp [getId, upd]

theorem lookup_setEntry_same (i : Id) (en : Entry) (l : Objs) : lookup i (setEntry i en l) = some en := by
  induction l with
  | nil => simp [setEntry, lookup]
  | cons p r ih =>
    by_cases hp : p.1 = i
    · simp [setEntry, lookup, hp]
    · simp [setEntry, lookup, hp, ih]

theorem refVal_beq (r : Ref) (e : Ent) : (refVal r == Val.ent e) = (r == Ref.ent e) := by
  rw [Bool.eq_iff_iff]
  cases r <;> simp [refVal]

/-- **C16_register_translated.** `Daemon.register` as transcribed = the model's `register` of the repaired code:
    the same check fails first with the same exception and nothing changed, or the same attributes, table entry,
    finalizer and URI result — for every object or class, id argument (None, "", non-string, string, the daemon's
    id), `force` and `weak`.  (`hf`: an explicit id is never the id `uuid4` is about to produce.) -/
theorem C16_register_translated (s : State) (e : Ent) (ia : IdArg) (force weak : Bool)
    (hd : isDead s e = false) (hf : ∀ n, ia = .str (.gen n) → n ≠ s.next) :
    registerSrc s (.ent e) (IdArg.val ia) force weak =
      ((register .fixed s e ia force weak).1, resR (register .fixed s e ia force weak).2) := by
  have hreg : ∀ i, registeredSrc s (.str i) = registeredVal s i := C16_registered_translated s
  -- the "already has a Pyro id" test
  have hal : ∀ p, getId s e = some p →
      (registeredVal s p == Val.ent e) = entryIs s true p e := by
    intro p _
    unfold registeredVal entryIs
    cases hl : lookup p s.objs with
    | none => simp
    | some en =>
      obtain ⟨r, w⟩ := en
      cases w
      · simp [deref, refVal_beq]
      · simp only [Option.bind_some, Bool.true_and, if_true]
        cases hde : deref s ⟨r, true⟩ with
        | none => simp
        | some r' => simp [refVal_beq]
  have hfresh : ∀ i, ia = .str i → ¬ i = .gen s.next := by
    intro i hi h; subst h; exact hf _ hi rfl
  unfold registerSrc register regCheck
  simp only [hd, Cfg.fixed, Bool.true_and]
  cases ia with
  | nonStr => simp [IdArg.val, truthy, isStr, resR]
  | str i =>
    have hi := hfresh i rfl
    by_cases hdm : i = .daemon
    · simp [IdArg.val, truthy, isStr, resR, resolveId, hdm]
    · have hset : ∀ v w, lookup i (setEntry i ⟨v, w⟩ s.objs) = some ⟨v, w⟩ := fun v w => lookup_setEntry_same i _ _
      cases hg : getId s e with
      | none =>
        cases hlk : lookup i s.objs <;> cases hcs : canSet e <;> cases e <;> cases weak <;> cases force <;>
          simp_all [IdArg.val, truthy, isStr, resR, resolveId, isClassV, isClass, alreadyHasId, hasIdAttr, tblHas,
            setIdAttr, setDmAttr, installHooks, Eff.bind, idAttr, getId_upd_self, tblSet, mkWref, addFin, tblGet, entryVal,
            uriForSrc, retUri, regCommit, generates]
      | some p =>
        have h2 := hal p hg
        cases hE : entryIs s true p e <;> rw [hE] at h2 <;>
        cases hlk : lookup i s.objs <;> cases hcs : canSet e <;> cases e <;> cases weak <;> cases force <;>
          simp_all [IdArg.val, truthy, isStr, resR, resolveId, isClassV, isClass, alreadyHasId, hasIdAttr, tblHas,
            setIdAttr, setDmAttr, installHooks, Eff.bind, idAttr, getId_upd_self, tblSet, mkWref, addFin, tblGet, entryVal,
            uriForSrc, retUri, regCommit, generates]
  | none =>
    have hset : ∀ v w, lookup (.gen s.next) (setEntry (.gen s.next) ⟨v, w⟩ s.objs) = some ⟨v, w⟩ :=
      fun v w => lookup_setEntry_same _ _ _
    cases hg : getId s e with
    | none =>
      cases hlk : lookup (.gen s.next) s.objs <;> cases hcs : canSet e <;> cases e <;> cases weak <;> cases force <;>
        simp_all [IdArg.val, truthy, isStr, resR, resolveId, isClassV, isClass, alreadyHasId, hasIdAttr, tblHas, freshId,
          setIdAttr, setDmAttr, installHooks, Eff.bind, idAttr, getId_upd_self, tblSet, mkWref, addFin, tblGet, entryVal,
          uriForSrc, retUri, regCommit, generates]
    | some p =>
      have h2 := hal p hg
      cases hE : entryIs s true p e <;> rw [hE] at h2 <;>
      cases hlk : lookup (.gen s.next) s.objs <;> cases hcs : canSet e <;> cases e <;> cases weak <;> cases force <;>
        simp_all [IdArg.val, truthy, isStr, resR, resolveId, isClassV, isClass, alreadyHasId, hasIdAttr, tblHas, freshId,
          setIdAttr, setDmAttr, installHooks, Eff.bind, idAttr, getId_upd_self, tblSet, mkWref, addFin, tblGet, entryVal,
          uriForSrc, retUri, regCommit, generates]
  | empty =>
    have hset : ∀ v w, lookup (.gen s.next) (setEntry (.gen s.next) ⟨v, w⟩ s.objs) = some ⟨v, w⟩ :=
      fun v w => lookup_setEntry_same _ _ _
    cases hg : getId s e with
    | none =>
      cases hlk : lookup (.gen s.next) s.objs <;> cases hcs : canSet e <;> cases e <;> cases weak <;> cases force <;>
        simp_all [IdArg.val, truthy, isStr, resR, resolveId, isClassV, isClass, alreadyHasId, hasIdAttr, tblHas, freshId,
          setIdAttr, setDmAttr, installHooks, Eff.bind, idAttr, getId_upd_self, tblSet, mkWref, addFin, tblGet, entryVal,
          uriForSrc, retUri, regCommit, generates]
    | some p =>
      have h2 := hal p hg
      cases hE : entryIs s true p e <;> rw [hE] at h2 <;>
      cases hlk : lookup (.gen s.next) s.objs <;> cases hcs : canSet e <;> cases e <;> cases weak <;> cases force <;>
        simp_all [IdArg.val, truthy, isStr, resR, resolveId, isClassV, isClass, alreadyHasId, hasIdAttr, tblHas, freshId,
          setIdAttr, setDmAttr, installHooks, Eff.bind, idAttr, getId_upd_self, tblSet, mkWref, addFin, tblGet, entryVal,
          uriForSrc, retUri, regCommit, generates]

end Pyro.C16
