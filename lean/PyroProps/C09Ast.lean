/-
  C09 — the transcription of `Daemon._getInstance` (PyroModel/Gen/C09Src.lean, regenerated from the python ast
  of the current source on every run by harness/props/c09_tr.py) computes exactly what the hand model
  `Pyro.Inst.getInstance` computes, for every class table, connection, class, behaviour of user code and
  every state (`⟨.isNone, .isNone⟩` = `Pyro.C09.fixed`, the `is None` tests).  This file does not depend on PyroProps/C09.lean,
  so that it is checked (and reported) on its own; the property theorems restated about the transcription are in
  PyroProps/C09Src.lean.
-/
import PyroModel.Instances
import PyroModel.InstancesSrc
import PyroModel.Gen.C09Src

set_option linter.unusedSimpArgs false

namespace Pyro.C09

open Pyro Pyro.Inst Pyro.Inst.Src Pyro.Gen.C09Src

/-- the translator understood the whole function (otherwise the generated transcription is `stuck`) -/
theorem C09_src_translated_flag : Pyro.Gen.C09Src.translated = true := by decide

/-- **C09_getInstance_translated.**  For all inputs and states: running the transcription of the CURRENT source of
    `_getInstance` (all three modes, the invalid-mode branch, the creation helper with creator / plain constructor /
    `TypeError` on a foreign result, exceptions of user code whether `Exception`s or not) yields exactly the state
    and the observation of the hand model with the `is None` tests.  As `toRes` is `none` for `stuck`, this also says:
    no operation is applied to a value it is not defined for, the daemon's table is never touched without
    `create_single_instance_lock`, the lock is never taken twice and is released when the call ends. -/
theorem C09_getInstance_translated (spec : Nat → ClassSpec) (conn cls : Nat) (o : Outcome) (ub : Bool) (s : State) :
    runCall getInstanceSrc spec conn cls o ub s = some (getInstance ⟨.isNone, .isNone⟩ (spec cls) conn cls o s) := by
  unfold runCall
  rcases hsp : spec cls with ⟨m, cr⟩
  cases hd : s.tab (.single cls) <;> cases hc : s.tab (.sess conn cls) <;>
  cases m <;> cases cr <;> cases o <;> cases ub <;>
  simp [getInstanceSrc, Src.bind, Src.pure, Src.throw, Src.stuck, Src.cond, instancing, Src.fst, Src.snd,
    daemonTable, connTable, lockOf, tabGet, tabSet, withLock, call, isinstance, isNone, truth, eqMode, memMode, notB,
    tryExcept, catches, start, toRes, instOf, ofOpt, store, alloc, ranCreator, creatorVal, hsp, hd, hc,
    getInstance, findOrCreate, createIn, createInstance, storeIn, reuse]

/-- one step of a history: the transcription where the model has `getInstance` -/
theorem stepEvSrc_eq (spec : Nat → ClassSpec) (ub : Bool) (s : State) (e : Event) :
    stepEvSrc getInstanceSrc spec ub s e = some (stepEv ⟨.isNone, .isNone⟩ spec s e) := by
  cases e with
  | call c k o => exact C09_getInstance_translated spec c k o ub s
  | openConn c k => rfl
  | close c => rfl

/-- **C09_runHist_translated.**  Every history of connections opening, calling and closing, every call made by the
    transcription of the current source: never stuck, and final state and all observations are the model's. -/
theorem C09_runHist_translated (spec : Nat → ClassSpec) (ub : Bool) :
    ∀ (h : List Event) (s : State), runHistSrc getInstanceSrc spec ub s h = some (runHist ⟨.isNone, .isNone⟩ spec s h) := by
  intro h
  induction h with
  | nil => intro s; rfl
  | cons e es ih =>
    intro s
    simp only [runHistSrc, stepEvSrc_eq, ih, runHist]

/-- **C09_source_lock.**  For all inputs: the run of the transcription is not stuck — in particular every access of
    `self._pyroInstances` happened while `create_single_instance_lock` was held and the lock was not taken twice —
    and when the call ends, normally or with an exception, the lock is released. -/
theorem C09_source_lock (spec : Nat → ClassSpec) (conn cls : Nat) (o : Outcome) (ub : Bool) (s : State) :
    (∃ v s', getInstanceSrc .self (.cls cls) (.conn conn) ⟨spec, o, ub⟩ (start s) = .ok v s' ∧ s'.held = false) ∨
    (∃ e s', getInstanceSrc .self (.cls cls) (.conn conn) ⟨spec, o, ub⟩ (start s) = .exc e s' ∧ s'.held = false) := by
  have h := C09_getInstance_translated spec conn cls o ub s
  unfold runCall at h
  generalize getInstanceSrc .self (.cls cls) (.conn conn) ⟨spec, o, ub⟩ (start s) = r at h
  cases r with
  | ok v s' =>
    left
    refine ⟨v, s', rfl, ?_⟩
    cases hh : s'.held with
    | false => rfl
    | true => simp [toRes, hh] at h
  | exc e s' =>
    right
    refine ⟨e, s', rfl, ?_⟩
    cases hh : s'.held with
    | false => rfl
    | true => simp [toRes, hh] at h
  | stuck => simp [toRes] at h

/-- the kit really refuses an unlocked access of the daemon's table, a second acquisition of the lock, and a foreign
    object put into a table (non-vacuity of "not stuck") -/
example (env : Env) (s : State) : toRes (bind (tabGet .dtab (.cls 0)) (fun v => Src.pure v) env (start s)) = none := rfl
example (env : Env) (s : State) : toRes (withLock .lock (withLock .lock (Src.pure Val.none)) env (start s)) = none := rfl
example (env : Env) (s : State) : toRes (bind (tabSet (.ctab 0) (.cls 0) (.foreign true 0)) (fun _ => Src.pure Val.none) env (start s)) = none := rfl

/-- **C09_source_creator_count.**  Exactly once, counted: in one call of the transcription the creator is evaluated
    at most once, and exactly once iff the class has a creator `if creator:` sees and no instance was found. -/
theorem C09_source_creator_count (spec : Nat → ClassSpec) (conn cls : Nat) (o : Outcome) (ub : Bool) (s : State) :
    ∀ r, getInstanceSrc .self (.cls cls) (.conn conn) ⟨spec, o, ub⟩ (start s) = r →
      match r with
      | .ok _ s' => s'.creatorCalls ≤ 1 ∧ s'.made ≤ 1
      | .exc _ s' => s'.creatorCalls ≤ 1 ∧ s'.made ≤ 1
      | .stuck => False := by
  intro r hr
  subst hr
  rcases hsp : spec cls with ⟨m, cr⟩
  cases hd : s.tab (.single cls) <;> cases hc : s.tab (.sess conn cls) <;>
  cases m <;> cases cr <;> cases o <;> cases ub <;>
  simp [getInstanceSrc, Src.bind, Src.pure, Src.throw, Src.stuck, Src.cond, instancing, Src.fst, Src.snd,
    daemonTable, connTable, lockOf, tabGet, tabSet, withLock, call, isinstance, isNone, truth, eqMode, memMode, notB,
    tryExcept, catches, start, instOf, ofOpt, store, alloc, ranCreator, creatorVal, hsp, hd, hc]

end Pyro.C09
