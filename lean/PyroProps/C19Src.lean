/-
  C19 — the transcription of `URI._parseLocation` and of the `location` property (Pyro.Gen.C19.parseLocationSrc /
  locationSrc, regenerated from /repo's source on every run by harness/props/c19_tr.py) computes exactly what the
  hand-written model computes, for ALL inputs; the property theorems restated about the transcription.
-/
import PyroModel.Uri
import PyroModel.UriPy
import PyroProofs.UriLemmas
import PyroProofs.UriParse
import PyroModel.Gen.C19
import PyroModel.UriSrc
import PyroProps.C19

namespace Pyro.C19

open Pyro Pyro.Uri Pyro.UriPy Pyro.UriSrc

/-! ### meanings of the primitives in terms of the model's vocabulary -/

theorem nonEmpty_none : nonEmpty? none = none := rfl
theorem nonEmpty_nil : nonEmpty? (some []) = none := rfl
theorem nonEmpty_cons (c : Nat) (r : Text) : nonEmpty? (some (c :: r)) = some (c :: r) := rfl

theorem startsWith_one (c : Nat) (l : Text) : startsWith [c] l = decide (l.head? = some c) := by
  cases l with
  | nil => simp [startsWith, List.isPrefixOf]
  | cons a r =>
    simp only [startsWith, List.isPrefixOf, List.head?_cons, Option.some.injEq, Bool.and_true]
    by_cases h : c = a
    · subst h; simp
    · have : ¬ a = c := fun e => h e.symm
      simp [h, this]

theorem truthyT_eq (t : Text) : truthyT t = decide (t ≠ []) := by
  cases t <;> simp [truthyT]

theorem partition1_fst (l : Text) : (partition1 58 l).1 = (partitionColon l).1 := rfl
theorem partition1_snd (l : Text) : (partition1 58 l).2.2 = (partitionColon l).2 := rfl

/-- the result the model's `parseLocation` stands for at the level of the instance -/
def locResult (s : Self) (r : Except Err Loc) : Except Exc Self :=
  match r with
  | .ok l => .ok (s.withLoc l)
  | .error e => .error (.pyro e)

/-- default-port handling + `int()` of the source (lines 90-95) against the model's `portValue` -/
theorem port_none (dp : Option Nat) :
    pyIntPV (PortVal.ofNat? dp) = match dp with
      | some n => .ok (Int.ofNat n)
      | none => .error .typeError := by
  cases dp <;> rfl

theorem port_str (t : Text) :
    pyIntPV (.str t) = match pyInt t with
      | some i => .ok i
      | none => .error .valueError := rfl

/-- **C19_parseLocation_translated.**  For every instance state, every `location` (None or any str) and every
    `defaultPort` (None or a non-negative int) the transcription of `URI._parseLocation` returns / raises exactly what
    the model's `parseLocation` (with both parse-time guards) says: the same error kind as a `PyroError`, never a
    `ValueError`/`TypeError`, or the instance with the model's socket name / host and int port filled in. -/
theorem C19_parseLocation_translated (s : Self) (location : Option Text) (dp : Option Nat) :
    Pyro.Gen.C19.parseLocationSrc s location (PortVal.ofNat? dp) =
      locResult s (parseLocation Guards.on location dp) := by
  unfold Pyro.Gen.C19.parseLocationSrc
  cases location with
  | none => simp [nonEmpty_none, parseLocation, locResult, Self.withLoc]
  | some l =>
    cases l with
    | nil => simp [nonEmpty_nil, parseLocation, locResult, Self.withLoc]
    | cons c r =>
      rw [nonEmpty_cons]
      simp only [parseLocation, List.cons_ne_nil, if_false]
      by_cases hs : startsWith sSockPrefix (c :: r) = true
      · have hs' : startsWith [46, 47, 117, 58] (c :: r) = true := hs
        simp only [hs, hs', if_true, truthyT_eq, containsChar]
        generalize List.drop 4 (c :: r) = name
        by_cases hb : name = [] ∨ 58 ∈ name
        · rw [if_pos hb]
          rcases hb with hb | hb <;> simp [hb, locResult]
        · rw [if_neg hb]
          have h1 : ¬ name = [] := fun e => hb (Or.inl e)
          have h2 : ¬ 58 ∈ name := fun e => hb (Or.inr e)
          simp [h1, h2, locResult, Self.withLoc]
      · have hs' : ¬ startsWith [46, 47, 117, 58] (c :: r) = true := hs
        simp only [hs, hs', if_false]
        rw [startsWith_one]
        by_cases h91 : (c :: r).head? = some 91
        · simp only [h91, decide_true, if_true]
          by_cases hbb : startsWith [91, 91] (c :: r) = true
          · simp [hbb, locResult]
          · simp only [hbb, if_false]
            cases hm : ipv6Match (c :: r) with
            | none => simp [locResult]
            | some m =>
              obtain ⟨h, p⟩ := m
              simp only [v6Groups]
              cases p with
              | none =>
                simp only [nonEmpty_none, portValue, port_none]
                cases dp <;> simp [locResult, Self.withLoc, catches, Exc.cls]
              | some d =>
                cases d with
                | nil =>
                  simp only [nonEmpty_nil, portValue, port_none, if_true]
                  cases dp <;> simp [locResult, Self.withLoc, catches, Exc.cls]
                | cons d0 dr =>
                  simp only [nonEmpty_cons, portValue, port_str, List.cons_ne_nil, if_false]
                  cases pyInt (d0 :: dr) <;> simp [locResult, Self.withLoc, catches, Exc.cls]
        · simp only [h91, decide_false, if_false, Bool.false_eq_true]
          simp only [partition1_fst, partition1_snd, truthyT_eq, Guards.on, true_and]
          by_cases hh : (partitionColon (c :: r)).1 = [] ∨ (partitionColon (c :: r)).1 = sDotSlashU
          · rw [if_pos hh]
            rcases hh with hh | hh
            · simp [hh, locResult]
            · have : (partitionColon (c :: r)).1 = [46, 47, 117] := hh
              simp [this, locResult]
          · rw [if_neg hh]
            have h1 : ¬ (partitionColon (c :: r)).1 = [] := fun e => hh (Or.inl e)
            have h2 : ¬ (partitionColon (c :: r)).1 = [46, 47, 117] := fun e => hh (Or.inr e)
            simp only [ne_eq, h1, not_false_eq_true, decide_true, Bool.not_true, beq_iff_eq, h2,
              Bool.false_or, decide_false, Bool.false_eq_true, if_false]
            simp only [portValue]
            by_cases hp : (partitionColon (c :: r)).2 = []
            · simp only [hp, not_true_eq_false, decide_false, Bool.not_false, if_true, port_none]
              cases dp <;> simp [locResult, Self.withLoc, catches, Exc.cls]
            · simp only [hp, not_false_eq_true, decide_true, Bool.not_true, Bool.false_eq_true, if_false, port_str]
              cases pyInt (partitionColon (c :: r)).2 <;> simp [locResult, Self.withLoc, catches, Exc.cls]

/-- **C19_location_translated.**  On the instance of every model URI the transcription of the `location` property
    returns (never raises) exactly the model's `renderLoc`. -/
theorem C19_location_translated (u : Uri) :
    Pyro.Gen.C19.locationSrc (selfOf u) = .ok (renderLoc u.loc) := by
  obtain ⟨k, l⟩ := u
  unfold Pyro.Gen.C19.locationSrc
  cases l with
  | none => simp [selfOf, getstate, nonEmpty_none, renderLoc]
  | sock n =>
    cases n with
    | nil => simp [selfOf, getstate, nonEmpty_none, nonEmpty_nil, renderLoc]
    | cons a r => simp [selfOf, getstate, nonEmpty_none, nonEmpty_cons, renderLoc, sSockPrefix]
  | tcp h p =>
    cases h with
    | nil => simp [selfOf, getstate, nonEmpty_none, nonEmpty_nil, renderLoc]
    | cons a r =>
      simp only [selfOf, getstate, nonEmpty_cons, renderLoc, containsChar, fmtD, fmtS, List.cons_ne_nil, if_false]
      by_cases hc : 58 ∈ a :: r
      · simp [hc]
      · simp [hc]

/-! ### the property restated about the transcription (`UriSrc.parseSrc` / `strSrc`: `__init__` and `__str__`
    assembled around the transcribed `_parseLocation` / `location`) -/

/-- what the model's `parse` result means at the level of the instance -/
def initResult (r : Except Err Uri) : Except Exc Self :=
  match r with
  | .ok u => .ok (selfOf u)
  | .error e => .error (.pyro e)

theorem blank_withLoc_pyro (o : Text) (l : Loc) : (blank sPYRO (.str o)).withLoc l = selfOf ⟨.pyro o, l⟩ := by
  cases l <;> rfl
theorem blank_withLoc_pyroname (o : Text) (l : Loc) : (blank sPYRONAME (.str o)).withLoc l = selfOf ⟨.pyroname o, l⟩ := by
  cases l <;> rfl
theorem blank_withLoc_pyrometa (t : List Text) (l : Loc) : (blank sPYROMETA (.set t)).withLoc l = selfOf ⟨.pyrometa t, l⟩ := by
  cases l <;> rfl

/-- **C19_source_parse.**  `__init__` around the transcribed `_parseLocation` accepts exactly the strings the model's
    parser accepts, builds the instance of the model's URI, and refuses the others with the same kind of `PyroError`
    (never a `ValueError`/`TypeError`) — for every string and NS_PORT. -/
theorem C19_source_parse (nsPort : Nat) (s : Text) :
    parseSrc nsPort s = initResult (parse Guards.on nsPort s) := by
  unfold parseSrc parse
  cases matchProtocol s with
  | none => rfl
  | some pr =>
    obtain ⟨ptxt, rest⟩ := pr
    simp only
    cases splitObj rest with
    | none => rfl
    | some ol =>
      obtain ⟨o, location⟩ := ol
      simp only [C19_parseLocation_translated]
      by_cases h1 : ptxt.map upper = sPYRONAME
      · simp only [h1, if_true]
        cases parseLocation Guards.on location (some nsPort) <;>
          simp [locResult, initResult, Except.map, blank_withLoc_pyroname]
      · simp only [h1, if_false]
        by_cases h2 : ptxt.map upper = sPYRO
        · simp only [h2, if_true]
          cases falsy location
          · simp only [Bool.false_eq_true, if_false]
            cases parseLocation Guards.on location none <;>
              simp [locResult, initResult, Except.map, blank_withLoc_pyro]
          · simp [initResult]
        · simp only [h2, if_false]
          by_cases h3 : ptxt.map upper = sPYROMETA
          · simp only [h3, if_true, Guards.on, true_and]
            split
            · simp [initResult]
            · cases parseLocation ⟨true, true⟩ location (some nsPort) <;>
                simp [locResult, initResult, Except.map, blank_withLoc_pyrometa]
          · simp [h3, initResult]

/-- `__str__` around the transcribed `location` prints the model's text form -/
theorem strSrc_selfOf (u : Uri) (order : List Text) : strSrc (selfOf u) order = .ok (render u order) := by
  unfold strSrc
  rw [C19_location_translated]
  obtain ⟨k, l⟩ := u
  cases k <;> (simp only [render, headText, selfOf, getstate, Kind.protoText]; cases renderLoc l <;> simp <;> split <;> rfl)

/-- **C19_source_roundtrip.**  Whatever string the source-derived `__init__` accepts (any NS_PORT): the instance is
    the instance of a model URI satisfying `Valid`; its source-derived text form — tag set iterated in ANY order — is
    produced without exception, is accepted again by the source-derived `__init__` at a receiver with any NS_PORT, and
    yields the same instance (same protocol, object, socket name, host, port); so the text is a fixed point. -/
theorem C19_source_roundtrip (nsPort nsPort' : Nat) (s : Text) (σ : Self) (h : parseSrc nsPort s = .ok σ) :
    ∃ u, σ = selfOf u ∧ Valid u ∧ ∀ order, OrderOK u order →
      ∃ t, strSrc σ order = .ok t ∧ parseSrc nsPort' t = .ok σ ∧
        (∀ σ', parseSrc nsPort' t = .ok σ' → strSrc σ' order = .ok t) := by
  rw [C19_source_parse] at h
  cases hp : parse Guards.on nsPort s with
  | error e => rw [hp] at h; simp [initResult] at h
  | ok u =>
    rw [hp] at h
    simp only [initResult, Except.ok.injEq] at h
    subst h
    refine ⟨u, rfl, C19_parse_valid nsPort s u hp, fun order ho => ⟨render u order, strSrc_selfOf u order, ?_, ?_⟩⟩
    · rw [C19_source_parse, C19_roundtrip nsPort nsPort' s u order hp ho]; rfl
    · intro σ' h'
      rw [C19_source_parse, C19_roundtrip nsPort nsPort' s u order hp ho] at h'
      simp only [initResult, Except.ok.injEq] at h'
      subst h'
      exact strSrc_selfOf u order

/-- **C19_source_unequal_locations.**  Two model URIs whose source-derived `location` values differ never compare equal. -/
theorem C19_source_unequal_locations (u v : Uri)
    (h : Pyro.Gen.C19.locationSrc (selfOf u) ≠ Pyro.Gen.C19.locationSrc (selfOf v)) : eqUri u v = false := by
  rw [C19_location_translated, C19_location_translated] at h
  exact (C19_unequal_locations u v).1 (fun e => h (by rw [e]))

/-! ### stronger statements (round 5) -/

/-- **C19_valid_iff_accepted.**  The invariant is tight: `Valid` holds of exactly the URIs the parser can build
    (for any NS_PORT) — every valid URI is the parse of some string, namely of its own text form. -/
theorem C19_valid_iff_accepted (nsPort : Nat) (u : Uri) :
    Valid u ↔ ∃ s, parse Guards.on nsPort s = .ok u := by
  constructor
  · intro hv
    refine ⟨render u u.tagOrder, C19_reparse u hv u.tagOrder ?_ nsPort⟩
    cases u with
    | mk k l => cases k <;> simp [OrderOK, Uri.tagOrder]
  · rintro ⟨s, hs⟩
    exact C19_parse_valid nsPort s u hs

/-- **C19_eq_iff_text.**  For valid URIs `==` holds exactly when the text forms coincide (each in any order of its
    tags): the text form is a complete invariant of equality, independent of the iteration order of the tag sets. -/
theorem C19_eq_iff_text (u v : Uri) (hu : Valid u) (hv : Valid v) (ou ov : List Text)
    (hou : OrderOK u ou) (hov : OrderOK v ov) :
    (render u ou = render v ov → eqUri u v = true) ∧
    (eqUri u v = true → ∀ nsPort, parse Guards.on nsPort (render u ou) = parse Guards.on nsPort (render v ov)) := by
  constructor
  · intro h
    exact (C19_eq_hash (fun _ => 0) u v).1.2 (C19_text_injective u v hu hv ou ov hou hov h)
  · intro h nsPort
    have e := (C19_eq_hash (fun _ => 0) u v).1.1 h
    subst e
    rw [C19_reparse u hu ou hou nsPort, C19_reparse u hv ov hov nsPort]

end Pyro.C19
