/-
  C18 — Thread pool: each connection served once or refused; workers stay bounded.

  Model: PyroModel/Pool.lean (Pool.process / notify_done / close as lists of micro-steps, the
  Worker.run loop statement by statement).  The theorems below are about the *coarse* semantics, in
  which a pool method is one atomic action.  That semantics is the right one exactly when every
  access of `idle` / `busy` / `closed` in the three methods is inside `with self.count_lock:` —
  obligation `C18_gen_shape_ok` on the lock shape that the extractor regenerates from
  svr_threads.py on every run — because then `Lock.atomic` applies (`C18_methods_atomic`).
  All theorems quantify over every pool size `min ≤ max`, every list of actions (any interleaving
  of the accept loop, job endings, `close` calls and worker statements, of any length) and every
  choice `set.pop()` can make.
  The code before the fix took no lock: `C18_race_overlimit` / `C18_race_close` exhibit, on the
  same micro-steps interleaved freely, the schedules that the scheduler exploration finds on the
  real unfixed code (corpus/C18).
-/
import PyroModel.Pool
import PyroProofs.Lock
import PyroProofs.Pool
import PyroProofs.PoolProbe
import PyroProofs.PoolConn
import PyroModel.Gen.C18

namespace Pyro.C18

open Pyro Pyro.Lock Pyro.Pool

/-! ### obligations on facts extracted from the current source -/

/-- **C18_gen_shape_ok.**  In the current source `Pool.process`, `Pool.notify_done` and `Pool.close`
    (with the helper methods of `Pool` they call expanded at the call site) touch `self.idle`, `self.busy`,
    `self.closed` only inside `with self.count_lock:` (0 accesses outside, and they do access them inside);
    while the real methods were executed on every small pool state no access happened without the lock held;
    the lock is a plain `threading.Lock`; nothing inside the lock can block (no join / wait / sleep / acquire,
    lexically or observed); every `join` that `close` performed had a timeout; no other class of the module
    touches the pool's sets, flag, lock or a worker's event; the default sizes satisfy `1 ≤ min ≤ max`. -/
theorem C18_gen_shape_ok :
    (∀ m ∈ Pyro.Gen.C18.poolShape, m.2.2 = 0 ∧ 0 < m.2.1) ∧
    Pyro.Gen.C18.poolShape.map (·.1) = ["process", "notify_done", "close"] ∧
    Pyro.Gen.C18.unlockedAccesses = 0 ∧
    Pyro.Gen.C18.lockKind = "Lock" ∧
    Pyro.Gen.C18.blockingInsideLock = 0 ∧
    Pyro.Gen.C18.untimedJoins = 0 ∧
    Pyro.Gen.C18.foreignAccesses = 0 ∧
    1 ≤ Pyro.Gen.C18.defaultMin ∧ Pyro.Gen.C18.defaultMin ≤ Pyro.Gen.C18.defaultMax := by decide

/-- **C18_gen_source.**  The sequences of EFFECTS of `Worker.process` and `Worker.run` in the current source —
    effects on the event, the job slot and the pool, in evaluation order, with private helper methods of the
    class expanded in place, loop spelling / locals / helper names / docstrings / hints / log calls ignored —
    are exactly the ones the model's `signal` and `wstep` follow: store the job, then set the event; and
    per loop round wait, clear, read the slot (leave if empty), inside a try that catches Exception read the
    slot and call it, then empty the slot, then `notify_done`.  The ORDER of these effects is the concurrency
    fact (no sequential probe can observe it), so this obligation is about order, not about spelling. -/
theorem C18_gen_source :
    Pyro.Gen.C18.workerProcess = ["slot:=arg0", "set"] ∧
    Pyro.Gen.C18.workerRun =
      ["loop[", "wait", "clear", "read-slot", "exit-if isnone(slot)", "try[", "read-slot", "call-job",
       "]except Exception[", "]", "slot:=None", "notify_done(self)", "]", "pool:=None"] := by decide

/-- **C18_gen_behaviour.**  The real `Pool.__init__`, `Pool.process`, `Pool.notify_done` and `Pool.close` were
    *called* (no thread started) on every small pool state — sizes min 1..2, max min..min+1, open / closed,
    0..2 idle and 0..2 busy workers, every worker as argument of `notify_done`, and `process` once more with a
    failing `Thread.start()` — and on every row the model's atomic method (`Pool.call`) has exactly the observed
    effect on `idle`, `busy`, `closed`, every worker's job slot and event, and raises / returns the same; `Pool()`
    builds `min` idle workers after creating the lock and refuses sizes outside `1 ≤ min ≤ max`; a failing
    `Thread.start()` comes out of `process` as RuntimeError and leaves the pool untouched.  How the methods are
    spelled (helpers, early returns, locals, constants) is irrelevant to this obligation. -/
theorem C18_gen_behaviour :
    (Pyro.Gen.C18.initTable.all checkInit = true ∧ Pyro.Gen.C18.initTable.length = 16) ∧
    (Pyro.Gen.C18.processTable.all (checkRow 0) = true ∧ Pyro.Gen.C18.processTable.length = 72) ∧
    (Pyro.Gen.C18.startFailTable.all checkStartFail = true ∧ Pyro.Gen.C18.startFailTable.length = 72) ∧
    (Pyro.Gen.C18.notifyTable.all (checkRow 1) = true ∧ 72 ≤ Pyro.Gen.C18.notifyTable.length) ∧
    (Pyro.Gen.C18.closeTable.all (checkRow 2) = true ∧ Pyro.Gen.C18.closeTable.length = 72) := by
  decide +kernel

/-! ### the pool methods are atomic under every schedule -/

/-- **C18_methods_atomic.**  For every pool state, every collection of concurrent calls of
    `process` / `notify_done` / `close` (by the accept loop, by any number of workers, by whoever
    closes) and every schedule of their micro-steps under `count_lock`: the calls completed so far took
    effect one at a time in lock-release order, each returned (or raised) what the sequential execution
    returns at its position, and nobody else is inside a method body.  The coarse actions `submit`,
    `close` and the last statement of the worker loop are by definition that sequential execution
    (`rfl`), which is what the remaining theorems reason about. -/
theorem C18_methods_atomic (mn mx : Nat) (s0 : St) (calls : List Call) (schedule : List Nat) :
    (let c := Lock.run (Config.init s0 (calls.map (toOp mn mx))) schedule
     Lock.Inv s0 c ∧ Book (calls.map (toOp mn mx)) c) ∧
    (∀ s pick, step mn mx s (.submit pick) = ((toOp mn mx (.process pick)).run s).1) ∧
    (∀ s, step mn mx s .close = ((toOp mn mx .close).run s).1) :=
  ⟨⟨atomic s0 _ schedule, book s0 _ schedule⟩, fun _ _ => rfl, fun _ => rfl⟩

/-! ### workers stay bounded -/

/-- **C18_bounded.**  Under any timing, for all sizes `min ≤ max`: the pool never has more than `max`
    workers (`|idle| + |busy| ≤ THREADPOOL_SIZE`), `idle` and `busy` are sets and disjoint, their
    members are existing workers, and in an open pool a worker thread that is in neither set is on its
    way out: it has been told to exit (empty job slot) and only has to wake up, or has left its loop. -/
theorem C18_bounded (mn mx : Nat) (hm : mn ≤ mx) (acts : List Act) :
    let s := run mn mx (init mn) acts
    s.idle.length + s.busy.length ≤ mx ∧ s.idle.Nodup ∧ s.busy.Nodup ∧ (∀ w, w ∈ s.idle → w ∉ s.busy) ∧
    (∀ w, w ∈ s.idle ∨ w ∈ s.busy → w < s.ws.length) ∧
    (∀ w x, s.ws[w]? = some x → s.closed = false → w ∉ s.idle → w ∉ s.busy →
      x.slot = none ∧ ((x.phase = .waiting ∧ x.ev = true) ∨ x.phase = .woken ∨ x.phase = .cleared ∨ x.phase = .exited)) := by
  intro s
  have h : Inv mx s := inv_run mn mx (init mn) acts (inv_init mn mx hm)
  refine ⟨h.bound, h.idle_nodup, h.busy_nodup, h.disj, ?_, ?_⟩
  · intro w hw; rcases hw with hw | hw
    · exact h.idle_lt w hw
    · exact h.busy_lt w hw
  · intro w x hx hc hi hb
    have hw := h.wk w x hx
    unfold WInv Own Out at hw
    cases hp : x.phase <;> simp only [hp] at hw <;> grind

/-! ### every job is run once, or refused exactly when the pool is full -/

/-- **C18_once_or_refused.**  Under any timing: every job submitted so far got exactly one answer
    (accepted for one worker, refused with NoFreeWorkersError, or refused because the pool is closed);
    a job's body is entered at most once, only if the job was accepted, and by the worker it was handed
    to; refused jobs never run; a job ends only after it started; and an accepted job that has not
    started yet sits in the slot of its worker, which has not yet reached the call (it is not lost). -/
theorem C18_once_or_refused (mn mx : Nat) (hm : mn ≤ mx) (acts : List Act) :
    let s := run mn mx (init mn) acts
    (∀ j, j < s.nextJob ↔ j ∈ ids s) ∧
    (s.accepted.map (·.1)).Nodup ∧ s.refusedFull.Nodup ∧ s.refusedClosed.Nodup ∧
    (∀ j, (j ∈ s.accepted.map (·.1) → j ∉ s.refusedFull ∧ j ∉ s.refusedClosed) ∧ (j ∈ s.refusedFull → j ∉ s.refusedClosed)) ∧
    s.started.Nodup ∧ (∀ p, p ∈ s.started → p ∈ s.accepted) ∧
    (∀ j w w', (j, w) ∈ s.started → (j, w') ∈ s.started → w = w') ∧
    (∀ j w, (j, w) ∈ s.started → j ∉ s.refusedFull ∧ j ∉ s.refusedClosed) ∧
    (∀ j, j ∈ s.ended → ∃ w, (j, w) ∈ s.started) ∧
    (∀ p, p ∈ s.accepted → p ∈ s.started ∨ ∃ x, s.ws[p.2]? = some x ∧ x.slot = some p.1 ∧ preStart x.phase) := by
  intro s
  have h : Inv mx s := inv_run mn mx (init mn) acts (inv_init mn mx hm)
  refine ⟨fun j => ⟨h.ids_all j, h.ids_lt j⟩, h.acc_nodup, h.rf_nodup, h.rc_nodup, h.excl, h.started_nodup,
    h.started_acc, ?_, ?_, h.ended_started, h.pending⟩
  · intro j w w' h1 h2
    have := inj_of_nodup_map (·.1) s.accepted h.acc_nodup (j, w) (j, w') (h.started_acc _ h1) (h.started_acc _ h2) rfl
    exact (Prod.mk.inj this).2
  · intro j w h1
    have hm' : j ∈ s.accepted.map (·.1) := List.mem_map.mpr ⟨(j, w), h.started_acc _ h1, rfl⟩
    exact (h.excl j).1 hm'

/-- **C18_refused_iff_full.**  In every reachable state, whatever `set.pop()` would choose: the next
    `process(job)` raises NoFreeWorkersError exactly when the pool is open and all `THREADPOOL_SIZE`
    workers are busy; it raises the closed-pool error exactly when the pool is closed; otherwise it
    hands the job over; it never fails in any other way. -/
theorem C18_refused_iff_full (mn mx : Nat) (hm : mn ≤ mx) (acts : List Act) (pick : Nat) :
    let s := run mn mx (init mn) acts
    ((call mn mx (.process pick) s).2 = .noFreeWorkers ↔ (s.closed = false ∧ s.busy.length = mx)) ∧
    ((call mn mx (.process pick) s).2 = .poolClosed ↔ s.closed = true) ∧
    ((call mn mx (.process pick) s).2 = .ok ↔ (s.closed = false ∧ s.busy.length < mx)) ∧
    (call mn mx (.process pick) s).2 ≠ .internalError := by
  intro s
  have h : Inv mx s := inv_run mn mx (init mn) acts (inv_init mn mx hm)
  have hb := h.bound
  cases hc : s.closed with
  | true => rw [call_process_closed mn mx pick s hc]; simp
  | false =>
    cases hi : s.idle with
    | nil =>
      rw [hi] at hb
      simp only [List.length_nil, Nat.zero_add] at hb
      by_cases hlt : s.busy.length < mx
      · rw [call_process_new mn mx pick s hc hi hlt]; simp; omega
      · rw [call_process_full mn mx pick s hc hi hlt]; simp; omega
    | cons a l =>
      have hpos : 0 < s.idle.length := by rw [hi]; simp
      obtain ⟨w, hw⟩ : ∃ w, s.idle[pick % s.idle.length]? = some w :=
        ⟨_, List.getElem?_eq_getElem (Nat.mod_lt _ hpos)⟩
      rw [call_process_idle mn mx pick s w hc hw]; simp; omega

/-! ### no lost wake-up -/

/-- **C18_no_lost_wakeup.**  Under any timing, a worker that is blocked in `job_available.wait()` (event
    clear) is an idle worker of an open pool: its slot is empty, it is in `idle`, and every job ever
    handed to it has been started.  So no worker sleeps on a job, and none sleeps in a closed pool. -/
theorem C18_no_lost_wakeup (mn mx : Nat) (hm : mn ≤ mx) (acts : List Act) (w : Wid) (x : Worker) :
    let s := run mn mx (init mn) acts
    s.ws[w]? = some x → x.phase = .waiting → x.ev = false →
      x.slot = none ∧ w ∈ s.idle ∧ s.closed = false ∧ ∀ j, (j, w) ∈ s.accepted → (j, w) ∈ s.started := by
  intro s hx hp he
  have h : Inv mx s := inv_run mn mx (init mn) acts (inv_init mn mx hm)
  have hw := h.wk w x hx
  unfold WInv at hw; simp only [hp, he] at hw
  have h1 : x.slot = none ∧ w ∈ s.idle ∧ s.closed = false := by grind
  refine ⟨h1.1, h1.2.1, h1.2.2, ?_⟩
  intro j hj
  rcases h.pending (j, w) hj with h2 | ⟨y, hy, h2, _⟩
  · exact h2
  · rw [hx] at hy; simp only [Option.some.injEq] at hy; subst hy
    rw [h1.1] at h2; cases h2

/-- **C18_pending_runs.**  Under any timing, an accepted job that has not started is started by at most
    four further statements of its worker (wake up, clear, test the slot, call) — none of which can
    block: no accepted job is left waiting. -/
theorem C18_pending_runs (mn mx : Nat) (hm : mn ≤ mx) (acts : List Act) (j : Jid) (w : Wid) :
    let s := run mn mx (init mn) acts
    (j, w) ∈ s.accepted → (j, w) ∉ s.started →
      ∃ k, k ≤ 4 ∧ (j, w) ∈ (iter (fun t => wstep mn mx t w) k s).started := by
  intro s hacc hns
  have h : Inv mx s := inv_run mn mx (init mn) acts (inv_init mn mx hm)
  rcases h.pending (j, w) hacc with h1 | ⟨y, hy, hs, hp⟩
  · exact absurd h1 hns
  · simp only at hy hs
    have hw := h.wk w y hy
    rcases hp with hp | hp | hp | hp
    · -- waiting: the event is set
      have he : y.ev = true := by
        unfold WInv at hw; simp only [hp] at hw; grind
      refine ⟨4, Nat.le_refl _, ?_⟩
      simp only [iter]
      have e1 := wstep_waiting mn mx s w y hy hp he
      have e2 := wstep_woken mn mx _ w _ e1 rfl
      have e3 := wstep_cleared mn mx _ w _ j e2 rfl hs
      exact wstep_checked mn mx _ w _ j e3 rfl hs
    · refine ⟨3, by omega, ?_⟩
      simp only [iter]
      have e2 := wstep_woken mn mx s w y hy hp
      have e3 := wstep_cleared mn mx _ w _ j e2 rfl hs
      exact wstep_checked mn mx _ w _ j e3 rfl hs
    · refine ⟨2, by omega, ?_⟩
      simp only [iter]
      have e3 := wstep_cleared mn mx s w y j hy hp hs
      exact wstep_checked mn mx _ w _ j e3 rfl hs
    · refine ⟨1, by omega, ?_⟩
      simp only [iter]
      exact wstep_checked mn mx s w y j hy hp hs

/-! ### closing -/

/-- **C18_close.**  `close()` always leaves the pool closed; and from any reachable closed state, under
    any further timing: the pool stays closed, both sets are empty, no further job is handed to a worker
    (the list of accepted jobs never grows again) and every further `process` is refused with the
    closed-pool error. -/
theorem C18_close (mn mx : Nat) (hm : mn ≤ mx) (acts more : List Act) (pick : Nat) :
    let s := run mn mx (init mn) acts
    (step mn mx s .close).closed = true ∧
    (s.closed = true →
      s.idle = [] ∧ s.busy = [] ∧ (run mn mx s more).closed = true ∧ (run mn mx s more).accepted = s.accepted ∧
      (call mn mx (.process pick) s).2 = .poolClosed) := by
  intro s
  have h : Inv mx s := inv_run mn mx (init mn) acts (inv_init mn mx hm)
  constructor
  · simp only [Pool.step]
    cases hc : s.closed with
    | true => rw [call_close_closed mn mx s hc]; exact hc
    | false => rw [call_close_open mn mx s hc]; rfl
  · intro hc
    obtain ⟨h1, h2⟩ := closed_run mn mx s more h hc
    refine ⟨(h.closed_empty hc).1, (h.closed_empty hc).2, h1, h2, ?_⟩
    rw [call_process_closed mn mx pick s hc]

/-- **C18_close_exits.**  From any reachable closed state in which the accepted jobs have been allowed to
    end, and under any further timing (more submissions, more `close` calls, other workers' statements in
    any order): once worker `w` has been scheduled for ten statements its thread has left the loop —
    closing lets every worker exit after its current job, and no worker waits for anything but the end
    of its job. -/
theorem C18_close_exits (mn mx : Nat) (hm : mn ≤ mx) (acts more : List Act) (w : Wid) :
    let s := run mn mx (init mn) acts
    s.closed = true → w < s.ws.length → (∀ p, p ∈ s.accepted → p.1 ∈ s.fin) → 10 ≤ more.count (.wstep w) →
      ∃ x, (run mn mx s more).ws[w]? = some x ∧ x.phase = .exited := by
  intro s hc hw hfin hcnt
  have h : Inv mx s := inv_run mn mx (init mn) acts (inv_init mn mx hm)
  obtain ⟨x, hx⟩ : ∃ x, s.ws[w]? = some x := ⟨_, List.getElem?_eq_getElem hw⟩
  exact close_exits_aux mn mx w more s x h hc hfin hx (Nat.le_trans (rank_le x) hcnt)

/-! ### one connection: served until it ends and then closed, or refused — in bounded time — and closed -/

/-- **C18_gen_conn.**  The real `ClientConnectionJob.__call__`, `denyConnection` and one accept step
    `SocketServer_Threadpool.events()` were RUN on in-memory fakes for every script (handshake ok / refused /
    raising × disconnect hook ok / raising × 0..2 served requests followed by each way a request can end;
    refusing handshake ok / raising; COMMTIMEOUT set or not × pool full or not) and the sequence of effects on the
    connection's socket is on every row exactly the model's (`PoolConn.jobCall / deny / acceptStep`); no exception
    came out of any of them; and whenever the pool was full and COMMTIMEOUT is configured the socket already had
    its timeout when the refusing handshake began to read. -/
theorem C18_gen_conn :
    (Pyro.Gen.C18.connJobTable.all PoolConn.checkJobRow = true ∧ Pyro.Gen.C18.connJobTable.length = 68) ∧
    (Pyro.Gen.C18.connDenyTable.all PoolConn.checkDenyRow = true ∧ Pyro.Gen.C18.connDenyTable.length = 4) ∧
    (Pyro.Gen.C18.acceptTable.all PoolConn.checkAcceptRow = true ∧ Pyro.Gen.C18.acceptTable.length = 8) := by
  decide +kernel

/-- **C18_conn_closed.**  A connection handed to a worker, for every way the handshake, each request and the
    disconnect hook can end (any number of requests): as long as every request is served it is still being served
    and its socket is not closed; as soon as the handshake fails or one request ends in any exception the
    job ends, and then the socket has been closed exactly once, as the very last effect — also when the
    disconnect hook raises — and the hook ran exactly once after a successful handshake.  A refused connection
    (`deny`) is closed right after the refusing handshake, also when that handshake raises.  No accepted
    connection is left open by the server once it stops serving it. -/
theorem C18_conn_closed (hs : PoolConn.Hs) (reqs : List PoolConn.Req) (hookRaises hsRaises : Bool) :
    let p := PoolConn.jobCall hs reqs hookRaises
    (p.2 = true → hs = .ok ∧ (∀ r ∈ reqs, r = .served) ∧ PoolConn.Eff.close ∉ p.1) ∧
    (p.2 = false → p.1.count .close = 1 ∧ p.1.getLast? = some .close ∧
        (hs = .ok → (∃ r ∈ reqs, r ≠ .served) ∧ p.1.count .hook = 1)) ∧
    (p.2 = false ↔ (hs ≠ .ok ∨ ∃ r ∈ reqs, r ≠ .served)) ∧
    PoolConn.deny hsRaises = [.handshakeDenied, .close] := by
  intro p
  cases hs with
  | ok =>
    have hp : p = (PoolConn.Eff.handshake :: (PoolConn.serve hookRaises reqs).1, (PoolConn.serve hookRaises reqs).2) := rfl
    refine ⟨?_, ?_, ?_, rfl⟩
    · intro h; rw [hp] at h ⊢
      obtain ⟨h1, h2, _⟩ := PoolConn.serve_still hookRaises reqs h
      exact ⟨rfl, h1, by simp only [List.mem_cons, not_or]; exact ⟨by decide, h2⟩⟩
    · intro h; rw [hp] at h ⊢
      obtain ⟨h1, h2, h3, h4, _⟩ := PoolConn.serve_done hookRaises reqs h
      refine ⟨?_, ?_, fun _ => ⟨h1, ?_⟩⟩
      · simp only [List.count_cons]; rw [h2]; decide
      · show (PoolConn.Eff.handshake :: (PoolConn.serve hookRaises reqs).1).getLast? = _
        rw [List.getLast?_cons, h4]; rfl
      · simp only [List.count_cons]; rw [h3]; decide
    · rw [hp]
      constructor
      · intro h; exact Or.inr (PoolConn.serve_done hookRaises reqs h).1
      · intro h
        rcases h with h | ⟨r, hr, hne⟩
        · exact absurd rfl h
        · cases hst : (PoolConn.serve hookRaises reqs).2 with
          | false => rfl
          | true => exact absurd ((PoolConn.serve_still hookRaises reqs hst).1 r hr) hne
  | refused =>
    have hp : p = ([PoolConn.Eff.handshake, PoolConn.Eff.close], false) := rfl
    rw [hp]
    refine ⟨fun h => ?_, fun _ => ⟨by decide, by decide, fun h => ?_⟩, ?_, rfl⟩
    · exact absurd h (by decide)
    · exact absurd h (by decide)
    · exact ⟨fun _ => Or.inl (by decide), fun _ => rfl⟩
  | raises =>
    have hp : p = ([PoolConn.Eff.handshake, PoolConn.Eff.close], false) := rfl
    rw [hp]
    refine ⟨fun h => ?_, fun _ => ⟨by decide, by decide, fun h => ?_⟩, ?_, rfl⟩
    · exact absurd h (by decide)
    · exact absurd h (by decide)
    · exact ⟨fun _ => Or.inl (by decide), fun _ => rfl⟩

/-- **C18_refusal_bounded.**  One accept step, for every configuration: the connection is either handed to the
    pool or — pool full — refused and closed in the accept loop itself; and when COMMTIMEOUT is configured the
    socket's timeout is set BEFORE the only blocking read the accept loop performs on a client socket (the
    refusing handshake), so a client that never sends its CONNECT message cannot park the accept loop: every later
    connection is still accepted, served or refused. -/
theorem C18_refusal_bounded (commtimeout poolFull hsRaises : Bool) :
    let t := PoolConn.acceptStep commtimeout poolFull hsRaises
    (poolFull = false → t.getLast? = some .handOver ∧ PoolConn.Eff.handshakeDenied ∉ t ∧ PoolConn.Eff.close ∉ t) ∧
    (poolFull = true → t.getLast? = some .close ∧ t.count .close = 1 ∧ t.count .handshakeDenied = 1 ∧ PoolConn.Eff.handOver ∉ t) ∧
    (commtimeout = true → poolFull = true →
      ∃ pre post, t = pre ++ [.handshakeDenied] ++ post ∧ PoolConn.Eff.settimeout ∈ pre) := by
  cases commtimeout <;> cases poolFull <;> cases hsRaises <;>
    refine ⟨by decide, by decide, ?_⟩ <;> intro h1 h2 <;>
    first
      | exact absurd h1 (by decide)
      | exact absurd h2 (by decide)
      | exact ⟨[.accept, .settimeout], [.close], rfl, by decide⟩

/-! ### the code before the fix: the same micro-steps with no lock -/

/-- pool of size 1/1 in which worker 0 has run job 0 to its end and is about to call `notify_done` -/
def sNotify : St :=
  run 1 1 (init 1) [.submit 0, .wstep 0, .wstep 0, .wstep 0, .wstep 0, .finish 0, .wstep 0, .wstep 0]

/-- **C18_race_overlimit.**  Without the lock, `THREADPOOL_SIZE = 1`: worker 0 in `notify_done` has removed
    itself from `busy` (schedule entries `1,1,1`) when the accept loop runs `process` (`0 ×7`): `idle` is
    empty and `num_workers()` is 0, so a second worker is created; then worker 0 adds itself to `idle`.
    Result: two workers in a pool limited to one, both calls returned normally. -/
theorem C18_race_overlimit :
    let c := freeRun (Config.init sNotify [toOp 1 1 (.process 0), toOp 1 1 (.notifyDone 0)])
      [1, 1, 1, 0, 0, 0, 0, 0, 0, 0, 1, 1, 1, 1]
    c.shared.idle = [0] ∧ c.shared.busy = [1] ∧ c.shared.ws.length = 2 ∧ c.shared.closed = false ∧
    c.log.map (fun e => (e.1, e.2.2)) = [(0, Res.ok), (1, Res.ok)] ∧
    ¬ (c.shared.idle.length + c.shared.busy.length ≤ 1) := by decide

/-- the old `close` has signalled the idle worker 0 (4 micro-steps); the worker wakes up, finds no job
    and leaves; only then the accept loop's `process` pops worker 0 from `idle` and hands it job 0 -/
def cCloseRace : Config St Local Res :=
  let c1 := freeRun (Config.init (init 1) [toOp 1 1 .closeOrig, toOp 1 1 (.process 0)]) [0, 0, 0, 0]
  let c2 := { c1 with shared := iter (fun t => wstep 1 1 t 0) 3 c1.shared }
  freeRun c2 [1, 1, 1, 1, 1, 1, 1, 0, 0, 0, 0]

/-- **C18_race_close.**  The `close` of the code before the fix loses accepted jobs.
    (a) No race needed: `process(job 0)` returns normally, then `close()` signals the *busy* worker 0 with
    `None`, overwriting the job it has not picked up yet; the worker wakes up, finds no job and leaves:
    job 0 was accepted and is never run.
    (b) `close` racing with `process` (no lock): the job is handed to a worker that has already been told
    to exit and has left; both calls return normally, job 0 is never run. -/
theorem C18_race_close :
    (let s := iter (fun t => wstep 1 1 t 0) 3 (call 1 1 .closeOrig (step 1 1 (init 1) (.submit 0))).1
     (0, 0) ∈ s.accepted ∧ s.started = [] ∧ s.closed = true ∧ s.ws.map (·.phase) = [.exited]) ∧
    ((0, 0) ∈ cCloseRace.shared.accepted ∧ cCloseRace.shared.started = [] ∧
     cCloseRace.shared.ws.map (·.phase) = [.exited] ∧ cCloseRace.shared.closed = true ∧
     cCloseRace.log.map (fun e => (e.1, e.2.2)) = [(1, Res.ok), (0, Res.ok)]) := by decide

/-- with the lock-protected `close` of the fixed code the same sequential use keeps the job -/
example :
    let s := iter (fun t => wstep 1 1 t 0) 4 (step 1 1 (step 1 1 (init 1) (.submit 0)) .close)
    (0, 0) ∈ s.started ∧ s.closed = true := by decide

/-! ### non-vacuity: concrete runs of the coarse semantics -/

-- sizes 1/2: two jobs accepted (second by a new worker), third refused with "no free workers";
-- job 0 ends, worker 0 returns to idle; next job accepted by worker 0; close; every later job refused as closed
example :
    let s := run 1 2 (init 1)
      [.submit 0, .submit 0, .submit 0, .wstep 0, .wstep 0, .wstep 0, .wstep 0, .finish 0, .wstep 0, .wstep 0, .wstep 0,
       .submit 0, .close, .submit 0]
    s.accepted = [(0, 0), (1, 1), (3, 0)] ∧ s.refusedFull = [2] ∧ s.refusedClosed = [4] ∧ s.started = [(0, 0)] ∧
    s.ended = [0] ∧ s.closed = true ∧ s.ws.length = 2 := by decide

-- sizes 1/2, both workers busy, both jobs end: the first to finish goes back to idle, the second retires
example :
    let s := settle 1 2 14 (run 1 2 (settle 1 2 14 (run 1 2 (init 1) [.submit 0, .submit 0])) [.finish 1, .finish 0])
    s.idle.length = 1 ∧ s.busy = [] ∧ (s.ws.map (·.phase)).count .exited = 1 ∧ s.started.length = 2 := by decide

-- the hypotheses of C18_close_exits are met by a concrete history: after the job has ended and the
-- pool is closed, ten steps of worker 0 bring it to `exited`
example :
    let s := run 1 1 (init 1) [.submit 0, .finish 0, .close]
    s.closed = true ∧ (∀ p, p ∈ s.accepted → p.1 ∈ s.fin) ∧
    ((run 1 1 s (List.replicate 10 (.wstep 0))).ws.map (·.phase)) = [.exited] := by decide

end Pyro.C18
