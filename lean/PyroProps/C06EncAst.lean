/-
  C06EncAst.lean — `SendingMessage.__init__`, transcribed from the source into PyIR on every run
  (PyroModel/Gen/C06.lean, `sendInitSrc`), computes exactly what the hand-written `Wire.encode` computes:
  the same bytes in `.data`, or an exception of the class that belongs to the model's error kind — for every message,
  every configuration, every zlib and every correlation id of 16 bytes.  Composed with C06Ast (the receiving side, also
  transcribed) this gives the round trip about the two transcriptions: what the source's sender writes, the source's
  receiver reads back.
-/
import PyroModel.PyIR
import PyroModel.Wire
import PyroModel.Gen.C06
import PyroModel.C06AstRun
import PyroProps.C06Ast

set_option linter.unusedSimpArgs false

namespace Pyro.C06EncAst

open Pyro Pyro.Wire Pyro.PyIR Pyro.C06AstRun

/-! ### `x |= 2`, `x |= 64` -/

theorem lor_small (K c : Nat) (hK : K = 2 ^ (K.log2)) (x : Nat)
    (key : ∀ r, r < K → (r ||| c = if r / c % 2 = 1 then r else r + c) ∧ (r ||| c) < K)
    (hdiv : ∀ q r, r < K → (K * q + r) / c % 2 = r / c % 2) :
    x ||| c = if x / c % 2 = 1 then x else x + c := by
  have hKpos : 0 < K := by rw [hK]; exact Nat.two_pow_pos _
  have hx : x = K * (x / K) + x % K := (Nat.div_add_mod x K).symm
  have hr : x % K < K := Nat.mod_lt _ hKpos
  generalize x / K = q at hx
  generalize x % K = r at hx hr
  subst hx
  have hr' : r < 2 ^ K.log2 := by rw [← hK]; exact hr
  have e1 : K * q + r = K * q ||| r := by
    have := Nat.two_pow_add_eq_or_of_lt hr' q
    rw [← hK] at this; exact this
  have hk := key r hr
  have hlt : (r ||| c) < 2 ^ K.log2 := by rw [← hK]; exact hk.2
  have e2 : K * q + (r ||| c) = K * q ||| (r ||| c) := by
    have := Nat.two_pow_add_eq_or_of_lt hlt q
    rw [← hK] at this; exact this
  have : (K * q + r) ||| c = K * q + (r ||| c) := by
    rw [e2, ← Nat.or_assoc, ← e1]
  rw [this, hk.1, hdiv q r hr]
  split <;> omega

theorem lor_two (x : Nat) : x ||| 2 = setBit x 2 := by
  have := lor_small 4 2 (by decide) x (by decide) (by intro q r _; omega)
  rw [this]; unfold setBit; split <;> rfl

theorem lor_64 (x : Nat) : x ||| 64 = setBit x 64 := by
  have := lor_small 128 64 (by decide) x (by decide) (by intro q r _; omega)
  rw [this]; unfold setBit; split <;> rfl

theorem clear_two (x : Nat) : x - (x &&& 2) = clearBit x 2 := by
  rw [C06Ast.land_two]; unfold clearBit; split <;> omega

/-! ### `struct.pack` of the header -/

theorem hdr_pack (t s f q d a : Nat) (c : Bytes) (hc : c.length = 16) :
    packAll [(.raw 4, .bytes [80, 89, 82, 79]), (.uint 2, .int 502), (.uint 1, .int t), (.uint 1, .int s), (.uint 2, .int f),
             (.uint 2, .int q), (.uint 4, .int d), (.uint 4, .int a), (.raw 16, .bytes c), (.uint 2, .int 0), (.uint 2, .int 19909)] =
      if t ≥ 256 ∨ s ≥ 256 ∨ f ≥ 65536 ∨ q ≥ 65536 ∨ d ≥ 2 ^ 32 ∨ a ≥ 2 ^ 32 then none
      else some (packHeader t s f q d a c) := by
  have e32 : (2 : Nat) ^ 32 = 4294967296 := by decide
  have e4 : (256 : Int) ^ 4 = 4294967296 := by decide
  have e2 : (256 : Int) ^ 2 = 65536 := by decide
  have e1 : (256 : Int) ^ 1 = 256 := by decide
  have hpad : List.take 16 c ++ List.replicate (16 - c.length) (0 : UInt8) = c := by
    rw [hc]; simp [List.take_of_length_le (Nat.le_of_eq hc)]
  by_cases h1 : t < 256
  · by_cases h2 : s < 256
    · by_cases h3 : f < 65536
      · by_cases h4 : q < 65536
        · by_cases h5 : d < 4294967296
          · by_cases h6 : a < 4294967296
            · have g1 : ((t : Int) < 256) := by omega
              have g2 : ((s : Int) < 256) := by omega
              have g3 : ((f : Int) < 65536) := by omega
              have g4 : ((q : Int) < 65536) := by omega
              have g5 : ((d : Int) < 4294967296) := by omega
              have g6 : ((a : Int) < 4294967296) := by omega
              have hno : ¬ (t ≥ 256 ∨ s ≥ 256 ∨ f ≥ 65536 ∨ q ≥ 65536 ∨ d ≥ 2 ^ 32 ∨ a ≥ 2 ^ 32) := by rw [e32]; omega
              rw [if_neg hno]
              simp [packAll, fits, packOne, e4, e2, e1, g1, g2, g3, g4, g5, g6, hpad, packHeader, headerPrefix, tagPYRO,
                protocolVersion, magicNumber]
            · have g : ¬ ((a : Int) < 4294967296) := by omega
              have hyes : (t ≥ 256 ∨ s ≥ 256 ∨ f ≥ 65536 ∨ q ≥ 65536 ∨ d ≥ 2 ^ 32 ∨ a ≥ 2 ^ 32) := by rw [e32]; omega
              rw [if_pos hyes]
              simp [packAll, fits, e4, e2, e1, g]
          · have g : ¬ ((d : Int) < 4294967296) := by omega
            have hyes : (t ≥ 256 ∨ s ≥ 256 ∨ f ≥ 65536 ∨ q ≥ 65536 ∨ d ≥ 2 ^ 32 ∨ a ≥ 2 ^ 32) := by rw [e32]; omega
            rw [if_pos hyes]
            simp [packAll, fits, e4, e2, e1, g]
        · have g : ¬ ((q : Int) < 65536) := by omega
          have hyes : (t ≥ 256 ∨ s ≥ 256 ∨ f ≥ 65536 ∨ q ≥ 65536 ∨ d ≥ 2 ^ 32 ∨ a ≥ 2 ^ 32) := by omega
          rw [if_pos hyes]
          simp [packAll, fits, e4, e2, e1, g]
      · have g : ¬ ((f : Int) < 65536) := by omega
        have hyes : (t ≥ 256 ∨ s ≥ 256 ∨ f ≥ 65536 ∨ q ≥ 65536 ∨ d ≥ 2 ^ 32 ∨ a ≥ 2 ^ 32) := by omega
        rw [if_pos hyes]
        simp [packAll, fits, e4, e2, e1, g]
    · have g : ¬ ((s : Int) < 256) := by omega
      have hyes : (t ≥ 256 ∨ s ≥ 256 ∨ f ≥ 65536 ∨ q ≥ 65536 ∨ d ≥ 2 ^ 32 ∨ a ≥ 2 ^ 32) := by omega
      rw [if_pos hyes]
      simp [packAll, fits, e4, e2, e1, g]
  · have g : ¬ ((t : Int) < 256) := by omega
    have hyes : (t ≥ 256 ∨ s ≥ 256 ∨ f ≥ 65536 ∨ q ≥ 65536 ∨ d ≥ 2 ^ 32 ∨ a ≥ 2 ^ 32) := by omega
    rw [if_pos hyes]
    simp [packAll, fits, e4, e2, e1, g]

/-! ### `sum([8 + _nbytes(v) for v in annotations.values()])` -/

theorem sumOver_len (items : List Ann) :
    sumOver (fun v => some (Val.int (8 + (v.length : Int)))) items = some ((annSize items : Nat) : Int) := by
  induction items with
  | nil => simp [sumOver, annSize]
  | cons a rest ih =>
    obtain ⟨k, v⟩ := a
    simp only [sumOver, ih]
    simp [annSize]

theorem orElse_dict (cfg : PyIR.Cfg) (env : Env) (x : String) (d : List Ann) (h : env.lookup x = some (.dict d)) :
    eval cfg env (.orElse (.var x) .emptyDict) = some (.dict d) := by
  cases d <;> simp [eval, h, truthy]

/-! ### sequences -/

def seqs : List Stmt → Stmt → Stmt
  | [], t => t
  | s :: r, t => .seq s (seqs r t)

def execSeq (cfg : PyIR.Cfg) : List Stmt → Nat → Option Val → Env → World → Res
  | [], _, _, env, w => .normal env w
  | s :: r, F, cur, env, w =>
    match exec cfg s F cur env w with
    | .normal env w => execSeq cfg r F cur env w
    | x => x

theorem exec_seqs (cfg : PyIR.Cfg) (T : Stmt) (F : Nat) (cur : Option Val) :
    ∀ (l : List Stmt) (env : Env) (w : World),
      exec cfg (seqs l T) F cur env w =
        match execSeq cfg l F cur env w with
        | .normal env w => exec cfg T F cur env w
        | r => r := by
  intro l
  induction l with
  | nil => intro env w; simp [seqs, execSeq]
  | cons s r ih =>
    intro env w
    simp only [seqs, execSeq, exec]
    cases hs : exec cfg s F cur env w <;> simp [ih]

/-! ### the shape of the transcription -/

def prefixL : List Stmt :=
  match Gen.C06.sendInitSrc with
  | .seq a1 (.seq a2 (.seq a3 (.seq a4 (.seq a5 (.seq a6 (.seq a7 (.seq a8 (.seq a9 (.seq a10 (.seq a11 _)))))))))) =>
    [a1, a2, a3, a4, a5, a6, a7, a8, a9, a10, a11]
  | _ => []

def tailPart : Stmt :=
  match Gen.C06.sendInitSrc with
  | .seq _ (.seq _ (.seq _ (.seq _ (.seq _ (.seq _ (.seq _ (.seq _ (.seq _ (.seq _ (.seq _ t)))))))))) => t
  | _ => .skip

theorem src_shape : Gen.C06.sendInitSrc = seqs prefixL tailPart := by rfl

def encLoop : Stmt :=
  match tailPart with
  | .seq _ (.seq _ (.seq l _)) => l
  | _ => .skip

def encBody : Stmt :=
  match encLoop with
  | .forEachItem _ _ _ b => b
  | _ => .skip

theorem encLoop_shape : encLoop = .forEachItem "v5" "v1" (.var "p6") encBody := by rfl

def tailWith (L : Stmt) : Stmt :=
  match tailPart with
  | .seq a (.seq b (.seq _ z)) => .seq a (.seq b (.seq L z))
  | s => s

theorem tail_shape : tailPart = tailWith encLoop := by rfl

/-! ### the annotation loop -/

def LoopOK (cfg : PyIR.Cfg) (L : Expr → Stmt) : Prop :=
  ∀ (items : List Ann) (F : Nat) (cur : Option Val) (env : Env) (w : World) (acc : List Bytes) (e : Expr),
    items.length + 1 ≤ F → eval cfg env e = some (.dict items) → env.lookup "v4" = some (.chunks acc) →
    match encodeAnns items with
    | .ok bs => ∃ env' acc', exec cfg (L e) F cur env w = .normal env' w ∧ env'.lookup "v4" = some (.chunks acc') ∧
        acc'.flatten = acc.flatten ++ bs ∧ env'.lookup "v3" = env.lookup "v3" ∧ env'.lookup "p5" = env.lookup "p5"
    | .error er => ∃ env', exec cfg (L e) F cur env w = .raise (.exc (encErrCls er) false none) env' w

theorem enc_loop (cfg : PyIR.Cfg) : LoopOK cfg (fun e => .forEachItem "v5" "v1" e encBody) := by
  intro items
  induction items with
  | nil =>
    intro F cur env w acc e hF he hv4
    obtain ⟨G, rfl⟩ : ∃ G, F = G + 1 := ⟨F - 1, by omega⟩
    simp only [encodeAnns]
    exact ⟨env, acc, by simp [exec, he], hv4, by simp, rfl, rfl⟩
  | cons kv rest ih =>
    intro F cur env w acc e hF he hv4
    obtain ⟨k, v⟩ := kv
    obtain ⟨G, rfl⟩ : ∃ G, F = G + 1 := ⟨F - 1, by omega⟩
    have e32 : (2 : Nat) ^ 32 = 4294967296 := by decide
    have e4 : (256 : Int) ^ 4 = 4294967296 := by decide
    simp only [encodeAnns]
    by_cases hk : k.length ≠ 4
    · have hkI : ((k.length : Int) != 4) = true := by simp; omega
      rw [if_pos hk]
      refine ⟨("v1", .bytes v) :: ("v5", .str k) :: env, ?_⟩
      simp [exec, he, encBody, encLoop, tailPart, Gen.C06.sendInitSrc, truth, eval, truthy, List.lookup_cons, hkI, encErrCls]
    · have hk4 : k.length = 4 := by omega
      have hkI : ((k.length : Int) != 4) = false := by simp; omega
      rw [if_neg hk]
      by_cases hany : k.any (· ≥ 128) = true
      · rw [if_pos hany]
        refine ⟨("v1", .bytes v) :: ("v5", .str k) :: env, ?_⟩
        simp at hany
        simp [exec, he, encBody, encLoop, tailPart, Gen.C06.sendInitSrc, truth, eval, truthy, List.lookup_cons, hkI, hany, encErrCls]
      · rw [if_neg hany]
        simp at hany
        have hnot : ¬ ∃ x, x ∈ k ∧ 128 ≤ x := by
          rintro ⟨x, hx, hge⟩
          have := hany x hx
          omega
        by_cases hv : v.length ≥ 2 ^ 32
        · rw [if_pos hv]
          have g : ¬ ((v.length : Int) < 4294967296) := by rw [e32] at hv; omega
          refine ⟨("t1", .bytes (k.map UInt8.ofNat)) :: ("v1", .bytes v) :: ("v5", .str k) :: env, ?_⟩
          simp [exec, he, encBody, encLoop, tailPart, Gen.C06.sendInitSrc, truth, eval, truthy, List.lookup_cons, hkI, hnot, encErrCls,
            evalPack, evalArgs, packAll, fits, e4, g]
        · rw [if_neg hv]
          have g : ((v.length : Int) < 4294967296) := by rw [e32] at hv; omega
          have hpad : List.take 4 (List.map UInt8.ofNat k) = List.map UInt8.ofNat k :=
            List.take_of_length_le (by simp [hk4])
          let env' : Env := ("v4", Val.chunks (acc ++ [List.map UInt8.ofNat k ++ toBE 4 v.length] ++ [v])) ::
            ("v4", Val.chunks (acc ++ [List.map UInt8.ofNat k ++ toBE 4 v.length])) ::
            ("t0", Val.bytes (List.map UInt8.ofNat k ++ toBE 4 v.length)) ::
            ("t1", Val.bytes (List.map UInt8.ofNat k)) :: ("v1", Val.bytes v) :: ("v5", Val.str k) :: env
          have step : exec cfg (.forEachItem "v5" "v1" e encBody) (G + 1) cur env w =
              exec cfg (.forEachItem "v5" "v1" (.lit (.dict rest)) encBody) G cur env' w := by
            simp [exec, he, encBody, encLoop, tailPart, Gen.C06.sendInitSrc, truth, eval, truthy, List.lookup_cons, hkI, hnot,
              evalPack, evalArgs, packAll, fits, packOne, e4, g, hv4, hpad, hk4, env']
          have hrec := ih G cur env' w (acc ++ [List.map UInt8.ofNat k ++ toBE 4 v.length] ++ [v]) (.lit (.dict rest))
            (by simp at hF ⊢; omega) (by simp [eval]) (by simp [env', List.lookup_cons])
          rw [step]
          cases hr : encodeAnns rest with
          | error er =>
            rw [hr] at hrec
            simpa using hrec
          | ok bs =>
            rw [hr] at hrec
            obtain ⟨env'', acc', hex, h4, hfl, h3, h5⟩ := hrec
            refine ⟨env'', acc', hex, h4, ?_, ?_, ?_⟩
            · rw [hfl]; simp
            · rw [h3]; simp [env', List.lookup_cons]
            · rw [h5]; simp [env', List.lookup_cons]

/-! ### from the header pack to `.data` -/

def tailExpected (t s f q a : Nat) (P c : Bytes) (anns : List Ann) : Except Cls Bytes :=
  if t ≥ 256 ∨ s ≥ 256 ∨ f ≥ 65536 ∨ q ≥ 65536 ∨ P.length ≥ 2 ^ 32 ∨ a ≥ 2 ^ 32 then .error .structError
  else match encodeAnns anns with
    | .error e => .error (encErrCls e)
    | .ok ab => .ok (packHeader t s f q P.length a c ++ (ab ++ P))

def TailOK (cfg : PyIR.Cfg) (T : Stmt) : Prop :=
  ∀ (F : Nat) (cur : Option Val) (env : Env) (w : World) (t s f q a : Nat) (P c : Bytes) (anns : List Ann),
    anns.length + 1 ≤ F → c.length = 16 →
    env.lookup "p1" = some (.int t) → env.lookup "p4" = some (.int s) → env.lookup "p2" = some (.int f) →
    env.lookup "p3" = some (.int q) → env.lookup "p5" = some (.bytes P) → env.lookup "v0" = some (.int a) →
    env.lookup "self.corr_id" = some (.bytes c) → env.lookup "p6" = some (.dict anns) →
    toEncoded (exec cfg T F cur env w) = some (tailExpected t s f q a P c anns)

theorem tail_gen (cfg : PyIR.Cfg) (L : Expr → Stmt) (hL : LoopOK cfg L) : TailOK cfg (tailWith (L (.var "p6"))) := by
  intro F cur env w t s f q a P c anns hF hc h1 h4 h2 h3 h5 h0 hcid h6
  have hp := hdr_pack t s f q P.length a c hc
  unfold tailExpected
  by_cases hbad : t ≥ 256 ∨ s ≥ 256 ∨ f ≥ 65536 ∨ q ≥ 65536 ∨ P.length ≥ 2 ^ 32 ∨ a ≥ 2 ^ 32
  · rw [if_pos hbad] at hp ⊢
    simp [tailWith, tailPart, Gen.C06.sendInitSrc, exec, evalPack, evalArgs, eval, fits, h1, h2, h3, h4, h5, h0, hcid, hp, toEncoded]
  · rw [if_neg hbad] at hp ⊢
    have hloop := hL anns F cur (("v4", .chunks []) :: ("v3", .bytes (packHeader t s f q P.length a c)) :: env) w [] (.var "p6") hF
      (by simp [eval, List.lookup_cons, h6]) (by simp [List.lookup_cons])
    cases hr : encodeAnns anns with
    | error er =>
      rw [hr] at hloop
      obtain ⟨env', he⟩ := hloop
      simp [tailWith, tailPart, Gen.C06.sendInitSrc, exec, evalPack, evalArgs, eval, fits, h1, h2, h3, h4, h5, h0, hcid, hp, he, toEncoded]
    | ok bs =>
      rw [hr] at hloop
      obtain ⟨env', acc', he, hv4, hfl, hv3, hp5⟩ := hloop
      simp [List.lookup_cons, h5] at hv3 hp5 hfl
      simp [tailWith, tailPart, Gen.C06.sendInitSrc, exec, evalPack, evalArgs, eval, fits, h1, h2, h3, h4, h5, h0, hcid, hp, he, toEncoded,
        hv4, hv3, hp5, hfl, List.lookup_cons]

/-! ### the statements before the header pack -/

theorem prefix_ok (cfg : Wire.Cfg) (z : Zlib) (m : Msg) (F : Nat) (w : World) :
    if (wirePayload cfg z m).length + annSize m.anns > cfg.maxSize then
      ∃ env', execSeq (sendCfg cfg z m.corr) prefixL F none (sendEnv m) w = .raise (.exc .protocolError false none) env' w
    else
      ∃ env', execSeq (sendCfg cfg z m.corr) prefixL F none (sendEnv m) w = .normal env' w ∧
        env'.lookup "p1" = some (.int m.type) ∧ env'.lookup "p4" = some (.int m.serId) ∧
        env'.lookup "p2" = some (.int (headerFlags cfg m)) ∧ env'.lookup "p3" = some (.int m.seq) ∧
        env'.lookup "p5" = some (.bytes (wirePayload cfg z m)) ∧ env'.lookup "v0" = some (.int (annSize m.anns)) ∧
        env'.lookup "self.corr_id" = some (.bytes (m.corr.getD zeroCorr)) ∧ env'.lookup "p6" = some (.dict m.anns) := by
  obtain ⟨ty, sid, fl, sq, pl, anns, corr⟩ := m
  have i1 : ∀ P : Bytes, (((cfg.maxSize : Int) < (P.length : Int) + (annSize anns : Int)) ↔ cfg.maxSize < P.length + annSize anns) := by
    intro P; omega
  have i3 : ∀ P : Bytes, (P.length + annSize anns ≤ cfg.maxSize) → ¬ (cfg.maxSize < P.length + annSize anns) := by
    intro P h; omega
  have i2 : ((100 : Int) < (pl.length : Int)) ↔ 100 < pl.length := by omega
  cases anns <;> cases hc : cfg.compression <;> by_cases hl : 100 < pl.length <;> cases corr <;>
    split <;> rename_i hT <;>
    simp [wirePayload, isCompressed, compressThreshold, hc, hl] at hT <;>
    (try (replace hT := i3 _ hT)) <;>
    simp [prefixL, Gen.C06.sendInitSrc, execSeq, exec, eval, truth, truthy, sendEnv, sendCfg, List.lookup_cons, sumOver_len, hc, hl,
      wirePayload, headerFlags, isCompressed, compressThreshold, FLAGS_COMPRESSED, FLAGS_CORR_ID, clear_two, lor_two, lor_64, zeroCorr,
      i1, i2, hT]

/-! ### the whole constructor -/

theorem sendInit_gen (cfg : Wire.Cfg) (z : Zlib) (m : Msg) (hcorr : ∀ c, m.corr = some c → c.length = 16)
    (T : Stmt) (hT : TailOK (sendCfg cfg z m.corr) T) :
    toEncoded (runSendInit (sendCfg cfg z m.corr) (seqs prefixL T) m) = some (encExpected (encode cfg z m)) := by
  unfold runSendInit
  rw [exec_seqs]
  have hp := prefix_ok cfg z m (m.anns.length + 2) ⟨[], [], [], []⟩
  have hc16 : (m.corr.getD zeroCorr).length = 16 := by
    cases hk : m.corr with
    | none => simp [zeroCorr]
    | some c => simpa using hcorr c hk
  by_cases htl : (wirePayload cfg z m).length + annSize m.anns > cfg.maxSize
  · rw [if_pos htl] at hp
    obtain ⟨env', he⟩ := hp
    rw [he]
    simp [toEncoded, encode, htl, encExpected, encErrCls]
  · rw [if_neg htl] at hp
    obtain ⟨env', he, l1, l4, l2, l3, l5, l0, lc, l6⟩ := hp
    rw [he]
    simp only []
    rw [hT (m.anns.length + 2) none env' ⟨[], [], [], []⟩ m.type m.serId (headerFlags cfg m) m.seq (annSize m.anns)
      (wirePayload cfg z m) (m.corr.getD zeroCorr) m.anns (by omega) hc16 l1 l4 l2 l3 l5 l0 lc l6]
    simp only [tailExpected, encode, htl, hc16, if_false, ne_eq, not_true_eq_false]
    split
    · rfl
    · split <;> rename_i heq <;> rw [heq] <;> rfl

/-- **`SendingMessage.__init__`, as written now, is the model's `encode`** — for every message, configuration, zlib and
    16-byte correlation id: the same `.data`, or an exception of the class that belongs to the model's error kind -/
theorem sendInit_translated (cfg : Wire.Cfg) (z : Zlib) (m : Msg) (hcorr : ∀ c, m.corr = some c → c.length = 16) :
    toEncoded (runSendInit (sendCfg cfg z m.corr) Gen.C06.sendInitSrc m) = some (encExpected (encode cfg z m)) := by
  rw [src_shape, tail_shape, encLoop_shape]
  exact sendInit_gen cfg z m hcorr _ (tail_gen _ (fun e => .forEachItem "v5" "v1" e encBody) (enc_loop _))

/-- the transcribed constructor never leaves the fragment and never runs out of fuel: it ends with `.data` set or with an
    exception (of a class that `encErrCls` names) -/
theorem C06_source_send_outcomes (cfg : Wire.Cfg) (z : Zlib) (m : Msg) (hcorr : ∀ c, m.corr = some c → c.length = 16) :
    (toEncoded (runSendInit (sendCfg cfg z m.corr) Gen.C06.sendInitSrc m)).isSome := by
  rw [sendInit_translated cfg z m hcorr]; rfl

theorem encode_of_source_ok (cfg : Wire.Cfg) (z : Zlib) (m : Msg) (hcorr : ∀ c, m.corr = some c → c.length = 16) (bs : Bytes)
    (hsend : toEncoded (runSendInit (sendCfg cfg z m.corr) Gen.C06.sendInitSrc m) = some (.ok bs)) :
    encode cfg z m = .ok bs := by
  rw [sendInit_translated cfg z m hcorr] at hsend
  cases he : encode cfg z m with
  | error e => rw [he] at hsend; simp [encExpected] at hsend
  | ok b => rw [he] at hsend; simp [encExpected] at hsend; rw [hsend]

/-- **C06 sender limit, about the source as written now**: the transcribed `SendingMessage.__init__` raises ProtocolError
    when, and produces bytes only when not, wire payload + annotation area exceed MAX_MESSAGE_SIZE -/
theorem C06_source_sender_limit (cfg : Wire.Cfg) (z : Zlib) (m : Msg) (hcorr : ∀ c, m.corr = some c → c.length = 16) :
    ((wirePayload cfg z m).length + annSize m.anns > cfg.maxSize →
      toEncoded (runSendInit (sendCfg cfg z m.corr) Gen.C06.sendInitSrc m) = some (.error .protocolError)) ∧
    (∀ bs, toEncoded (runSendInit (sendCfg cfg z m.corr) Gen.C06.sendInitSrc m) = some (.ok bs) →
      (wirePayload cfg z m).length + annSize m.anns ≤ cfg.maxSize) := by
  constructor
  · intro h
    rw [sendInit_translated cfg z m hcorr, (C06.C06_sender_limit cfg z m).mpr h]
    rfl
  · intro bs hb
    have he := encode_of_source_ok cfg z m hcorr bs hb
    by_cases h : (wirePayload cfg z m).length + annSize m.anns > cfg.maxSize
    · rw [(C06.C06_sender_limit cfg z m).mpr h] at he; cases he
    · omega

/-- **C06 round trip, about the two transcriptions**: whatever the source's `SendingMessage.__init__` puts into `.data`,
    the source's `validate` / `ReceivingMessage.__init__` / `add_payload` (assembled as `recv_stub` calls them) read back as
    the same message, consuming exactly those bytes — for every message with distinct annotation keys, every configuration,
    every lawful zlib, every accepted-types list that admits the type and whatever follows on the stream -/
theorem C06_source_roundtrip (cfg : Wire.Cfg) (z : Zlib) (m : Msg) (bs rest : Bytes) (accepted : List Nat) (rcfg : PyIR.Cfg)
    (hm : rcfg.maxSize = cfg.maxSize) (hzr : rcfg.unzip = z.decompress)
    (hz : z.Lawful) (hnd : (keysOf m.anns).Nodup) (hcorr : ∀ c, m.corr = some c → c.length = 16)
    (hsend : toEncoded (runSendInit (sendCfg cfg z m.corr) Gen.C06.sendInitSrc m) = some (.ok bs))
    (hacc : accepted = [] ∨ m.type ∈ accepted) :
    C06Ast.recvStubSrc rcfg accepted (bs ++ rest) = some ⟨.ok (C06.decodedOf m), bs.length, rest⟩ := by
  have he := encode_of_source_ok cfg z m hcorr bs hsend
  obtain ⟨h1, h2, h3⟩ := C06.C06_roundtrip cfg z m bs rest accepted hz hnd he hacc
  rw [C06Ast.C06_source_recvStub rcfg cfg z hm hzr accepted (bs ++ rest)]
  congr 1
  cases hr : recvStub cfg z accepted (bs ++ rest) with
  | mk o r s =>
    rw [hr] at h1 h2 h3
    simp only at h1 h2 h3
    rw [h1, h2, h3]

/-- non-vacuity: a concrete run of the transcribed constructor (compression on, two annotations, a correlation id) -/
example :
    let z : Zlib := { compress := fun b => 9 :: b, decompress := fun b => some b.tail }
    let m : Msg := { type := 4, serId := 2, flags := 3, seq := 7, payload := [1, 2, 3],
                     anns := [([65, 66, 67, 68], [5, 6]), ([69, 70, 71, 72], [])], corr := some (List.replicate 16 7) }
    (match toEncoded (runSendInit (sendCfg ⟨true, 1000⟩ z m.corr) Gen.C06.sendInitSrc m) with
     | some (.ok b) => b == ([80, 89, 82, 79, 1, 246, 4, 2, 0, 65, 0, 7, 0, 0, 0, 3, 0, 0, 0, 18] ++ List.replicate 16 7 ++
         [0, 0, 77, 197] ++ [65, 66, 67, 68, 0, 0, 0, 2, 5, 6, 69, 70, 71, 72, 0, 0, 0, 0] ++ [1, 2, 3])
     | _ => false) = true := by
  intro z m
  rw [sendInit_translated ⟨true, 1000⟩ z m (by intro c hc; cases hc; rfl)]
  decide +kernel

end Pyro.C06EncAst
